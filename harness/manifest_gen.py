"""Writes MANIFEST.json from the list of built checks (run by hand after adding a check)."""
import json, os, sys
sys.path.insert(0, os.path.dirname(os.path.dirname(os.path.abspath(__file__))))
HERE = os.path.dirname(os.path.dirname(os.path.abspath(__file__)))
import importlib

ALL = ['C%02d' % i for i in range(1, 21)]
BASE = ("cd /repo && /venv/bin/python -m pytest -ra -q -p no:cacheprovider --timeout=900 "
        "--continue-on-collection-errors --junitxml=/tmp/pycdlib-baseline.junit.xml")

def main():
    checks, na = [], []
    for pid in ALL:
        try:
            m = importlib.import_module('harness.props.%s' % pid.lower())
        except ImportError:
            m = None
        if m is None or not getattr(m, 'CLAIM', True):
            na.append({'property_id': pid, 'reason': 'check not built yet in this round (see DESIGN.md section 5 for the planned theorem and tie); not a claim that the technique cannot apply'})
            continue
        checks.append({
            'property_id': pid,
            'quick_cmd': 'bin/check %s --tier quick' % pid,
            'thorough_cmd': 'bin/check %s --tier thorough' % pid,
            'evidence_file': 'evidence/%s.json' % pid,
            'replay_cmd_template': 'bin/check %s --replay {path}' % pid,
            'engine': 'lean4-proof+correspondence',
            'level_claimed': {'category': 'proof', 'text': m.LEVEL_TEXT, 'design_ref': 'DESIGN.md section 5, %s' % pid},
            'level_note': m.LEVEL_NOTE,
            'technique': m.TECHNIQUE,
        })
    man = {
        'version': 1,
        'setup_cmd': 'bin/setup',
        'hooks': {'guard': 'PYCDLIB_VERIF', 'enable': 'no source hooks: the harness imports /repo in-process and observes public attributes; time/uuid/output files are patched by the harness',
                  'baseline_off_cmd': BASE, 'source_commits': [], 'add_only': True},
        'engines': [{'name': 'lean4-proof+correspondence', 'path': 'lean/', 'serves_properties': [c['property_id'] for c in checks],
                     'kind_free_text': 'Lean 4 model + theorems (lean/Pycdlib), tied to /repo by py2lean-regenerated definitions with proved tie lemmas and by differential execution of the compiled model driver against /repo in-process'}],
        'checks': checks,
        'not_applicable': na,
        'notes': 'See DESIGN.md. Exit codes: 0 held, 1 violation (VIOLATION line), 2 infrastructure failure. known_findings.json lists recorded/fixed defects.',
    }
    json.dump(man, open(os.path.join(HERE, 'MANIFEST.json'), 'w'), indent=1)
    print('claimed', [c['property_id'] for c in checks])

if __name__ == '__main__':
    main()
