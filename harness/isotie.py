"""
Tie between pycdlib's size bookkeeping and the Lean machine `Model/Iso` (theorems: Props/C04Iso).

A history is replayed on a fresh PyCdlib object.  After every accepted edit the harness reads the *structure* off the
object (which directory got / lost which record at which index, which directory appeared / disappeared, how many names a
content has, how many continuation blocks and descriptors there are) and turns the difference into one `Op` of the
machine.  The *bookkeeping* is never copied: every directory's `data_length`, both path-table reservations and the
declared volume size after each edit are predicted by the machine (`isorun`) and compared with the object.  The first
state of every generation (a new object, or one that `open` reconstructed from an image) must satisfy the invariant
`Inv` (`invB`, proved equivalent in `invB_iff`).

UDF is part of the machine: the File Entry and the File Identifier area of every UDF directory, the File Entry sector that
the UDF names of a content share.  Not covered (the segment is skipped and counted): El Torito, isohybrid.
"""
import tempfile

from harness import histcheck, isoapi


class Unsupported(Exception):
    pass


class Restart(Exception):
    """the edit is outside what one machine op expresses deterministically: the segment ends, a new one starts after it"""


class Ids:
    """object identity -> small stable number (keeps the objects alive so that id() is not reused)"""

    def __init__(self):
        self.m, self.keep = {}, []

    def of(self, obj):
        k = id(obj)
        if k not in self.m:
            self.m[k] = len(self.m)
            self.keep.append(obj)
        return self.m[k]


def _dirs(vd):
    out = []
    stack = [vd.root_directory_record()]
    while stack:
        d = stack.pop()
        out.append(d)
        for c in d.children:
            if c.is_dir() and not c.is_dot() and not c.is_dotdot():
                if c.rock_ridge is not None and c.rock_ridge.child_link_record_exists():
                    continue
                stack.append(c)
    return out


def snapshot(iso, ids):
    from pycdlib import dr as drmod, path_table_record, udf as udfmod
    if iso.eltorito_boot_catalog is not None or getattr(iso, 'isohybrid_mbr', None) is not None:
        raise Unsupported('eltorito/isohybrid')
    root = iso.pvd.root_directory_record()
    rr = root.children[0].rock_ridge if root.children else None
    er = 1 if (rr is not None and rr.dr_entries.ce_record is not None) else 0
    has_udf = bool(getattr(iso, '_has_udf', False))
    if has_udf:
        # descriptors up to 32, main / reserve sequences, integrity, first anchor at 256, file set (+ terminator); the last
        # anchor in the last sector
        fixed = 258 + (1 if iso.udf_file_set_terminator is not None else 0) + 1 + er
    else:
        fixed = 16 + len(iso.pvds) + len(iso.brs) + len(iso.svds) + len(iso.vdsts) + (1 if iso.version_vd is not None else 0) + er
    snap = {'fixed': fixed,
            'ceb': [sorted((e._offset, e._length) for e in b._entries) for b in iso.pvd.rr_ce_blocks], 'space': iso.pvd.space_size,
            'pt0': (iso.pvd.path_tbl_size, iso.pvd.path_table_num_extents),
            'pt1': (iso.joliet_vd.path_tbl_size, iso.joliet_vd.path_table_num_extents) if iso.joliet_vd is not None else (0, 0),
            'dirs': {}, 'inos': {}, 'order': {}, 'udirs': {}, 'ufree': 0}
    trees = [iso.pvd] + ([iso.joliet_vd] if iso.joliet_vd is not None else [])
    for t, vd in enumerate(trees):
        for d in _dirs(vd):
            ptlen = 0
            if d.ptr is not None:
                ptlen = path_table_record.PathTableRecord.record_length(d.ptr.len_di)
            snap['dirs'][ids.of(d)] = {'tree': t, 'dataLen': d.data_length, 'ptlen': ptlen, 'root': d.parent is None,
                                       'kids': [(ids.of(c), c.dr_len) for c in d.children]}
    for ino in iso.inodes:
        recs = [ids.of(r) for r, _ in ino.linked_records if isinstance(r, drmod.DirectoryRecord)]
        nudf = sum(1 for r, _ in ino.linked_records if isinstance(r, udfmod.UDFFileEntry))
        if len(recs) + nudf != len(ino.linked_records):
            raise Unsupported('link that is neither a directory record nor a UDF entry')
        snap['inos'][ids.of(ino)] = (ino.get_data_length(), len(recs) + nudf, nudf)
        snap['order'][ids.of(ino)] = recs
    if has_udf:
        stack = [iso.udf_root]
        while stack:
            fe = stack.pop()
            fids = []
            for fi in fe.fi_descs:
                fids.append((ids.of(fi), udfmod.UDFFileIdentifierDescriptor.length(len(fi.fi))))
                if fi.is_parent() or fi.file_entry is None:
                    continue
                if fi.is_dir():
                    stack.append(fi.file_entry)
                elif fi.file_entry.inode is None:
                    snap['ufree'] += 1
            snap['udirs'][ids.of(fe)] = {'fids': fids, 'info': fe.info_len}
    return snap


def enc_state(s):
    ds = ','.join('%d:%d:%s' % (i, d['dataLen'], '.'.join(str(l) for _, l in d['kids']) or '-') for i, d in sorted(s['dirs'].items())) or '-'
    ins = ','.join('%d:%d:%d:%d' % (i, l, n, nu) for i, (l, n, nu) in sorted(s['inos'].items())) or '-'
    us = ','.join('%d:%d' % (i, u['info']) for i, u in sorted(s['udirs'].items())) or '-'
    ceb = ','.join('.'.join('%d:%d' % e for e in b) or 'e' for b in s['ceb']) or '-'
    return '%d;%s;%d;%d,%d;%d,%d;%s;%s;%s;%d' % (s['fixed'], ceb, s['space'], s['pt0'][0], s['pt0'][1], s['pt1'][0], s['pt1'][1], ds, ins, us, s['ufree'])


def canon(text):
    """canonical form of a state string: directories and contents sorted by id"""
    f = text.split(';')
    if len(f) != 9:
        return text
    for k in (5, 6, 7):
        if f[k] != '-':
            f[k] = ','.join(sorted(f[k].split(','), key=lambda x: int(x.split(':')[0])))
    return ';'.join(f)


def derive(pre, post):
    """the machine Op that turns the structure of `pre` into that of `post` (bookkeeping fields are NOT consulted)"""
    adds, rms = [], []
    pre_d, post_d = pre['dirs'], post['dirs']
    # records by owner, to order removals the way `_rm_file_inodes` walks `linked_records`
    rank = {}
    for recs in pre['order'].values():
        for k, r in enumerate(recs):
            rank[r] = k
    for i in sorted(post_d):
        if i not in pre_d:
            d = post_d[i]
            if d['root'] or len(d['kids']) < 2:
                raise Unsupported('new root')
            adds.append(('m', 'm:%d:%d:%d:%s' % (d['tree'], i, d['ptlen'], '.'.join(str(l) for _, l in d['kids'][:2]))))
            for idx, (_, l) in enumerate(d['kids'][2:], start=2):
                adds.append(('i', 'i:%d:%d:%d' % (i, idx, l)))
    for i in sorted(pre_d):
        if i not in post_d:
            rms.append((10 ** 9, 'd:%d:%d:%d' % (pre_d[i]['tree'], i, pre_d[i]['ptlen'])))
            continue
        a, b = pre_d[i]['kids'], post_d[i]['kids']
        aid, bid = [x for x, _ in a], [x for x, _ in b]
        common_a = [(x, l) for x, l in a if x in set(bid)]
        common_b = [(x, l) for x, l in b if x in set(aid)]
        if common_a != common_b:
            raise Unsupported('records reordered or resized')
        for idx, (x, l) in enumerate(b):
            if x not in set(aid):
                adds.append(('i', 'i:%d:%d:%d' % (i, idx, l)))
        gone = [x for x in aid if x not in set(bid)]
        if gone:
            cur = list(aid)
            for x in sorted(gone, key=lambda r: rank.get(r, 10 ** 6)):
                rms.append((rank.get(x, 10 ** 6), 'x:%d:%d' % (i, cur.index(x))))
                cur.remove(x)
    # UDF: File Identifier Descriptors by identity, directories by their File Entry
    for i in sorted(post['udirs']):
        old = set(x for x, _ in pre['udirs'][i]['fids']) if i in pre['udirs'] else None
        if old is None:
            adds.append(('u', 'u:%d' % i))
        for x, l in post['udirs'][i]['fids']:
            if old is None or x not in old:
                adds.append(('f', 'f:%d:%d' % (i, l)))
    for i in sorted(pre['udirs']):
        if i not in post['udirs']:
            rms.append((10 ** 9, 'u:%d' % i))
            continue
        new = set(x for x, _ in post['udirs'][i]['fids'])
        for x, l in pre['udirs'][i]['fids']:
            if x not in new:
                rms.append((10 ** 8, 'f:%d:%d' % (i, l)))
    due = post['ufree'] - pre['ufree']
    # continuation areas: the allocator is the machine's; the harness only says which area was asked for / given back
    ce_add, ce_rm = [], []
    a, b = pre['ceb'], post['ceb']
    if len(b) == len(a) or (len(b) == len(a) + 1):
        for i, blk in enumerate(b):
            old = a[i] if i < len(a) else []
            ce_add += [e for e in blk if e not in old]
            ce_rm += [(i, e) for e in old if e not in blk]
    elif len(b) + 1 == len(a):
        # one block was given back: find it (the blocks in front of it are unchanged or lost nothing)
        gone = next((i for i in range(len(a)) if i >= len(b) or (a[i] != b[i] and (i + 1 >= len(a) or a[i + 1] == b[i]))), None)
        if gone is None:
            raise Restart('continuation blocks')
        rest = a[:gone] + a[gone + 1:]
        ce_rm += [(gone, e) for e in a[gone]]
        for i, blk in enumerate(b):
            ce_add += [e for e in blk if e not in rest[i]]
            ce_rm += [(i if i < gone else i + 1, e) for e in rest[i] if e not in blk]
    else:
        raise Restart('continuation blocks')
    if len(ce_add) + len(ce_rm) > 1:
        # several continuation areas in one call: their order decides where first-fit puts them; start a new segment
        raise Restart('several continuation areas in one edit')
    dce = len(ce_add) - len(ce_rm)
    dfx = post['fixed'] - pre['fixed']
    if dfx < 0:
        raise Unsupported('descriptor removed')
    ino_add = ino_rm = None
    for i, (l, n, nu) in post['inos'].items():
        _l0, n0, nu0 = pre['inos'].get(i, (l, 0, 0))
        if n > n0 and nu >= nu0:
            if ino_add is not None:
                raise Unsupported('two contents')
            ino_add = '%d:%d:%d:%d' % (i, l, n - n0, nu - nu0)
        elif n < n0 and nu <= nu0:
            if ino_rm is not None:
                raise Unsupported('two contents')
            ino_rm = '%d:%d:%d' % (i, n0 - n, nu0 - nu)
        elif (n, nu) != (n0, nu0):
            raise Unsupported('names of a content exchanged')
    for i, (l, n0, nu0) in pre['inos'].items():
        if i not in post['inos']:
            if ino_rm is not None:
                raise Unsupported('two contents')
            ino_rm = '%d:%d:%d' % (i, n0, nu0)
    is_add = bool(adds) or dce > 0 or dfx > 0 or due > 0 or ino_add is not None
    is_rm = bool(rms) or dce < 0 or due < 0 or ino_rm is not None
    if is_add and is_rm:
        raise Unsupported('mixed edit')
    if is_add:
        parts = [p for _, p in adds] + ['k:%d' % e[1] for e in ce_add] + ['v'] * dfx + ['e'] * due
        return 'a/%s/%s' % ('+'.join(parts) or '-', ino_add or '-')
    if is_rm:
        # removals of records in `linked_records` order, directories last
        parts = [p for _, p in sorted(rms, key=lambda t: t[0])] + ['z:%d:%d:%d' % (i, e[0], e[1]) for i, e in ce_rm] + ['e'] * (-due)
        return 'r/%s/%s' % ('+'.join(parts) or '-', ino_rm or '-')
    return None


def check_history(ctx, cfg, ops, replay_obj, focus='C04'):
    """replay `ops`, cut the history into generations, compare every generation with the machine"""
    segments = []          # (initial snapshot, [(op, derived op token, snapshot after)])
    with isoapi.frozen_time():
        s = histcheck.Session(cfg, tempfile.gettempdir())
        ids = Ids()
        try:
            try:
                cur = snapshot(s.iso, ids)
            except Unsupported as e:
                ctx.dist['isotie:skip:%s' % e] += 1
                return
            seg = [cur, [], 'new']
            segments.append(seg)
            for op in ops:
                res = s.apply(op)
                if res != 'ok':
                    break
                if op['op'] == 'reopen':
                    ids = Ids()
                    try:
                        cur = snapshot(s.iso, ids)
                    except Unsupported as e:
                        ctx.dist['isotie:skip:%s' % e] += 1
                        break
                    seg = [cur, [], 'reopened']
                    segments.append(seg)
                    continue
                if op['op'] in ('force', 'query', 'walk', 'hide', 'unhide'):
                    continue
                try:
                    nxt = snapshot(s.iso, ids)
                    tok = derive(cur, nxt)
                except Unsupported as e:
                    ctx.dist['isotie:skip:%s' % e] += 1
                    break
                except Restart as e:
                    ctx.dist['isotie:restart:%s' % e] += 1
                    cur = nxt
                    seg = [cur, [], 'after-edit']
                    segments.append(seg)
                    continue
                if tok is not None:
                    seg[1].append((op, tok, nxt))
                elif enc_state(nxt) != enc_state(cur):
                    ctx.disagree('S-hist/isorun', 'edit %s changed the bookkeeping without changing the structure: %s -> %s'
                                 % (histcheck.short(op), enc_state(cur)[:120], enc_state(nxt)[:120]), replay_obj)
                cur = nxt
        finally:
            s.close()
    reqs = ['isorun %s %s' % (enc_state(init), ' '.join(t for _, t, _ in steps)) if steps else 'isorun %s' % enc_state(init)
            for init, steps, _kind in segments]
    answers = ctx.driver.ask(reqs)
    for gen, ((init, steps, kind), ans) in enumerate(zip(segments, answers)):
        f = ans.split(' ')
        ctx.dist['isotie:generation'] += 1
        if f[0] == 'bad-op':
            ctx.disagree('S-hist/isorun', 'the machine could not read the request (generation %d)' % gen, replay_obj)
            continue
        if f[0] != 'inv':
            what = {'new': 'a new object', 'reopened': 'the object reconstructed by open()', 'after-edit': 'the object after an accepted edit'}[kind]
            ctx.violation('%s.iso-inv/%s' % (focus, kind),
                          'bookkeeping of %s is not consistent (declared size vs layout, directory lengths, path table extents): %s'
                          % (what, enc_state(init)[:200]), replay_obj)
            continue
        outs = [x for x in f[1:] if x]
        for k, (op, tok, snap) in enumerate(steps):
            ctx.dist['isotie:step'] += 1
            if k >= len(outs) or outs[k] == 'refused':
                ctx.disagree('S-hist/isorun', 'generation %d, edit %d (%s = %s): the machine refuses the step' % (gen, k, histcheck.short(op), tok),
                             replay_obj)
                break
            got = outs[k]
            bad_inv = got.endswith('!inv')
            if bad_inv:
                got = got[:-4]
            want = enc_state(snap)
            if canon(got) != canon(want):
                ctx.disagree('S-hist/isorun', 'generation %d, edit %d (%s = %s): library %s, machine %s'
                             % (gen, k, histcheck.short(op), tok, diff_fields(want, got), diff_fields(got, want)), replay_obj)
                break
        ctx.traces_validated += 1


def diff_fields(a, b):
    names = ['fixed', 'ceb', 'space', 'pt0', 'pt1', 'dirs', 'inos', 'udirs', 'ufree']
    fa, fb = canon(a).split(';'), canon(b).split(';')
    out = []
    for n, x, y in zip(names, fa, fb):
        if x != y:
            if n in ('dirs', 'inos', 'udirs'):
                xs, ys = x.split(','), set(y.split(','))
                x = ','.join(e for e in xs if e not in ys)[:160]
            out.append('%s=%s' % (n, x))
    return ' '.join(out) or '(same)'
