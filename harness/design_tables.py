#!/venv/bin/python
"""prints the machine-derived tables of DESIGN.md section 11 (theorem inventory, findings, seeded changes)"""
import glob
import importlib
import json
import os
import sys

ROOT = os.path.dirname(os.path.dirname(os.path.abspath(__file__)))
sys.path.insert(0, ROOT)


def theorems():
    print('| property | Lean modules | property theorems audited on every run | partial / not proved (full statement kept) |')
    print('|---|---|---|---|')
    for i in range(1, 21):
        pid = 'C%02d' % i
        m = importlib.import_module('harness.props.%s' % pid.lower())
        th = ', '.join('`%s`' % t.replace('Pycdlib.', '') for t in m.THEOREMS)
        pa = '; '.join('`%s`: %s' % (k, v.replace('|', '/')) for k, v in getattr(m, 'PARTIAL', {}).items())
        print('| %s | %s | %s | %s |' % (pid, ', '.join(x.replace('Pycdlib.', '') for x in m.LEAN_MODULES), th, pa or '—'))


def findings():
    d = json.load(open(os.path.join(ROOT, 'known_findings.json')))
    print('| property | status | signature | commit | what failed |')
    print('|---|---|---|---|---|')
    for f in d['findings']:
        summ = f['summary']
        for pre in ('fixed: property=%s ' % f['property'], 'KNOWN-FINDING: property=%s ' % f['property']):
            if summ.startswith(pre):
                summ = summ[len(pre):]
        print('| %s | %s | `%s` | %s | %s |' % (f['property'], f['status'], f['signature'].replace('|', '¦'), f.get('commit', '—'), summ.replace('|', '/')))


def seeded():
    first = json.load(open(os.path.join(ROOT, 'seeded', 'FIRST_RUN.json')))
    print('| seeded change | property | what it breaks | first run | now (own quick check) | caught by | first VIOLATION line |')
    print('|---|---|---|---|---|---|---|')
    for d in sorted(glob.glob(os.path.join(ROOT, 'seeded', '*'))):
        try:
            meta = json.load(open(os.path.join(d, 'meta.json')))
            res = json.load(open(os.path.join(d, 'result.json')))
        except Exception:  # noqa
            continue
        name = os.path.basename(d)
        line = ''
        for r in res['runs']:
            for l in r['lines']:
                if l.startswith('VIOLATION') and not line:
                    line = l.split('replay=')[1] if 'replay=' in l else l
        print('| %s | %s | %s | %s | %s | %s | `%s` |' % (name, meta['property'], (meta.get('title') or '').replace('|', '/')[:150],
                                                      'missed' if name in first['missed_at_first_run'] else 'caught',
                                                      'VIOLATION' if res.get('caught_by_own_check') else 'missed', ', '.join(res.get('caught_by', [])) or '—',
                                                      line.replace('findings/', '')[:70]))


def update():
    import io
    import contextlib
    p = os.path.join(ROOT, 'DESIGN.md')
    s = open(p).read()
    for key, fn in (('theorems', theorems), ('findings', findings), ('seeded', seeded)):
        buf = io.StringIO()
        with contextlib.redirect_stdout(buf):
            fn()
        a = s.index('<!-- BEGIN:%s -->' % key) + len('<!-- BEGIN:%s -->' % key)
        b = s.index('<!-- END:%s -->' % key)
        s = s[:a] + '\n' + buf.getvalue() + s[b:]
    open(p, 'w').write(s)


if __name__ == '__main__':
    {'theorems': theorems, 'findings': findings, 'seeded': seeded, 'update': update}[sys.argv[1]]()
