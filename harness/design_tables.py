#!/venv/bin/python
"""prints the machine-derived tables of DESIGN.md section 11 (theorem inventory, findings, seeded changes)"""
import glob
import importlib
import json
import os
import sys

ROOT = os.path.dirname(os.path.dirname(os.path.abspath(__file__)))
sys.path.insert(0, ROOT)


def theorems():
    print('| property | Lean modules | property theorems audited on every run | partial / not proved (full statement kept) |')
    print('|---|---|---|---|')
    for i in range(1, 21):
        pid = 'C%02d' % i
        m = importlib.import_module('harness.props.%s' % pid.lower())
        th = ', '.join('`%s`' % t.replace('Pycdlib.', '') for t in m.THEOREMS)
        pa = '; '.join('`%s`: %s' % (k, v.replace('|', '/')) for k, v in getattr(m, 'PARTIAL', {}).items())
        print('| %s | %s | %s | %s |' % (pid, ', '.join(x.replace('Pycdlib.', '') for x in m.LEAN_MODULES), th, pa or '—'))


def findings():
    d = json.load(open(os.path.join(ROOT, 'known_findings.json')))
    print('| property | status | signature | commit | what failed |')
    print('|---|---|---|---|---|')
    for f in d['findings']:
        summ = f['summary']
        for pre in ('fixed: property=%s ' % f['property'], 'KNOWN-FINDING: property=%s ' % f['property']):
            if summ.startswith(pre):
                summ = summ[len(pre):]
        print('| %s | %s | `%s` | %s | %s |' % (f['property'], f['status'], f['signature'].replace('|', '¦'), f.get('commit', '—'), summ.replace('|', '/')))


def seeded():
    print('| seeded change | property | what it breaks | own check (quick) | caught by |')
    print('|---|---|---|---|---|')
    for d in sorted(glob.glob(os.path.join(ROOT, 'seeded', '*'))):
        try:
            meta = json.load(open(os.path.join(d, 'meta.json')))
            res = json.load(open(os.path.join(d, 'result.json')))
        except Exception:  # noqa
            continue
        own = [r for r in res['runs'] if r['check'] == meta['property']]
        line = ''
        for r in own:
            if r['lines']:
                line = r['lines'][0].split('replay=')[0].replace('VIOLATION ', '')
        print('| %s | %s | %s | %s | %s |' % (os.path.basename(d), meta['property'], meta.get('title', '').replace('|', '/'),
                                             'VIOLATION' if res.get('caught_by_own_check') else 'missed', ', '.join(res.get('caught_by', [])) or '—'))


if __name__ == '__main__':
    {'theorems': theorems, 'findings': findings, 'seeded': seeded}[sys.argv[1]]()
