#!/venv/bin/python
"""
Evaluate the checks against a seeded property-breaking change.

  harness/seedeval.py seeded/<name> [--tier quick|thorough] [--all] [--seeds 0,1]

applies seeded/<name>/patch.diff to /repo (git apply), runs the demo (must exit 1), runs bin/check for the property named in
meta.json (or for every claimed property with --all), records exit codes and VIOLATION lines in seeded/<name>/result.json,
and always restores /repo (git checkout -- .).  Nothing is committed to /repo.
"""
import json
import os
import subprocess
import sys
import time

ROOT = os.path.dirname(os.path.dirname(os.path.abspath(__file__)))
REPO = '/repo'


def sh(cmd, **kw):
    return subprocess.run(cmd, stdout=subprocess.PIPE, stderr=subprocess.STDOUT, text=True, **kw)


def main(argv):
    d = os.path.abspath(argv[0])
    tier = 'quick'
    seeds = ['0']
    run_all = '--all' in argv
    if '--tier' in argv:
        tier = argv[argv.index('--tier') + 1]
    if '--seeds' in argv:
        seeds = argv[argv.index('--seeds') + 1].split(',')
    meta = json.load(open(os.path.join(d, 'meta.json')))
    pid = meta['property']
    if sh(['git', '-C', REPO, 'status', '--porcelain', '--untracked-files=no']).stdout.strip():
        print('refusing: /repo working tree is not clean')
        return 2
    manifest = json.load(open(os.path.join(ROOT, 'MANIFEST.json')))
    claimed = [c['property_id'] for c in manifest['checks']]
    props = claimed if run_all else [pid]
    if '--also' in argv:
        props += [x for x in argv[argv.index('--also') + 1].split(',') if x not in props]
    result = {'property': pid, 'title': meta.get('title'), 'tier': tier, 'runs': []}
    r = sh(['git', '-C', REPO, 'apply', os.path.join(d, 'patch.diff')])
    if r.returncode != 0:
        print('patch does not apply:', r.stdout)
        return 2
    try:
        demo = os.path.join(d, 'demo.py')
        if os.path.exists(demo):
            r = sh(['/venv/bin/python', demo], env=dict(os.environ, PYTHONPATH=REPO), timeout=600, cwd='/tmp')
            result['demo_exit_with_patch'] = r.returncode
        for p in props:
            for seed in seeds:
                t0 = time.time()
                r = sh([os.path.join(ROOT, 'bin', 'check'), p, '--tier', tier], env=dict(os.environ, VERIF_SEED=seed), timeout=7200)
                lines = [l for l in r.stdout.split('\n') if l.startswith('VIOLATION') or l.startswith('KNOWN-FINDING')]
                result['runs'].append({'check': p, 'seed': seed, 'exit': r.returncode, 'seconds': round(time.time() - t0, 1),
                                       'lines': lines[:12], 'tail': r.stdout.strip().split('\n')[-1][:300]})
                print(p, 'seed', seed, 'exit', r.returncode, '|', (lines or [r.stdout.strip().split('\n')[-1]])[0][:200])
    finally:
        sh(['git', '-C', REPO, 'checkout', '--', '.'])
        sh(['/venv/bin/python', os.path.join(ROOT, 'harness', 'py2lean.py')])
    if os.path.exists(os.path.join(d, 'demo.py')):
        r = sh(['/venv/bin/python', os.path.join(d, 'demo.py')], env=dict(os.environ, PYTHONPATH=REPO), timeout=600, cwd='/tmp')
        result['demo_exit_clean'] = r.returncode
    own = [x for x in result['runs'] if x['check'] == pid]
    result['caught_by_own_check'] = any(x['exit'] == 1 for x in own)
    result['caught_by'] = sorted({x['check'] for x in result['runs'] if x['exit'] == 1})
    json.dump(result, open(os.path.join(d, 'result.json'), 'w'), indent=1)
    print('caught_by', result['caught_by'], 'demo(with patch)=', result.get('demo_exit_with_patch'), 'demo(clean)=', result.get('demo_exit_clean'))
    return 0


if __name__ == '__main__':
    sys.exit(main(sys.argv[1:]))
