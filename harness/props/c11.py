"""
C11 — El Torito boot structures point at the right bytes.  Theorems: Props/C11.lean.

Scenarios: random tree edits, then 1..k add_eltorito calls (noemul with any size / load size, floppy 1.2M-1.44M-2.88M,
hd emulation with a generated MBR, platform 0/1/2/0xEF, efi, bootable, load segment, boot info table), then more edits that
move the boot files (names sorting before them, removals, hidden boot file, boot file unlinked from every namespace),
in every namespace configuration; then write.
Correspondence: `EltoritoBootCatalog.record()` vs `Boot.catalogBytes`; `_checksum` vs `elToritoChecksum`;
`_calculate_eltorito_boot_info_table_csum` vs `bootInfoChecksum`; `EltoritoEntry.new` media/count vs `mediaAndCount`.
Oracle (independent Lean El Torito reader on the written bytes): boot record at 17 → catalog; validation checksum/key bytes;
initial and section entries carry the requested platform, media, segment, load size, and a load address that is the sector
where the chosen boot file's bytes start (compared with the content that was supplied); the catalog is reachable as a file
under each given name at the catalog sector; boot info table = (16, file sector, length, checksum) in the stored bytes and
in the API read-back; after rm_eltorito the image equals the image of the same edits without any El Torito call.
"""
import hashlib
import io
import os
import random
import shutil
import struct
import tempfile

from harness import core, gen, histcheck, isoapi

LEAN_MODULES = ['Pycdlib.Props.C11', 'Pycdlib.Props.C11Parse', 'Pycdlib.Props.C11VdOrder']
THEOREMS = ['Pycdlib.Boot.validation_sum', 'Pycdlib.Boot.catalog_length', 'Pycdlib.Boot.catalog_fits', 'Pycdlib.Boot.entry_fields',
            'Pycdlib.Boot.floppy_media', 'Pycdlib.Boot.last_header', 'Pycdlib.Boot.nonlast_header',
            'Pycdlib.Boot.catalog_parse_roundtrip', 'Pycdlib.Boot.without_rule_next_sector_decides',
            'Pycdlib.VdOrder.boot_record_at_17', 'Pycdlib.VdOrder.order_length']
PARTIAL = {
    'load_rba_points_partial': 'that every load address equals the first data sector of the chosen boot content after any history is '
    'decided by the reader oracle per scenario (the layout composition is not one theorem yet)',
}
TRUSTED = ['Model/Reader.lean El Torito part as the independent reader']
ASSUMPTIONS = []
RULE = ('scenarios = cfg x tree edits x 1..4 (quick) boot entries with random parameters x post-edits; distinct = scenario; '
        'non-trivial = at least one edit after add_eltorito moves a boot file or the entry is non-default')
LEVEL_TEXT = ('Lean 4 theorems: the validation entry checksums to zero for every platform id with key bytes 55 AA; catalog = 64 bytes + '
              '64 per section and fits one sector for <= 31 sections with 0x90/0x91 headers; entry fields at the El Torito offsets; '
              'floppy sizes map to media 1/2/3; a recorded catalog (up to 31 sections, also when it fills its sector) is read back as recorded '
              'whatever follows it on the image (catalog_parse_roundtrip). The catalog model is tied byte-for-byte to eltorito.py; load addresses, catalog '
              'files, boot info tables and rm_eltorito are decided by the independent reader per scenario.')
LEVEL_NOTE = 'Trusted: Lean kernel; reader; scenario generator.'
TECHNIQUE = 'Lean 4 proofs about the catalog model + byte-level correspondence + independent Lean El Torito reader'

FLOPPY = {2400: 1228800, 2880: 1474560, 5760: 2949120}


def hd_mbr(part_type=0x0c, sectors=2048, bootable=True):
    part = struct.pack('<BBBBBBBBLL', 0x80 if bootable else 0, 0, 1, 0, part_type, 0xfe, 0x3f, 0, 1, sectors)
    return bytes(446) + part + bytes(48) + b'\x55\xaa'


NAMELESS_SIG = 'C11.gen2/nameless-boot-image-size-differs-from-load-size'


def make_boot(rng, i):
    """(content bytes, add_eltorito kwargs, expectation dict)"""
    kind = rng.choice(['noemul', 'noemul', 'noemul', 'floppy', 'hdemul'])
    kw, exp = {}, {}
    if kind == 'noemul':
        n = rng.choice([1, 512, 2047, 2048, 2049, 4096, 5000, 20000])
        data = bytes((i * 17 + j * 5 + 3) % 253 for j in range(n))
        if rng.random() < 0.4:
            kw['boot_load_size'] = rng.choice([1, 4, 8, 17, 40])
            exp['count'] = kw['boot_load_size']
        else:
            exp['count'] = -(-n // 2048) * 2048 // 512
        exp['media'] = 0
        exp['sys'] = 0
        if rng.random() < 0.35 and n >= 64:
            kw['boot_info_table'] = True
    elif kind == 'floppy':
        sc = rng.choice(sorted(FLOPPY))
        n = FLOPPY[sc]
        data = bytes([i + 1]) * n
        kw['media_name'] = 'floppy'
        kw['boot_load_size'] = sc
        exp.update(count=1, media={2400: 1, 2880: 2, 5760: 3}[sc], sys=0)
    else:
        ptype = rng.choice([0x06, 0x0c, 0x83])
        data = hd_mbr(ptype) + bytes([i + 7]) * rng.choice([0, 512, 3000])
        kw['media_name'] = 'hdemul'
        exp.update(count=1, media=4, sys=ptype)
    if rng.random() < 0.3:
        kw['bootable'] = False
    exp['boot'] = 0 if kw.get('bootable') is False else 0x88
    if rng.random() < 0.3:
        kw['boot_load_seg'] = rng.choice([0, 0x7c0, 0x1000])
    exp['seg'] = kw.get('boot_load_seg', 0)
    return data, kw, exp


def fnv(data):
    h = 14695981039346656037
    for b in data:
        h = ((h ^ b) * 1099511628211) & 0xFFFFFFFFFFFFFFFF
    return h


def scenario(ctx, rng, tmpdir):
    import pycdlib
    cfg = gen.sample_cfg(rng)
    rp_ops = []
    viol = lambda sig, msg: ctx.violation(sig, msg, {'kind': 'scenario', 'seed': scenario.seed})   # noqa
    with isoapi.frozen_time():
        s = histcheck.drive(ctx, rng, cfg, rng.choice([0, 3, 8]), tmpdir=tmpdir)
        iso = s.iso
        # copies of the PVD on a bootable image: the El Torito boot record still has to be at sector 17
        dup_rng = random.Random(scenario.seed ^ 0xd0b1e)
        dups = dup_rng.choice([0, 0, 0, 1, 2])
        dup_first = dup_rng.random() < 0.5
        if dup_first:
            for _ in range(dups):
                try:
                    iso.duplicate_pvd()
                except Exception as e:  # noqa
                    ctx.notes.append('duplicate_pvd refused: %r' % e)
        nboot = rng.choice([1, 1, 2, 3, 4]) if ctx.quick else rng.choice([1, 2, 3, 5, 12, 32])
        boots = []
        first_platform = None
        for i in range(nboot):
            plain = [b for b in boots if 'media_name' not in b['kw'] and not b['kw'].get('boot_info_table')]
            if i > 0 and plain and rng.random() < 0.25:
                # a further entry for a boot file that already has one (BIOS + UEFI entry of one image), under the same
                # name or under a hard link to it: the load address must still be that file's sector
                src = rng.choice(plain)
                name, akw2 = src['name'], dict(src['names'])
                if rng.random() < 0.5:
                    name = '/LNKBOOT%d.;1' % i
                    try:
                        lkw = {'iso_old_path': src['name'], 'iso_new_path': name}
                        if cfg.get('rr'):
                            lkw['rr_name'] = 'lnkboot%d' % i
                        iso.add_hard_link(**lkw)
                        akw2 = {'iso_path': name}
                    except Exception as e:  # noqa
                        ctx.notes.append('link to boot file refused: %r' % e)
                        continue
                ekw = {'boot_load_size': rng.choice([1, 4, 9])}
                exp = {'count': ekw['boot_load_size'], 'media': 0, 'sys': 0, 'boot': 0x88, 'seg': 0}
                if rng.random() < 0.5:
                    ekw['efi'] = True
                    exp['platform'] = 0xef
                else:
                    exp['platform'] = ekw['platform_id'] = rng.choice([0, 1, 2, 0xef])
                try:
                    iso.add_eltorito(name, **ekw)
                except Exception as e:  # noqa
                    cls = isoapi.exc_class(e)
                    if cls != 'invalidInput':
                        viol('C11.add-eltorito-raises/%s' % cls, 'add_eltorito(%s, %s) for a file that already has an entry raised %s' % (name, ekw, cls))
                    continue
                boots.append({'name': name, 'data': src['data'], 'kw': ekw, 'exp': exp, 'names': akw2, 'shared': True})
                continue
            data, kw, exp = make_boot(rng, i)
            name = '/%sBOOT%d.;1' % (rng.choice(['', 'A', 'Z', '0']), i)
            akw = {'iso_path': name}
            if cfg.get('rr'):
                akw['rr_name'] = 'boot%d' % i
            if cfg.get('joliet'):
                akw['joliet_path'] = '/boot%d' % i
            if cfg.get('udf'):
                akw['udf_path'] = '/boot%d' % i
            try:
                iso.add_fp(io.BytesIO(data), len(data), **akw)
            except Exception as e:  # noqa
                ctx.notes.append('boot add_fp refused: %r' % e)
                continue
            ekw = dict(kw)
            if i == 0:
                plat = rng.choice([0, 0, 1, 2, 0xef])
                ekw['platform_id'] = plat
                first_platform = plat
                ekw['bootcatfile'] = '/BOOT.CAT;1'
                if cfg.get('rr'):
                    ekw['rr_bootcatname'] = 'boot.cat'
                if cfg.get('joliet'):
                    ekw['joliet_bootcatfile'] = '/boot.cat'
                if cfg.get('udf'):
                    ekw['udf_bootcatfile'] = '/boot.cat'
                exp['platform'] = plat
            else:
                if rng.random() < 0.4:
                    ekw['efi'] = True
                    exp['platform'] = 0xef
                else:
                    plat = rng.choice([0, 1, 2, 0xef])
                    ekw['platform_id'] = plat
                    exp['platform'] = plat
            try:
                iso.add_eltorito(name, **ekw)
            except Exception as e:  # noqa
                cls = isoapi.exc_class(e)
                if cls != 'invalidInput':
                    viol('C11.add-eltorito-raises/%s' % cls, 'add_eltorito(%s, %s) raised %s' % (name, ekw, cls))
                try:
                    iso.rm_file(iso_path=name)
                except Exception:
                    pass
                continue
            boots.append({'name': name, 'data': data, 'kw': ekw, 'exp': exp, 'names': dict(akw)})
        if not boots:
            s.close()
            return
        # post-edits that move things
        sh = s.shadow
        for _ in range(rng.choice([0, 2, 6])):
            g = sh.gen_op()
            if g is None:
                continue
            op, eff = g
            if isoapi.apply_op(iso, op) == 'ok':
                sh.commit(eff)
            else:
                # what a refused edit leaves behind is C14's subject; this scenario ends here, unjudged
                ctx.dist['abandoned:post-edit-refused'] += 1
                s.close()
                return
        hidden = None
        if rng.random() < 0.25:
            b = rng.choice(boots)
            try:
                iso.set_hidden(iso_path=b['name'])
                hidden = b['name']
            except Exception as e:  # noqa
                viol('C11.hide-boot-raises', 'set_hidden on the boot file raised %r' % e)
        unlinked = set()
        iso_only = None
        gone_paths = set()
        r = rng.random()
        # one boot file, or every boot file (several inodes released by rm_eltorito), loses all its names
        if 0.4 <= r < 0.55 and (cfg.get('joliet') or cfg.get('udf')):
            # only the ISO9660 name goes: the content keeps its Joliet / UDF names and its catalog entry
            b = rng.choice(boots)
            if 'iso_path' in b['names'] and not b.get('shared'):
                try:
                    iso.rm_hard_link(iso_path=b['names']['iso_path'])
                    iso_only = b['name']
                except Exception as e:  # noqa
                    viol('C11.unlink-boot-raises/%s' % isoapi.exc_class(e), 'rm_hard_link of the ISO9660 name of the boot file raised %r' % e)
        for b in ([rng.choice(boots)] if r < 0.25 else boots if r < 0.4 else []):
            try:
                for key, val in b['names'].items():
                    k2 = {'iso_path': 'iso_path', 'joliet_path': 'joliet_path', 'udf_path': 'udf_path'}.get(key)
                    if k2 and (k2, val) not in gone_paths:
                        iso.rm_hard_link(**{k2: val})
                        gone_paths.add((k2, val))
                unlinked.add(b['name'])
            except Exception as e:  # noqa
                viol('C11.unlink-boot-raises/%s' % isoapi.exc_class(e), 'rm_hard_link of the boot file names raised %r' % e)
        if not dup_first:
            for _ in range(dups):
                try:
                    iso.duplicate_pvd()
                except Exception as e:  # noqa
                    ctx.notes.append('duplicate_pvd refused: %r' % e)
        ctx.dist['pvd-copies:%d' % dups] += 1
        vd_counts = (len(iso.pvds), len(iso.brs), len(iso.svds), len(iso.vdsts))
        # correspondence: catalog bytes
        cat = iso.eltorito_boot_catalog
        path = os.path.join(tmpdir, 'b%d.iso' % rng.randrange(10 ** 12))
        try:
            iso.write(path)
        except Exception as e:  # noqa
            viol('C11.write-fails/%s' % isoapi.exc_class(e), 'write with El Torito fails: %s %s (hidden=%s unlinked=%s)' % (isoapi.exc_class(e), str(e)[:80], hidden, unlinked))
            s.close()
            return

        def tok(platform, e):
            return '%d:%d:%d:%d:%d:%d:%d' % (platform, 1 if e.boot_indicator == 0x88 else 0, e.boot_media_type, e.load_segment, e.system_type, e.sector_count, e.load_rba)
        toks = [tok(cat.validation_entry.platform_id, cat.initial_entry)] + [tok(sec.platform_id, sec.section_entries[0]) for sec in cat.sections]
        model = ctx.driver.ask(['eltcat %d %s' % (cat.validation_entry.platform_id, ' '.join(toks))])[0]
        if model != cat.record().hex():
            ctx.disagree('S-codec/eltcat', 'catalog bytes differ: impl=%s... model=%s...' % (cat.record().hex()[:80], model[:80]), {'kind': 'scenario', 'seed': scenario.seed})
        ctx.traces_validated += 1
    # oracle on the written bytes
    rep = isoapi.read_image(ctx, path)
    img = open(path, 'rb').read()
    # order of the volume descriptors (Model/VdOrder, theorem boot_record_at_17): types read from sector 16 on
    types = []
    sec = 16
    while (sec + 1) * 2048 <= len(img) and img[sec * 2048 + 1: sec * 2048 + 6] == b'CD001':
        types.append(img[sec * 2048])
        sec += 1
    want_order = ctx.driver.ask(['vdorder %d %d %d %d' % vd_counts])[0].split()[0]
    ctx.traces_validated += 1
    if '.'.join(str(t) for t in types) != want_order:
        ctx.disagree('S-layout/vdorder', 'volume descriptor types from sector 16: image %s, model %s for (pvds, brs, svds, vdsts) = %s' % (types, want_order, vd_counts),
                     {'kind': 'scenario', 'seed': scenario.seed})
    # the catalog as the library reads it back vs the model's parser, on the image and on a few damaged catalogs
    rp_cat = {'kind': 'scenario', 'seed': scenario.seed}
    catalog_read_corr(ctx, img, 'scenario', rp_cat, must_open=True)
    catsec0 = find_catalog_sector(img)
    for _ in range(4 if catsec0 is not None else 0):
        m = bytearray(img)
        for _k in range(rng.randint(1, 3)):
            chunk = min(63, rng.randrange(2, 2 + 2 * len(boots) + 2))
            if rng.random() < 0.6:
                m[catsec0 * 2048 + 32 * chunk] = rng.choice([0, 0x44, 0x88, 0x90, 0x91, 0x42])
            else:
                m[catsec0 * 2048 + 32 * chunk + rng.choice([1, 2, 3, 5])] = rng.choice([0, 1, 2, 3, 5, 0xef])
        catalog_read_corr(ctx, bytes(m), 'damaged catalog', rp_cat)
    for e in rep.errs:
        code = e.split(':')[0]
        if histcheck.owns(code, histcheck.BOOT_CODES):
            viol('C11.reader/%s' % code, 'independent El Torito reader: %s' % e[:160])
    bents = [e for e in rep.entries if e.startswith('B:')]
    if len(bents) != len(boots):
        viol('C11.entry-count', 'catalog has %d entries, %d were added' % (len(bents), len(boots)))
    catsec = int(rep.info.get('bootcat', -1))
    for b, ent in zip(boots, bents):
        f = dict((x.rstrip('0123456789,-'), x[len(x.rstrip('0123456789,-')):]) for x in ent.split(':')[2:])
        exp = b['exp']
        got = {'platform': int(f['plat']), 'boot': int(f['boot']), 'media': int(f['media']), 'seg': int(f['seg']), 'sys': int(f['sys']), 'count': int(f['cnt'])}
        for k in ('platform', 'boot', 'media', 'seg', 'sys', 'count'):
            if got[k] != exp[k]:
                viol('C11.entry-field/%s' % k, 'entry for %s: %s is %d, requested %d (kwargs %s)' % (b['name'], k, got[k], exp[k], b['kw']))
        rba = int(f['rba'])
        data = b['data']
        stored = img[rba * 2048: rba * 2048 + len(data)]
        if b['kw'].get('boot_info_table'):
            want_bit = bytes.fromhex(ctx.driver.ask(['bit 16 %d %d %s' % (rba, len(data), data.hex())])[0])
            expect = data[:8] + want_bit + data[64:]
            if stored != expect:
                viol('C11.boot-info-table', 'boot file %s as stored does not carry the expected boot info table (pvd 16, sector %d, len %d)' % (b['name'], rba, len(data)))
        else:
            expect = data
            if stored != expect:
                viol('C11.load-rba', 'entry for %s: load address %d does not hold the boot file bytes' % (b['name'], rba))
        # read back through the API (own parser) under each remaining name
        if b['name'] not in unlinked and b['name'] != iso_only:
            iso2 = pycdlib.PyCdlib()
            try:
                iso2.open(path)
                out = io.BytesIO()
                iso2.get_file_from_iso_fp(out, iso_path=b['name'])
                if out.getvalue() != expect:
                    viol('C11.api-readback', 'boot file %s read back through the API differs from the stored bytes' % b['name'])
                iso2.close()
            except Exception as e:  # noqa
                viol('C11.api-open-fails/%s' % isoapi.exc_class(e), 'cannot read the bootable image back: %r' % e)
    # the catalog as a file under its names
    for ent in rep.entries:
        f = ent.split(':')
        if f[1] == 'F' and f[0] in ('I', 'J', 'U') and bytes.fromhex(f[2].split('/')[-1] or '00').lower().startswith(b'boot.cat'):
            if int(f[5]) != catsec or (f[0] != 'U' and int(f[3]) != 2048):
                viol('C11.catalog-file/%s' % f[0], 'catalog name %s points at sector %s (catalog is at %d)' % (ent[:60], f[5], catsec))
    ctx.count(key=scenario.seed, nontrivial=True, kind='boots=%d' % len(boots),
              sample={'cfg': cfg, 'boots': [{'name': b['name'], 'len': len(b['data']), 'kw': b['kw']} for b in boots][:3], 'hidden': hidden, 'unlinked': sorted(unlinked)})
    # second generation: the bootable image is opened again and edited; the boot data must survive an unrelated edit
    # (entries keep pointing at their boot files, nothing overlaps, hidden boot files keep exactly one copy)
    # recorded finding: a boot image that lost all its names is known to a reopened image only through its catalog entry,
    # i.e. through the number of 512-byte sectors the firmware loads; whatever lies beyond that is dropped on the next
    # write while the volume size still counts it (and a load size larger than the file makes the image grow beyond the
    # declared size).  Problems of generation 2 in exactly that situation carry the tag.
    short = [b['name'] for b in boots if b['name'] in unlinked and b['kw'].get('media_name') != 'floppy'
             and (b['exp']['count'] * 512 < len(b['data']) or -(-b['exp']['count'] * 512 // 2048) > -(-len(b['data']) // 2048))]
    def gviol(code, msg):
        if short:
            viol(NAMELESS_SIG, '%s [%s; nameless boot images %s]' % (msg, code, short))
        else:
            viol('C11.gen2/%s' % code, msg)
    with isoapi.frozen_time():
        g2 = pycdlib.PyCdlib()
        try:
            g2.open(path)
            kw = {'iso_path': '/ZZGEN2.;1'}
            if cfg.get('rr'):
                kw['rr_name'] = 'zzgen2'
            if cfg.get('joliet'):
                kw['joliet_path'] = '/zzgen2'
            if cfg.get('udf'):
                kw['udf_path'] = '/zzgen2'
            g2.add_fp(io.BytesIO(b'second generation'), 17, **kw)
            # ... and a directory, whose extent comes before all file data: every boot file moves
            dkw = {'iso_path': '/ZZGEN2D'}
            if cfg.get('rr'):
                dkw['rr_name'] = 'zzgen2d'
            if cfg.get('joliet'):
                dkw['joliet_path'] = '/zzgen2d'
            if cfg.get('udf'):
                dkw['udf_path'] = '/zzgen2d'
            g2.add_directory(**dkw)
            pg = os.path.join(tmpdir, 'g%d.iso' % rng.randrange(10 ** 12))
            g2.write(pg)
            g2.close()
            repg = isoapi.read_image(ctx, pg)
            imgg = open(pg, 'rb').read()
            os.unlink(pg)
            for e in repg.errs:
                if not e.startswith('unsorted-ecma') and histcheck.owns(e.split(':')[0], histcheck.BOOT_CODES + histcheck.ECMA_CODES):
                    gviol('reader-%s' % e.split(':')[0], 'after reopening and adding a file: %s' % e[:120])
            for code, detail in isoapi.check_allocs(repg):
                gviol('alloc-%s' % code, 'after reopening and adding a file: %s' % detail)
            bg = [x for x in repg.entries if x.startswith('B:')]
            if len(bg) != len(bents):
                gviol('entry-count', 'catalog has %d entries after reopen + edit, %d before' % (len(bg), len(bents)))
            for b, ent in zip(boots, bg):
                f = dict((x[:x.index('=')] if '=' in x else x, x[x.index('=') + 1:] if '=' in x else '') for x in ent.split(':')[1:]) if False else None
                flds = ent.split(':')
                rba2 = int([x for x in flds if x.startswith('rba')][0][3:])
                data = b['data']
                if b['name'] in unlinked and b['kw'].get('media_name') != 'floppy':
                    # a boot image without any name is known to a reopened image only through its entry: the bytes the
                    # entry's sector count covers must survive (a floppy image always has the size of its media; the size
                    # of a hard-disk image is a property of its own partition table, which the catalog does not record)
                    cnt = int([x for x in flds if x.startswith('cnt')][0][3:])
                    data = data[:cnt * 512]
                stored = imgg[rba2 * 2048: rba2 * 2048 + len(data)]
                if b['kw'].get('boot_info_table') and len(data) >= 64 and stored[:8] == data[:8] and stored[64:] == data[64:]:
                    # the table must describe the file where it is NOW (pvd 16, its sector, its length, its checksum)
                    want_bit = bytes.fromhex(ctx.driver.ask(['bit 16 %d %d %s' % (rba2, len(b['data']), b['data'].hex())])[0])
                    if len(data) == len(b['data']) and stored[8:64] != want_bit:
                        gviol('boot-info-table', 'after reopening and adding a file the boot info table of %s is stale (file now at sector %d)' % (b['name'], rba2))
                if stored[:8] != data[:8] or stored[64:] != data[64:]:
                    gviol('load-rba', 'after reopening and adding a file the entry for %s points at sector %d, which does not hold the boot file' % (b['name'], rba2))
        except Exception as e:  # noqa
            gviol('raises-%s' % isoapi.exc_class(e), 'reopening the bootable image and adding a file raised %r (hidden=%s unlinked=%s)' % (e, hidden, sorted(unlinked)))
            try:
                g2.close()
            except Exception:
                pass
    os.unlink(path)
    # rm_eltorito removes all of this and nothing else
    with isoapi.frozen_time():
        try:
            iso.rm_eltorito()
            out = io.BytesIO()
            iso.write_fp(out)
            rep2 = None
            p2 = os.path.join(tmpdir, 'r%d.iso' % rng.randrange(10 ** 12))
            open(p2, 'wb').write(out.getvalue())
            rep2 = isoapi.read_image(ctx, p2)
            os.unlink(p2)
            if any(e.startswith('B:') for e in rep2.entries) or 'bootcat' in rep2.info:
                viol('C11.rm-eltorito/leftover', 'after rm_eltorito the image still has El Torito structures')
            names1 = {tuple(e.split(':')[:3]) for e in rep.entries if not e.startswith('B:')}
            names2 = {tuple(e.split(':')[:3]) for e in rep2.entries}
            gone = {n for n in names1 - names2}
            bad = [n for n in gone if b'boot.cat' not in bytes.fromhex(n[2].split('/')[-1] or '00').lower()]
            if bad or names2 - names1:
                viol('C11.rm-eltorito/other-entries', 'rm_eltorito changed entries other than the catalog: removed %s added %s' % (bad[:3], list(names2 - names1)[:3]))
            # the former boot files are ordinary files again: the bytes that were supplied, no boot info table
            img2 = out.getvalue()
            ents2 = isoapi.parse_entries([e for e in rep2.entries if e.startswith('I:F:')])
            for b in boots:
                if b['name'] in unlinked or b['name'] == iso_only and False:
                    continue
                key = ('I', 'F', '/'.join([''] + [c.encode('utf-8').hex() for c in b['name'].split('/') if c]))
                a = ents2.get(key)
                if a is None or a['loc'] in ('0', 'b-'):
                    continue
                loc = int(a['loc'])
                if img2[loc * 2048: loc * 2048 + len(b['data'])] != b['data']:
                    viol('C11.rm-eltorito/boot-file-content', 'after rm_eltorito the former boot file %s does not hold the bytes it was given%s' % (
                        b['name'], ' (the boot info table is still patched in)' if b['kw'].get('boot_info_table') else ''))
            for e in rep2.errs:
                if not e.startswith('unsorted-ecma'):     # ordering is C03's recorded finding, nothing to do with El Torito
                    viol('C11.rm-eltorito/reader-%s' % e.split(':')[0], 'after rm_eltorito: %s' % e[:120])
            for code, detail in isoapi.check_allocs(rep2):
                viol('C11.rm-eltorito/alloc-%s' % code, 'after rm_eltorito: %s' % detail)
        except Exception as e:  # noqa
            viol('C11.rm-eltorito/raises-%s' % type(e).__name__, 'rm_eltorito / write afterwards raised %r (hidden=%s unlinked=%s)' % (e, hidden, unlinked))
    s.close()


def run_fn(ctx):
    from pycdlib import eltorito
    import pycdlib
    rng = ctx.rng
    reqs, impl = [], []
    for _ in range(150 if ctx.quick else 3000):
        data = bytes(rng.randrange(256) for _ in range(rng.choice([2, 31, 32, 33, 64])))
        reqs.append('eltcsum %s' % data.hex())
        impl.append(str(eltorito.EltoritoValidationEntry._checksum(data)))
    iso = pycdlib.PyCdlib()
    iso.new()
    for _ in range(60 if ctx.quick else 1000):
        n = rng.choice([64, 65, 100, 2047, 2048, 2049, 5000])
        data = bytes(rng.randrange(256) for _ in range(n))
        reqs.append('bitcsum %s' % data.hex())
        impl.append(str(iso._calculate_eltorito_boot_info_table_csum(io.BytesIO(data), n)))
    for media in ('noemul', 'floppy', 'hdemul', 'bogus'):
        for cnt in (0, 1, 4, 2400, 2880, 5760, 2401, 65535):
            e = eltorito.EltoritoEntry()
            try:
                e.new(cnt, 0, media, 0, True)
                r = '%d %d' % (e.boot_media_type, e.sector_count)
            except Exception as ex:  # noqa
                r = isoapi.exc_class(ex)
            reqs.append('eltmedia %s %d' % (media, cnt))
            impl.append(r)
    model = ctx.driver.ask(reqs)
    for rq, a, b in zip(reqs, impl, model):
        ctx.count(key=rq, kind=rq.split()[0])
        if a != b:
            ctx.disagree('S-fn/' + rq.split()[0], '%s: impl=%s model=%s' % (rq[:60], a, b), {'kind': 'fn', 'request': rq})
    ctx.traces_validated += len(reqs)
    iso.close()


def probe_nameless(ctx):
    """the recorded finding, deterministically: a boot file of 5000 bytes loaded with 4 sectors loses its name; the image
    is written, opened, edited and written again"""
    import pycdlib
    tmpdir = tempfile.mkdtemp(prefix='verif-c11p-')
    try:
        with isoapi.frozen_time():
            iso = pycdlib.PyCdlib()
            iso.new(interchange_level=3)
            iso.add_fp(io.BytesIO(b'\x07' * 5000), 5000, '/B0.;1')
            iso.add_eltorito('/B0.;1', boot_load_size=4)
            iso.rm_hard_link(iso_path='/B0.;1')
            out = io.BytesIO()
            iso.write_fp(out)
            iso.close()
            g = pycdlib.PyCdlib()
            g.open_fp(io.BytesIO(out.getvalue()))
            g.add_fp(io.BytesIO(b'x' * 10), 10, '/Z.;1')
            p = os.path.join(tmpdir, 'p.iso')
            g.write(p)
            g.close()
        rep = isoapi.read_image(ctx, p)
        data = open(p, 'rb').read()
        ctx.count(key='probe-nameless', nontrivial=True, kind='probe:nameless-boot-image')
        bad = [d for c, d in isoapi.check_allocs(rep)]
        rba = [int([x for x in e.split(':') if x.startswith('rba')][0][3:]) for e in rep.entries if e.startswith('B:')]
        kept = data[rba[0] * 2048: rba[0] * 2048 + 5000] == b'\x07' * 5000 if rba else False
        if bad or not kept:
            ctx.violation(NAMELESS_SIG, 'boot file of 5000 bytes, load size 4 sectors, no name left: after open + add_fp + write %s%s' % (
                'the image keeps only the loaded sectors of it' if not kept else '', ('; ' + bad[0]) if bad else ''), {'kind': 'probe-nameless'})
    finally:
        shutil.rmtree(tmpdir, ignore_errors=True)


def probe_shared_hidden(ctx):
    """two catalog entries (BIOS and UEFI) for one boot file of exactly its load size; the file loses its names; the image
    is written, opened, edited and written again: one copy of the content, both entries on it, sound allocation"""
    import pycdlib
    tmpdir = tempfile.mkdtemp(prefix='verif-c11q-')
    try:
        for cfgkw in ({}, {'joliet': 3}, {'udf': '2.60'}):
            with isoapi.frozen_time():
                iso = pycdlib.PyCdlib()
                iso.new(interchange_level=3, **cfgkw)
                names = {'iso_path': '/B0.;1'}
                if 'joliet' in cfgkw:
                    names['joliet_path'] = '/b0'
                if 'udf' in cfgkw:
                    names['udf_path'] = '/b0'
                iso.add_fp(io.BytesIO(b'\x09' * 4096), 4096, **names)
                iso.add_eltorito('/B0.;1')
                iso.add_eltorito('/B0.;1', efi=True)
                for k, v in names.items():
                    iso.rm_hard_link(**{k: v})
                out = io.BytesIO()
                iso.write_fp(out)
                iso.close()
                g = pycdlib.PyCdlib()
                rp = {'kind': 'probe-shared-hidden'}
                try:
                    g.open_fp(io.BytesIO(out.getvalue()))
                    g.add_fp(io.BytesIO(b'x' * 10), 10, '/Z.;1')
                    p = os.path.join(tmpdir, 'q.iso')
                    g.write(p)
                    g.close()
                except Exception as e:  # noqa
                    ctx.violation('C11.gen2/shared-hidden/raises-%s' % isoapi.exc_class(e), 'two entries on one nameless boot file (%s): open + add_fp + write raised %r' % (cfgkw, e), rp)
                    continue
            rep = isoapi.read_image(ctx, p)
            data = open(p, 'rb').read()
            ctx.count(key=('probe-shared-hidden', repr(cfgkw)), nontrivial=True, kind='probe:shared-hidden-boot-image')
            for c, d in isoapi.check_allocs(rep):
                ctx.violation('C11.gen2/shared-hidden/alloc-%s' % c, 'two entries on one nameless boot file (%s): %s' % (cfgkw, d), rp)
            rbas = [int([x for x in e.split(':') if x.startswith('rba')][0][3:]) for e in rep.entries if e.startswith('B:')]
            if len(rbas) != 2 or len(set(rbas)) != 1 or data[rbas[0] * 2048: rbas[0] * 2048 + 4096] != b'\x09' * 4096:
                ctx.violation('C11.gen2/shared-hidden/load-rba', 'two entries on one nameless boot file (%s): load addresses %s after open + edit + write' % (cfgkw, rbas), rp)
            if data.count(b'\x09' * 4096) != 1:
                ctx.violation('C11.gen2/shared-hidden/stored-twice', 'the shared boot content is stored %d times after open + edit + write (%s)' % (data.count(b'\x09' * 4096), cfgkw), rp)
    finally:
        shutil.rmtree(tmpdir, ignore_errors=True)


def probe_hidden_bit(ctx):
    """a boot file with a boot info table, of a length that is no multiple of the sector size, loses its names; the image is
    written, opened, a directory is added (every file moves) and it is written again: the table must describe the file at
    its new place"""
    import pycdlib
    tmpdir = tempfile.mkdtemp(prefix='verif-c11r-')
    rp = {'kind': 'probe-hidden-bit'}
    try:
        for n in (5000, 2049, 6144):
            data = bytes((j * 7 + 1) % 251 for j in range(n))
            with isoapi.frozen_time():
                iso = pycdlib.PyCdlib()
                iso.new(interchange_level=3)
                iso.add_fp(io.BytesIO(data), n, '/B0.;1')
                iso.add_eltorito('/B0.;1', boot_info_table=True)
                iso.rm_hard_link(iso_path='/B0.;1')
                out = io.BytesIO()
                iso.write_fp(out)
                iso.close()
                g = pycdlib.PyCdlib()
                try:
                    g.open_fp(io.BytesIO(out.getvalue()))
                    g.add_directory('/NEWDIR')
                    g.add_fp(io.BytesIO(b'x' * 3000), 3000, '/NEWDIR/Z.;1')
                    p = os.path.join(tmpdir, 'r.iso')
                    g.write(p)
                    g.close()
                except Exception as e:  # noqa
                    ctx.violation('C11.gen2/hidden-bit/raises-%s' % isoapi.exc_class(e), 'hidden boot file with boot info table (%d bytes): open + edit + write raised %r' % (n, e), rp)
                    continue
            rep = isoapi.read_image(ctx, p)
            img = open(p, 'rb').read()
            ctx.count(key=('probe-hidden-bit', n), nontrivial=True, kind='probe:hidden-boot-info-table')
            rbas = [int([x for x in e.split(':') if x.startswith('rba')][0][3:]) for e in rep.entries if e.startswith('B:')]
            if len(rbas) != 1:
                ctx.violation('C11.gen2/hidden-bit/entry-count', 'catalog has %d entries' % len(rbas), rp)
                continue
            want = bytes.fromhex(ctx.driver.ask(['bit 16 %d %d %s' % (rbas[0], n, data.hex())])[0])
            stored = img[rbas[0] * 2048: rbas[0] * 2048 + n]
            if stored[:8] != data[:8] or stored[64:] != data[64:]:
                ctx.violation('C11.gen2/hidden-bit/content', 'the hidden boot file (%d bytes) is not at its load address %d any more' % (n, rbas[0]), rp)
            elif stored[8:64] != want:
                ctx.violation('C11.gen2/hidden-bit/stale-table', 'boot info table of the hidden boot file (%d bytes, now at sector %d) still says sector %d' % (
                    n, rbas[0], struct.unpack_from('<L', stored, 12)[0]), rp)
            for c, d in isoapi.check_allocs(rep):
                ctx.violation('C11.gen2/hidden-bit/alloc-%s' % c, 'hidden boot file with boot info table (%d bytes): %s' % (n, d), rp)
    finally:
        shutil.rmtree(tmpdir, ignore_errors=True)


def cat_canon(cat):
    """the parsed catalog of a PyCdlib object in the notation of the model's `eltparse`"""
    def ent(e):
        return '%d,%d,%d,%d,%d,%d' % (1 if e.boot_indicator == 0x88 else 0, e.boot_media_type, e.load_segment, e.system_type, e.sector_count, e.load_rba)
    secs = ['%d,%d,%d[%s]' % (s.header_indicator, s.platform_id, s.num_section_entries, '/'.join(ent(e) for e in s.section_entries)) for s in cat.sections]
    return 'plat%d ini%s secs%s alone%s' % (cat.validation_entry.platform_id, ent(cat.initial_entry), ';'.join(secs), '/'.join(ent(e) for e in cat.standalone_entries))


def find_catalog_sector(data):
    """sector of the boot catalog according to the El Torito boot record, wherever in the descriptor set it is (None: no
    boot record)"""
    sec = 16
    while (sec + 1) * 2048 <= len(data) and data[sec * 2048 + 1: sec * 2048 + 6] == b'CD001':
        if data[sec * 2048] == 0 and data[sec * 2048 + 7: sec * 2048 + 30] == b'EL TORITO SPECIFICATION':
            cat = struct.unpack_from('<L', data, sec * 2048 + 71)[0]
            return cat if (cat + 1) * 2048 <= len(data) else None
        if data[sec * 2048] == 255:
            break
        sec += 1
    return None


def catalog_read_corr(ctx, data, label, rp, must_open=False):
    """correspondence for `Boot.parseCatalog` (theorem catalog_parse_roundtrip): the catalog pycdlib reconstructs when it
    opens `data` against the model run on the bytes from the catalog's sector on."""
    import pycdlib
    catsec = find_catalog_sector(data)
    if catsec is None:
        return
    chunk = data[catsec * 2048: catsec * 2048 + 4096]
    model = ctx.driver.ask(['eltparse %s' % (chunk.hex() or '-')])[0]
    g = pycdlib.PyCdlib()
    try:
        g.open_fp(io.BytesIO(data))
    except Exception as e:  # noqa
        ctx.count(key=('catread', label, model == 'bad'), nontrivial=True, kind='catalog-read:open-fails:model-%s' % ('bad' if model == 'bad' else 'ok'))
        if must_open:
            ctx.violation('C11.catalog-read/reopen-fails', 'an image written by the library (%s) cannot be opened: %s %s; the model reads its catalog as %s' % (
                label, isoapi.exc_class(e), str(e)[:80], model[:120]), rp)
        return
    try:
        impl = cat_canon(g.eltorito_boot_catalog) if g.eltorito_boot_catalog is not None else 'none'
    finally:
        g.close()
    ctx.count(key=('catread', label, impl), nontrivial=True, kind='catalog-read:agree' if impl == model else 'catalog-read:differ')
    ctx.traces_validated += 1
    if impl != model:
        ctx.disagree('S-boot/eltparse', 'catalog as read: impl=%s model=%s (%s)' % (impl[:160], model[:160], label), rp)


def probe_full_catalog(ctx):
    """a catalog that fills its sector (initial entry + 31 sections, the library's limit) has no room for a terminating
    empty entry: what follows it on the image must not matter.  The sector after the catalog holds a file whose first
    byte is chosen to look like nothing / a section entry / a section header / an extension."""
    import pycdlib
    for n in (30, 31):
        for first in (0x42, 0x88, 0x90, 0x91, 0x44, 0x00):
            rp = {'kind': 'probe-full-catalog'}
            with isoapi.frozen_time():
                iso = pycdlib.PyCdlib()
                iso.new(interchange_level=3)
                # the catalog is placed before the files; AAAA is the first file after it
                iso.add_fp(io.BytesIO(bytes([first]) + b'\x01' * 2047), 2048, '/AAAA.;1')
                for i in range(n + 1):
                    iso.add_fp(io.BytesIO(bytes([0x30 + i % 10]) * 2048), 2048, '/B%02d.;1' % i)
                try:
                    for i in range(n + 1):
                        iso.add_eltorito('/B%02d.;1' % i, efi=(i % 2 == 1), boot_load_size=4, bootable=(i != 3))
                    out = io.BytesIO()
                    iso.write_fp(out)
                except Exception as e:  # noqa
                    ctx.violation('C11.full-catalog/build-raises', '%d boot entries: %r' % (n + 1, e), rp)
                    continue
                finally:
                    iso.close()
            data = out.getvalue()
            ctx.count(key=('full-catalog', n, first), nontrivial=True, kind='probe:full-catalog:%d' % (n + 1))
            catalog_read_corr(ctx, data, '%d entries, next sector starts with %#x' % (n + 1, first), rp, must_open=True)
            g = pycdlib.PyCdlib()
            try:
                g.open_fp(io.BytesIO(data))
                k = 1 + sum(len(x.section_entries) for x in g.eltorito_boot_catalog.sections) + len(g.eltorito_boot_catalog.standalone_entries)
                if k != n + 1:
                    ctx.violation('C11.full-catalog/entry-count', '%d boot entries were recorded, the reopened image has %d (the sector after the catalog starts with %#x)' % (
                        n + 1, k, first), rp)
                g.close()
            except Exception:  # noqa
                pass        # reported above


def probe_catalog_names(ctx):
    """(1) a user file with the boot catalog's name in another directory of the same name is NOT the boot catalog;
    (2) a name of the boot catalog taken away with rm_hard_link, then rm_eltorito: exactly El Torito goes away"""
    import pycdlib
    rp = {'kind': 'probe-catalog-names'}
    with isoapi.frozen_time():
        iso = pycdlib.PyCdlib()
        iso.new()
        for d in ('/A', '/A/DIR1', '/B', '/B/DIR1'):
            iso.add_directory(d)
        iso.add_fp(io.BytesIO(b'user file\n'), 10, '/B/DIR1/BOOT.CAT;1')
        iso.add_fp(io.BytesIO(b'b' * 2048), 2048, '/BOOT.;1')
        iso.add_eltorito('/BOOT.;1', bootcatfile='/A/DIR1/BOOT.CAT;1')
        for stage in ('live', 'reopened'):
            r = io.BytesIO()
            try:
                iso.get_file_from_iso_fp(r, iso_path='/B/DIR1/BOOT.CAT;1')
            except Exception as e:  # noqa
                r = io.BytesIO(repr(e).encode())
            ctx.count(key=('catalog-namesake', stage), nontrivial=True, kind='probe:catalog-namesake')
            if r.getvalue() != b'user file\n':
                ctx.violation('C11.catalog-namesake', 'a 10-byte user file /B/DIR1/BOOT.CAT;1 reads back as %d bytes (%s) while the boot catalog is /A/DIR1/BOOT.CAT;1' % (
                    len(r.getvalue()), stage), rp)
            if stage == 'live':
                out = io.BytesIO()
                iso.write_fp(out)
                iso.close()
                iso = pycdlib.PyCdlib()
                iso.open_fp(io.BytesIO(out.getvalue()))
        iso.close()
        for kw, names, rms in (({}, {}, [{'iso_path': '/BOOT.CAT;1'}]),
                               ({'joliet': 3}, {'joliet_bootcatfile': '/boot.cat'}, [{'joliet_path': '/boot.cat'}]),
                               ({'udf': '2.60'}, {'udf_bootcatfile': '/boot.cat'}, [{'udf_path': '/boot.cat'}, {'iso_path': '/BOOT.CAT;1'}]),
                               ({'rock_ridge': '1.09'}, {}, [{'iso_path': '/BOOT.CAT;1'}])):
            iso = pycdlib.PyCdlib()
            iso.new(**kw)
            for n in ('BOOT', 'AAA', 'CCC'):
                iso.add_fp(io.BytesIO(n.encode() + b'\n'), len(n) + 1, '/%s.;1' % n, **({'rr_name': n.lower()} if 'rock_ridge' in kw else {}))
            try:
                iso.add_eltorito('/BOOT.;1', '/BOOT.CAT;1', **names)
                for r_ in rms:
                    iso.rm_hard_link(**r_)
                iso.rm_eltorito()
                out = io.BytesIO()
                iso.write_fp(out)
                g = pycdlib.PyCdlib()
                g.open_fp(io.BytesIO(out.getvalue()))
                left = sorted(c.file_identifier() for c in g.list_children(iso_path='/') if not c.is_dot() and not c.is_dotdot())
                space = g.pvd.space_size
                g.close()
                if left != [b'AAA.;1', b'BOOT.;1', b'CCC.;1'] or space * 2048 != len(out.getvalue()):
                    ctx.violation('C11.catalog-unlink-then-rm/other-entries', 'after rm_hard_link of the catalog name(s) and rm_eltorito the root holds %s, image %d sectors, declared %d (%s)' % (
                        left, len(out.getvalue()) // 2048, space, kw), rp)
            except Exception as e:  # noqa
                ctx.violation('C11.catalog-unlink-then-rm/%s' % isoapi.exc_class(e), 'rm_hard_link of the catalog name(s), rm_eltorito, write, open: %r (%s)' % (e, kw), rp)
            finally:
                try:
                    iso.close()
                except Exception:  # noqa
                    pass
            ctx.count(key=('catalog-unlink', tuple(sorted(kw))), nontrivial=True, kind='probe:catalog-unlink-then-rm')


def probe_inplace_boot_table(ctx):
    """a boot file with a boot info table replaced in place (same number of sectors, other length): the table as stored
    and as read back describes the NEW file - sector, length and checksum (model `bit`)"""
    import pycdlib
    tmpdir = tempfile.mkdtemp(prefix='verif-c11i-')
    path = os.path.join(tmpdir, 'i.iso')
    try:
        for old_len, new_len in ((3000, 2500), (3000, 3000), (3000, 4096), (2048, 100), (100, 2048)):
            rp = {'kind': 'probe-inplace-boot-table', 'old': old_len, 'new': new_len}
            with isoapi.frozen_time():
                iso = pycdlib.PyCdlib()
                iso.new(interchange_level=3)
                iso.add_fp(io.BytesIO(bytes((i * 5 + 1) % 251 for i in range(old_len))), old_len, '/BOOT.;1')
                iso.add_eltorito('/BOOT.;1', boot_info_table=True, boot_load_size=4)
                iso.write(path)
                iso.close()
            new = bytes((i * 3 + 7) % 253 for i in range(new_len))
            g = pycdlib.PyCdlib()
            try:
                g.open(path, 'r+b')
                g.modify_file_in_place(io.BytesIO(new), new_len, '/BOOT.;1')
                g.close()
            except Exception as e:  # noqa
                ctx.violation('C11.inplace-boot-table/%s' % isoapi.exc_class(e), 'modify_file_in_place on a boot file with a boot info table (%d -> %d bytes): %r' % (old_len, new_len, e), rp)
                continue
            ctx.count(key=('inplace-boot-table', old_len, new_len), nontrivial=old_len != new_len, kind='probe:inplace-boot-table')
            rep = isoapi.read_image(ctx, path)
            bents = [e for e in rep.entries if e.startswith('B:')]
            if not bents:
                ctx.violation('C11.inplace-boot-table/no-entry', 'no boot entry after the in-place replacement', rp)
                continue
            rba = int([x for x in bents[0].split(':') if x.startswith('rba')][0][3:])
            want = bytes.fromhex(ctx.driver.ask(['bit 16 %d %d %s' % (rba, new_len, new.hex())])[0])
            expect = new[:8] + want + new[64:]
            stored = open(path, 'rb').read()[rba * 2048: rba * 2048 + len(expect)]
            h = pycdlib.PyCdlib()
            h.open(path)
            r = io.BytesIO()
            h.get_file_from_iso_fp(r, iso_path='/BOOT.;1')
            h.close()
            if stored != expect:
                ctx.violation('C11.inplace-boot-table/stored', 'after replacing the boot file in place (%d -> %d bytes) the stored boot info table is %s, expected %s' % (
                    old_len, new_len, stored[8:24].hex(), expect[8:24].hex()), rp)
            if r.getvalue() != expect[:new_len]:
                ctx.violation('C11.inplace-boot-table/read-back', 'after replacing the boot file in place (%d -> %d bytes) the file reads back with table %s, expected %s' % (
                    old_len, new_len, r.getvalue()[8:24].hex(), expect[8:24].hex()), rp)
    finally:
        shutil.rmtree(tmpdir, ignore_errors=True)


def run(ctx):
    run_fn(ctx)
    probe_full_catalog(ctx)
    probe_catalog_names(ctx)
    probe_inplace_boot_table(ctx)
    probe_nameless(ctx)
    probe_shared_hidden(ctx)
    probe_hidden_bit(ctx)
    tmpdir = tempfile.mkdtemp(prefix='verif-c11-')
    try:
        for _ in range(60 if ctx.quick else 1500):
            scenario.seed = ctx.rng.randrange(2 ** 62)
            scenario(ctx, random.Random(scenario.seed), tmpdir)
            if ctx.time_left() < 20:
                break
    finally:
        shutil.rmtree(tmpdir, ignore_errors=True)


def replay(ctx, obj):
    r = obj.get('replay', obj)
    tmpdir = tempfile.mkdtemp(prefix='verif-c11-')
    try:
        if r.get('kind') == 'probe-nameless':
            probe_nameless(ctx)
        elif r.get('kind') == 'probe-shared-hidden':
            probe_shared_hidden(ctx)
        elif r.get('kind') == 'probe-inplace-boot-table':
            probe_inplace_boot_table(ctx)
        elif r.get('kind') == 'probe-catalog-names':
            probe_catalog_names(ctx)
        elif r.get('kind') == 'probe-full-catalog':
            probe_full_catalog(ctx)
        elif r.get('kind') == 'probe-hidden-bit':
            probe_hidden_bit(ctx)
        elif r.get('kind') == 'scenario':
            scenario.seed = r['seed']
            scenario(ctx, random.Random(r['seed']), tmpdir)
        else:
            core.log('model:', ctx.driver.ask([r['request']])[0])
    finally:
        shutil.rmtree(tmpdir, ignore_errors=True)
    for v in ctx.violations:
        core.log('violation:', v['signature'], v['summary'])
    return [v['signature'] for v in ctx.violations]
