"""
C08 — Rock Ridge fidelity for an independent SUSP/RRIP reader.  Theorems: Props/C08.lean.

S-fn   `rockridge.RockRidge().new(...)` on the real code vs `Susp.rrNew`: which entries go into the directory record and
       which into the continuation area, every NM piece and SL component with its flags, the new record length and
       `len_cont_area` — over name lengths 1..1100, symlink target shapes (absolute, ".", "..", empty and 255+ byte
       components, many components), the three versions, XA/first-record variants and starting record lengths.
       `headervd.add_rr_ce_entry` sequences vs `Susp.addCe`.
Oracle the independent Lean SUSP reader on written images (harness/histcheck): NM/SL reassembly, PX mode/nlink, CE
       pointers inside their sector and pairwise disjoint, CL/PL/RE consistency, ER/SP presence; view = Spec view.
"""
import random

import io
import os
import shutil
import tempfile
from harness import core, gen, histcheck, isoapi
from harness.props import c01

LEAN_MODULES = ['Pycdlib.Props.C08', 'Pycdlib.Props.C08Assign', 'Pycdlib.Props.C08Alloc']
THEOREMS = ['Pycdlib.Susp.chunks_concat', 'Pycdlib.Susp.chunks_len', 'Pycdlib.Susp.addName_concat', 'Pycdlib.Susp.addName_piece_len',
            'Pycdlib.Susp.put_cur_le', 'Pycdlib.Susp.findGap_sound', 'Pycdlib.Susp.addEntry_disjoint', 'Pycdlib.Susp.susp_consts_tie',
            'Pycdlib.Susp.sl_reassembles', 'Pycdlib.Susp.rrNew_records', 'Pycdlib.Susp.newSymlink_noCE', 'Pycdlib.Susp.assign_noCE', 'Pycdlib.Susp.sl_chain',
            'Pycdlib.Susp.addEntry_ok', 'Pycdlib.Susp.removeEntry_ok', 'Pycdlib.Iso.ceb_ok']
PARTIAL = {
    'link_roundtrip': 'proved for the model of _new_symlink (sl_reassembles, every target and every amount of room left); that the '
    'model is _new_symlink is the S-fn correspondence over the target-shape grid; the byte encoding of SL records is the reader',
    'reloc_tree': 'deep-directory relocation (CL/PL/RE) is checked by the reader on images only',
}
TRUSTED = ['Model/Reader.lean SUSP part as the independent RRIP reader']
ASSUMPTIONS = []
RULE = ('S-fn: grid name length x starting record length x version x first/cl/re/pl x target shapes; distinct = distinct argument tuple; '
        'non-trivial = the layout uses a continuation area or splits a name/component. Histories: Rock Ridge forced on')
LEVEL_TEXT = ('Lean 4 theorems: NM pieces of any name concatenate back to the name, every piece fits its entry, entries placed in the '
              'directory record never exceed 254 bytes, the continuation-block allocator returns an offset that overlaps no existing '
              'entry and stays inside the block; the SL entries of any symbolic link reassemble to the target and form a CONTINUE chain '
              '(sl_reassembles, sl_chain). The entry layout model is tied to rockridge.py by differential execution over a '
              'length/shape grid; images are decoded by the independent Lean SUSP reader.')
LEVEL_NOTE = 'Trusted: Lean kernel; reader; grid generator. Symlink reassembly and relocation: see PARTIAL.'
TECHNIQUE = 'Lean 4 proofs on the SUSP layout model + grid correspondence with RockRidge.new + independent Lean SUSP reader'


def render_entries(entries):
    out = []
    e = entries
    if e.sp_record is not None:
        out.append('SP:7')
    if e.rr_record is not None:
        out.append('RR:5')
    for nm in e.nm_records:
        out.append('NM:%d:%s' % (nm.posix_name_flags & 1, core.hexs(nm.posix_name)))
    if e.px_record is not None:
        out.append('PX:%d' % len(e.px_record.record('1.12' if False else '1.09')) if False else 'PX')
    return out


def impl_layout(first, ver, name, target, cl, re_, pl, cur):
    from pycdlib import rockridge
    rr = rockridge.RockRidge()
    try:
        new_len = rr.new(first, name, 0o100444, target if target is not None else b'', ver, cl, re_, pl, 0, cur, {}, 1700000000.0)
    except Exception as e:  # noqa
        return isoapi.exc_class(e)

    def ents(e):
        out = []
        if e.sp_record is not None:
            out.append('SP:7')
        if e.rr_record is not None:
            out.append('RR:5')
        for nm in e.nm_records:
            out.append('NM:%d:%s' % (nm.posix_name_flags & 1, core.hexs(nm.posix_name)))
        if e.px_record is not None:
            out.append('PX:%d' % (44 if ver == '1.12' else 36))
        for sl in e.sl_records:
            out.append('SL:%d:%s' % (sl.flags & 1, '+'.join('%d.%s' % (c.flags, core.hexs(c.data if c.flags in (0, 1) else b'')) for c in sl.symlink_components)))
        if e.tf_record is not None:
            out.append('TF:26')
        if e.cl_record is not None:
            out.append('CL:12')
        if e.re_record is not None:
            out.append('RE:4')
        if e.pl_record is not None:
            out.append('PL:12')
        if e.er_record is not None:
            out.append('ER:%d' % len(e.er_record.record()))
        return out
    has_ce = rr.dr_entries.ce_record is not None
    ce_len = rr.dr_entries.ce_record.len_cont_area if has_ce else 0
    # entry order inside each area is the order record() emits; compare as produced by _record()
    name_all = rr.name()
    tgt = rr.symlink_path() if rr.is_symlink() else b''
    return '%d %d %d | %s | %s | %s %s' % (new_len, 1 if has_ce else 0, ce_len, ' '.join(ents(rr.dr_entries)), ' '.join(ents(rr.ce_entries)),
                                           core.hexs(name_all), core.hexs(tgt)), rr


def grid(ctx):
    rng = ctx.rng
    names = []
    lens = list(range(1, 60, 7)) + [150, 152, 170, 180, 190, 195, 200, 205, 210, 215, 220, 249, 250, 251, 255, 256, 300, 499, 500, 501, 750, 1000, 1100]
    if not ctx.quick:
        lens = list(range(1, 320)) + [499, 500, 501, 749, 750, 751, 1000, 1100]
    for ln in lens:
        names.append(bytes((97 + (i * 7 + ln) % 26) for i in range(ln)))
    targets = [None, b'a', b'/', b'/a', b'.', b'..', b'../..', b'a/b/c', b'a//b', b'a/', b'/a/', b'./a', b'x' * 100, b'x' * 200, b'x' * 248,
               b'x' * 249, b'x' * 250, b'x' * 251, b'x' * 255, b'x' * 256, b'x' * 600, b'/'.join([b'dir'] * 40), b'/'.join([b'y' * 120] * 5),
               b'../' * 30 + b'f', b'a/' + b'z' * 300 + b'/b', b'/' + b'w' * 249, b'q' * 100 + b'/' + b'r' * 160]
    curs = [34, 36, 40, 48, 50, 60, 66, 100, 150, 200, 220, 226, 240]
    for name in names:
        for ver in ('1.09', '1.10', '1.12'):
            cur = rng.choice(curs)
            t = rng.choice(targets)
            flags = rng.choice([(0, 0, 0, 0), (0, 0, 0, 0), (1, 0, 0, 0), (0, 1, 0, 0), (0, 0, 1, 0), (0, 0, 0, 1)])
            yield (bool(flags[0]), ver, name, t) + tuple(bool(x) for x in flags[1:]) + (cur,)
    for t in targets:
        for ver in ('1.09', '1.12'):
            for cur in (36, 48, 100, 200, 226):
                for name in (b'n', b'n' * 150, b'n' * 300):
                    yield (False, ver, name, t, False, False, False, cur)


def run_fn(ctx):
    reqs, impl, cases = [], [], []
    for case in grid(ctx):
        first, ver, name, target, cl, re_, pl, cur = case
        r = impl_layout(first, ver, name, target, cl, re_, pl, cur)
        if isinstance(r, tuple):
            text, rr = r
        else:
            text, rr = r, None
        reqs.append('rrnew %d %s %s %s %d %d %d %d' % (first, ver, core.hexs(name), 'none' if target is None else core.hexs(target), cl, re_, pl, cur))
        impl.append(text)
        cases.append((case, rr))
    model = ctx.driver.ask(reqs)
    for rq, a, b, (case, rr) in zip(reqs, impl, model, cases):
        first, ver, name, target, cl, re_, pl, cur = case
        nontriv = ' 1 ' in a[:12] or a.count('NM:') > 1 or a.count('SL:') > 1
        ctx.count(key=rq, nontrivial=nontriv, kind='rrnew:%s:%s' % (ver, 'ce' if ' 1 ' in a[:12] else 'dr'),
                  sample={'request': rq[:120], 'impl': a[:160]} if nontriv else None)
        if a != b:
            ctx.disagree('S-fn/rrnew', '%s: impl=%s model=%s' % (rq[:90], a[:120], b[:120]), {'kind': 'rrnew', 'request': rq})
        # property clauses on the implementation alone
        if rr is not None:
            if rr.name() != name:
                ctx.violation('C08.name-roundtrip', 'RockRidge.new: reassembled name differs for a %d-byte name' % len(name), {'kind': 'rrnew', 'request': rq})
            if target is not None and target != b'' and rr.symlink_path() != target:
                ctx.violation('C08.link-roundtrip', 'RockRidge.new: reassembled symlink target differs (%r...)' % target[:30], {'kind': 'rrnew', 'request': rq})
            drb, ceb = rr.record_dr_entries(), rr.record_ce_entries()
            if rr.dr_entries.ce_record is not None and len(ceb) != rr.dr_entries.ce_record.len_cont_area:
                ctx.violation('C08.ce-length', 'continuation area is %d bytes but CE says %d' % (len(ceb), rr.dr_entries.ce_record.len_cont_area), {'kind': 'rrnew', 'request': rq})
            if len(ceb) > 2048:
                ctx.violation('C08.ce-too-long', 'continuation area of %d bytes cannot fit a sector' % len(ceb), {'kind': 'rrnew', 'request': rq})
    ctx.traces_validated += len(reqs)
    # CE block allocator
    from pycdlib import headervd
    reqs, impl = [], []
    for _ in range(200 if ctx.quick else 3000):
        lens = [ctx.rng.choice([28, 36, 100, 237, 255, 500, 900, 1500, 2048]) for _ in range(ctx.rng.randint(1, 14))]
        pvd = headervd.pvd_factory(b'', b'', 1, 1, 2048, b'', b'', b'', b'', b'', b'', b'', 0.0, b'', False)
        out = []
        for ln in lens:
            added, block, off = pvd.add_rr_ce_entry(ln)
            out.append('%d:%d:%d' % (1 if added else 0, pvd.rr_ce_blocks.index(block), off))
        reqs.append('ceadd 2048 %s' % ','.join(map(str, lens)))
        impl.append(' '.join(out))
    model = ctx.driver.ask(reqs)
    for rq, a, b in zip(reqs, impl, model):
        ctx.count(key=rq, kind='ceadd')
        if a != b:
            ctx.disagree('S-fn/ceadd', '%s: impl=%s model=%s' % (rq, a, b), {'kind': 'ceadd', 'request': rq})


def post(ctx, c, rep):
    rp = histcheck.replay_obj(c)
    for e in rep.errs:
        code = e.split(':')[0]
        if histcheck.owns(code, histcheck.RR_CODES):
            ctx.violation('C08.rr/%s' % code, 'independent SUSP reader: %s' % e[:200], rp)
    for code, detail in isoapi.check_allocs(rep):
        if code == 'ce-overlap':
            ctx.violation('C08.rr/ce-overlap', detail, rp)


def probe_relocated_name(ctx):
    """set_relocated_name with Rock Ridge names of every length class: the relocation directory is a record like any other,
    its continuation area must be allocated (not left at sector 0) and its name must be recovered"""
    import pycdlib
    tmpdir = tempfile.mkdtemp(prefix='verif-c08p-')
    try:
        for ver in ('1.09', '1.12'):
            for ln in (8, 100, 150, 200, 300, 1000):
                rp = {'kind': 'probe-relocated-name', 'ver': ver, 'len': ln}
                nm = 'm' * ln
                with isoapi.frozen_time():
                    iso = pycdlib.PyCdlib()
                    iso.new(interchange_level=3, rock_ridge=ver)
                    try:
                        iso.set_relocated_name('XX_MOVED', nm)
                        p = ''
                        for i in range(8):
                            p += '/DIR%d' % i
                            iso.add_directory(p, rr_name='dir%d' % i)
                        path = os.path.join(tmpdir, 'r.iso')
                        iso.write(path)
                    except Exception as e:  # noqa
                        if isoapi.exc_class(e) != 'invalidInput':
                            ctx.violation('C08.relocated-name/%s' % isoapi.exc_class(e), 'set_relocated_name(rr_name of %d bytes) + depth 8: %r' % (ln, e), rp)
                        continue
                    finally:
                        iso.close()
                rep = isoapi.read_image(ctx, path)
                ctx.count(key=('relocated-name', ver, ln), nontrivial=ln > 100, kind='probe:relocated-name')
                for e in rep.errs:
                    code = e.split(':')[0]
                    if histcheck.owns(code, histcheck.RR_CODES):
                        ctx.violation('C08.relocated-name/%s' % code, 'relocation directory with a %d-byte Rock Ridge name: %s' % (ln, e[:160]), rp)
                for code, detail in isoapi.check_allocs(rep):
                    ctx.violation('C08.relocated-name/alloc-%s' % code, 'relocation directory with a %d-byte Rock Ridge name: %s' % (ln, detail[:160]), rp)
                if any(open(path, 'rb').read(32768)):
                    ctx.violation('C08.relocated-name/system-area-written', 'relocation directory with a %d-byte Rock Ridge name: the system area is not empty' % ln, rp)
                want = 'R:D:/' + nm.encode().hex()
                if not any(e.startswith(want + ':') or e == want or e.startswith(want) and e[len(want):len(want) + 1] in (':', '') for e in rep.entries):
                    ctx.violation('C08.relocated-name/name-lost', 'relocation directory: the %d-byte Rock Ridge name is not recovered' % ln, rp)
        # two relocated directories with the same identifier and Rock Ridge name, default and user-chosen relocation
        # directory: both are accepted, the image is well formed, each parent lists its own directory
        for custom in (False, True):
            rp = {'kind': 'probe-relocated-name', 'custom': custom}
            with isoapi.frozen_time():
                iso = pycdlib.PyCdlib()
                iso.new(interchange_level=3, rock_ridge='1.09')
                try:
                    if custom:
                        iso.set_relocated_name('MOVED', 'moved')
                    for top in ('A', 'B'):
                        p = '/' + top
                        iso.add_directory(p, rr_name=top.lower())
                        for i in range(2, 8):
                            p += '/D%d' % i
                            iso.add_directory(p, rr_name='d%d' % i)
                        iso.add_directory(p + '/DIR8', rr_name='dir8')
                        iso.add_fp(io.BytesIO(top.encode()), 1, p + '/DIR8/F%s.;1' % top, rr_name='file-' + top.lower())
                    path = os.path.join(tmpdir, 'r2.iso')
                    iso.write(path)
                except Exception as e:  # noqa
                    ctx.violation('C08.relocated-same-name/%s' % isoapi.exc_class(e), 'two relocated directories named DIR8/dir8 (%s relocation directory): %r' % (
                        'user-named' if custom else 'default', e), rp)
                    continue
                finally:
                    iso.close()
            ctx.count(key=('relocated-same-name', custom), nontrivial=True, kind='probe:relocated-same-name')
            rep = isoapi.read_image(ctx, path)
            for e in rep.errs:
                if histcheck.owns(e.split(':')[0], histcheck.RR_CODES):
                    ctx.violation('C08.relocated-same-name/%s' % e.split(':')[0], 'two relocated directories of one name: %s' % e[:160], rp)
            g = pycdlib.PyCdlib()
            try:
                g.open(path)
                for top in ('a', 'b'):
                    kids = [c for c in g.list_children(rr_path='/%s/d2/d3/d4/d5/d6/d7' % top) if not c.is_dot() and not c.is_dotdot()]
                    inner = sorted(x.rock_ridge.name() for k in kids for x in k.children if not x.is_dot() and not x.is_dotdot())
                    if inner != [('file-' + top).encode()]:
                        ctx.violation('C08.relocated-same-name/listed-wrong-directory', 'list_children below /%s/.../d7 reaches a dir8 that holds %s' % (top, inner), rp)
                g.close()
            except Exception as e:  # noqa
                ctx.violation('C08.relocated-same-name/reopen-%s' % isoapi.exc_class(e), 'image with two relocated directories of one name: %r' % e, rp)
    finally:
        shutil.rmtree(tmpdir, ignore_errors=True)


def probe_refused_links(ctx):
    """Rock Ridge link counts after REFUSED edits: a tree is built twice, once with refused add_directory / add_symlink /
    add_hard_link calls in between (names far too long for a continuation area, duplicates); both images must be identical —
    in particular the PX link counts of the parents that the refused calls named"""
    import pycdlib
    big = 'x' * 3000
    for ver in ('1.09', '1.12'):
        imgs = []
        for attempts in (False, True):
            with isoapi.frozen_time():
                iso = pycdlib.PyCdlib()
                iso.new(rock_ridge=ver)
                iso.add_directory('/D1', rr_name='d1')
                iso.add_directory('/D1/D2', rr_name='d2')
                iso.add_fp(io.BytesIO(b'f'), 1, '/D1/F.;1', rr_name='f')
                if attempts:
                    tries = [lambda: iso.add_directory('/D1/BIG', rr_name=big), lambda: iso.add_directory('/BIG', rr_name=big),
                             lambda: iso.add_directory('/D1/D2/BIG', rr_name=big), lambda: iso.add_directory('/D1/D3', rr_name='d2'),
                             lambda: iso.add_symlink('/D1/S.;1', rr_symlink_name=big, rr_path='t'),
                             lambda: iso.add_hard_link(iso_old_path='/D1/F.;1', iso_new_path='/D1/G.;1', rr_name=big)]
                    for k, t in enumerate(tries):
                        try:
                            t()
                            ctx.dist['refused-links:accepted:%d' % k] += 1
                            imgs = None
                            break
                        except Exception as e:  # noqa
                            ctx.dist['refused-links:%s' % isoapi.exc_class(e)] += 1
                if imgs is None:
                    break
                iso.add_directory('/D1/D4', rr_name='d4')
                out = io.BytesIO()
                iso.write_fp(out)
                iso.close()
                imgs.append(out.getvalue())
        ctx.count(key=('refused-links', ver), nontrivial=True, kind='probe')
        if imgs and len(imgs) == 2 and imgs[0] != imgs[1]:
            d = next((i for i in range(min(map(len, imgs))) if imgs[0][i] != imgs[1][i]), -1)
            ctx.violation('C08.links/after-refusal', 'Rock Ridge %s: refused add_directory / add_symlink / add_hard_link calls changed the image '
                          '(first difference at byte %d, sector %d offset %d: %s vs %s) — link counts of the named parents'
                          % (ver, d, d // 2048, d % 2048, imgs[0][d - 4:d + 4].hex(), imgs[1][d - 4:d + 4].hex()), {'kind': 'probe-refused-links'})


def run(ctx):
    run_fn(ctx)
    probe_relocated_name(ctx)
    probe_refused_links(ctx)
    force = {'rr': None}
    import functools
    # Rock Ridge always on, all three versions
    for ver, n in (('1.09', 60), ('1.10', 40), ('1.12', 60)):
        c01.run(ctx, focus='C08', post=post, n_quick=n, n_thorough=n * 25, force={'rr': ver})
    # parsed continuation areas keep being allocated soundly when the reopened image is edited
    c01.run(ctx, focus='C08', post=post, n_quick=60, n_thorough=1500, force={'rr': '1.09'}, reopen_every=5, directed=True)
    # the same for the other versions and with XA (the room left in a directory record, and with it the places where a
    # symbolic link target is cut into SL entries, differs between them)
    c01.run(ctx, focus='C08', post=post, n_quick=40, n_thorough=800, force={'rr': '1.12'}, reopen_every=4, directed=False)
    c01.run(ctx, focus='C08', post=post, n_quick=40, n_thorough=800, force={'rr': '1.10', 'xa': True}, reopen_every=4, directed=False)


def replay(ctx, obj):
    r = obj.get('replay', obj)
    if r.get('kind') in ('rrnew', 'ceadd'):
        b = ctx.driver.ask([r['request']])[0]
        core.log('model:', b)
        return [obj.get('signature', 'C08.fn')]
    if r.get('kind') == 'probe-refused-links':
        probe_refused_links(ctx)
        return [v['signature'] for v in ctx.violations]
    if r.get('kind') == 'probe-relocated-name':
        probe_relocated_name(ctx)
        return [v['signature'] for v in ctx.violations]
    return c01.replay(ctx, obj, focus='C08', post=post)
