"""
C14 — failure atomicity: a refused edit changes nothing.
Theorems: Props/C14.lean (refusal leaves the state untouched in the validate-then-mutate model `Atomic`), Props/C16
`refused_unchanged` (stream calls).

Refusal injection: for every accepted history H and every position k, refusing variants of a mutating call are derived from
the state reached after k edits — duplicate / illegal / over-long name in the first, second or third namespace, missing
parent in each namespace, wrong kind of entry, non-existent targets, invalid boot parameters — and inserted at k.  If the
library refuses the call (any exception), the image written at the end must be byte-identical to the image of H alone and
the later edits of H must behave as they did; the exception must be PyCdlibInvalidInput.
"""
import hashlib
import io
import random
import shutil
import tempfile

from harness import core, gen, histcheck, isoapi
from harness.props import c01

LEAN_MODULES = ['Pycdlib.Props.C14']
THEOREMS = ['Pycdlib.Atomic.refused_unchanged', 'Pycdlib.Atomic.checked_agrees', 'Pycdlib.Atomic.parts_indep',
            'Pycdlib.Atomic.step_refused_unchanged', 'Pycdlib.Atomic.step_agrees', 'Pycdlib.Atomic.run_skips_refused',
            'Pycdlib.Atomic.partial_witness', 'Pycdlib.Atomic.add_wf', 'Pycdlib.Atomic.rmdir_wf',
            'Pycdlib.Atomic.step_preserves_wf', 'Pycdlib.Atomic.run_preserves_wf']
PARTIAL = {
    'refused_unchanged_partial': 'proved for every edit run as "check every namespace part, then apply them" (Atomic.checked), for any '
    'state, preconditions and effects; the three-namespace add/rmdir instance is tied to the library by the refusal correspondence '
    '(model verdict == library verdict on every generated and every injected add_fp / add_directory / rm_directory). That each public '
    'call (also links, symlinks, El Torito, isohybrid, hide) really leaves the object untouched when it raises is decided by refusal '
    'injection with byte-exact comparison, not by the theorem.',
}
TRUSTED = ['the refusing-variant generator reaches the refusal causes that exist (distribution in evidence)',
           'Rock Ridge name rules, path depth and El Torito parameters are outside the Atomic instance (injection only)']
ASSUMPTIONS = ['time/random frozen so that two runs of the same edits are byte-identical']
RULE = ('for each generated history, 6 (quick) / 25 refusing variants at random positions; distinct = (cfg, ops, position, variant); '
        'non-trivial = the variant was actually refused by the library')
LEVEL_TEXT = ('Lean 4 theorem for validate-then-mutate calls: a refused call returns the state unchanged and a history with refused '
              'calls equals the history without them. Whether each public call has that shape is decided by exhaustive-in-kind '
              'refusal injection with byte-exact comparison of the final image.')
LEVEL_NOTE = 'Trusted: Lean kernel; variant generator coverage.'
TECHNIQUE = 'Lean 4 proof for the validate-then-mutate shape + refusal-injection differential (byte-exact)'


def image_of(cfg, ops):
    with isoapi.frozen_time():
        iso = isoapi.new_iso(cfg)
        results = [isoapi.apply_op(iso, op) for op in ops]
        out = io.BytesIO()
        try:
            iso.write_fp(out)
            err = None
        except Exception as e:  # noqa
            err = '%s: %s' % (isoapi.exc_class(e), str(e)[:80])
        iso.close()
    return out.getvalue(), results, err


def variants(rng, cfg, sh):
    """refusing candidates derived from the shadow state `sh` (an op dict plus a cause label)"""
    out = []
    nss = sh.nss
    files = sh.files()
    dirs = [d for d in sh.dirs() if d.parent is not None]
    lvl = cfg['ilevel']
    rr = cfg.get('rr')

    def base_add(kind):
        op = {'op': kind}
        if kind == 'addfp':
            op.update(cid=777, n=rng.choice([0, 5, 3000]))
        op['iso'] = '/ZZNEW%d.;1' % rng.randrange(1000) if kind != 'adddir' else '/ZZDIR%d' % rng.randrange(1000)
        if rr:
            op['rr'] = 'zznew%d' % rng.randrange(10 ** 6)
        if 'j' in nss:
            op['joliet'] = '/zznew%d' % rng.randrange(10 ** 6)
        if 'u' in nss:
            op['udf'] = '/zznew%d' % rng.randrange(10 ** 6)
        if kind == 'addsym':
            op['target'] = 'x/y' if rr else None
            if 'u' in nss:
                op['utarget'] = 'x/y'
            if not rr:
                op.pop('iso', None)
                op.pop('joliet', None)
                if 'u' not in nss:
                    return None
        return op
    for kind in ('addfp', 'adddir', 'addsym'):
        for pos, key in ((1, 'iso'), (2, 'joliet'), (3, 'udf')):
            b = base_add(kind)
            if b is None or key not in b:
                continue
            ns = {'iso': 'i', 'joliet': 'j', 'udf': 'u'}[key]
            # duplicate name in this namespace
            existing = [n for n in sh.nodes if n.parent is not None and ns in n.names and n.parent.parent is None]
            if existing:
                v = dict(b)
                v[key] = existing[0].path(ns)
                out.append((v, '%s/ns%d/duplicate' % (kind, pos)))
            # duplicate of an entry of the other kind (a directory where a file is, a file where a directory is)
            other = [n for n in sh.nodes if n.parent is not None and ns in n.names and n.parent.parent is None and (n.kind == 'dir') != (kind == 'adddir')]
            if other:
                v = dict(b)
                v[key] = other[0].path(ns)
                out.append((v, '%s/ns%d/duplicate-other-kind' % (kind, pos)))
            # missing parent
            v = dict(b)
            v[key] = '/NOSUCHDIR/X' + (';1' if key == 'iso' and kind != 'adddir' else '')
            out.append((v, '%s/ns%d/missing-parent' % (kind, pos)))
            # illegal / over-long name
            v = dict(b)
            if key == 'iso':
                v[key] = '/' + ('a*b' if lvl < 4 else 'x' * 300) + ('.;1' if kind != 'adddir' else '')
            elif key == 'joliet':
                v[key] = '/' + 'j' * 70
            else:
                v[key] = '/' + 'u' * 300
            out.append((v, '%s/ns%d/illegal-name' % (kind, pos)))
        if rr:
            b = base_add(kind)
            if b is not None and 'iso' in b:
                v = dict(b)
                v.pop('rr', None)
                out.append((v, '%s/rr/missing-rr-name' % kind))
                v = dict(b)
                v['rr'] = 'a/b'
                out.append((v, '%s/rr/slash-in-rr-name' % kind))
    # removals
    out.append(({'op': 'rmfile', 'ns': 'i', 'path': '/NOSUCH.;1'}, 'rmfile/nonexistent'))
    out.append(({'op': 'rmlink', 'ns': 'i', 'path': '/NOSUCH.;1'}, 'rmlink/nonexistent'))
    out.append(({'op': 'rmdir', 'iso': '/NOSUCH'}, 'rmdir/nonexistent'))
    for d in dirs:
        if 'i' in d.names:
            out.append(({'op': 'rmfile', 'ns': 'i', 'path': d.path('i')}, 'rmfile/is-directory'))
            out.append(({'op': 'rmlink', 'ns': 'i', 'path': d.path('i')}, 'rmlink/is-directory'))
            if d.children:
                op = {'op': 'rmdir'}
                for ns, k in (('i', 'iso'), ('j', 'joliet'), ('u', 'udf')):
                    if ns in d.names:
                        op[k] = d.path(ns)
                out.append((op, 'rmdir/not-empty'))
            # multi-namespace rmdir whose second namespace does not exist
            if 'j' in nss:
                out.append(({'op': 'rmdir', 'iso': d.path('i'), 'joliet': '/nosuchdir'}, 'rmdir/ns2/nonexistent'))
            if 'u' in nss:
                out.append(({'op': 'rmdir', 'iso': d.path('i'), 'udf': '/nosuchdir'}, 'rmdir/ns3/nonexistent'))
            break
    for d in dirs:
        if 'u' in d.names and 'i' in d.names and d.children:
            out.append(({'op': 'rmdir', 'iso': '/NOSUCH', 'udf': d.path('u')}, 'rmdir/ns1/nonexistent+udf'))
            break
    for d in dirs:
        if 'i' in d.names and not d.children and ('j' in d.names or 'u' in d.names):
            # first namespace removable, later namespace is a non-empty / wrong directory
            for d2 in dirs:
                if d2 is not d and d2.children:
                    if 'j' in d2.names:
                        out.append(({'op': 'rmdir', 'iso': d.path('i'), 'joliet': d2.path('j')}, 'rmdir/ns2/not-empty'))
                    if 'u' in d2.names:
                        out.append(({'op': 'rmdir', 'iso': d.path('i'), 'udf': d2.path('u')}, 'rmdir/ns3/not-empty'))
                    break
            break
    for f in files:
        if 'u' in f.names and 'i' in f.names:
            out.append(({'op': 'addlink', 'ons': 'i', 'old': f.path('i'), 'nns': 'u', 'new': f.path('u')}, 'addlink/duplicate-udf'))
            out.append(({'op': 'addlink', 'ons': 'u', 'old': f.path('u'), 'nns': 'i', 'new': '/NOSUCHDIR/L.;1', 'rr': 'l' if rr else None}, 'addlink/udf-old/missing-parent'))
            break
    for f in files:
        if 'i' in f.names:
            out.append(({'op': 'rmdir', 'iso': f.path('i')}, 'rmdir/is-file'))
            out.append(({'op': 'addlink', 'ons': 'i', 'old': f.path('i'), 'nns': 'i', 'new': f.path('i'), 'rr': 'dup' if rr else None}, 'addlink/duplicate-new'))
            out.append(({'op': 'addlink', 'ons': 'i', 'old': f.path('i'), 'nns': 'i', 'new': '/NOSUCHDIR/L.;1', 'rr': 'l' if rr else None}, 'addlink/missing-parent'))
            if 'j' in nss:
                out.append(({'op': 'addlink', 'ons': 'i', 'old': f.path('i'), 'nns': 'j', 'new': '/' + 'j' * 70}, 'addlink/illegal-joliet'))
            out.append(({'op': 'eltorito', 'boot': f.path('i'), 'kw': {'platform_id': 7}}, 'eltorito/bad-platform'))
            out.append(({'op': 'eltorito', 'boot': f.path('i'), 'kw': {'media_name': 'bogus'}}, 'eltorito/bad-media'))
            out.append(({'op': 'eltorito', 'boot': f.path('i'), 'kw': {'bootcatfile': f.path('i')}}, 'eltorito/duplicate-bootcat'))
            out.append(({'op': 'eltorito', 'boot': f.path('i'), 'kw': {'bootcatfile': '/NOSUCHDIR/BOOT.CAT;1'}}, 'eltorito/bootcat-missing-parent'))
            if 'j' in nss:
                out.append(({'op': 'eltorito', 'boot': f.path('i'), 'kw': {'joliet_bootcatfile': '/' + 'j' * 70}}, 'eltorito/ns2/illegal-bootcat'))
            break
    if rr:
        # a new link whose ISO9660 name is free but whose Rock Ridge name already exists in the target directory
        for f in files:
            if 'i' in f.names and f.rr:
                sibs = [c for c in f.parent.children if c is not f and c.rr and 'i' in c.names]
                clash = (sibs[0].rr if sibs else f.rr)
                pp = f.parent.path('i') if f.parent.parent is not None else ''
                if pp is not None:
                    out.append(({'op': 'addlink', 'ons': 'i', 'old': f.path('i'), 'nns': 'i', 'new': pp + '/ZZL%d.;1' % rng.randrange(1000), 'rr': clash},
                                'addlink/duplicate-rr-name'))
                break
    if 'u' in nss:
        out.append(({'op': 'addsym', 'udf': '/zzsym%d' % rng.randrange(10 ** 6), 'utarget': 'a/' + 'x' * 300}, 'addsym/udf-target-component-too-long'))
        if rr:
            out.append(({'op': 'addsym', 'iso': '/ZZS%d.;1' % rng.randrange(1000), 'rr': 'zzs%d' % rng.randrange(10 ** 6), 'target': 'ok',
                         'udf': '/zzsym%d' % rng.randrange(10 ** 6), 'utarget': 'a/' + 'x' * 300}, 'addsym/ns3/udf-target-component-too-long'))
    out.append(({'op': 'addlink', 'ons': 'i', 'old': '/NOSUCH.;1', 'nns': 'i', 'new': '/ZZL.;1', 'rr': 'zzl' if rr else None}, 'addlink/nonexistent-old'))
    out.append(({'op': 'eltorito', 'boot': '/NOSUCH.;1', 'kw': {}}, 'eltorito/nonexistent-boot'))
    out.append(({'op': 'hide', 'ns': 'i', 'path': '/NOSUCH.;1'}, 'hide/nonexistent'))
    out.append(({'op': 'rmeltorito'}, 'rmeltorito/no-eltorito'))
    out.append(({'op': 'isohybrid', 'kw': {}}, 'isohybrid/no-eltorito'))
    out.append(({'op': 'rmisohybrid'}, 'rmisohybrid/none'))
    for v, _ in out:
        for k in [k for k, x in v.items() if x is None]:
            del v[k]
    return out


def _tok_path(path):
    comps = [c for c in path.split('/') if c]
    return '/'.join('.'.join(str(ord(ch)) for ch in c) for c in comps)


def atomic_line(cfg, sh, op):
    """the request that asks the Lean model (Model/Atomic `stepChecked`) whether this add/rmdir is refused in state `sh`"""
    kind = {'addfp': 'addfile', 'adddir': 'adddir', 'rmdir': 'rmdir'}.get(op['op'])
    if kind is None or op.get('mode') is not None:
        return None
    toks = []
    for ns in ('i', 'j', 'u'):
        if ns not in sh.nss:
            toks.append('0')
            continue
        es = []
        for n in sh.nodes:
            if n.parent is None:
                continue
            p = n.path(ns)
            if p is None or ns not in n.names:
                continue
            es.append(('d' if n.kind == 'dir' else 'f') + _tok_path(p))
        toks.append(','.join(es) or '-')
    paths = []
    for key in ('iso', 'joliet', 'udf'):
        v = op.get(key)
        if v is not None and not _tok_path(v):
            return None
        paths.append(_tok_path(v) if v is not None else '-')
    return 'atomic %d %d %d %s %s %s' % (cfg['ilevel'], 1 if cfg.get('rr') else 0, 1 if cfg.get('xa') else 0, ' '.join(toks), kind, ' '.join(paths))


def run_history(ctx, rng, cfg, nops):
    # build the accepted history while remembering the shadow after each accepted op
    s = histcheck.Session(cfg, tempfile.gettempdir())
    sh = gen.Shadow(cfg, rng)
    injected = []
    pending_lines = {}
    attempts = 0
    with isoapi.frozen_time():
        while len(s.ops) < nops and attempts < nops * 4:
            attempts += 1
            g = sh.gen_op()
            if g is None:
                continue
            op, effect = g
            line = atomic_line(cfg, sh, op)
            res = s.apply(op)
            if line is not None:
                ctx.atomic.append((line, res, 'generated %s' % op['op'], {'kind': 'atomic', 'cfg': cfg, 'ops': list(s.ops), 'op': op}))
            if res == 'ok':
                sh.commit(effect)
                s.record(op, res)
                if rng.random() < 0.5:
                    vs = variants(rng, cfg, sh)
                    if vs:
                        v = rng.choice(vs)
                        injected.append((len(s.ops), v))
                        line = atomic_line(cfg, sh, v[0])
                        if line is not None and '/rr/' not in v[1]:
                            pending_lines[len(injected) - 1] = line
            else:
                ops = list(s.ops)
                s.close()
                s = histcheck.replay_session(cfg, ops, tempfile.gettempdir())
    # El Torito tail: make the history end with a boot catalog so that refusals that need one can be injected
    files_i = [f for f in sh.files() if 'i' in f.names]
    if files_i and rng.random() < 0.4:
        boot = rng.choice(files_i).path('i')
        op = {'op': 'eltorito', 'boot': boot, 'kw': {}}
        isolinux = rng.random() < 0.5
        if isolinux:
            # an isolinux boot image, so that add_isohybrid gets past its signature test and can be refused for its parameters
            bdata = isoapi.isolinux_boot(2048, 0x41)
            bop = {'op': 'addfp', 'cid': 970, 'n': len(bdata), 'hex': bdata.hex(), 'iso': '/ZZISOLNX.;1'}
            if cfg.get('rr'):
                bop['rr'] = 'zzisolnx'
            with isoapi.frozen_time():
                rb = s.apply(bop)
            if rb == 'ok':
                s.record(bop, rb)
                boot = '/ZZISOLNX.;1'
                op = {'op': 'eltorito', 'boot': boot, 'kw': {'boot_load_size': 4}}
            else:
                isolinux = False
                ops = list(s.ops)
                s.close()
                s = histcheck.replay_session(cfg, ops, tempfile.gettempdir())
        with isoapi.frozen_time():
            res = s.apply(op)
        if res == 'ok':
            s.record(op, res)
            other = rng.choice(files_i).path('i')
            if rng.random() < 0.5:
                # a catalog that already has a section: the refused call then goes through add_section with a predecessor
                op2 = {'op': 'eltorito', 'boot': other, 'kw': {'efi': True}}
                with isoapi.frozen_time():
                    res2 = s.apply(op2)
                if res2 == 'ok':
                    s.record(op2, res2)
                else:
                    ops = list(s.ops)
                    s.close()
                    s = histcheck.replay_session(cfg, ops, tempfile.gettempdir())
            n = len(s.ops)
            for v, cause in (
                    ({'op': 'eltorito', 'boot': other, 'kw': {'media_name': 'bogus'}}, 'eltorito2/bad-media'),
                    ({'op': 'eltorito', 'boot': other, 'kw': {'platform_id': 9}}, 'eltorito2/bad-platform'),
                    ({'op': 'eltorito', 'boot': other, 'kw': {'media_name': 'floppy'}}, 'eltorito2/floppy-size'),
                    ({'op': 'eltorito', 'boot': other, 'kw': {'media_name': 'hdemul', 'boot_info_table': True}}, 'eltorito2/hdemul-mbr'),
                    ({'op': 'eltorito', 'boot': '/NOSUCH.;1', 'kw': {'boot_info_table': True}}, 'eltorito2/nonexistent-boot'),
                    ({'op': 'isohybrid', 'kw': {}}, 'isohybrid/not-isolinux'),
                    ({'op': 'isohybrid', 'kw': {'part_entry': 9}}, 'isohybrid/bad-part-entry'),
                    ({'op': 'isohybrid', 'kw': {'geometry_heads': 300}}, 'isohybrid/bad-geometry'),
                    ({'op': 'isohybrid', 'kw': {'mac': True}}, 'isohybrid/mac-without-efi-sections'),
                    ({'op': 'isohybrid', 'kw': {'efi': True}}, 'isohybrid/efi-without-efi-section'),
                    ({'op': 'isohybrid', 'kw': {'geometry_sectors': 64}}, 'isohybrid/bad-geometry-sectors'),
                    ({'op': 'isohybrid', 'kw': {'efi': True, 'part_entry': 2}}, 'isohybrid/efi-slot-conflict'),
                    ({'op': 'isohybrid', 'kw': {'efi': True, 'mac': True, 'part_entry': 3}}, 'isohybrid/mac-slot-conflict'),
                    ({'op': 'rmfile', 'ns': 'i', 'path': boot}, 'rmfile/boot-file'),
                    ({'op': 'rmisohybrid'}, 'rmisohybrid/none')):
                if rng.random() < 0.5:
                    injected.append((n, (v, cause)))
        else:
            ops = list(s.ops)
            s.close()
            s = histcheck.replay_session(cfg, ops, tempfile.gettempdir())
    base_ops = list(s.ops)
    s.close()
    base_img, base_res, base_err = image_of(cfg, base_ops)
    if base_err:
        ctx.notes.append('base history does not master: %s' % base_err)
        return
    h0 = hashlib.sha256(base_img).hexdigest()
    budget = 6 if ctx.quick else 25
    for idx, (pos, (vop, cause)) in enumerate(injected[:budget]):
        judge(ctx, cfg, base_ops, base_res, h0, pos, vop, cause, pending_lines.get(idx))
    ctx.traces_validated += 1


def judge(ctx, cfg, base_ops, base_res, h0, pos, vop, cause, atomic_line_=None):
    """insert the refusing call at `pos`; the final image and the later edits must be those of the history without it"""
    if True:
        ops = base_ops[:pos] + [vop] + base_ops[pos:]
        img, res, err = image_of(cfg, ops)
        r = res[pos]
        rp = {'kind': 'history', 'cfg': cfg, 'ops': ops, 'pos': pos, 'cause': cause}
        if atomic_line_ is not None:
            ctx.atomic.append((atomic_line_, r, cause, rp))
        ctx.count(key=(repr(sorted(cfg.items())), repr(ops)), nontrivial=(r != 'ok'), kind='variant:%s:%s' % (cause, r),
                  sample={'cfg': cfg, 'refusing': histcheck.short(vop), 'cause': cause, 'result': r} if r != 'ok' else None)
        if r == 'ok':
            return              # not a refusal after all
        if r != 'invalidInput':
            ctx.violation('C14.refusal-class/%s/%s' % (cause, r), 'refused call %s (%s) raised %s, not PyCdlibInvalidInput' % (histcheck.short(vop), cause, r), rp)
        later = res[pos + 1:]
        if later != base_res[pos:]:
            ctx.violation('C14.later-edits/%s' % cause, 'after the refused call (%s) later edits behave differently: %s vs %s' % (cause, later, base_res[pos:]), rp)
        elif err:
            ctx.violation('C14.partial/%s/write-fails' % cause, 'after the refused call %s (%s) the image no longer masters: %s' % (histcheck.short(vop), cause, err), rp)
        elif hashlib.sha256(img).hexdigest() != h0:
            ctx.violation('C14.partial/%s/image-differs' % cause, 'the refused call %s (%s) changed the image that is written afterwards' % (histcheck.short(vop), cause), rp)


def directed_refusals(ctx):
    """refusals that need a particular tree: a later namespace refuses although the first one could proceed"""
    for cfg in ({'ilevel': 3, 'rr': '1.09', 'joliet': 3, 'udf': '2.60', 'xa': False}, {'ilevel': 1, 'rr': None, 'joliet': 3, 'udf': '2.60', 'xa': False},
                {'ilevel': 3, 'rr': '1.12', 'joliet': None, 'udf': '2.60', 'xa': True}):
        def names(iso, other, rrname=None):
            d = {'iso': iso}
            if cfg.get('rr'):
                d['rr'] = rrname or other.split('/')[-1]
            if cfg.get('joliet'):
                d['joliet'] = other
            if cfg.get('udf'):
                d['udf'] = other
            return d
        base = [dict({'op': 'adddir'}, **names('/E', '/e')), dict({'op': 'adddir'}, **names('/F', '/f')),
                {'op': 'addfp', 'cid': 1, 'n': 3, 'udf': '/f/only'},
                dict({'op': 'adddir'}, **names('/G', '/g')), dict({'op': 'addfp', 'cid': 2, 'n': 5}, **names('/G/A.;1', '/g/a')),
                dict({'op': 'addfp', 'cid': 3, 'n': 7}, **names('/G/B.;1', '/g/b')),
                dict({'op': 'adddir'}, **names('/H', '/h')), {'op': 'addsym', 'udf': '/h/lnk', 'utarget': 'x'},
                dict({'op': 'addfp', 'cid': 4, 'n': 9}, **names('/Z.;1', '/z'))]
        img, res, err = image_of(cfg, base)
        if err or any(r != 'ok' for r in res):
            ctx.notes.append('directed refusal base not accepted under %s: %s %s' % (cfg, res, err))
            continue
        h0 = hashlib.sha256(img).hexdigest()
        cand = [({'op': 'rmdir', 'iso': '/E', 'udf': '/f'}, 'rmdir/ns3/one-udf-entry'),
                ({'op': 'rmdir', 'iso': '/E', 'udf': '/h'}, 'rmdir/ns3/one-udf-symlink'),
                ({'op': 'rmdir', 'iso': '/E', 'udf': '/g'}, 'rmdir/ns3/two-entries'),
                ({'op': 'rmdir', 'iso': '/F', 'udf': '/f'}, 'rmdir/same-dir/udf-only-child'),
                ({'op': 'rmdir', 'iso': '/E', 'udf': '/z'}, 'rmdir/ns3/is-file')]
        sym = {'op': 'addsym', 'udf': '/e/symx', 'utarget': 'a/' + 'x' * 300}
        cand.append((dict(sym), 'addsym/udf-only/target-component-too-long'))
        if cfg.get('rr'):
            sym2 = dict(sym, iso='/E/SYMX.;1', rr='symx', target='ok')
            if cfg.get('joliet'):
                sym2['joliet'] = '/e/symx'
            cand.append((sym2, 'addsym/ns3/target-component-too-long'))
        cand.append(({'op': 'adddir', 'iso': '/NEWD', 'udf': '/z', **({'rr': 'newd'} if cfg.get('rr') else {})}, 'adddir/ns3/name-of-a-file'))
        cand.append(({'op': 'addfp', 'cid': 9, 'n': 4, 'iso': '/NEWF.;1', 'udf': '/g', **({'rr': 'newf'} if cfg.get('rr') else {})}, 'addfp/ns3/name-of-a-directory'))
        if cfg.get('joliet'):
            cand += [({'op': 'rmdir', 'iso': '/E', 'joliet': '/g'}, 'rmdir/ns2/not-empty'),
                     ({'op': 'rmdir', 'joliet': '/e', 'udf': '/f'}, 'rmdir/joliet+udf/one-udf-entry'),
                     ({'op': 'rmdir', 'iso': '/E', 'joliet': '/e', 'udf': '/h'}, 'rmdir/all/one-udf-symlink'),
                     ({'op': 'rmdir', 'iso': '/E', 'joliet': '/z'}, 'rmdir/ns2/is-file')]
        for vop, cause in cand:
            for pos in (len(base), len(base) - 1):
                judge(ctx, cfg, base, res, h0, pos, vop, 'directed/' + cause)
        # an empty string as second / third path; a Joliet path on an image without Joliet
        late = [({'op': 'adddir', 'iso': '/NEWE', 'joliet': '', **({'rr': 'newe'} if cfg.get('rr') else {})}, 'adddir/empty-joliet-path'),
                ({'op': 'adddir', 'iso': '/NEWE', 'udf': '', **({'rr': 'newe'} if cfg.get('rr') else {})}, 'adddir/empty-udf-path')]
        if cfg.get('rr'):
            late.append(({'op': 'addsym', 'iso': '/SE.;1', 'rr': 'se', 'target': 'a', 'udf': '', 'utarget': 'a'}, 'addsym/empty-udf-path'))
        if not cfg.get('joliet'):
            late.append(({'op': 'rmdir', 'iso': '/E', 'joliet': '/e'}, 'rmdir/joliet-path-without-joliet'))
        if cfg.get('rr'):
            # Rock Ridge data of more than one continuation block at an ordinary depth, through every call that takes a name
            big = 'n' * 2300
            late += [({'op': 'adddir', 'iso': '/NEWL', 'rr': big}, 'adddir/oversize-rr-name'),
                     ({'op': 'adddir', 'iso': '/G/NEWL', 'rr': big}, 'adddir/oversize-rr-name-in-subdirectory'),
                     ({'op': 'addfp', 'cid': 8, 'n': 3, 'iso': '/NEWL.;1', 'rr': big}, 'addfp/oversize-rr-name'),
                     ({'op': 'addsym', 'iso': '/NEWL.;1', 'rr': 'newl', 'target': 't' * 3000}, 'addsym/oversize-target'),
                     ({'op': 'addlink', 'ons': 'i', 'old': '/Z.;1', 'nns': 'i', 'new': '/NEWL.;1', 'rr': big}, 'addlink/oversize-rr-name')]
        for vop, cause in late:
            judge(ctx, cfg, base, res, h0, len(base), vop, 'directed/' + cause)
        if cfg.get('rr') and cfg['ilevel'] < 4:
            # Rock Ridge data that needs more than one continuation block is only discovered when the record is built:
            # at depth 8 the relocation directory exists by then, and add_eltorito has attached the boot record
            deep7, p7 = [], ''
            for i in range(1, 8):
                p7 += '/DEEP%d' % i
                deep7.append({'op': 'adddir', 'iso': p7, 'rr': 'deep%d' % i, **({'joliet': p7.lower()} if cfg.get('joliet') else {}), **({'udf': p7.lower()} if cfg.get('udf') else {})})
            b7 = base + deep7
            img7, res7, err7 = image_of(cfg, b7)
            if not err7 and all(r == 'ok' for r in res7):
                h7 = hashlib.sha256(img7).hexdigest()
                judge(ctx, cfg, b7, res7, h7, len(b7), {'op': 'adddir', 'iso': p7 + '/DEEP8', 'rr': 'n' * 2300}, 'directed/adddir/depth8-oversize-rr-name')
                judge(ctx, cfg, b7, res7, h7, len(b7), {'op': 'eltorito', 'boot': '/Z.;1', 'kw': {'rr_bootcatname': 'c' * 2300}}, 'directed/eltorito/oversize-rr-catalog-name')
        # boot files El Torito cannot describe: no data (empty file, symbolic link), or more 512-byte sectors than the
        # 16-bit count of a catalog entry holds
        eb = base + [{'op': 'addfp', 'cid': 7, 'n': 0, 'iso': '/EMPTYB.;1', **({'rr': 'emptyb'} if cfg.get('rr') else {})}]
        if cfg.get('rr'):
            eb.append({'op': 'addsym', 'iso': '/SYMB.;1', 'rr': 'symb', 'target': 'z'})
        img3, res3, err3 = image_of(cfg, eb)
        if not err3 and all(r == 'ok' for r in res3):
            h3 = hashlib.sha256(img3).hexdigest()
            for vop, cause in [({'op': 'eltorito', 'boot': '/EMPTYB.;1', 'kw': {}}, 'eltorito/empty-boot-file'),
                               ({'op': 'eltorito', 'boot': '/Z.;1', 'kw': {'boot_load_size': 70000}}, 'eltorito/sector-count-over-16-bits')] + (
                                   [({'op': 'eltorito', 'boot': '/SYMB.;1', 'kw': {}}, 'eltorito/symlink-boot-file')] if cfg.get('rr') else []):
                judge(ctx, cfg, eb, res3, h3, len(eb), vop, 'directed/' + cause)
                # if it was accepted after all, the image must at least be writable and open again
                img4, res4, err4 = image_of(cfg, eb + [vop])
                if res4[-1] == 'ok' and err4:
                    ctx.violation('C14.accepted-then-unwritable/%s' % cause, 'add_eltorito(%s) was accepted, then the write fails: %s' % (histcheck.short(vop), err4),
                                  {'kind': 'history', 'cfg': cfg, 'ops': eb + [vop], 'pos': len(eb), 'cause': cause})
        # with UDF the volume descriptors have to fit in front of extent 32: once they fill that room, one more copy of
        # the PVD must be refused (and change nothing), not accepted and then fail at write time
        full = None
        for k in range(14, 0, -1):
            b2 = base + [{'op': 'duppvd'}] * k
            img2, res2, err2 = image_of(cfg, b2)
            if not err2 and all(r == 'ok' for r in res2):
                full = (b2, res2, hashlib.sha256(img2).hexdigest())
                break
            if err2 and all(r == 'ok' for r in res2):
                ctx.violation('C14.accepted-then-unwritable/duppvd', '%d accepted duplicate_pvd() calls on a UDF image, then the write fails: %s' % (k, err2),
                              {'kind': 'history', 'cfg': cfg, 'ops': b2, 'pos': len(b2) - 1, 'cause': 'duppvd/no-room'})
        if full is not None:
            judge(ctx, cfg, full[0], full[1], full[2], len(full[0]), {'op': 'duppvd'}, 'directed/duppvd/no-room-before-udf')


def check_atomic(ctx):
    """correspondence: the Lean validate-then-mutate model refuses exactly the add / rmdir calls the library refuses"""
    if not ctx.atomic:
        return
    answers = ctx.driver.ask([a[0] for a in ctx.atomic])
    for (line, res, cause, rp), ans in zip(ctx.atomic, answers):
        model_ok = ans.startswith('ok')
        ctx.count(key=line, nontrivial=not model_ok, kind='atomic:%s' % ('ok' if model_ok else ans.split()[0].split('.')[-1]))
        if ans == 'bad-op':
            ctx.disagree('S-atomic/bad-op', 'driver rejected %s' % line[:120], rp)
        elif model_ok != (res == 'ok'):
            ctx.disagree('S-atomic/%s' % cause.split(' ')[0], 'library says %s, model says %s for %s (%s)' % (res, ans[:60], cause, line[-80:]), rp)
    ctx.traces_validated += len(ctx.atomic)


def run(ctx):
    ctx.atomic = []
    directed_refusals(ctx)
    n = 250 if ctx.quick else 5000
    for _ in range(n):
        seed = ctx.rng.randrange(2 ** 62)
        rng = random.Random(seed)
        cfg = gen.sample_cfg(rng)
        run_history(ctx, rng, cfg, rng.choice([4, 8, 14]))
        if ctx.time_left() < 30:
            break
    check_atomic(ctx)


def replay(ctx, obj):
    r = obj.get('replay', obj)
    ops, pos = r['ops'], r['pos']
    base = ops[:pos] + ops[pos + 1:]
    a, ra, ea = image_of(r['cfg'], base)
    b, rb, eb = image_of(r['cfg'], ops)
    sigs = []
    if rb[pos] != 'ok' and (eb or a != b or rb[pos + 1:] != ra[pos:]):
        sigs.append(obj.get('signature', 'C14.partial'))
    if rb[pos] not in ('ok', 'invalidInput'):
        sigs.append('C14.refusal-class/%s/%s' % (r.get('cause'), rb[pos]))
    core.log('refused=%s write_error=%s same_image=%s' % (rb[pos], eb, a == b))
    return sigs
