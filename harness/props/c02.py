"""
C02 — editing an existing image preserves everything that was not edited.
Theorems: Props/C02.lean (`reopen_keeps_names`), Props/C01/C07 (exact removals, local additions).

Every history is split into 2-6 generations: edit, write, OPEN the written file, edit again, … ; the final image must
open and show, for the independent reader, exactly `Spec.run` of all accepted edits with `reopen` at the generation
boundaries (original content plus exactly the edits; untouched files keep their bytes — their data is carried over from the
previous image file, which the harness deletes only at the end so a wrong source would read garbage).
The "vendored foreign-image corpus" clause cannot be exercised in this sandbox: vendor/*.tar.gz are 132-byte Git-LFS
pointers and no genisoimage/xorriso binary exists (DESIGN.md section 10); generations of pycdlib's own images stand in.
"""
import random

from harness import core, gen, histcheck, isoapi
from harness.props import c01, c04

LEAN_MODULES = ['Pycdlib.Props.C02']
THEOREMS = ['Pycdlib.Spec.reopen_keeps_names', 'Pycdlib.Spec.reopenStep_face', 'Pycdlib.Spec.rmFile_exact', 'Pycdlib.Spec.rmLink_local',
            'Pycdlib.Spec.addFp_visible', 'Pycdlib.Spec.addLink_shares']
PARTIAL = {
    'parse_inv_partial': 'that the state pycdlib reconstructs by parsing refines the Spec state after `reopen` is decided per history '
    '(reader vs Spec over generations), not proved; no foreign-image corpus exists in the sandbox',
}
TRUSTED = ['Spec.reopenState as the statement of what a generation may change (only the identity of zero-length content)']
ASSUMPTIONS = ['no foreign image corpus available offline']
RULE = 'histories of 10-40 accepted edits split into generations of 3-8 edits (write + open between); all configurations'
LEVEL_TEXT = ('Lean 4 theorems on the specification (a generation changes no name/kind/flag; edits are exact and local). The '
              'implementation is compared with Spec.run across 2-6 open-edit-write generations through the independent reader.')
LEVEL_NOTE = 'Trusted: Lean kernel, Spec, reader, generator.'
TECHNIQUE = 'Lean 4 Spec theorems + multi-generation Spec/reader differential'


def post(ctx, c, rep):
    rp = histcheck.replay_obj(c)
    for code, detail in isoapi.check_allocs(rep):
        ctx.violation('C02.alloc/%s' % code, 'after %d generation(s): %s' % (c.session.gen, detail), rp)
    for e in rep.errs:
        if e.startswith('unsorted-ecma'):
            continue      # raw-byte vs ECMA-119 9.3 order: C03's recorded finding, independent of generations
        ctx.violation('C02.reader/%s' % e.split(':')[0], 'after %d generation(s) the independent reader reports %s' % (c.session.gen, e[:160]), rp)
    ctx.dist['generations:%d' % c.session.gen] += 1


def run(ctx):
    for every, n in ((4, 60), (7, 40), (3, 40)):
        c01.run(ctx, focus='C02', post=post, n_quick=n, n_thorough=n * 30, reopen_every=every)


def replay(ctx, obj):
    return c01.replay(ctx, obj, focus='C02', post=post)
