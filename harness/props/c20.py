"""
C20 — tools round trip: pycdlib-genisoimage then pycdlib-extract-files reproduces the source tree.
Theorems: Props/C20.lean (collision numbering yields pairwise distinct names; Joliet path truncation; the duplicate
detector's key (size, 32-bit murmur3) is NOT injective — a Lean-checked collision witness), Props/C18 (mangling legality).

The OS side (directory walking, os.symlink, subprocesses) is outside any model: real trees are built in a temporary
directory (outside /repo and /verif), the two scripts of /repo/tools are run as subprocesses with /repo first on
PYTHONPATH, and the results are compared:
  * every requested long-name view (-R/-r → Rock Ridge, -J → Joliet, -udf → UDF) extracts to the same relative paths,
    file contents and (Rock Ridge / UDF) symbolic links as the source;
  * in the plain ISO9660 view every source file appears exactly once, under a legal and distinct identifier, with its
    content (independent Lean reader + the proved-equivalent identifier predicate);
  * the image carries exactly the extensions requested;
  * -scan-for-duplicates never changes what a path reads.
S-fn: `mm3hash` and `build_iso_path` collision numbering vs the Lean model.
"""
import hashlib
import fnmatch
import importlib.machinery
import importlib.util
import os
import random
import shutil
import subprocess
import sys
import tempfile

from harness import core, isoapi

LEAN_MODULES = ['Pycdlib.Props.C20', 'Pycdlib.Props.C18']
THEOREMS = ['Pycdlib.Tools.fmt3_injective', 'Pycdlib.Tools.isoChild_fresh', 'Pycdlib.Tools.isoChildren_nodup',
            'Pycdlib.Tools.collision_names_distinct', 'Pycdlib.Tools.isoChild_legal', 'Pycdlib.Tools.isoChildren_legal', 'Pycdlib.Tools.collision_file_legal', 'Pycdlib.Tools.collision_dir_legal',
            'Pycdlib.Tools.mm3_collision', 'Pycdlib.Tools.dedup_key_not_injective', 'Pycdlib.Tools.joliet_component_le',
            'Pycdlib.mangle_file_legal', 'Pycdlib.mangle_dir_legal']
PARTIAL = {
    'gen_extract_partial': 'the op list the tool issues and the extraction walk are not modelled as one function; the round trip is '
    'decided per generated tree by running the real scripts. Process, filesystem and locale behaviour are validated only.',
    'dedup_sound': 'the duplicate-detection key (size, 32-bit chained murmur3) is not injective (theorem dedup_key_not_injective with the '
    'kernel-checked witness mm3_collision); since fix eb29776 the tool compares contents before linking. Two probes run on every '
    'check: the Lean witness pair and a pair longer than the 32 KiB hashing chunk found with the tool\'s own function',
}
TRUSTED = ['subprocess execution of the two scripts; os.walk / filecmp-style comparison in this file']
ASSUMPTIONS = ['tmp directory on a POSIX filesystem that supports symlinks and UTF-8 names']
RULE = ('trees: 2-25 entries, nesting <= 5, names from pools that collide after mangling, Unicode, empty files/dirs, symlinks, identical '
        'contents; option sets: iso-level 1-4 x {-R,-r,none} x -J x -udf x -scan-for-duplicates; distinct = (tree, options); non-trivial = '
        'tree has a collision, a symlink, a duplicate or nesting >= 2')
LEVEL_TEXT = ('Lean 4 theorems on the tool\'s pure naming logic (collision numbering distinct for < 1000 siblings, Joliet truncation '
              'bound, mangled names legal) and a kernel-checked murmur3 collision showing duplicate detection by (size, hash) is '
              'unsound. The round trip itself is decided by running the real scripts on generated trees and comparing trees, with '
              'the ISO9660 view decoded by the independent Lean reader.')
LEVEL_NOTE = 'Trusted: Lean kernel; subprocess/filesystem harness. See PARTIAL.'
TECHNIQUE = 'Lean 4 proofs on naming/hash logic + subprocess round-trip differential on generated trees'

REPO = core.REPO
GENISO = os.path.join(REPO, 'tools', 'pycdlib-genisoimage')
EXTRACT = os.path.join(REPO, 'tools', 'pycdlib-extract-files')
PY = '/venv/bin/python'


def load_tool(path, name):
    loader = importlib.machinery.SourceFileLoader(name, path)
    spec = importlib.util.spec_from_loader(name, loader)
    mod = importlib.util.module_from_spec(spec)
    loader.exec_module(mod)
    return mod


NAMES = ['a', 'b.txt', 'README', 'readme', 'Readme.TXT', 'file.tar.gz', 'long_file_name_number_one.txt', 'long_file_name_number_two.txt',
         'longdirname_alpha', 'longdirname_beta', 'x y', 'émile.txt', 'ÉMILE.TXT', '中文.dat', 'a.b.c', 'UPPER', 'upper', 'file;1', 'dot.', '.hidden',
         'abcdefgh.ijk', 'abcdefghi.jkl', 'abcdefghj.jkl', 'data1', 'data2', 'data3', 'Makefile', 'makefile', 'ß.txt', 'sub', 'SUB', 'sub dir']


def make_tree(rng, root):
    """returns dict relpath -> ('d',) | ('f', bytes) | ('l', target)"""
    tree = {}
    dirs = ['']
    contents = [b'', b'x', b'hello\n', bytes(range(256)) * 9, b'same-content' * 100, b'same-content' * 100, os.urandom(0) + b'Z' * 2048, b'Q' * 5000]
    n = rng.randint(2, 25 if rng.random() < 0.7 else 60)
    for _ in range(n):
        parent = rng.choice(dirs)
        name = rng.choice(NAMES)
        if rng.random() < 0.2:
            name = name[:3] + str(rng.randrange(100)) + name[3:]
        rel = os.path.join(parent, name) if parent else name
        if rel in tree or any(k.lower() == rel.lower() for k in tree) and False:
            continue
        if rel in tree:
            continue
        r = rng.random()
        if r < 0.25 and rel.count('/') < 5:
            tree[rel] = ('d',)
            dirs.append(rel)
        elif r < 0.33:
            tree[rel] = ('l', rng.choice(['a', '../b.txt', 'sub/x', '/abs/path', '.', 'dir/' + 'n' * 120, './readme.txt', 'docs/../readme.txt',
                                          'old/../old/./notes.txt', 'dir/', 'a//b', '..', '../..',
                                          '/'.join('comp%02d' % i for i in range(60)), '/'.join('d%02d' % i for i in range(120)),
                                          '../' + '/'.join('directory%02d' % i for i in range(40)), '/'.join(['abcdefghij'] * rng.randint(12, 40))]))
        else:
            tree[rel] = ('f', rng.choice(contents) if rng.random() < 0.8 else bytes(rng.randrange(256) for _ in range(rng.choice([1, 100, 2049]))))
    # sometimes a chain deeper than eight levels (Rock Ridge relocates the ninth; Joliet and UDF do not care)
    if rng.random() < 0.2:
        chain = ''
        for i, comp in enumerate(('lvl1', 'lvl2', 'lvl3', 'lvl4', 'lvl5', 'lvl6', 'lvl7', 'lvl8', 'lvl9')[:rng.choice([8, 9])]):
            chain = os.path.join(chain, comp) if chain else comp
            tree.setdefault(chain, ('d',))
        if tree.get(chain) == ('d',):
            tree[os.path.join(chain, 'leaf.txt')] = ('f', b'deep leaf\n')
            tree[os.path.join(chain, 'sub')] = ('d',)
            tree[os.path.join(chain, 'sub', 'x')] = ('f', b'x' * 10)
    for rel, v in sorted(tree.items()):
        p = os.path.join(root, rel)
        if v[0] == 'd':
            os.makedirs(p, exist_ok=True)
        elif v[0] == 'f':
            os.makedirs(os.path.dirname(p), exist_ok=True)
            with open(p, 'wb') as f:
                f.write(v[1])
        else:
            os.makedirs(os.path.dirname(p), exist_ok=True)
            os.symlink(v[1], p)
    return tree


def read_tree(root):
    out = {}
    for dp, dns, fns in os.walk(root):
        for d in list(dns):
            p = os.path.join(dp, d)
            rel = os.path.relpath(p, root)
            if os.path.islink(p):
                out[rel] = ('l', os.readlink(p))
                dns.remove(d)
            else:
                out[rel] = ('d',)
        for f in fns:
            p = os.path.join(dp, f)
            rel = os.path.relpath(p, root)
            if os.path.islink(p):
                out[rel] = ('l', os.readlink(p))
            else:
                out[rel] = ('f', open(p, 'rb').read())
    return out


def run_tool(args, cwd):
    env = dict(os.environ, PYTHONPATH=REPO, LC_ALL='C.UTF-8', LANG='C.UTF-8')
    p = subprocess.run([PY] + args, cwd=cwd, env=env, stdout=subprocess.PIPE, stderr=subprocess.PIPE, timeout=120)
    return p.returncode, p.stdout.decode('utf-8', 'replace'), p.stderr.decode('utf-8', 'replace')


def case(ctx, rng, tmp):
    seed = case.seed
    viol = lambda sig, msg: ctx.violation(sig, msg, {'kind': 'tree', 'seed': seed})   # noqa
    src = os.path.join(tmp, 'src%d' % rng.randrange(10 ** 9))
    os.makedirs(src)
    tree = make_tree(rng, src)
    lvl = rng.choice([1, 2, 3, 3, 4])
    rr = rng.choice([None, '-R', '-r', '-r'])
    jol = rng.random() < 0.5
    udf = rng.random() < 0.35
    dup = rng.random() < 0.35
    opts = ['-iso-level', str(lvl), '-quiet']
    if rr:
        opts.append(rr)
    if jol:
        opts.append('-J')
    if udf:
        opts.append('-udf')
    if dup:
        opts.append('-scan-for-duplicates')
    # exclude / hide patterns (their own random stream, so that older replays keep their trees): shell patterns match a
    # whole name, so the expected tree is the source tree without the names fnmatchcase() accepts
    prng = random.Random(seed ^ 0x5eed)
    excl, hide_j, hide_u = [], [], []
    if prng.random() < 0.35:
        pool = PATTERNS + [os.path.basename(k) for k in sorted(tree)][:4]
        for _ in range(prng.randint(1, 2)):
            pat = prng.choice(pool)
            excl.append(pat)
            opts += [prng.choice(['-m', '-x']), pat]
        if not dup:
            if jol and prng.random() < 0.4:
                hide_j.append(prng.choice(pool))
                opts += ['-hide-joliet', hide_j[-1]]
            if udf and prng.random() < 0.4:
                hide_u.append(prng.choice(pool))
                opts += ['-hide-udf', hide_u[-1]]
    matches = lambda name, pats: any(fnmatch.fnmatchcase(name, p) for p in pats)   # noqa
    if not rr:
        # like genisoimage, the tool leaves out directories deeper than the ISO9660 limit of eight levels (with everything
        # below them, in every view) unless Rock Ridge is on: "Directories too deep ... ignored - continuing"
        def too_deep(k, v):
            parts = k.split('/')
            return len(parts if v[0] == 'd' else parts[:-1]) >= 8
        tree = {k: v for k, v in tree.items() if not too_deep(k, v)}
    tree = {k: v for k, v in tree.items() if not any(matches(c, excl) for c in k.split('/'))}
    img = os.path.join(tmp, 'out%d.iso' % rng.randrange(10 ** 9))
    rc, so, se = run_tool([GENISO, '-o', img] + opts + [src], tmp)
    nontriv = any(v[0] == 'l' for v in tree.values()) or any(k.count('/') >= 2 for k in tree) or dup
    ctx.count(key=(seed,), nontrivial=nontriv, kind='opts:%s' % ' '.join(o for o in opts if o not in ('-quiet',)),
              sample={'options': opts, 'entries': len(tree), 'names': sorted(tree)[:6]})
    if rc != 0:
        last = (se.strip().split('\n') or [''])[-1]
        viol('C20.genisoimage-fails/%s' % last.split(':')[0].split('(')[0].strip()[:40], 'pycdlib-genisoimage %s exited %d: %s' % (' '.join(opts), rc, last[:160]))
        shutil.rmtree(src, ignore_errors=True)
        return
    files = {k: v for k, v in tree.items() if v[0] == 'f'}
    links = {k: v for k, v in tree.items() if v[0] == 'l'}
    dirs = {k: v for k, v in tree.items() if v[0] == 'd'}
    # --- extensions exactly as requested + ISO view through the independent reader
    rep = isoapi.read_image(ctx, img)
    for e in rep.errs:
        if not e.startswith('unsorted-ecma'):
            viol('C20.image/%s' % e.split(':')[0], 'image built by the tool: reader reports %s' % e[:140])
    want = {'rr': bool(rr), 'joliet': jol, 'udf': udf}
    got = {'rr': rep.info.get('rr') == '1', 'joliet': rep.info.get('joliet') == '1', 'udf': rep.info.get('udf') == '1'}
    if want != got:
        viol('C20.extensions', 'requested %s, image carries %s' % (want, got))
    iso_files = [e.split(':') for e in rep.entries if e.startswith('I:F:')]
    idents = {}
    for f in iso_files:
        idents.setdefault(f[2], []).append(f)
    for k, v in idents.items():
        if len(v) > 1:
            viol('C20.iso-view/duplicate-identifier', 'identifier %s appears %d times' % (k, len(v)))
    reqs = ['chkfile %d %s' % (lvl, f[2].split('/')[-1]) for f in iso_files]
    if reqs:
        for rq, ans in zip(reqs, ctx.driver.ask(reqs)):
            if ans != 'ok':
                viol('C20.iso-view/illegal-identifier', 'identifier %s is not legal at level %d' % (rq.split()[-1], lvl))
    def fnv(data):
        h = 14695981039346656037
        for b in data:
            h = ((h ^ b) * 1099511628211) & 0xFFFFFFFFFFFFFFFF
        return str(h)
    src_hashes = sorted((len(v[1]), fnv(v[1])) for v in files.values())
    n_sym_iso = len(links) if (rr in ('-r',) or udf or rr == '-R') else 0
    img_hashes = sorted((int(f[3]), f[4]) for f in iso_files)
    # symlinks occupy zero-length ISO records when they are recorded at all
    zero = (0, fnv(b''))
    extra = list(img_hashes)
    for h in src_hashes:
        if h in extra:
            extra.remove(h)
        else:
            viol('C20.iso-view/missing-file', 'a source file of %d bytes does not appear in the ISO9660 view (options %s)' % (h[0], ' '.join(opts)))
            break
    extra = [h for h in extra if h != zero]
    if extra:
        viol('C20.iso-view/extra-file', 'the ISO9660 view holds %d file(s) that are not in the source tree' % len(extra))
    # --- each requested long-name view extracts to the source tree
    for flag, ptype, has_links in ((bool(rr), 'rockridge', True), (jol, 'joliet', False), (udf, 'udf', True)):
        if not flag:
            continue
        dest = os.path.join(tmp, 'ext%d' % rng.randrange(10 ** 9))
        os.makedirs(dest)
        rc, so, se = run_tool([EXTRACT, '-path-type', ptype, '-extract-to', dest, img], tmp)
        if rc != 0:
            last = (se.strip().split('\n') or [''])[-1]
            viol('C20.extract-fails/%s/%s' % (ptype, last.split(':')[0].strip()[:40]), 'pycdlib-extract-files -path-type %s exited %d: %s' % (ptype, rc, last[:160]))
            shutil.rmtree(dest, ignore_errors=True)
            continue
        got_tree = read_tree(dest)
        hidden = {'joliet': hide_j, 'udf': hide_u}.get(ptype, [])
        exp = {k: v for k, v in files.items() if not matches(os.path.basename(k), hidden)}
        exp.update(dirs)
        if has_links:
            exp.update(links)
        if ptype == 'joliet':
            # names longer than 64 characters are cut by the tool (documented Joliet limit); none in the pools
            pass
        missing = sorted(set(exp) - set(got_tree))
        extra2 = sorted(set(got_tree) - set(exp))
        if ptype == 'joliet' and not has_links:
            # symlinks may appear in Joliet as empty files when Rock Ridge is also on: not part of the Joliet view contract
            extra2 = [x for x in extra2 if x not in links]
        if missing:
            kinds = {exp[m][0] for m in missing}
            viol('C20.roundtrip/%s/missing-%s' % (ptype, '+'.join(sorted(kinds))), '%s view: %s missing after extraction (options %s)' % (ptype, missing[:4], ' '.join(opts)))
        if extra2:
            viol('C20.roundtrip/%s/extra' % ptype, '%s view: unexpected %s after extraction' % (ptype, extra2[:4]))
        for k in set(exp) & set(got_tree):
            if exp[k] != got_tree[k]:
                viol('C20.roundtrip/%s/differs-%s' % (ptype, exp[k][0]), '%s view: %r differs after the round trip (%s vs %s)' % (ptype, k, exp[k][0], got_tree[k][0]))
                break
        shutil.rmtree(dest, ignore_errors=True)
    shutil.rmtree(src, ignore_errors=True)
    os.unlink(img)


PATTERNS = ['a', 'c', 'gz', 'txt', 'TXT', '1', 'dir', 'hidden', 'file', 'y', 'data?', '*.txt', 'long*', 'sub', 'readme', '[ab]*', 'x y', 'b.txt', 'ME', 'b', 'UB']


COLLIDE_POOLS = [
    ['collidingname%d.txt' % i for i in range(12)],
    ['ab.txt', 'AB.TXT', 'Ab.txt', 'aB.TXT', 'ab', 'AB', 'a_b', 'a b', 'a-b', 'a+b'],
    ['x', 'X', 'x.', '.x', 'x.y.z', 'X.Y_Z', 'readme', 'README', 'ReadMe.md', 'README.MD', 'readme.markdown'],
    ['abcde000', 'abcde001', 'abcdefgh1', 'abcdefgh2', 'abcdefgh3', 'ABCDE000', 'abcde', 'abcde000.txt', 'abcdefghi.txt', 'abcdefghj.txt'],
]


def run_fn(ctx):
    tool = load_tool(GENISO, 'pycdlib_genisoimage_tool')
    rng = ctx.rng
    reqs, impl = [], []
    for _ in range(300 if ctx.quick else 6000):
        data = bytes(rng.randrange(256) for _ in range(rng.choice([0, 1, 2, 3, 4, 5, 7, 8, 15, 16, 33, 100])))
        seed = rng.choice([0, 0, rng.getrandbits(31), rng.getrandbits(32)])
        reqs.append('mm3 %d %s' % (seed, core.hexs(data)))
        impl.append(str(tool.mm3hash(data, seed) & 0xffffffff))
    # the kernel-checked collision really is one for the tool's function
    a, b = bytes.fromhex(COLLISION[0]), bytes.fromhex(COLLISION[1])
    if tool.mm3hash(a) != tool.mm3hash(b) or a == b or len(a) != len(b):
        ctx.disagree('S-fn/mm3-witness', 'the Lean collision witness is not a collision of the tool\'s mm3hash', {'kind': 'fn'})
    # collision numbering: many siblings mangling to one name
    for lvl in (1, 2, 3, 4):
        for is_dir in (False, True):
            for rnd in range(3 if ctx.quick else 40):
                if rnd == 0:
                    names = ['collidingname%d.txt' % i if not is_dir else 'collidingdirname%d' % i for i in range(40 if ctx.quick else 1003)]
                else:
                    pool = rng.choice(COLLIDE_POOLS)
                    names = [rng.choice(pool) for _ in range(rng.randint(2, 30))]
                parent = tool.DirLevel('/', '/', '/')
                outs = [tool.build_iso_path(parent, n, lvl, is_dir) for n in names]
                real = [o for o in outs if o is not None]
                ctx.count(key=('collide', lvl, is_dir, tuple(names[:8])), nontrivial=True, kind='collision-numbering')
                if len(set(real)) != len(real):
                    ctx.violation('C20.collision/duplicate', 'build_iso_path returned the same path twice for colliding siblings (level %d)' % lvl,
                                  {'kind': 'collide', 'lvl': lvl, 'dir': is_dir})
                reqs.append('collide %d %d %s' % (lvl, 1 if is_dir else 0, ' '.join(n.encode().hex() for n in names)))
                impl.append(' '.join('-' if o is None else o[1:].encode().hex() for o in outs))
    for _ in range(40 if ctx.quick else 400):
        root = '/'.join(rng.choice(['', 'a', 'dir', 'n' * 64, 'm' * 65, 'é' * 70, 'x y']) for _ in range(rng.randint(0, 4)))
        if rng.random() < 0.5:
            root = '/' + root
        name = rng.choice(['f', 'g' * 64, 'h' * 65, 'ü' * 100, 'a.b'])
        reqs.append('jolietpath %s %s' % (','.join(str(ord(c)) for c in root) or '-', ','.join(str(ord(c)) for c in name)))
        out = tool.build_joliet_path(root, name)
        impl.append(','.join(str(ord(c)) for c in out) or '-')
    model = ctx.driver.ask(reqs)
    for rq, a, b in zip(reqs, impl, model):
        ctx.count(key=rq, kind=rq.split()[0])
        if a != b:
            ctx.disagree('S-fn/' + rq.split()[0], '%s: impl=%s model=%s' % (rq[:60], a[:80], b[:80]), {'kind': 'fn', 'request': rq})
    ctx.traces_validated += len(reqs)


def big_collision():
    """two different files of more than 32 KiB whose chained murmur3 (32 KiB chunks, each hash seeding the next) collide:
    a common first chunk and two 11-byte tails found by birthday search with the tool's own function"""
    tool = load_tool(GENISO, 'pycdlib_genisoimage_tool')
    block = bytes((i * 7 + 3) % 251 for i in range(32 * 1024))
    seed = tool.mm3hash(block)
    seen = {}
    for i in range(2000000):
        tail = b'rec%08d' % i
        h = tool.mm3hash(tail, seed)
        if h in seen:
            return block + seen[h], block + tail
        seen[h] = tail
    return None


def dedup_collision(ctx, tmp, big=False):
    """-scan-for-duplicates with two different same-size files whose murmur3 hashes collide (the Lean witness; with
    big=True a pair longer than the 32 KiB chunk of mm3hashfromfile)"""
    if big:
        pair = big_collision()
        if pair is None:
            ctx.notes.append('no big collision found')
            return
        a, b = pair
    else:
        a, b = bytes.fromhex(COLLISION[0]), bytes.fromhex(COLLISION[1])
    tmp = os.path.join(tmp, 'big' if big else 'small')
    os.makedirs(tmp)
    src = os.path.join(tmp, 'dedup')
    os.makedirs(src)
    open(os.path.join(src, 'AAA'), 'wb').write(a)
    open(os.path.join(src, 'BBB'), 'wb').write(b)
    img = os.path.join(tmp, 'dedup.iso')
    rc, so, se = run_tool([GENISO, '-o', img, '-quiet', '-r', '-scan-for-duplicates', src], tmp)
    if rc != 0:
        ctx.notes.append('dedup probe: genisoimage failed: %s' % se[-200:])
        return
    dest = os.path.join(tmp, 'dedupx')
    os.makedirs(dest)
    run_tool([EXTRACT, '-path-type', 'rockridge', '-extract-to', dest, img], tmp)
    got = read_tree(dest)
    if got.get('AAA') != ('f', a) or got.get('BBB') != ('f', b):
        ctx.violation('C20.dedup/hash-collision%s' % ('-big' if big else ''), '-scan-for-duplicates links two different files of equal size (%d bytes) and equal 32-bit hash: one of them reads the other\'s bytes' % len(a),
                      {'kind': 'dedup', 'big': big})


# two distinct 8-byte strings with equal murmur3-32 (found by birthday search; checked by Lean: Tools.mm3_collision)
COLLISION = ('2dd1282aaf762950', 'd5282d643f2641ca')


def run(ctx):
    run_fn(ctx)
    tmp = tempfile.mkdtemp(prefix='verif-c20-')
    try:
        if COLLISION[0]:
            dedup_collision(ctx, tmp)
            dedup_collision(ctx, tmp, big=True)
        for _ in range(60 if ctx.quick else 1500):
            case.seed = ctx.rng.randrange(2 ** 62)
            case(ctx, random.Random(case.seed), tmp)
            if ctx.time_left() < 30:
                break
    finally:
        shutil.rmtree(tmp, ignore_errors=True)


def replay(ctx, obj):
    r = obj.get('replay', obj)
    tmp = tempfile.mkdtemp(prefix='verif-c20-')
    try:
        if r.get('kind') == 'tree':
            case.seed = r['seed']
            case(ctx, random.Random(r['seed']), tmp)
        elif r.get('kind') == 'dedup':
            dedup_collision(ctx, tmp, big=bool(r.get('big')))
        else:
            run_fn(ctx)
    finally:
        shutil.rmtree(tmp, ignore_errors=True)
    for v in ctx.violations:
        core.log('violation:', v['signature'], v['summary'])
    return [v['signature'] for v in ctx.violations]
