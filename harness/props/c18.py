"""
C18 — derived names are always legal.  Theorems: Props/C18.lean.

S-fn: `utils.mangle_file_for_iso9660`, `utils.mangle_dir_for_iso9660`, `facade.iso_path_to_rr_name` on the real code
vs the Lean model, for every code point whose upper-casing differs from itself (all 1.1M code points are scanned
to find them) placed at every position around the truncation cuts, ASCII, random Unicode; levels 1-4; files and dirs.
The per-character upper mapping Python used is sent with each string (the model is parametric in it) and the
assumption `s.upper() == ''.join(c.upper() for c in s)` is checked for every string.
Oracle (on the implementation alone): the derived identifier is accepted by `_check_iso9660_filename/_directory`
at that level and by a real `add_fp`/`add_directory`; identity on already-legal input; facade round trip.
"""
import io
import sys

from harness import core

LEAN_MODULES = ['Pycdlib.Props.C18']
THEOREMS = ['Pycdlib.mangle_chars', 'Pycdlib.mangle_dir_legal', 'Pycdlib.mangle_file_legal',
            'Pycdlib.mangle_dir_identity', 'Pycdlib.mangle_file_identity_partial',
            'Pycdlib.mangle_identity_counterexample']
PARTIAL = {
    'mangle_file_identity_partial': 'identity holds for NAME and NAME.EXT with 1..3 extension characters; legal names with an '
    'empty extension or (levels 2-3) an extension longer than 3 are rewritten by the code (known finding C18.identity/ext-folded)',
    'level 4': 'mangle_*_legal are stated for levels 1-3; at level 4 the helpers return the input unchanged and a name '
    'containing ";" or an empty name is then refused by the library (known finding C18.legal/level4)',
}
TRUSTED = ['str.upper is applied per code point and never yields the empty string (checked for every string sent)',
           're.sub("[^A-Z0-9_]{1}", "_", s) modelled as a per-character map (checked by S-fn)']
ASSUMPTIONS = ['CPython str.upper per-code-point full case mapping',
               'hypothesis s ≠ [] of mangle_*_legal: at the excluded point the helpers return ("", "") i.e. the illegal ".;1" / ""; '
               'an empty source name cannot reach them through the facades or pycdlib-genisoimage (path components are never empty), so '
               'this is recorded as an assumption and not as a finding']
RULE = ('strings built from every case-changing code point at positions around the 8/30/31/3 cuts, ASCII shapes, random '
        'Unicode; x levels 1-4 x file/dir; distinct = distinct (string, level, kind); non-trivial = the result differs '
        'from the input (something was mangled) or the input is legal (identity case)')
LEVEL_TEXT = ('Lean 4 theorems for every string and every case mapping: the mangled file/directory identifier consists of '
              'd-characters within the level limits and is accepted by the (proved-equivalent) acceptance predicate; identity on '
              'legal input (partial). Model tied to utils.py by differential execution over all case-changing code points.')
LEVEL_NOTE = ('Trusted: Lean kernel; str.upper as a per-character parameter (checked per input); regex substitution model. '
              'Facade addressing is decided by the API oracle only.')
TECHNIQUE = 'Lean 4 proof parametric in the case mapping + differential correspondence over all case-changing code points'


def special_chars():
    out = []
    for cp in range(sys.maxunicode + 1):
        if 0xD800 <= cp <= 0xDFFF:
            continue
        c = chr(cp)
        if c.upper() != c:
            out.append(c)
    return out


def gen_strings(ctx):
    sp = special_chars()
    ctx.extra['case_changing_code_points'] = len(sp)
    ctx.extra['length_changing_code_points'] = sum(1 for c in sp if len(c.upper()) != 1)
    step = 1 if not ctx.quick else 1
    for x in sp[::step]:
        for s in (x, 'a' * 7 + x, 'a' * 8 + x, 'a' * 7 + x + '.txt', 'abc.' + x, 'abc.' + x * 2, 'abc.' + x * 3,
                  'a' * 29 + x, 'a' * 30 + x + 'b', x * 9, 'ab' + x + '.t' + x):
            yield s
    ascii_shapes = ['', '.', '..', 'a', 'A', 'a.b', 'A.B', 'FOO.TXT', 'FOO', 'FOO.', '.FOO', 'FOO.ABCD', 'foo.tar.gz',
                    'A' * 8 + '.BBB', 'A' * 9 + '.BBB', 'A' * 8, 'A' * 9, 'A' * 30, 'A' * 31, 'A' * 32, 'A' * 27 + '.BBB',
                    'a;b', 'a;1', ';', 'a b', 'a\nb', 'a\x00b', 'a/b', 'x' * 300, 'A.B.C', 'A..B', '_', '0', 'A_1.X_2',
                    'FOO.TXT;1', 'Z' * 8 + '.ZZZ', 'AB.C', 'A.BCDE', 'NAME.EXT1']
    for s in ascii_shapes:
        yield s
    # names that look legal except for one control / space character at either end (anchored patterns, strip() calls)
    for base in ('ABC', 'A' * 8, 'A' * 7, 'FOO.TXT', 'ABC_1', 'A' * 30, 'A' * 31, 'X'):
        for c in '\n\r\t \x00\x0b\x0c\x1f\x7f\x85\u2028\u00a0':
            yield base + c
            yield c + base
    rng = ctx.rng
    pool = list('abzABZ019_.-; ') + sp[:: max(1, len(sp) // 60)] + ['中', '\U0001F600', 'é', 'İ', 'ǅ']
    for _ in range(4000 if ctx.quick else 80000):
        n = rng.choice((1, 2, 3, 4, 8, 9, 10, 12, 13, 31, 35))
        yield ''.join(rng.choice(pool) for _ in range(rng.randint(0, n)))


def enc_pairs(s):
    if not s:
        return '-'
    return ','.join('%d:%s' % (ord(c), '+'.join(str(ord(u)) for u in c.upper())) for c in s)


def cps(s):
    return ','.join(str(ord(c)) for c in s) if s else '-'


def legal_oracle(ctx, s, lvl, is_dir, ident):
    """Property clauses on the implementation alone."""
    import pycdlib.pycdlib as P
    from pycdlib import pycdlibexception as pe
    if s in ('', '.', '..'):      # not file names
        return
    try:
        b = ident.encode('utf-8')
    except UnicodeEncodeError:
        return
    try:
        if is_dir:
            P._check_iso9660_directory(b, lvl)
        else:
            P._check_iso9660_filename(b, lvl)
    except pe.PyCdlibInvalidInput:
        if lvl == 4:
            sig = 'C18.legal/level4'
            msg = 'level 4: helper returns %r for %r, which the library refuses' % (ident, s)
        else:
            sig = 'C18.legal/%s/refused' % ('dir' if is_dir else 'file')
            msg = 'mangled %s name %r (from %r, level %d) is refused by the library' % ('dir' if is_dir else 'file', ident, s, lvl)
        ctx.violation(sig, msg, {'kind': 'mangle', 's': [ord(c) for c in s], 'lvl': lvl, 'dir': is_dir})
        return
    # identity on already legal input (levels 1-3; input without version)
    if lvl < 4 and ';' not in s:
        try:
            if is_dir:
                P._check_iso9660_directory(s.encode('utf-8'), lvl)
                legal_in = len(s) <= (8 if lvl == 1 else 31)
                want = s
            else:
                P._check_iso9660_filename(s.encode('utf-8') + b';1', lvl)
                base, dot, ext = s.rpartition('.')
                legal_in = len(base if dot else s) <= (8 if lvl == 1 else 30)
                want = (s if dot else s + '.') + ';1'
        except (pe.PyCdlibInvalidInput, UnicodeEncodeError):
            legal_in = False
        if legal_in:
            ctx.dist['identity-cases'] += 1
            if ident != want:
                base, dot, ext = s.rpartition('.')
                if not is_dir and dot and (len(ext) == 0 or len(ext) > 3):
                    sig = 'C18.identity/ext-folded'
                else:
                    sig = 'C18.identity/%s' % ('dir' if is_dir else 'file')
                ctx.violation(sig, 'already legal %s name %r (level %d) is rewritten to %r' % ('dir' if is_dir else 'file', s, lvl, ident),
                              {'kind': 'mangle', 's': [ord(c) for c in s], 'lvl': lvl, 'dir': is_dir})


def run_fn(ctx, strings):
    from pycdlib import utils
    reqs, impl, meta = [], [], []
    bad_upper = 0
    for s in strings:
        if s.upper() != ''.join(c.upper() for c in s) or any(c.upper() == '' for c in s):
            bad_upper += 1
            continue
        for lvl in (1, 2, 3, 4):
            b, e = utils.mangle_file_for_iso9660(s, lvl)
            reqs.append('mangle %d file %s' % (lvl, enc_pairs(s)))
            impl.append(cps(b) + ' ' + cps(e))
            meta.append((s, lvl, False, '.'.join([b, e])))
            d = utils.mangle_dir_for_iso9660(s, lvl)
            reqs.append('mangle %d dir %s' % (lvl, enc_pairs(s)))
            impl.append(cps(d))
            meta.append((s, lvl, True, d))
    ctx.extra['upper_assumption_failures'] = bad_upper
    model = ctx.driver.ask(reqs)
    for rq, a, b, (s, lvl, is_dir, ident) in zip(reqs, impl, model, meta):
        nontriv = ident.rstrip(';1').rstrip('.') != s
        ctx.count(key=(s, lvl, is_dir), nontrivial=True, kind='lvl%d:%s:%s' % (lvl, 'dir' if is_dir else 'file', 'mangled' if nontriv else 'kept'),
                  sample={'s': s, 'level': lvl, 'dir': is_dir, 'impl': ident} if nontriv else None)
        if a != b:
            ctx.disagree('S-fn', 'mangle(%r, lvl=%d, dir=%s): impl=%s model=%s' % (s, lvl, is_dir, a, b),
                         {'kind': 'mangle', 's': [ord(c) for c in s], 'lvl': lvl, 'dir': is_dir})
        legal_oracle(ctx, s, lvl, is_dir, ident)
    ctx.traces_validated += len(reqs)


def facade_oracle(ctx, names, lvl):
    """Rock Ridge facade: add by rr path, read back by rr path; derived ISO names must not break addressing."""
    import pycdlib
    from pycdlib import pycdlibexception as pe
    iso = pycdlib.PyCdlib()
    iso.new(interchange_level=lvl, rock_ridge='1.09')
    fac = iso.get_rock_ridge_facade()
    added = {}
    derived = {}
    for i, nm in enumerate(names):
        data = ('data-%d-%s' % (i, nm)).encode('utf-8')
        try:
            iso_path, _ = fac._rr_path_to_iso_path_and_rr_name('/' + nm, False)
        except Exception:
            continue
        if iso_path in derived:
            continue            # two sources deriving one identifier is the caller's collision (C13 covers refusal)
        derived[iso_path] = nm
        try:
            fac.add_fp(io.BytesIO(data), len(data), '/' + nm, 0o100444)
            added[nm] = data
        except pe.PyCdlibInvalidInput as e:
            if lvl == 4:
                ctx.violation('C18.legal/level4', 'facade add_fp(rr_path=%r) at level 4 refused: %s' % (nm, e),
                              {'kind': 'facade', 'names': [[ord(c) for c in n] for n in names], 'lvl': lvl})
            else:
                ctx.violation('C18.facade/add-refused', 'facade add_fp(rr_path=%r) at level %d refused because of the derived name: %s' % (nm, lvl, e),
                              {'kind': 'facade', 'names': [[ord(c) for c in n] for n in names], 'lvl': lvl})
    out = io.BytesIO()
    iso.write_fp(out)
    iso.close()
    iso2 = pycdlib.PyCdlib()
    iso2.open_fp(io.BytesIO(out.getvalue()))
    fac2 = iso2.get_rock_ridge_facade()
    for nm, data in added.items():
        got = io.BytesIO()
        try:
            fac2.get_file_from_iso_fp(got, '/' + nm)
        except Exception as e:
            ctx.violation('C18.facade/lookup-fails', 'facade lookup of %r fails: %r' % (nm, e),
                          {'kind': 'facade', 'names': [[ord(c) for c in n] for n in names], 'lvl': lvl})
            continue
        if got.getvalue() != data:
            ctx.violation('C18.facade/wrong-entry', 'facade lookup of %r returns another entry' % nm,
                          {'kind': 'facade', 'names': [[ord(c) for c in n] for n in names], 'lvl': lvl})
    iso2.close()
    ctx.count(key=('facade', tuple(names), lvl), kind='facade', nontrivial=len(added) > 0)


def facade_nested(ctx, dirname, lvl):
    """the Rock Ridge facade below a directory whose ISO9660 identifier is NOT the mangling of its Rock Ridge name (added
    through the main API, or numbered by a tool), while another directory carries exactly that mangled identifier: an
    entry added by Rock Ridge path must land in the directory that has that Rock Ridge name, at any depth."""
    import pycdlib
    from pycdlib import utils
    rp = {'kind': 'facade-nested', 'dir': [ord(c) for c in dirname], 'lvl': lvl}
    iso = pycdlib.PyCdlib()
    iso.new(interchange_level=lvl, rock_ridge='1.09')
    mangled = utils.mangle_dir_for_iso9660(dirname, lvl)
    other = 'Q' + dirname[:5] + 'q'
    try:
        iso.add_directory('/' + mangled, rr_name=other)                # carries the identifier the facade would derive
        iso.add_directory('/ZZ000', rr_name=dirname)                   # the directory the caller means
        iso.add_directory('/ZZ000/SUB', rr_name='sub')
    except Exception:  # noqa  (names the main API refuses are C13's subject)
        iso.close()
        return
    fac = iso.get_rock_ridge_facade()
    todo = [('/' + dirname + '/f1.txt', b'one'), ('/' + dirname + '/sub/f2.txt', b'two')]
    for path, data in todo:
        try:
            fac.add_fp(io.BytesIO(data), len(data), path, 0o100444)
        except Exception as e:  # noqa
            ctx.violation('C18.facade/nested-add-fails', 'facade add_fp(%r) at level %d fails although the Rock Ridge parent exists: %r' % (path, lvl, e), rp)
            iso.close()
            return
    ctx.count(key=('facade-nested', dirname, lvl), kind='facade-nested', nontrivial=True)
    try:
        here = sorted(c.rock_ridge.name() for c in iso.list_children(rr_path='/' + dirname) if c.rock_ridge is not None and not c.is_dot() and not c.is_dotdot())
        there = sorted(c.rock_ridge.name() for c in iso.list_children(rr_path='/' + other) if c.rock_ridge is not None and not c.is_dot() and not c.is_dotdot())
        if b'f1.txt' not in here or there:
            ctx.violation('C18.facade/nested-wrong-parent', 'facade add_fp(%r): children of /%s are %s, children of /%s are %s' % (
                todo[0][0], dirname, here, other, there), rp)
        for path, data in todo:
            got = io.BytesIO()
            fac.get_file_from_iso_fp(got, path)
            if got.getvalue() != data:
                ctx.violation('C18.facade/nested-wrong-entry', 'facade read of %r returns other bytes' % path, rp)
    except Exception as e:  # noqa
        ctx.violation('C18.facade/nested-lookup-fails', 'after the facade additions below /%s: %r' % (dirname, e), rp)
    iso.close()


def gen_facade_sets(ctx):
    rng = ctx.rng
    pool = ['a', 'b', 'Z', '9', '_', '.', '-', ' ', 'ß', 'é', '中', 'x', ';']
    for _ in range(40 if ctx.quick else 600):
        k = rng.randint(1, 5)
        names = []
        for _ in range(k):
            n = ''.join(rng.choice(pool) for _ in range(rng.randint(1, 14)))
            if '/' in n or n in ('.', '..') or '\x00' in n:
                continue
            names.append(n)
        if names:
            yield list(dict.fromkeys(names))


def iso_facade_versions(ctx):
    """ISO9660 facade on a Rock Ridge image: identifiers that differ in the version or the extension only are different
    entries; each is accepted, gets a Rock Ridge name that is the identifier itself (it is already legal), and reads back
    its own content under its own path, also after a reopen"""
    import pycdlib
    from pycdlib import facade
    idents = ['DATA.BIN;1', 'DATA.BIN;2', 'DATA.BIN;32767', 'DATA.TXT;1', 'DATA.B;3', 'X.Y;7', 'LONGNAME.EXT;12']
    for lvl in (1, 2, 3):
        rp = {'kind': 'iso-facade-versions', 'lvl': lvl}
        for ident in idents:
            got = facade.iso_path_to_rr_name('/DIR1/' + ident, lvl, False)
            if got != ident:
                ctx.violation('C18.identity/rr-name-of-legal-identifier', 'iso_path_to_rr_name(%r, level %d) = %r: a legal identifier is not kept' % (ident, lvl, got), rp)
        iso = pycdlib.PyCdlib()
        iso.new(interchange_level=lvl, rock_ridge='1.09')
        fac = iso.get_iso9660_facade()
        fac.add_directory('/DIR1')
        added = {}
        for i, ident in enumerate(idents):
            data = ('v-%d-%s' % (i, ident)).encode()
            try:
                fac.add_fp(io.BytesIO(data), len(data), '/DIR1/' + ident)
                added[ident] = data
            except Exception as e:  # noqa
                ctx.violation('C18.facade/add-refused', 'ISO9660 facade add_fp(%r) at level %d refused because of the derived Rock Ridge name: %s' % ('/DIR1/' + ident, lvl, e), rp)
        out = io.BytesIO()
        iso.write_fp(out)
        iso.close()
        iso2 = pycdlib.PyCdlib()
        iso2.open_fp(io.BytesIO(out.getvalue()))
        fac2 = iso2.get_iso9660_facade()
        for ident, data in added.items():
            buf = io.BytesIO()
            try:
                fac2.get_file_from_iso_fp(buf, '/DIR1/' + ident)
            except Exception as e:  # noqa
                ctx.violation('C18.facade/lookup-fails', 'ISO9660 facade lookup of %r fails: %r' % (ident, e), rp)
                continue
            if buf.getvalue() != data:
                ctx.violation('C18.facade/wrong-entry', 'ISO9660 facade lookup of %r returns another entry' % ident, rp)
        iso2.close()
        ctx.count(key=('iso-facade-versions', lvl), kind='facade', nontrivial=True)


def run(ctx):
    strings = list(dict.fromkeys(gen_strings(ctx)))
    run_fn(ctx, strings)
    iso_facade_versions(ctx)
    for names in gen_facade_sets(ctx):
        for lvl in (1, 3, 4):
            facade_oracle(ctx, names, lvl)
    for dirname in ['reports', 'Reports', 'REPORTS2', 'long directory name', 'ß', 'a.b', 'x' * 40] + \
            [''.join(ctx.rng.choice('abcXYZ09_- .é') for _ in range(ctx.rng.randint(1, 12))) for _ in range(10 if ctx.quick else 200)]:
        if dirname.strip('.') == '' or '/' in dirname:
            continue
        for lvl in (1, 2, 3, 4):
            facade_nested(ctx, dirname, lvl)


def replay(ctx, obj):
    r = obj.get('replay', obj)
    before = len(ctx.violations) + len(ctx.disagreements)
    if r.get('kind') == 'mangle':
        s = ''.join(chr(c) for c in r['s'])
        run_fn(ctx, [s])
    elif r.get('kind') == 'iso-facade-versions':
        iso_facade_versions(ctx)
    elif r.get('kind') == 'facade-nested':
        facade_nested(ctx, ''.join(chr(c) for c in r['dir']), r['lvl'])
    elif r.get('kind') == 'facade':
        facade_oracle(ctx, [''.join(chr(c) for c in n) for n in r['names']], r['lvl'])
    for v in ctx.violations:
        core.log('violation:', v['signature'], v['summary'])
    for d in ctx.disagreements:
        core.log('disagreement:', d['summary'])
    return [v['signature'] for v in ctx.violations] + ['disagreement' for _ in ctx.disagreements]
