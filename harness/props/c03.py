"""
C03 — written images are structurally valid ISO9660 for an independent reader.
Theorems: Props/C03.lean (both-endian, directory-record and path-table-record codecs, packing inside sectors).

Oracle: Model/Reader.lean (no code shared with pycdlib) decodes the bytes pycdlib wrote; every violated ECMA-119 clause is
an error code (descriptor set/terminator, both-endian agreement, record packing, "." / ".." targets and lengths, sortedness,
L/M path tables = level-order directory listing with parent numbers, sizes).  The tree and contents it recovers are compared
with what the library API reports for the same image (walk / get_record / get_file_from_iso_fp).
Correspondence: every DirectoryRecord / PathTableRecord of the mastered object: `record()` bytes vs `encDR` / `encPTR`.
"""
import io

import os
import shutil
import tempfile
from harness import core, histcheck, isoapi
from harness.props import c01, c04

LEAN_MODULES = ['Pycdlib.Props.C03', 'Pycdlib.Props.TiePack', 'Pycdlib.Props.C03Dir', 'Pycdlib.Props.C03Pt', 'Pycdlib.Props.C03PtOrder']
THEOREMS = ['Pycdlib.decDR_encDR', 'Pycdlib.decPTR_encPTR', 'Pycdlib.decBoth16_both16', 'Pycdlib.decBoth32_both32',
            'Pycdlib.decBoth32_rejects', 'Pycdlib.dr_len_even', 'Pycdlib.writer_no_straddle', 'Pycdlib.writer_matches_cache',
            'Pycdlib.dr_recalc_tie', 'Pycdlib.dr_recalc_init_tie',
            'Pycdlib.DirBytes.parse_renderDir', 'Pycdlib.DirBytes.dir_roundtrip', 'Pycdlib.DirBytes.encDR_recOk', 'Pycdlib.DirBytes.parse_zeros',
            'Pycdlib.PtBytes.parse_render', 'Pycdlib.PtBytes.le_be_agree', 'Pycdlib.PtBytes.render_length',
            'Pycdlib.PtOrder.parents_sorted', 'Pycdlib.PtOrder.parent_not_later']
PARTIAL = {
    'master_wellformed_partial': 'proved: record codecs, packing, a whole directory extent reads back as the records written '
    '(DirBytes.dir_roundtrip), a whole path table reads back as its records in both byte orders (PtBytes.parse_render, le_be_agree), the table the writer emits is ordered by parent directory number and no record names a '
    'later parent, for every hierarchy (PtOrder.parents_sorted, parent_not_later). '
    'Not one theorem: the image-level predicate (descriptor set, dot/dotdot targets, sortedness, path table = level-order listing with '
    'parent numbers) — the reader\'s error list evaluated on pycdlib\'s bytes per history',
    'sortedness': 'pycdlib orders records by raw identifier bytes (dr.py __lt__); ECMA-119 9.3 order differs when versions differ or '
    'an extension is a proper prefix of another followed by a character below 0x20-padded comparison — known finding C03.wf/unsorted-ecma',
}
TRUSTED = ['Model/Reader.lean as the statement of ECMA-119 well-formedness']
ASSUMPTIONS = []
RULE = c01.RULE + '; plus duplicate PVDs'
LEVEL_TEXT = ('Lean 4 theorems: decode∘encode = id for directory and path table records in both byte orders, both-endian fields '
              'agree and disagreeing fields are rejected, records never straddle a sector; a directory extent and a path table read back as exactly the '
              'records written, for every record list (dir_roundtrip, PtBytes.parse_render), tied byte for byte to every directory extent and path table of every generated image. Image-level well-formedness is decided by '
              'the independent Lean reader on every generated image; record codecs are tied to dr.py/path_table_record.py by '
              'differential execution on every record of every generated image.')
LEVEL_NOTE = 'Trusted: Lean kernel; the reader as specification of ECMA-119; harness generators.'
TECHNIQUE = 'Lean 4 codec round-trip proofs + independent Lean ECMA-119 reader as oracle + record-level correspondence'


def api_view(path):
    """The tree and contents as the library's own API reports them for the written image (ISO9660 namespace)."""
    import pycdlib
    iso = pycdlib.PyCdlib()
    iso.open(path)
    out = {}
    try:
        for dirname, dirs, files in iso.walk(iso_path='/'):
            for d in dirs:
                p = (dirname.rstrip('/') + '/' + d)
                out[('D', p)] = None
            for f in files:
                p = (dirname.rstrip('/') + '/' + f)
                rec = iso.get_record(iso_path=p)
                buf = io.BytesIO()
                try:
                    iso.get_file_from_iso_fp(buf, iso_path=p)
                    data = buf.getvalue()
                except Exception:
                    data = None
                out[('F', p)] = (rec.get_data_length() if rec.data_continuation is None else None, data)
    finally:
        iso.close()
    return out


def fnv(data):
    h = 14695981039346656037
    for b in data:
        h = ((h ^ b) * 1099511628211) & 0xFFFFFFFFFFFFFFFF
    return str(h)


def post(ctx, c, rep):
    rp = histcheck.replay_obj(c)
    for e in rep.errs:
        code = e.split(':')[0]
        if histcheck.owns(code, histcheck.ECMA_CODES):
            ctx.violation('C03.wf/%s' % code, 'independent reader: %s' % e[:200], rp)
    # reader view vs API view (ISO namespace)
    try:
        api = api_view(c.path)
    except Exception as e:  # noqa
        ctx.violation('C03.api-open-fails', 'library cannot list its own image: %r' % e, rp)
        return
    rd = {}
    for k, a in isoapi.parse_entries([x for x in rep.entries if x.startswith('I:')]).items():
        p = '/' + '/'.join(bytes.fromhex(h).decode('utf-8', 'replace') for h in k[2].split('/') if h)
        # a relocation placeholder (RRIP CL) is listed by the library's walk() as a file name
        rd[('F' if k[1] == 'P' else k[1], p)] = dict(a, placeholder=(k[1] == 'P'))
    for k in set(api) ^ set(rd):
        ctx.violation('C03.api-vs-reader/tree', 'entry %s %r is seen by only one of (library API, independent reader)' % k, rp)
    for k in set(api) & set(rd):
        if k[0] == 'F' and api[k][1] is not None and not rd[k].get('placeholder'):
            if len(api[k][1]) != rd[k]['len'] or fnv(api[k][1]) != rd[k]['hash']:
                ctx.violation('C03.api-vs-reader/content', 'file %r: API reads %d bytes, reader %d' % (k[1], len(api[k][1]), rd[k]['len']), rp)
    # record-level codec correspondence
    reqs, impl = [], []
    for tag, path, d in c04.dir_records(c.iso):
        for ch in d.children:
            su = b''
            if ch.xa_record is not None:
                su += ch.xa_record.record()
            if ch.rock_ridge is not None:
                su += ch.rock_ridge.record_dr_entries()
            reqs.append('encdr %d %d %s %d %d %d %d %s %s' % (ch._extent_location(), ch.data_length, ch.date.record().hex(), ch.file_flags,
                                                              ch.file_unit_size, ch.interleave_gap_size, ch.seqnum,
                                                              core.hexs(ch.file_ident), core.hexs(su)))
            impl.append(ch.record().hex() + ' rt-ok')
        if d.ptr is not None:
            for be in (0, 1):
                reqs.append('encptr %d %d %d %s' % (be, d.ptr.extent_location, d.ptr.parent_directory_num, core.hexs(d.ptr.directory_identifier)))
                impl.append((d.ptr.record_big_endian() if be else d.ptr.record_little_endian()).hex())
    # directory extents: the bytes on the image vs the model writer (DirBytes.renderDir), and the model reader
    # (DirBytes.parse) on the bytes — the two functions `dir_roundtrip` is about
    try:
        with open(c.path, 'rb') as f:
            for tag, path, d in c04.dir_records(c.iso):
                f.seek(d.extent_location() * 2048)
                ext = f.read(d.data_length)
                if len(ext) != d.data_length or len(ext) > 64 * 2048:
                    continue
                reqs.append('dirext %s %s' % (core.hexs(ext), ','.join(ch.record().hex() for ch in d.children) or '-'))
                impl.append('render-ok parse-ok')
            # path tables: bytes on the image vs PtBytes.render, PtBytes.parse on the bytes (`parse_render`, `le_be_agree`)
            import collections
            for vd in [c.iso.pvd] + ([c.iso.joliet_vd] if c.iso.joliet_vd is not None else []):
                order, dq = [], collections.deque([vd.root_directory_record()])
                while dq:
                    d = dq.popleft()
                    if d.ptr is not None:
                        order.append(d.ptr)
                    for ch in d.children:
                        if ch.is_dir() and not ch.is_dot() and not ch.is_dotdot():
                            if ch.rock_ridge is not None and ch.rock_ridge.child_link_record_exists():
                                continue
                            dq.append(ch)
                if not order or len(order) > 400:
                    continue
                # order and parent directory numbers against the model (PtOrder.table; theorems parents_sorted, parent_not_later):
                # the hierarchy is read off the object, the table off the IMAGE (extent, parent number per record)
                num, kids, dq2 = {id(vd.root_directory_record()): 0}, [], collections.deque([vd.root_directory_record()])
                ext_of = {0: vd.root_directory_record().extent_location()}
                while dq2:
                    d = dq2.popleft()
                    cs = []
                    for ch in d.children:
                        if ch.is_dir() and not ch.is_dot() and not ch.is_dotdot():
                            if ch.rock_ridge is not None and ch.rock_ridge.child_link_record_exists():
                                continue
                            num[id(ch)] = len(num)
                            ext_of[num[id(ch)]] = ch.extent_location()
                            cs.append(num[id(ch)])
                            dq2.append(ch)
                    if cs:
                        kids.append('%d:%s' % (num[id(d)], '.'.join(map(str, cs))))
                f.seek(vd.path_table_location_le * 2048)
                raw = f.read(vd.path_tbl_size)
                on_image, pos = [], 0
                while pos + 8 <= len(raw):
                    n = raw[pos]
                    on_image.append('%d:%d' % (int.from_bytes(raw[pos + 2:pos + 6], 'little'), int.from_bytes(raw[pos + 6:pos + 8], 'little')))
                    pos += 8 + n + (n % 2)
                want = ctx.driver.ask(['ptorder 0 %s' % (','.join(kids) or '-')])[0]
                want = ','.join('%d:%s' % (ext_of.get(int(e.split(':')[0]), -1), e.split(':')[1]) for e in want.split(',') if e)
                ctx.traces_validated += 1
                if want != ','.join(on_image):
                    ctx.disagree('S-codec/ptorder', 'path table (extent:parent) on the image %s, model %s' % (','.join(on_image)[:120], want[:120]), rp)
                toks = ','.join('%d:%d:%s' % (p.extent_location, p.parent_directory_num, p.directory_identifier.hex()) for p in order)
                for be, loc in ((0, vd.path_table_location_le), (1, vd.path_table_location_be)):
                    f.seek(loc * 2048)
                    reqs.append('ptext %d %s %s' % (be, core.hexs(f.read(vd.path_tbl_size)), toks))
                    impl.append('render-ok parse-ok')
    except OSError:
        pass
    if reqs:
        model = ctx.driver.ask(reqs)
        for rq, a, b in zip(reqs, impl, model):
            if a != b:
                ctx.disagree('S-codec', '%s: impl=%s model=%s' % (rq[:100], a[:80], b[:80]), rp)
        ctx.traces_validated += len(reqs)


def probe_relocation_name(ctx):
    """a user-chosen relocation directory (set_relocated_name): directory records and BOTH path tables must carry that
    identifier (the independent reader matches path table records with the hierarchy)"""
    import io
    import pycdlib
    tmpdir = tempfile.mkdtemp(prefix='verif-c03p-')
    try:
        for name, rrname, dup in (('MOVED', 'moved', 0), ('XX_MOVED', 'm' * 40, 1), ('A', 'a', 2)):
            rp = {'kind': 'probe-relocation-name', 'name': name}
            with isoapi.frozen_time():
                iso = pycdlib.PyCdlib()
                iso.new(interchange_level=3, rock_ridge='1.09')
                try:
                    iso.set_relocated_name(name, rrname)
                    for _ in range(dup):
                        iso.duplicate_pvd()
                    p = ''
                    for i in range(8):
                        p += '/DIR%d' % i
                        iso.add_directory(p, rr_name='dir%d' % i)
                    iso.add_fp(io.BytesIO(b'deep'), 4, p + '/F.;1', rr_name='f')
                    path = os.path.join(tmpdir, 'n.iso')
                    iso.write(path)
                except Exception as e:  # noqa
                    ctx.violation('C03.relocation-name/%s' % isoapi.exc_class(e), 'set_relocated_name(%r) + depth 8: %r' % (name, e), rp)
                    continue
                finally:
                    iso.close()
            rep = isoapi.read_image(ctx, path)
            ctx.count(key=('relocation-name', name), nontrivial=True, kind='probe:relocation-name')
            for e in rep.errs:
                code = e.split(':')[0]
                if histcheck.owns(code, histcheck.ECMA_CODES):
                    ctx.violation('C03.relocation-name/%s' % code, 'relocation directory named %s: %s' % (name, e[:160]), rp)
    finally:
        shutil.rmtree(tmpdir, ignore_errors=True)


def probe_descriptor_fields_and_passes(ctx):
    """(a) volume descriptors made with set size != sequence number, in every descriptor flavour and with copies: every
    both-endian field must agree (the independent reader checks all of them); (b) TWO layout passes on one object with edits in
    between that keep a directory at its extent but change its number in the path table (one directory in front of it goes,
    the root grows by the same amount): the parent directory numbers written by the second pass must be those of the
    final hierarchy"""
    import io
    import pycdlib
    tmpdir = tempfile.mkdtemp(prefix='verif-c03d-')
    path = os.path.join(tmpdir, 'p.iso')

    def judge(sig, what, rp):
        rep = isoapi.read_image(ctx, path)
        for e in rep.errs:
            code = e.split(':')[0]
            if histcheck.owns(code, histcheck.ECMA_CODES):
                ctx.violation('C03.%s/%s' % (sig, code), '%s: %s' % (what, e[:160]), rp)
    try:
        for set_size, seq in ((3, 1), (2, 2), (5, 3), (65535, 1), (300, 299)):
            for flavour in ({}, {'joliet': 3}, {'interchange_level': 4}, {'rock_ridge': '1.09', 'joliet': 1}):
                rp = {'kind': 'probe-descriptor-fields'}
                with isoapi.frozen_time():
                    iso = pycdlib.PyCdlib()
                    iso.new(set_size=set_size, seqnum=seq, **flavour)
                    iso.duplicate_pvd()
                    iso.add_directory('/D', **({'rr_name': 'd'} if flavour.get('rock_ridge') else {}), **({'joliet_path': '/d'} if flavour.get('joliet') else {}))
                    iso.write(path)
                    iso.close()
                ctx.count(key=('descriptor-fields', set_size, seq, tuple(sorted(flavour))), nontrivial=True, kind='probe:descriptor-fields')
                judge('descriptor-fields', 'new(set_size=%d, seqnum=%d, %s)' % (set_size, seq, flavour), rp)
        for flavour in ({}, {'joliet': 3}, {'rock_ridge': '1.09'}):
            for nfiles in (46, 50, 60):
                rp = {'kind': 'probe-descriptor-fields'}
                rr = lambda n: ({'rr_name': n} if flavour.get('rock_ridge') else {})   # noqa
                jl = lambda p: ({'joliet_path': p} if flavour.get('joliet') else {})   # noqa
                with isoapi.frozen_time():
                    iso = pycdlib.PyCdlib()
                    iso.new(**flavour)
                    iso.add_directory('/A', **rr('a'), **jl('/a'))
                    iso.add_directory('/B', **rr('b'), **jl('/b'))
                    iso.add_directory('/B/SUB', **rr('sub'), **jl('/b/sub'))
                    iso.add_directory('/B/SUB/DEEP', **rr('deep'), **jl('/b/sub/deep'))
                    iso.write_fp(io.BytesIO())
                    for i in range(nfiles):
                        iso.add_fp(io.BytesIO(b'x'), 1, '/F%05d.;1' % i, **rr('f%05d' % i), **jl('/f%05d' % i))
                    iso.rm_directory('/A', **rr('a'), **jl('/a'))
                    iso.write(path)
                    iso.close()
                ctx.count(key=('two-passes', tuple(sorted(flavour)), nfiles), nontrivial=True, kind='probe:two-passes')
                judge('two-passes', 'write, %d root files added and /A removed, write again (%s)' % (nfiles, flavour), rp)
    finally:
        shutil.rmtree(tmpdir, ignore_errors=True)


def run(ctx):
    probe_relocation_name(ctx)
    probe_descriptor_fields_and_passes(ctx)
    c01.run(ctx, focus='C03', post=post, n_quick=150, n_thorough=4000, force={'duppvd': True})
    # the same for images that were opened and edited again (several descriptor copies, moved root, parsed tables)
    c01.run(ctx, focus='C03', post=post, n_quick=60, n_thorough=1500, force={'duppvd': True}, reopen_every=6)


def replay(ctx, obj):
    if obj.get('replay', obj).get('kind') == 'probe-descriptor-fields':
        probe_descriptor_fields_and_passes(ctx)
        return [v['signature'] for v in ctx.violations]
    if obj.get('replay', obj).get('kind') == 'probe-relocation-name':
        probe_relocation_name(ctx)
        return [v['signature'] for v in ctx.violations]
    return c01.replay(ctx, obj, focus='C03', post=post)
