"""
C06 — lazy metadata is transparent.  Theorems: Props/C06.lean (`schedule_irrelevant`, `force_then_query`, `run_coherent`).

The theorems hold for any edit semantics and layout function under ONE hypothesis about the code: every mutating call leaves
the cached layout marked stale (lazy mode) or recomputed (always-consistent mode).
Tie      after every mutating API call on the real object: lazy mode → `_needs_reshuffle` is True; always-consistent mode →
         an extra force_consistency() changes no reported extent (the cache was already the layout of the edits).
Oracle   each generated history (incl. El Torito / isohybrid / duplicate PVD edits) is replayed under k random schedules of
         force_consistency / get_record / walk / list_children / extra write calls, in both modes: all final images must be
         byte-identical; after force_consistency the extent and length reported by get_record equal those the independent
         reader finds in the image written next.
"""
import hashlib
import io
import random
import shutil
import tempfile

from harness import core, gen, histcheck, isoapi
from harness.props import c01

LEAN_MODULES = ['Pycdlib.Props.C06', 'Pycdlib.Props.C16Cache']
THEOREMS = ['Pycdlib.Lazy.schedule_irrelevant', 'Pycdlib.Lazy.force_then_query', 'Pycdlib.Lazy.run_coherent',
            'Pycdlib.Lazy.run_edit', 'Pycdlib.Lazy.step_coherent', 'Pycdlib.Lazy.stale_flag_needed']
PARTIAL = {}
TRUSTED = ['the abstraction of PyCdlib to (edit state, cached layout, stale flag): edits never READ cached extents — checked by the '
           'schedule oracle (an edit that read a cached extent would make images differ between schedules)']
ASSUMPTIONS = ['time.time frozen']
RULE = ('histories from the common generator plus El Torito / isohybrid / duplicate-PVD edits, each replayed under 4 (quick) or 12 '
        'schedules x both modes; distinct = (cfg, ops, schedule); non-trivial = schedule inserts at least one force/query/write')
LEVEL_TEXT = ('Lean 4 theorem for arbitrary edit semantics and layout: the written layout depends only on the edits, not on mode or on '
              'interleaved force/query/write calls, provided every mutating call invalidates or recomputes the cache — and that '
              'hypothesis is checked on the real object after every call. Byte equality across schedules is checked per history.')
LEVEL_NOTE = 'Trusted: Lean kernel; the (edit, cache, stale) abstraction (validated by the schedule oracle).'
TECHNIQUE = 'Lean 4 proof parametric in edit/layout functions + stale-flag tie on the real object + schedule differential'

MUTATING = ('addfp', 'adddir', 'rmfile', 'rmdir', 'addlink', 'rmlink', 'addsym', 'hide', 'unhide', 'duppvd', 'eltorito', 'rmeltorito',
            'isohybrid', 'rmisohybrid')


def gen_history(ctx, rng, cfg, nops):
    """accepted-only history with boot edits mixed in"""
    s = histcheck.drive(ctx, rng, cfg, nops, tmpdir=tempfile.gettempdir())
    ops = list(s.ops)
    s.close()
    # boot edits: a file at the root becomes the boot file
    if rng.random() < 0.6:
        n = rng.choice([512, 2048, 2048, 3000])
        boot = {'op': 'addfp', 'cid': 900, 'n': n, 'hex': isoapi.isolinux_boot(n, rng.randrange(256)).hex(), 'iso': '/BOOTIMG.;1'}
        if cfg.get('rr'):
            boot['rr'] = 'bootimg'
        if cfg.get('joliet'):
            boot['joliet'] = '/bootimg'
        if cfg.get('udf'):
            boot['udf'] = '/bootimg'
        k = rng.randint(0, len(ops))
        ops.insert(k, boot)
        kw = {}
        if rng.random() < 0.5:
            kw['boot_info_table'] = True
        el = {'op': 'eltorito', 'boot': '/BOOTIMG.;1', 'kw': kw}
        k2 = rng.randint(k + 1, len(ops))
        ops.insert(k2, el)
        if rng.random() < 0.4 and not cfg.get('udf'):
            k3 = rng.randint(k2 + 1, len(ops))
            hkw = rng.choice([{}, {}, {'mac': True}, {'efi': True}, {'efi': True}])
            if hkw:
                # EFI / Mac hybrids need El Torito EFI sections: one more boot file with one (two) EFI entries
                efi = {'op': 'addfp', 'cid': 901, 'n': 4096, 'iso': '/EFIIMG.;1'}
                if cfg.get('rr'):
                    efi['rr'] = 'efiimg'
                if cfg.get('joliet'):
                    efi['joliet'] = '/efiimg'
                extra = [efi, {'op': 'eltorito', 'boot': '/EFIIMG.;1', 'kw': {'efi': True}}]
                if hkw.get('mac'):
                    extra.append({'op': 'eltorito', 'boot': '/EFIIMG.;1', 'kw': {'efi': True}})
                ops[k3:k3] = extra
                k3 += len(extra)
            ops.insert(k3, {'op': 'isohybrid', 'kw': hkw})
            if rng.random() < 0.35:
                # El Torito is taken away while the hybrid MBR is attached (refused, or the MBR goes with it - in any
                # case the same under every schedule), sometimes after the MBR was removed properly
                k4 = rng.randint(k3 + 1, len(ops))
                if rng.random() < 0.5:
                    ops.insert(k4, {'op': 'rmisohybrid'})
                    k4 += 1
                ops.insert(rng.randint(k4, len(ops)), {'op': 'rmeltorito'})
        elif rng.random() < 0.2:
            ops.insert(rng.randint(k2 + 1, len(ops)), {'op': 'rmeltorito'})
    return ops


def schedule(rng, ops, density):
    out = []
    for op in ops:
        out.append(op)
        while rng.random() < density:
            out.append({'op': rng.choice(['force', 'force', 'walk', 'write', 'listroot', 'lookup', 'lookup'])})
    return out


def run_schedule(ctx, cfg, sched, ac, rp):
    """returns (image bytes or None, per-op results)"""
    results = []
    known = set()
    with isoapi.frozen_time():
        iso = isoapi.new_iso(cfg, always_consistent=ac)
        for op in sched:
            o = op['op']
            if o == 'write':
                try:
                    iso.write_fp(io.BytesIO())
                    results.append('ok')
                except Exception as e:  # noqa
                    results.append(isoapi.exc_class(e))
                continue
            if o == 'listroot':
                try:
                    list(iso.list_children(iso_path='/'))
                except Exception:
                    pass
                continue
            if o == 'lookup':
                # read-only queries of every path the history has mentioned so far, in every namespace
                for key, pth in sorted(known):
                    try:
                        rec = iso.get_record(**{key: pth})
                        if rec.is_dir():
                            list(iso.list_children(**{key: pth}))
                    except Exception:
                        pass
                continue
            for k2, key in (('iso', 'iso_path'), ('joliet', 'joliet_path'), ('udf', 'udf_path')):
                if op.get(k2):
                    known.add((key, op[k2]))
                    if '/' in op[k2].strip('/'):
                        known.add((key, op[k2].rsplit('/', 1)[0]))
            res = isoapi.apply_op(iso, op)
            if o in MUTATING:
                results.append(res)
                if res == 'ok' and not iso._needs_reshuffle:
                    # Coherent: a cache that is not marked stale must already be the layout of the current edits
                    before = snapshot(iso)
                    iso.force_consistency()
                    if snapshot(iso) != before:
                        ctx.violation('C06.coherence/%s/%s' % ('ac' if ac else 'lazy', o),
                                      'after %s the layout is not marked stale, yet recomputing it changes what is reported (%s mode)' % (
                                          o, 'always-consistent' if ac else 'lazy'), rp)
        out = io.BytesIO()
        try:
            iso.write_fp(out)
        except Exception as e:  # noqa
            iso.close()
            return None, results + ['write:' + isoapi.exc_class(e)]
        iso.close()
    return out.getvalue(), results


def snapshot(iso):
    snap = [iso.pvd.space_size, iso.pvd.path_table_location_le, iso.pvd.path_table_location_be]
    stack = [iso.pvd.root_directory_record()]
    while stack:
        d = stack.pop()
        for c in d.children:
            snap.append((c.file_ident, c.extent_location(), c.data_length))
            if c.is_dir() and not c.is_dot() and not c.is_dotdot() and not (c.rock_ridge is not None and c.rock_ridge.child_link_record_exists()):
                stack.append(c)
    if iso.isohybrid_mbr is not None:
        snap.append(('mbr', iso.isohybrid_mbr.rba))
    if iso.eltorito_boot_catalog is not None:
        snap.append(('cat', iso.eltorito_boot_catalog.initial_entry.load_rba))
    return snap


def query_oracle(ctx, cfg, ops, tmpdir, rp):
    """after force_consistency, get_record reports what the next written image contains"""
    import os
    with isoapi.frozen_time():
        iso = isoapi.new_iso(cfg)
        for op in ops:
            isoapi.apply_op(iso, op)
        iso.force_consistency()
        reported = {}
        try:
            for dirname, dirs, files in iso.walk(iso_path='/'):
                for f in files + dirs:
                    p = dirname.rstrip('/') + '/' + f
                    rec = iso.get_record(iso_path=p)
                    reported[p] = (rec.extent_location(), rec.get_data_length() if not rec.is_dir() else rec.data_length, rec.is_dir())
        except Exception as e:  # noqa
            ctx.notes.append('walk failed: %r' % e)
        path = os.path.join(tmpdir, 'q%d.iso' % random.randrange(10 ** 12))
        iso.write(path)
        iso.close()
    rep = isoapi.read_image(ctx, path)
    os.unlink(path)
    found = {}
    for label, first, cnt in rep.allocs:
        if label.startswith('dir:I/'):
            comps = label[len('dir:I'):]
            p = '/' + '/'.join(bytes.fromhex(h).decode('utf-8', 'replace') for h in comps.split('/') if h)
            found[p.rstrip('/') or '/'] = first
    for k, a in isoapi.parse_entries([e for e in rep.entries if e.startswith('I:F:')]).items():
        p = '/' + '/'.join(bytes.fromhex(h).decode('utf-8', 'replace') for h in k[2].split('/') if h)
        found[p] = (int(a['loc']), a['len'])
    for p, (ext, ln, isdir) in reported.items():
        if isdir:
            if p in found and found[p] != ext:
                ctx.violation('C06.query/dir-extent', 'after force_consistency get_record(%r) reports extent %d, the image has %s' % (p, ext, found[p]), rp)
        elif p in found and isinstance(found[p], tuple):
            fext, flen = found[p]
            if ln != flen or (ln > 0 and ext != fext):
                ctx.violation('C06.query/file', 'after force_consistency get_record(%r) reports (%d,%d), the image has (%d,%d)' % (p, ext, ln, fext, flen), rp)


def run_case(ctx, rng, cfg, ops, tmpdir, dense=False):
    rp = {'kind': 'history', 'cfg': cfg, 'ops': ops}
    base, res0 = run_schedule(ctx, cfg, ops, False, rp)
    if base is None:
        if any(r.startswith('write:') for r in res0):
            ctx.notes.append('base write failed: %s' % res0[-1])
        return
    h0 = hashlib.sha256(base).hexdigest()
    k = 4 if ctx.quick else 12
    fixed = []
    if dense:
        # directed histories: a query / a recomputation after every single edit, in both modes
        for extra in ('lookup', 'force', 'walk'):
            fixed.append([x for op in ops for x in (op, {'op': extra})])
    for j in range(k + 2 * len(fixed)):
        ac = (j % 2 == 1)
        if j >= k:
            sched = fixed[(j - k) // 2]
        else:
            sched = schedule(rng, ops, rng.choice([0.15, 0.4, 0.7]))
        img, res = run_schedule(ctx, cfg, sched, ac, rp)
        nontriv = len(sched) > len(ops) or ac
        ctx.count(key=(repr(sorted(cfg.items())), repr(sched), ac), nontrivial=nontriv, kind='mode:%s' % ('ac' if ac else 'lazy'),
                  sample={'cfg': cfg, 'schedule': [o['op'] for o in sched][:30], 'always_consistent': ac} if nontriv else None)
        if img is None:
            ctx.violation('C06.schedule/write-fails', 'schedule %s (ac=%s) makes the final write fail: %s' % ([o['op'] for o in sched][:20], ac, res[-1]), dict(rp, schedule=sched, ac=ac))
            continue
        if hashlib.sha256(img).hexdigest() != h0:
            d = next((i for i in range(min(len(img), len(base))) if img[i] != base[i]), min(len(img), len(base)))
            ctx.violation('C06.schedule/image-differs/%s' % ('ac' if ac else 'lazy'),
                          'image differs from the plain lazy run at byte %d (sector %d) under schedule %s (always_consistent=%s)' % (
                              d, d // 2048, [o['op'] for o in sched if o['op'] not in MUTATING][:8], ac), dict(rp, schedule=sched, ac=ac))
    query_oracle(ctx, cfg, ops, tmpdir, rp)
    ctx.traces_validated += 1


def run(ctx):
    tmpdir = tempfile.mkdtemp(prefix='verif-c06-')
    try:
        from harness.props import c01
        for cfg in c01.directed_cfgs(ctx, None)[:4 if ctx.quick else 12]:
            for label, ops in gen.directed(cfg):
                ctx.dist['family:directed:%s' % label.split('-')[0]] += 1
                run_case(ctx, random.Random(11), cfg, ops, tmpdir, dense=True)
        n = 60 if ctx.quick else 1500
        for _ in range(n):
            seed = ctx.rng.randrange(2 ** 62)
            rng = random.Random(seed)
            cfg = gen.sample_cfg(rng, {'duppvd': True})
            ops = gen_history(ctx, rng, cfg, rng.choice([5, 10, 18]))
            run_case(ctx, rng, cfg, ops, tmpdir)
            if ctx.time_left() < 20:
                break
    finally:
        shutil.rmtree(tmpdir, ignore_errors=True)


def replay(ctx, obj):
    r = obj.get('replay', obj)
    tmpdir = tempfile.mkdtemp(prefix='verif-c06-')
    try:
        if 'schedule' in r:
            base, _ = run_schedule(ctx, r['cfg'], r['ops'], False, r)
            img, _ = run_schedule(ctx, r['cfg'], r['schedule'], r.get('ac', False), r)
            if base is not None and img is not None and base != img:
                ctx.violation(obj.get('signature', 'C06.schedule/image-differs'), 'images differ', r)
        else:
            run_case(ctx, random.Random(1), r['cfg'], r['ops'], tmpdir)
    finally:
        shutil.rmtree(tmpdir, ignore_errors=True)
    for v in ctx.violations:
        core.log('violation:', v['signature'], v['summary'])
    return [v['signature'] for v in ctx.violations]
