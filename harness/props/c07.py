"""
C07 — hard-link semantics.  Theorems: Props/C07.lean (blob store refinement lemmas over Spec) + Props/C01.lean.

Histories dominated by add_fp / add_hard_link / rm_hard_link / rm_file across ISO9660, Joliet and UDF names, including
zero-length files, on fresh images and across write→open generations.  Decided per history:
  * all names of one content read the same bytes and the content is stored once: the independent reader's data extent of
    every name vs the Spec's blob id (same extent ⇔ same blob, for non-empty content);
  * removing one link / one file removes exactly what the Spec removes (view equality);
  * content is released exactly when the last reference goes: no data sectors without a name (`leaked-data`: every sector
    of the file area belongs to a live blob), declared size = end of last object.
"""
import random

import io

from harness import core, histcheck, isoapi
from harness.props import c01

LEAN_MODULES = ['Pycdlib.Props.C07', 'Pycdlib.Props.C01', 'Pycdlib.Props.C07Store', 'Pycdlib.Props.C04Iso']
THEOREMS = ['Pycdlib.Spec.addLink_shares', 'Pycdlib.Spec.rmLink_keeps_blob_iff', 'Pycdlib.Spec.rmFile_exact',
            'Pycdlib.Spec.rmFile_releases', 'Pycdlib.Spec.rmLink_local', 'Pycdlib.Spec.gc_referenced',
            'Pycdlib.Spec.store_inv_partial', 'Pycdlib.Spec.stored_iff_named_partial',
            'Pycdlib.Iso.contents_named', 'Pycdlib.Iso.unlink_releases_iff', 'Pycdlib.Iso.space_exact']
PARTIAL = {'store_inv_partial': 'the content-store invariant (every name has its content, every stored content is named, ids unique) is '
           'proved along every accepted history WITHOUT reopen (Props/C07Store); across reopen (renumbering of zero-length contents) it is '
           'decided per history',
           'released_at_zero_partial': 'proved for the Spec blob store (a blob survives rm_hard_link iff another name or an El Torito '
           'entry still refers to it) and for the bookkeeping machine Model/Iso (contents_named: every stored content has a name after '
           'any history; space_exact: the declared size counts exactly the stored contents, so the sectors go when the last name goes — '
           'tied per edit in C04 through isorun). El Torito references and UDF names are outside that machine: for those, that '
           'pycdlib\'s inode list refines the Spec is decided per history by the reader/Spec comparison and the leaked-data check'}
TRUSTED = ['reader finds all data reachable from names; unreferenced sectors in the file area are reported as leaked']
ASSUMPTIONS = []
RULE = 'link-heavy op mix (addlink 30%, rmlink 15%, rmfile 12%), sizes incl. 0, optional reopen every k ops; distinct = (cfg, ops)'
LEVEL_TEXT = ('Lean 4 theorems about the specification\'s blob store (links share one blob, removing a link keeps the blob iff another '
              'reference exists, rm_file removes exactly the names of the blob and releases it). The implementation is compared with '
              'the Spec through the independent reader on every generated link history, fresh and reopened.')
LEVEL_NOTE = 'Trusted: Lean kernel, Spec as statement, reader, generator.'
TECHNIQUE = 'Lean 4 proofs on the Spec blob store + Spec/reader differential on link-heavy histories with reopen'

MIX = {'addfp': 25, 'adddir': 8, 'rmfile': 12, 'rmdir': 3, 'addlink': 30, 'rmlink': 15, 'addsym': 2, 'hide': 5}


def post(ctx, c, rep):
    rp = histcheck.replay_obj(c)
    # every sector from the first file extent to the end must belong to a named content (or be the last UDF anchor)
    files = sorted((first, first + cnt) for label, first, cnt in rep.allocs if (label.startswith('file:') or label == 'bootcat') and cnt)
    if files:
        space = int(rep.info.get('space', 0))
        end = space - (1 if rep.info.get('udf') == '1' else 0)
        cur = files[0][0]
        for a, b in files:
            if a > cur:
                ctx.violation('C07.leaked-data', 'sectors [%d,%d) in the file area belong to no name (content not released?)' % (cur, a), rp)
                break
            cur = max(cur, b)
        else:
            if cur < end:
                ctx.violation('C07.leaked-data', 'sectors [%d,%d) after the last named content belong to no name' % (cur, end), rp)
    for code, detail in isoapi.check_allocs(rep):
        ctx.violation('C07.alloc/%s' % code, detail, rp)


def probe_names(ctx):
    """(a) two UDF names whose identifiers have the same bytes in different encodings (8-bit 'ab', 16-bit U+6162): removing one,
    by any of its paths, removes exactly that one; (b) a hand-patched image in which the record of an EMPTY file names the
    data extent of another file (other writers record an arbitrary extent for empty files): the two are different contents —
    each reads its own bytes and removing one leaves the other"""
    import struct
    import pycdlib
    rp = {'kind': 'probe-names'}
    # (a)
    for order in (('ab', '\u6162'), ('\u6162', 'ab')):
        for how in ('rm_hard_link', 'rm_file', 'rm_file_iso'):
            for reopen in (False, True):
                with isoapi.frozen_time():
                    iso = pycdlib.PyCdlib()
                    iso.new(udf='2.60')
                    iso.add_directory('/D', udf_path='/d')
                    for k, nm in enumerate(order):
                        iso.add_fp(io.BytesIO(b'content-%d' % k), 9, '/D/F%d.;1' % k, udf_path='/d/' + nm)
                    if reopen:
                        o = io.BytesIO()
                        iso.write_fp(o)
                        iso.close()
                        iso = pycdlib.PyCdlib()
                        iso.open_fp(io.BytesIO(o.getvalue()))
                    victim = 1                      # the name that comes second in the directory
                    try:
                        if how == 'rm_hard_link':
                            iso.rm_hard_link(udf_path='/d/' + order[victim])
                        elif how == 'rm_file':
                            iso.rm_file(udf_path='/d/' + order[victim])
                        else:
                            iso.rm_file(iso_path='/D/F%d.;1' % victim)
                        o2 = io.BytesIO()
                        iso.write_fp(o2)
                        iso.close()
                        g = pycdlib.PyCdlib()
                        g.open_fp(io.BytesIO(o2.getvalue()))
                        buf = io.BytesIO()
                        g.get_file_from_iso_fp(buf, udf_path='/d/' + order[0])
                        left = [c.file_identifier() for c in g.list_children(udf_path='/d') if c is not None]
                        g.close()
                        if buf.getvalue() != b'content-0' or len(left) != 1:
                            ctx.violation('C07.twin-names/wrong-entry-removed', '%s of the UDF name %r beside its twin %r (reopen=%s): the survivor reads %r, directory holds %d names'
                                          % (how, order[victim], order[0], reopen, buf.getvalue()[:12], len(left)), rp)
                    except Exception as e:  # noqa
                        ctx.violation('C07.twin-names/%s' % isoapi.exc_class(e), '%s of the UDF name %r beside its twin %r (reopen=%s) -> %r' % (how, order[victim], order[0], reopen, e), rp)
                ctx.count(key=('twin-names', order, how, reopen), nontrivial=True, kind='probe:twin-names')
    # (b)
    for first in ('EMPTY', 'ZDATA'):
        with isoapi.frozen_time():
            iso = pycdlib.PyCdlib()
            iso.new(joliet=3)
            names = {'empty': '/%s.;1' % ('AAA' if first == 'EMPTY' else 'ZZZ'), 'data': '/MMM.;1'}
            iso.add_fp(io.BytesIO(b''), 0, names['empty'], joliet_path='/e')
            iso.add_fp(io.BytesIO(b'd' * 3700), 3700, names['data'], joliet_path='/m')
            o = io.BytesIO()
            iso.write_fp(o)
            ext = iso.get_record(iso_path=names['data']).extent_location()
            root = iso.pvd.root_directory_record().extent_location()
            jroot = iso.joliet_vd.root_directory_record().extent_location()
            iso.close()
        img = bytearray(o.getvalue())
        for base in (root, jroot):
            off = 0
            while off < 2048 and img[base * 2048 + off]:
                pos = base * 2048 + off
                ln = struct.unpack_from('<L', img, pos + 10)[0]
                flags = img[pos + 25]
                if ln == 0 and not (flags & 2):
                    img[pos + 2: pos + 10] = struct.pack('<L', ext) + struct.pack('>L', ext)
                off += img[pos]
        try:
            g = pycdlib.PyCdlib()
            g.open_fp(io.BytesIO(bytes(img)))
            b1, b2 = io.BytesIO(), io.BytesIO()
            g.get_file_from_iso_fp(b1, iso_path=names['empty'])
            g.get_file_from_iso_fp(b2, iso_path=names['data'])
            if b1.getvalue() != b'' or b2.getvalue() != b'd' * 3700:
                ctx.violation('C07.foreign-empty/shares-content', 'an empty file whose record names the extent of %s reads %d bytes, %s reads %d' % (
                    names['data'], len(b1.getvalue()), names['data'], len(b2.getvalue())), rp)
            else:
                g.rm_file(iso_path=names['empty'])
                b3 = io.BytesIO()
                g.get_file_from_iso_fp(b3, iso_path=names['data'])
                if b3.getvalue() != b'd' * 3700:
                    ctx.violation('C07.foreign-empty/rm-removes-other', 'rm_file of the empty file changed %s' % names['data'], rp)
            g.close()
        except Exception as e:  # noqa
            ctx.violation('C07.foreign-empty/%s' % isoapi.exc_class(e), 'image with an empty file recorded at the extent of another file: %r' % e, rp)
        ctx.count(key=('foreign-empty', first), nontrivial=True, kind='probe:foreign-empty')


def run(ctx):
    probe_names(ctx)
    c01.run(ctx, focus='C07', post=post, n_quick=120, n_thorough=3000, opmix=MIX)
    c01.run(ctx, focus='C07', post=post, n_quick=80, n_thorough=2000, opmix=MIX, reopen_every=6)


def replay(ctx, obj):
    if obj.get('replay', obj).get('kind') == 'probe-names':
        probe_names(ctx)
        return [v['signature'] for v in ctx.violations]
    return c01.replay(ctx, obj, focus='C07', post=post)
