"""
C07 — hard-link semantics.  Theorems: Props/C07.lean (blob store refinement lemmas over Spec) + Props/C01.lean.

Histories dominated by add_fp / add_hard_link / rm_hard_link / rm_file across ISO9660, Joliet and UDF names, including
zero-length files, on fresh images and across write→open generations.  Decided per history:
  * all names of one content read the same bytes and the content is stored once: the independent reader's data extent of
    every name vs the Spec's blob id (same extent ⇔ same blob, for non-empty content);
  * removing one link / one file removes exactly what the Spec removes (view equality);
  * content is released exactly when the last reference goes: no data sectors without a name (`leaked-data`: every sector
    of the file area belongs to a live blob), declared size = end of last object.
"""
import random

from harness import core, histcheck, isoapi
from harness.props import c01

LEAN_MODULES = ['Pycdlib.Props.C07', 'Pycdlib.Props.C01', 'Pycdlib.Props.C07Store', 'Pycdlib.Props.C04Iso']
THEOREMS = ['Pycdlib.Spec.addLink_shares', 'Pycdlib.Spec.rmLink_keeps_blob_iff', 'Pycdlib.Spec.rmFile_exact',
            'Pycdlib.Spec.rmFile_releases', 'Pycdlib.Spec.rmLink_local', 'Pycdlib.Spec.gc_referenced',
            'Pycdlib.Spec.store_inv_partial', 'Pycdlib.Spec.stored_iff_named_partial',
            'Pycdlib.Iso.contents_named', 'Pycdlib.Iso.unlink_releases_iff', 'Pycdlib.Iso.space_exact']
PARTIAL = {'store_inv_partial': 'the content-store invariant (every name has its content, every stored content is named, ids unique) is '
           'proved along every accepted history WITHOUT reopen (Props/C07Store); across reopen (renumbering of zero-length contents) it is '
           'decided per history',
           'released_at_zero_partial': 'proved for the Spec blob store (a blob survives rm_hard_link iff another name or an El Torito '
           'entry still refers to it) and for the bookkeeping machine Model/Iso (contents_named: every stored content has a name after '
           'any history; space_exact: the declared size counts exactly the stored contents, so the sectors go when the last name goes — '
           'tied per edit in C04 through isorun). El Torito references and UDF names are outside that machine: for those, that '
           'pycdlib\'s inode list refines the Spec is decided per history by the reader/Spec comparison and the leaked-data check'}
TRUSTED = ['reader finds all data reachable from names; unreferenced sectors in the file area are reported as leaked']
ASSUMPTIONS = []
RULE = 'link-heavy op mix (addlink 30%, rmlink 15%, rmfile 12%), sizes incl. 0, optional reopen every k ops; distinct = (cfg, ops)'
LEVEL_TEXT = ('Lean 4 theorems about the specification\'s blob store (links share one blob, removing a link keeps the blob iff another '
              'reference exists, rm_file removes exactly the names of the blob and releases it). The implementation is compared with '
              'the Spec through the independent reader on every generated link history, fresh and reopened.')
LEVEL_NOTE = 'Trusted: Lean kernel, Spec as statement, reader, generator.'
TECHNIQUE = 'Lean 4 proofs on the Spec blob store + Spec/reader differential on link-heavy histories with reopen'

MIX = {'addfp': 25, 'adddir': 8, 'rmfile': 12, 'rmdir': 3, 'addlink': 30, 'rmlink': 15, 'addsym': 2, 'hide': 5}


def post(ctx, c, rep):
    rp = histcheck.replay_obj(c)
    # every sector from the first file extent to the end must belong to a named content (or be the last UDF anchor)
    files = sorted((first, first + cnt) for label, first, cnt in rep.allocs if (label.startswith('file:') or label == 'bootcat') and cnt)
    if files:
        space = int(rep.info.get('space', 0))
        end = space - (1 if rep.info.get('udf') == '1' else 0)
        cur = files[0][0]
        for a, b in files:
            if a > cur:
                ctx.violation('C07.leaked-data', 'sectors [%d,%d) in the file area belong to no name (content not released?)' % (cur, a), rp)
                break
            cur = max(cur, b)
        else:
            if cur < end:
                ctx.violation('C07.leaked-data', 'sectors [%d,%d) after the last named content belong to no name' % (cur, end), rp)
    for code, detail in isoapi.check_allocs(rep):
        ctx.violation('C07.alloc/%s' % code, detail, rp)


def run(ctx):
    c01.run(ctx, focus='C07', post=post, n_quick=120, n_thorough=3000, opmix=MIX)
    c01.run(ctx, focus='C07', post=post, n_quick=80, n_thorough=2000, opmix=MIX, reopen_every=6)


def replay(ctx, obj):
    return c01.replay(ctx, obj, focus='C07', post=post)
