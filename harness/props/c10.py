"""
C10 — UDF bridge fidelity for an independent ECMA-167 reader.  Theorems: Props/C10.lean, Props/Tie.lean.

S-codec  `udf.UDFTag.record(body)` vs `Udf.tagBytes` for every tag identifier pycdlib uses and random bodies/locations;
         `udf.crc_ccitt` vs the bit-by-bit `crc16` (the table tie is a theorem, this checks the function glue);
         the FID block assignment of every UDF directory of every generated image vs `Udf.fidAssign`.
Oracle   Model/ReaderUdf.lean starts ONLY from the volume recognition sequence and the anchors (sector 256, last sector),
         walks main/reserve descriptor sequences → partition → file set → root ICB → FIDs, validating every tag
         (identifier, checksum, CRC, location), every length (partition, information length, logical blocks recorded,
         extent lengths, LVID counters/size table) and returns the UDF view, compared with the Spec's UDF map.
"""
import io

from harness import core, histcheck, isoapi
from harness.props import c01

LEAN_MODULES = ['Pycdlib.Props.C10', 'Pycdlib.Props.Tie', 'Pycdlib.Props.C10Names']
THEOREMS = ['Pycdlib.Udf.tag_valid', 'Pycdlib.Udf.fid_spill_is_floor', 'Pycdlib.Udf.fid_spill_invariant', 'Pycdlib.Udf.fid_len_mul4',
            'Pycdlib.Udf.fid_len_tie', 'Pycdlib.crc_ccitt_tie', 'Pycdlib.crc16_table_spec', 'Pycdlib.crc16Byte_table',
            'Pycdlib.UdfNames.identOf_injective', 'Pycdlib.UdfNames.lookup_own_name', 'Pycdlib.UdfNames.old_rule_cross_encoding_collision']
PARTIAL = {
    'udf_read_master_partial': 'tags, CRC, FID sizes and FID block assignment are proved; the byte layout of the individual descriptors '
    '(PVD/IUVD/PD/LVD/USD/LVID/FSD/File Entry fields) and the tree walk are decided by the independent reader on every generated image',
}
TRUSTED = ['Model/ReaderUdf.lean as the statement of ECMA-167/UDF 2.60 validity']
ASSUMPTIONS = ['multi-gigabyte files are not generated in the quick tier']
RULE = c01.RULE + '; UDF forced; plus tag/CRC/FID grids'
LEVEL_TEXT = ('Lean 4 theorems: every tag computed for any body passes an ECMA-167 reader\'s checks; udf.crc_ccitt (table regenerated '
              'from the source each run) equals the bit-by-bit CRC-16/CCITT for every byte string; FID tag locations equal the block '
              'of the first byte for every list of FID lengths; a File Identifier determines its name and a lookup finds exactly the entry that '
              'carries the name (identOf_injective, lookup_own_name). Tree, names, symlinks, file bytes and all lengths are decided by the '
              'independent Lean ECMA-167 reader against the Lean Spec on every generated history.')
LEVEL_NOTE = 'Trusted: Lean kernel, py2lean for the table and length function, the reader as specification of validity.'
TECHNIQUE = 'Lean 4 proofs (tag validity, CRC table = bitwise CRC, FID packing) + independent Lean ECMA-167 reader vs Lean Spec'


def run_codec(ctx):
    from pycdlib import udf
    rng = ctx.rng
    reqs, impl = [], []
    for ident in (1, 2, 4, 5, 6, 7, 8, 9, 256, 257, 261, 264):
        for _ in range(6 if ctx.quick else 80):
            body = bytes(rng.randrange(256) for _ in range(rng.choice([0, 1, 16, 100, 496, 2032])))
            loc = rng.choice([0, 1, 2, 32, 257, 300, 70000, 2 ** 31])
            t = udf.UDFTag()
            t.new(ident)
            t.tag_location = loc
            reqs.append('udftag %d %d %d %d %s' % (ident, t.desc_version, t.tag_serial_number, loc, core.hexs(body)))
            impl.append(t.record(body).hex() + ' true')
    for _ in range(100 if ctx.quick else 3000):
        data = bytes(rng.randrange(256) for _ in range(rng.choice([0, 1, 2, 3, 17, 256, 2048])))
        reqs.append('crc16 %s' % core.hexs(data))
        impl.append(str(udf.crc_ccitt(data)))
    model = ctx.driver.ask(reqs)
    for rq, a, b in zip(reqs, impl, model):
        ctx.count(key=rq, kind=rq.split()[0])
        if a != b:
            ctx.disagree('S-codec/' + rq.split()[0], '%s: impl=%s model=%s' % (rq[:80], a[:60], b[:60]), {'kind': 'codec', 'request': rq})
    ctx.traces_validated += len(reqs)


def run_names(ctx):
    """correspondence for Model/UdfNames (theorems identOf_injective, lookup_own_name): the identifier a File Identifier
    Descriptor records for a name (encoding + content) and whether a lookup of another name finds it, on the real
    UDFFileIdentifierDescriptor / UDFFileEntry.find_file_ident_desc_by_name"""
    import pycdlib
    from pycdlib import udf
    rng = ctx.rng
    pool = ['ab', 'a', 'AB', 'xy12', 'caf\u00e9', '\u00ff\u00fe', '\u6162', '\u4142', '\u7879\u3132', '\u0100', 'a\u0100', '\U0001f600', 'b\U0001f600', '\u6100', '\u0061\u0062\u0063', '\u6162c']
    for _ in range(40 if ctx.quick else 400):
        pool.append(''.join(chr(rng.choice([0x61, 0x62, 0xe9, 0xff, 0x100, 0x6162, 0x6261, 0x4e2d, 0x1f600, 0x10000, 0xffff, 0x20])) for _ in range(rng.randint(1, 4))))
    pairs = [(a, b) for a in pool[:16] for b in pool[:16]] + [(rng.choice(pool), rng.choice(pool)) for _ in range(200 if ctx.quick else 3000)]
    iso = pycdlib.PyCdlib()
    iso.new(udf='2.60')
    root = iso.udf_root
    reqs, impl = [], []
    for stored, query in pairs:
        fid = udf.UDFFileIdentifierDescriptor()
        fid.new(False, False, stored.encode('utf-8'), root)
        units = list(fid.fi) if fid.encoding == 'latin-1' else [int.from_bytes(fid.fi[i:i + 2], 'big') for i in range(0, len(fid.fi), 2)]
        saved = root.fi_descs
        root.fi_descs = [saved[0], fid] if saved else [fid]
        try:
            found = root.find_file_ident_desc_by_name(query.encode('utf-8')) is fid
        except Exception:  # noqa
            found = False
        root.fi_descs = saved
        impl.append('%s %s %d' % ('latin1' if fid.encoding == 'latin-1' else 'utf16', '.'.join(map(str, units)), 1 if found else 0))
        reqs.append('udfident %s %s' % ('.'.join(str(ord(c)) for c in stored), '.'.join(str(ord(c)) for c in query)))
    iso.close()
    for (stored, query), rq, a, b in zip(pairs, reqs, impl, ctx.driver.ask(reqs)):
        ctx.count(key=rq, nontrivial=stored != query, kind='udfident:%s' % a.split()[0])
        if a != b:
            ctx.disagree('S-fn/udfident', 'identifier of %r looked up as %r: impl=%s model=%s' % (stored, query, a, b), {'kind': 'udfident', 'request': rq})
    ctx.traces_validated += len(pairs)


def udf_dirs(iso):
    out = []
    if iso.udf_root is None:
        return out
    stack = [iso.udf_root]
    while stack:
        d = stack.pop()
        out.append(d)
        for fi in d.fi_descs:
            if not fi.is_parent() and fi.is_dir() and fi.file_entry is not None:
                stack.append(fi.file_entry)
    return out


def post(ctx, c, rep):
    rp = histcheck.replay_obj(c)
    for e in rep.errs:
        code = e.split(':')[0]
        if histcheck.owns(code, histcheck.UDF_CODES):
            ctx.violation('C10.udf/%s' % code, 'independent ECMA-167 reader: %s' % e[:200], rp)
    if rep.info.get('udf') != '1':
        ctx.violation('C10.udf/not-recognised', 'the reader finds no UDF volume recognition sequence on a UDF image', rp)
    from pycdlib import udf
    reqs, impl = [], []
    for d in udf_dirs(c.iso):
        lens = [udf.UDFFileIdentifierDescriptor.length(len(fi.fi)) for fi in d.fi_descs]
        base = d.fi_descs[0].extent_location() if d.fi_descs else 0
        reqs.append('fidassign %s' % ','.join(map(str, lens)))
        impl.append(' '.join(str(fi.extent_location() - base) for fi in d.fi_descs) + ' | %d' % max(1, -(-d.info_len // 2048)))
    if reqs:
        model = ctx.driver.ask(reqs)
        for rq, a, b in zip(reqs, impl, model):
            if a != b:
                ctx.disagree('S-fn/fidassign', '%s: impl=%s model=%s' % (rq[:80], a[:60], b[:60]), rp)
        ctx.traces_validated += len(reqs)


def big_cases(ctx):
    """UDF files of more than 0x3ffff800 bytes need several allocation descriptors: each must point at its part of the data
    (decoded from the File Entry independently of pycdlib)"""
    from harness import bigfile
    bigfile.big_case(ctx, 'C10', {'udf': '2.60'}, 0x3ffff800 + 5000, 'udf-two-descriptors', udf_check=True)
    # a file that needs two ISO9660 extents (> 0xfffff800 bytes) under a UDF name as well: recorded finding (the UDF File
    # Entry is attached to the last extent only), run on every tier so that it is reported deterministically
    bigfile.big_case(ctx, 'C10', {'udf': '2.60'}, 0xfffff800 + 5000, 'udf-multi-extent', udf_check=True)
    if not ctx.quick:
        bigfile.big_case(ctx, 'C10', {'udf': '2.60', 'joliet': 3}, 3 * 0x3ffff800 + 1, 'udf-four-descriptors', udf_check=True)
        bigfile.big_case(ctx, 'C10', {'udf': '2.60'}, 0x3ffff800, 'udf-exactly-one-descriptor', udf_check=True)


def run(ctx):
    run_names(ctx)
    big_cases(ctx)
    run_codec(ctx)
    c01.run(ctx, focus='C10', post=post, n_quick=120, n_thorough=3000, force={'udf': '2.60'})
    # the bridge must stay consistent when a parsed image is edited (link counts, shared data, anchors)
    c01.run(ctx, focus='C10', post=post, n_quick=80, n_thorough=2000, force={'udf': '2.60'}, reopen_every=5)


def replay(ctx, obj):
    r = obj.get('replay', obj)
    if r.get('kind') == 'bigfile':
        big_cases(ctx)
        return [v['signature'] for v in ctx.violations]
    if r.get('kind') == 'codec':
        core.log('model:', ctx.driver.ask([r['request']])[0])
        return [obj.get('signature', 'C10.codec')]
    return c01.replay(ctx, obj, focus='C10', post=post)
