"""
C12 — hybrid (MBR/GPT/APM) boot data is consistent with the image it describes.
Theorems: Props/C12.lean (`calc_cc_spec`, `calc_cc_tie`, `part_covers`, `mbr_rba`), Props/Tie.lean (`crc32_tie`).

S-fn    `IsoHybrid._calc_cc` vs `Hybrid.calcCc` over the geometry grid (exhaustive 63 x 256 in the thorough tier) and image
        sizes around cylinder multiples and beyond 1024 cylinders; `isohybrid.crc32` vs the bit-by-bit CRC-32.
Oracle  scenarios: isolinux-style boot file (+ optional EFI and Mac El Torito sections of DIFFERENT sizes), tree edits before
        mastering that move the boot files, add_isohybrid with random geometry / part entry / offset / type / mbr id /
        efi / mac.  The written system area is decoded independently (struct + zlib.crc32, no pycdlib code):
        55AA signature; exactly one active partition whose end CHS and size are those of the cylinder-padded image;
        boot file address = 4 x sector of the platform-0 boot file (taken from the independent El Torito reader);
        GPT header and partition-array CRCs, primary/backup mirroring; MBR/GPT/APM partitions 2 and 3 delimit
        exactly 4 x sector .. + sector_count - 1 of the corresponding El Torito section; image length is a whole number
        of cylinders; everything from byte 32768 on equals the image of the same edits without add_isohybrid.
"""
import io
import os
import random
import shutil
import struct
import tempfile
import zlib

from harness import core, gen, histcheck, isoapi

LEAN_MODULES = ['Pycdlib.Props.C12', 'Pycdlib.Props.Tie']
THEOREMS = ['Pycdlib.Hybrid.calc_cc_spec', 'Pycdlib.Hybrid.backup_gpt_in_padding', 'Pycdlib.Hybrid.calc_cc_tie', 'Pycdlib.Hybrid.part_covers', 'Pycdlib.Hybrid.mbr_rba', 'Pycdlib.Hybrid.end_chs_decodes', 'Pycdlib.Hybrid.start_chs_decodes', 'Pycdlib.Hybrid.gpt_geometry',
            'Pycdlib.crc32_tie', 'Pycdlib.crc32_table_spec', 'Pycdlib.crc32Byte_table']
PARTIAL = {
    'mbr_shape / gpt_mirror partial': 'byte layout of MBR/GPT/APM and primary/backup mirroring are decided by the independent decoder per '
    'scenario; proved are the arithmetic (cylinder padding, partition bounds) and the CRC-32',
}
TRUSTED = ['the MBR/GPT/APM decoder in this file (struct + zlib.crc32) as the independent reader of the system area']
ASSUMPTIONS = ['uuid4 / getrandbits frozen to a deterministic sequence']
RULE = ('scenario = cfg x pre-edits x {plain, efi, efi+mac} sections with different sizes x add_isohybrid parameters; distinct = scenario; '
        'non-trivial = geometry/offset/entry differ from the defaults or efi/mac sections exist')
LEVEL_TEXT = ('Lean 4 theorems: _calc_cc (regenerated from isohybrid.py each run) pads to a whole cylinder (padding < cylinder; with EFI the least such padding holding the backup GPT) and '
              'cc = min(cylinders, 1024) for every geometry and size; partition bounds computed from an El Torito entry cover exactly '
              'its sectors at 4 x sector; MBR CHS fields decode to the requested offset / last cylinder; GPT geometry (backup header in the last '
              'sector, backup array inside the padding, ISO partition within the usable area) for every size and geometry; isohybrid.crc32 (table regenerated) is the bit-by-bit CRC-32 for every byte string. The '
              'byte layout and cross-structure consistency are decided by an independent decoder per scenario.')
LEVEL_NOTE = 'Trusted: Lean kernel, py2lean, the independent system-area decoder.'
TECHNIQUE = 'Lean 4 proofs (cylinder arithmetic, CRC-32 linearity) + independent MBR/GPT/APM decoder on generated hybrids'


def run_fn(ctx):
    from pycdlib import isohybrid
    rng = ctx.rng
    reqs, impl = [], []
    geoms = [(s, h) for s in range(1, 64) for h in range(1, 257)] if not ctx.quick else \
            [(rng.randint(1, 63), rng.randint(1, 256)) for _ in range(300)] + [(32, 64), (63, 255), (1, 1), (63, 256)]
    for s, h in geoms:
        cyl = s * h * 512
        # sizes around the cylinder boundary and around the room the backup GPT needs in the padding (33 sectors)
        edge = [k * cyl - d for k in (1, 3) for d in (33 * 512 + 2048, 33 * 512 + 1, 33 * 512, 33 * 512 - 1, 32 * 512 + 1, 32 * 512, 32 * 512 - 1, 16384, 2048)]
        for size in [0, 1, cyl - 1, cyl, cyl + 1, 1024 * cyl - 2048, 1024 * cyl, 1025 * cyl + 4096, rng.randrange(1, 10 ** 9) // 2048 * 2048] + edge:
            if size < 0:
                continue
            for efi in (False, True):
                ih = isohybrid.IsoHybrid()
                ih.new(efi, False, 1, 1, 0, s, h, 0x17 if not efi else 0)
                cc, pad = ih._calc_cc(size)
                reqs.append('calccc %d %d %d %d' % (size, h, s, 1 if efi else 0))
                impl.append('%d %d' % (cc, pad))
    for _ in range(100 if ctx.quick else 3000):
        data = bytes(rng.randrange(256) for _ in range(rng.choice([0, 1, 4, 92, 128, 1000])))
        reqs.append('crc32 %s' % core.hexs(data))
        impl.append(str(isohybrid.crc32(data)))
        if zlib.crc32(data) != isohybrid.crc32(data):
            ctx.violation('C12.crc32', 'isohybrid.crc32 differs from the standard CRC-32 on %s' % data.hex()[:40], {'kind': 'fn', 'request': reqs[-1]})
    model = ctx.driver.ask(reqs)
    for rq, a, b in zip(reqs, impl, model):
        ctx.count(key=rq, kind=rq.split()[0])
        if a != b:
            ctx.disagree('S-fn/' + rq.split()[0], '%s: impl=%s model=%s' % (rq[:60], a, b), {'kind': 'fn', 'request': rq})
    ctx.traces_validated += len(reqs)
    if not ctx.quick:
        ctx.exhaustive = True


def decode_gpt_header(b):
    sig, rev, hsize, hcrc, _r, cur, bak, first, last, guid, plba, nent, esz, ecrc = struct.unpack_from('<8s4sLLLQQQQ16sQLLL', b, 0)
    z = bytearray(b[:92])
    z[16:20] = b'\x00' * 4
    return {'sig': sig, 'hsize': hsize, 'hcrc': hcrc, 'hcrc_ok': zlib.crc32(bytes(z)) == hcrc, 'cur': cur, 'bak': bak, 'first': first,
            'last': last, 'guid': guid, 'plba': plba, 'nent': nent, 'esz': esz, 'ecrc': ecrc}


def scenario(ctx, rng, tmpdir):
    import pycdlib
    cfg = gen.sample_cfg(rng, {} if rng.random() < 0.3 else {'udf': None})
    seed = scenario.seed
    viol = lambda sig, msg: ctx.violation(sig, msg, {'kind': 'scenario', 'seed': seed})   # noqa
    variant = rng.choice(['plain', 'plain', 'efi', 'mac'])
    sizes = {'boot': 2048, 'efi': rng.choice([2048, 4096, 10240]), 'mac': rng.choice([2048, 6144, 40960])}
    lsz = {'efi': rng.choice([None, 8, 4]), 'mac': rng.choice([None, 20, 12])}
    # small geometries make images of 256 / 512 / 768 / 1024+ cylinders (the high cylinder bits and the 1024 clamp)
    s_geo, h_geo = rng.choice([(32, 64), (32, 64), (63, 255), (rng.randint(1, 63), rng.randint(1, 256)),
                               (rng.choice([1, 2, 4]), rng.choice([1, 2, 4, 8])), (1, rng.choice([1, 2, 3, 4]))])
    hy = {'geometry_sectors': s_geo, 'geometry_heads': h_geo, 'part_entry': rng.choice([1, 1, 2, 3, 4]),
          'part_offset': rng.choice([0, 0, 1, 63]), 'mbr_id': rng.choice([None, 0, 0x12345678, 0xffffffff])}
    if variant == 'plain':
        hy['part_type'] = rng.choice([None, 0x17, 0x83, 0x00])
    if variant == 'efi':
        hy['efi'] = True
    if variant == 'mac':
        hy['mac'] = True
    # partition entry 2 with EFI (3 with Mac) is the slot of the EFI (Mac) partition: the library refuses the request
    # (it used to accept it and write an image it could not open); the scenario then ends as a documented refusal
    # El Torito EFI entries that the hybrid does not describe: a plain hybrid on an image with an EFI entry, an EFI
    # hybrid (no Mac) on an image with two EFI entries
    extra_efi = variant in ('plain', 'efi') and rng.random() < 0.25
    share_boot = variant != 'plain' and rng.random() < 0.15
    pre_step = rng.choice([None, None, None, 'write', 'force'])
    extra_bios = rng.choice([None, None, None, 'ZBOOT', 'ABOOT'])
    namesets = rng.choice([('EFIBOOT', 'MACBOOT'), ('EFIBOOT', 'MACBOOT'), ('ZEFI', 'AMAC'), ('EFI2', 'EFI1'), ('ZZ', 'AA')])

    def build(with_hybrid):
        with isoapi.frozen_time():
            r2 = random.Random(seed)
            s = histcheck.drive(ctx, r2, cfg, r2.choice([0, 4, 9]), tmpdir=tmpdir)
            iso = s.iso
            names = {}
            for key, n in (('boot', sizes['boot']), ('efi', sizes['efi']), ('mac', sizes['mac'])):
                if key == 'efi' and variant == 'plain' and not extra_efi:
                    continue
                if key == 'mac' and variant != 'mac' and not (variant == 'efi' and extra_efi):
                    continue
                if key == 'efi' and share_boot:
                    names['efi'] = names['boot']       # the EFI entry uses the BIOS boot file itself
                    continue
                data = isoapi.isolinux_boot(n, {'boot': 0x11, 'efi': 0x22, 'mac': 0x33}[key])
                # the order of the file names is independent of the order of the catalog entries (a hybrid describes the
                # FIRST EFI section with partition 2 and the SECOND with partition 3, whatever the files are called)
                nm = '/%s.;1' % {'boot': 'ISOLINUX', 'efi': namesets[0], 'mac': namesets[1]}[key]
                kw = {'iso_path': nm}
                if cfg.get('rr'):
                    kw['rr_name'] = key
                if cfg.get('joliet'):
                    kw['joliet_path'] = '/' + key
                iso.add_fp(io.BytesIO(data), len(data), **kw)
                names[key] = (nm, data)
            ekw = {'boot_load_size': 4, 'boot_info_table': rng.random() < 0.0}
            if cfg.get('rr'):
                ekw['rr_bootcatname'] = 'boot.cat'
            iso.add_eltorito(names['boot'][0], **ekw)
            for key in ('efi', 'mac'):
                if key in names:
                    k2 = {'efi': True}
                    if lsz[key] is not None:
                        k2['boot_load_size'] = lsz[key]
                    iso.add_eltorito(names[key][0], **k2)
            if extra_bios:
                # a second BIOS (platform 0) entry in its own section: the MBR still describes the DEFAULT entry
                data = isoapi.isolinux_boot(2048, 0x44)
                kw = {'iso_path': '/%s.;1' % extra_bios}
                if cfg.get('rr'):
                    kw['rr_name'] = extra_bios.lower()
                iso.add_fp(io.BytesIO(data), len(data), **kw)
                iso.add_eltorito('/%s.;1' % extra_bios, platform_id=0, boot_load_size=4)
            # edits that move the boot files before mastering
            sh = s.shadow
            for _ in range(r2.choice([0, 3])):
                g = sh.gen_op()
                if g is None:
                    continue
                op, eff = g
                if isoapi.apply_op(iso, op) == 'ok':
                    sh.commit(eff)
                else:
                    s.close()
                    return None, None
            # add_isohybrid as the only edit after the layout was computed (an earlier write, an explicit recomputation)
            if pre_step == 'write':
                iso.write_fp(io.BytesIO())
            elif pre_step == 'force':
                iso.force_consistency()
            if with_hybrid:
                iso.add_isohybrid(**{k: v for k, v in hy.items() if v is not None or k == 'mbr_id'})
            out = io.BytesIO()
            iso.write_fp(out)
            s.close()
            return out.getvalue(), names
    try:
        img, names = build(True)
        base, _ = build(False)
    except Exception as e:  # noqa
        cls = isoapi.exc_class(e)
        if cls != 'invalidInput':
            viol('C12.build-raises/%s' % cls, 'hybrid scenario raised %s: %s (%s, %s)' % (cls, str(e)[:80], variant, hy))
        return
    if img is None or base is None:
        ctx.dist['abandoned:post-edit-refused'] += 1
        return
    path = os.path.join(tmpdir, 'hy%d.iso' % rng.randrange(10 ** 12))
    open(path, 'wb').write(base)
    rep = isoapi.read_image(ctx, path)
    os.unlink(path)
    ents = {}
    order = ['boot'] + [k for k in ('efi', 'mac') if k in names]
    for key, e in zip(order, [x for x in rep.entries if x.startswith('B:')]):
        f = e.split(':')
        ents[key] = {'rba': int([x for x in f if x.startswith('rba')][0][3:]), 'cnt': int([x for x in f if x.startswith('cnt')][0][3:])}
    # Recorded finding C12.efi/partitions-follow-name-order: the library hands the EFI section entries to the hybrid structures
    # in the order of their boot FILE NAMES (the order in which it places the files), not in catalog order; the unedited
    # suite pins that order (test_new_isohybrid_mac_uefi).  When the names sort the other way round and partition 2
    # describes exactly the second EFI entry, that is this finding; the remaining clauses are then checked against the
    # name order so that any OTHER defect still shows under its own signature.
    name_order = False
    if variant != 'plain' and 'efi' in ents and 'mac' in ents and names['efi'][0] > names['mac'][0]:
        lba2, cnt2 = struct.unpack_from('<LL', img, 446 + 16 + 8)
        if (lba2, cnt2) == (4 * ents['mac']['rba'], ents['mac']['cnt']) and ents['mac'] != ents['efi']:
            viol('C12.efi/partitions-follow-name-order', 'partition 2 describes the SECOND EFI section entry (%s sorts before %s): sections are '
                 'handed to the hybrid structures in file-name order, not catalog order' % (names['mac'][0], names['efi'][0]))
            ents['efi'], ents['mac'] = ents['mac'], ents['efi']
            name_order = True
    cyl = s_geo * h_geo * 512
    # --- hybrid is otherwise the unchanged ISO
    if img[32768:len(base)] != base[32768:]:
        viol('C12.transparent', 'bytes from 32768 on differ between the hybrid image and the plain image of the same edits')
    if len(img) % cyl != 0:
        viol('C12.padding', 'hybrid image length %d is not a whole number of %d-byte cylinders' % (len(img), cyl))
    pad = len(img) - len(base)
    gpt_room = 33 * 512 if variant != 'plain' else 0
    if len(img) < len(base) or pad >= cyl + gpt_room:
        viol('C12.padding', 'padding %d is more than needed (cylinder %d, room for the backup GPT %d)' % (pad, cyl, gpt_room))
    if pad < gpt_room:
        viol('C12.padding/backup-gpt-overlaps', 'padding %d is smaller than the backup GPT (%d bytes): it overwrites the end of the ISO' % (pad, gpt_room))
    if variant == 'plain' and any(img[len(base):]):
        viol('C12.padding', 'cylinder padding is not zero')
    # --- MBR
    if img[510:512] != b'\x55\xaa':
        viol('C12.mbr/signature', 'no 55AA at offset 510')
    rba, z1, mbr_id, z2 = struct.unpack_from('<LLLH', img, 432)
    if rba != 4 * ents['boot']['rba']:
        viol('C12.mbr/rba', 'MBR boot file address %d != 4 x sector %d of the platform-0 boot file' % (rba, ents['boot']['rba']))
    if hy['mbr_id'] is not None and mbr_id != hy['mbr_id']:
        viol('C12.mbr/id', 'mbr id %x, requested %x' % (mbr_id, hy['mbr_id']))
    parts = [img[446 + 16 * i: 462 + 16 * i] for i in range(4)]
    active = [i + 1 for i, p in enumerate(parts) if p[0] == 0x80]
    if active != [hy['part_entry']]:
        viol('C12.mbr/active', 'active partition entries %s, requested entry %d' % (active, hy['part_entry']))
    else:
        st, bh, bs, bc, pt, eh, es, ec, off, psize = struct.unpack('<BBBBBBBBLL', parts[hy['part_entry'] - 1])
        cc_full = len(img) // cyl
        cc = min(cc_full, 1024)
        # expected CHS fields from the Lean model (Hybrid.startChs / endFields; theorems start_chs_decodes, end_chs_decodes)
        m = [int(x) for x in ctx.driver.ask(['mbrchs %d %d %d %d' % (cc, h_geo, s_geo, hy['part_offset'])])[0].split()]
        want = (m[3], m[4], m[5], hy['part_offset'], m[6])
        if (eh, es, ec, off, psize) != want:
            viol('C12.mbr/geometry', 'active partition end/offset/size %s, expected %s for the padded image' % ((eh, es, ec, off, psize), want))
        if (bh, bs, bc) != (m[0], m[1], m[2]):
            viol('C12.mbr/start-chs', 'active partition start CHS %s, expected %s for offset %d' % ((bh, bs, bc), tuple(m[:3]), hy['part_offset']))
        # and the fields decode back (MBR rules) to the last cylinder / the offset
        if cc <= 1024 and ((es >> 6) << 8 | ec) != cc - 1 or (es & 63) != s_geo:
            viol('C12.mbr/geometry-decode', 'end CHS (%d,%d,%d) does not decode to cylinder %d, sector %d' % (eh, es, ec, cc - 1, s_geo))
        ptype = hy.get('part_type')
        exp_type = ptype if ptype is not None else (0 if variant != 'plain' else 0x17)
        if pt != exp_type:
            viol('C12.mbr/type', 'partition type %#x, expected %#x' % (pt, exp_type))
    for i, p in enumerate(parts, 1):
        if i != hy['part_entry'] and not (variant != 'plain' and i == 2) and not (variant == 'mac' and i == 3) and any(p):
            viol('C12.mbr/extra-partition', 'partition entry %d is not empty' % i)
    if variant != 'plain':
        lba, cnt = struct.unpack_from('<LL', parts[1], 8)
        if lba != 4 * ents['efi']['rba'] or cnt != ents['efi']['cnt']:
            viol('C12.efi/mbr-partition', 'MBR partition 2 = (%d,%d), EFI section is at sector %d with %d sectors' % (lba, cnt, ents['efi']['rba'], ents['efi']['cnt']))
        # GPT
        ph = decode_gpt_header(img[512:512 + 92])
        if ph['sig'] != b'EFI PART' or not ph['hcrc_ok']:
            viol('C12.gpt/primary-header', 'primary GPT header signature/CRC invalid')
        ent_off = ph['plba'] * 512
        arr = img[ent_off: ent_off + ph['nent'] * ph['esz']]
        used = 3 if variant == 'mac' else 2
        if zlib.crc32(arr) != ph['ecrc']:
            if zlib.crc32(arr[:used * 128]) == ph['ecrc']:
                viol('C12.gpt/entries-crc-over-used-entries-only', 'GPT partition array CRC covers only the %d used entries, not all %d x %d bytes' % (used, ph['nent'], ph['esz']))
            else:
                viol('C12.gpt/primary-entries-crc', 'primary GPT partition array CRC mismatch')
        bh_off = ph['bak'] * 512
        if bh_off + 92 > len(img):
            viol('C12.gpt/backup-location', 'backup GPT header LBA %d outside the image' % ph['bak'])
        else:
            sh_ = decode_gpt_header(img[bh_off: bh_off + 92])
            if sh_['sig'] != b'EFI PART' or not sh_['hcrc_ok']:
                viol('C12.gpt/backup-header', 'backup GPT header signature/CRC invalid')
            else:
                if (sh_['cur'], sh_['bak']) != (ph['bak'], ph['cur']) or sh_['guid'] != ph['guid'] or (sh_['first'], sh_['last']) != (ph['first'], ph['last']):
                    viol('C12.gpt/mirror', 'backup GPT header does not mirror the primary')
                arr2 = img[sh_['plba'] * 512: sh_['plba'] * 512 + sh_['nent'] * sh_['esz']]
                if zlib.crc32(arr2) != sh_['ecrc'] and zlib.crc32(arr2[:used * 128]) != sh_['ecrc']:
                    viol('C12.gpt/backup-entries-crc', 'backup GPT partition array CRC mismatch')
                if arr2 != arr:
                    d = next(i for i in range(min(len(arr), len(arr2))) if arr[i] != arr2[i]) if len(arr) == len(arr2) else -1
                    viol('C12.gpt/mirror-entries', 'backup GPT partition array differs from the primary (first difference in entry %d)' % (d // 128))
            if ph['bak'] != len(img) // 512 - 1:
                viol('C12.gpt/backup-location', 'backup header at LBA %d, last LBA is %d' % (ph['bak'], len(img) // 512 - 1))

        def gpt_part(a, i):
            first, last = struct.unpack_from('<QQ', a, i * 128 + 32)
            return first, last
        # the header LBAs and the first two partitions against the model (Hybrid.gptGeo, theorem gpt_geometry)
        if bh_off + 92 <= len(img):
            sh2 = decode_gpt_header(img[bh_off: bh_off + 92])
            got_geo = (ph['cur'], ph['bak'], ph['first'], ph['last'], ph['plba'], sh2['plba']) + gpt_part(arr, 0) + gpt_part(arr, 1)
            want_geo = tuple(int(x) for x in ctx.driver.ask(['gptgeo %d %d %d %d %d %d' % (
                len(base), h_geo, s_geo, ents['efi']['rba'], ents['efi']['cnt'], 1 if variant == 'mac' else 0)])[0].split())
            ctx.traces_validated += 1
            if got_geo != want_geo:
                ctx.disagree('S-hybrid/gptgeo', 'GPT header / partition LBAs: impl=%s model=%s (image %d bytes, geometry %dx%d, %s)' % (
                    got_geo, want_geo, len(base), h_geo, s_geo, variant), {'kind': 'scenario', 'seed': seed})
        f1, l1 = gpt_part(arr, 1)
        if (f1, l1) != (4 * ents['efi']['rba'], 4 * ents['efi']['rba'] + ents['efi']['cnt'] - 1):
            viol('C12.efi/gpt-partition', 'GPT partition 2 = (%d,%d), EFI section sector %d count %d' % (f1, l1, ents['efi']['rba'], ents['efi']['cnt']))
        if variant == 'mac':
            lba, cnt = struct.unpack_from('<LL', parts[2], 8)
            if lba != 4 * ents['mac']['rba'] or cnt != ents['mac']['cnt']:
                viol('C12.mac/mbr-partition', 'MBR partition 3 = (%d,%d), Mac section sector %d count %d' % (lba, cnt, ents['mac']['rba'], ents['mac']['cnt']))
            f2, l2 = gpt_part(arr, 2)
            if (f2, l2) != (4 * ents['mac']['rba'], 4 * ents['mac']['rba'] + ents['mac']['cnt'] - 1):
                viol('C12.mac/gpt-partition', 'GPT partition 3 = (%d,%d), Mac section sector %d count %d' % (f2, l2, ents['mac']['rba'], ents['mac']['cnt']))
    # re-open: the library must parse its own hybrid and reproduce it
    try:
        iso2 = pycdlib.PyCdlib()
        iso2.open_fp(io.BytesIO(img))
        out = io.BytesIO()
        with isoapi.frozen_time():
            iso2.write_fp(out)
        iso2.close()
        a, b = bytearray(img), bytearray(out.getvalue())
        for buf in (a, b):
            buf[16 * 2048 + 830: 16 * 2048 + 847] = bytes(17)
        if bytes(a) != bytes(b):
            d = next((i for i in range(min(len(a), len(b))) if a[i] != b[i]), min(len(a), len(b)))
            viol('C12.remaster', 're-mastered hybrid differs at byte %d' % d)
    except Exception as e:  # noqa
        viol('C12.reopen/%s' % isoapi.exc_class(e), 'cannot reopen the hybrid image: %r' % e)
    # second generation: the hybrid image is opened, grows by one file and is written again; the boot data must describe
    # the new image (nothing of the old system area may survive)
    try:
        iso3 = pycdlib.PyCdlib()
        iso3.open_fp(io.BytesIO(img))
        grow = rng.choice([1, 3000, 70000, 700000])
        kw3 = {'iso_path': '/GROWN.;1'}
        if cfg.get('rr'):
            kw3['rr_name'] = 'grown'
        with isoapi.frozen_time():
            iso3.add_fp(io.BytesIO(b'g' * grow), grow, **kw3)
            out3 = io.BytesIO()
            iso3.write_fp(out3)
        iso3.close()
        second_generation(ctx, out3.getvalue(), hy, s_geo, h_geo, variant, viol, name_order)
    except Exception as e:  # noqa
        viol('C12.gen2/%s' % isoapi.exc_class(e), 'open + add_fp + write of the hybrid image raised %r' % e)
    nontriv = variant != 'plain' or (s_geo, h_geo) != (32, 64) or hy['part_entry'] != 1 or hy['part_offset'] != 0
    ctx.count(key=seed, nontrivial=nontriv, kind='variant:' + variant + ('+efi-entry' if extra_efi else ''), sample={'cfg': cfg, 'variant': variant, 'hybrid': hy, 'sizes': sizes, 'load': lsz, 'before_isohybrid': pre_step, 'extra_efi_entry': extra_efi})


def second_generation(ctx, img2, hy, s_geo, h_geo, variant, viol, name_order=False):
    """MBR of an image that was opened, edited and written again: geometry fields for the NEW length, boot file address of
    the NEW layout, still a whole number of cylinders"""
    cyl = s_geo * h_geo * 512
    if len(img2) % cyl != 0:
        viol('C12.gen2/padding', 'second generation: length %d is not a whole number of %d-byte cylinders' % (len(img2), cyl))
    if img2[510:512] != b'\x55\xaa':
        viol('C12.gen2/signature', 'second generation: no 55AA at offset 510')
        return
    with tempfile.NamedTemporaryFile(prefix='verif-c12-gen2-', suffix='.iso') as tf:
        tf.write(img2)
        tf.flush()
        rep = isoapi.read_image(ctx, tf.name)
    bents = [e for e in rep.entries if e.startswith('B:')]
    if bents:
        rba0 = int([x for x in bents[0].split(':') if x.startswith('rba')][0][3:])
        rba = struct.unpack_from('<L', img2, 432)[0]
        if rba != 4 * rba0:
            viol('C12.gen2/mbr-rba', 'second generation: MBR boot file address %d != 4 x sector %d' % (rba, rba0))
    part = img2[446 + 16 * (hy['part_entry'] - 1): 462 + 16 * (hy['part_entry'] - 1)]
    st, bh, bs, bc, pt, eh, es, ec, off, psize = struct.unpack('<BBBBBBBBLL', part)
    cc = min(len(img2) // cyl, 1024)
    m = [int(x) for x in ctx.driver.ask(['mbrchs %d %d %d %d' % (cc, h_geo, s_geo, hy['part_offset'])])[0].split()]
    if (eh, es, ec, off, psize) != (m[3], m[4], m[5], hy['part_offset'], m[6]):
        viol('C12.gen2/mbr-geometry', 'second generation: active partition end/offset/size %s, expected %s for the %d-byte image' % (
            (eh, es, ec, off, psize), (m[3], m[4], m[5], hy['part_offset'], m[6]), len(img2)))
    if variant != 'plain' and len(bents) >= 2:
        # GPT of the second generation: headers valid, backup in the last sector and mirroring the primary, LBAs and the
        # first two partitions as the model gives them for the NEW ISO length (Hybrid.gptGeo, theorem gpt_geometry)
        def num(e, k):
            return int([x for x in e.split(':') if x.startswith(k)][0][len(k):])
        iso_len = int(rep.info.get('space', 0)) * 2048
        if name_order and len(bents) >= 3:
            bents = [bents[0], bents[2], bents[1]]      # recorded finding: the partitions follow the file-name order
        ph = decode_gpt_header(img2[512:512 + 92])
        if ph['sig'] != b'EFI PART' or not ph['hcrc_ok']:
            viol('C12.gen2/gpt-primary-header', 'second generation: primary GPT header signature/CRC invalid')
        elif ph['bak'] != len(img2) // 512 - 1 or ph['bak'] * 512 + 92 > len(img2):
            viol('C12.gen2/gpt-backup-location', 'second generation: primary GPT header names LBA %d as its backup, the last LBA is %d' % (ph['bak'], len(img2) // 512 - 1))
        else:
            sh_ = decode_gpt_header(img2[ph['bak'] * 512: ph['bak'] * 512 + 92])
            arr = img2[ph['plba'] * 512: ph['plba'] * 512 + 3 * 128]
            if sh_['sig'] != b'EFI PART' or not sh_['hcrc_ok']:
                viol('C12.gen2/gpt-backup-header', 'second generation: no valid backup GPT header in the last sector')
            else:
                if (sh_['cur'], sh_['bak']) != (ph['bak'], ph['cur']) or img2[sh_['plba'] * 512: sh_['plba'] * 512 + 3 * 128] != arr:
                    viol('C12.gen2/gpt-mirror', 'second generation: backup GPT does not mirror the primary')
                p0 = struct.unpack_from('<QQ', arr, 32)
                p1 = struct.unpack_from('<QQ', arr, 128 + 32)
                got_geo = (ph['cur'], ph['bak'], ph['first'], ph['last'], ph['plba'], sh_['plba']) + p0 + p1
                want_geo = tuple(int(x) for x in ctx.driver.ask(['gptgeo %d %d %d %d %d %d' % (
                    iso_len, h_geo, s_geo, num(bents[1], 'rba'), num(bents[1], 'cnt'), 1 if variant == 'mac' else 0)])[0].split())
                ctx.traces_validated += 1
                if got_geo != want_geo:
                    viol('C12.gen2/gpt-geometry', 'second generation: GPT header / partition LBAs %s, expected %s for an ISO of %d bytes' % (got_geo, want_geo, iso_len))
    ctx.count(key=('gen2', len(img2), s_geo, h_geo, variant), nontrivial=True, kind='gen2:' + variant)


def probe_relocated_second_generation(ctx):
    """a Rock Ridge image with two relocated directories (their placeholders are records without data) and an isohybrid MBR
    is opened, grows and is written again"""
    import pycdlib
    viol = lambda sig, msg: ctx.violation(sig, msg, {'kind': 'probe-relocated-gen2'})   # noqa
    with isoapi.frozen_time():
        iso = pycdlib.PyCdlib()
        iso.new(interchange_level=3, rock_ridge='1.09')
        p = ''
        for i in range(7):
            p += '/D%d' % i
            iso.add_directory(p, rr_name='d%d' % i)
        iso.add_directory(p + '/DEEPA', rr_name='deepa')
        iso.add_directory(p + '/DEEPB', rr_name='deepb')
        b = isoapi.isolinux_boot(2048)
        iso.add_fp(io.BytesIO(b), len(b), '/ISOLINUX.;1', rr_name='isolinux')
        iso.add_eltorito('/ISOLINUX.;1', boot_load_size=4)
        iso.add_isohybrid()
        out = io.BytesIO()
        iso.write_fp(out)
        iso.close()
        g = pycdlib.PyCdlib()
        g.open_fp(io.BytesIO(out.getvalue()))
        g.add_fp(io.BytesIO(b'x' * 5000000), 5000000, '/BIG.;1', rr_name='big')
        out2 = io.BytesIO()
        g.write_fp(out2)
        g.close()
    second_generation(ctx, out2.getvalue(), {'part_entry': 1, 'part_offset': 0}, 32, 64, 'plain', viol)


def probe_mac_partitions(ctx):
    """a Mac hybrid whose first EFI section entry uses a boot file whose name sorts AFTER that of the second: which entry do
    MBR partition 2 / 3 describe (recorded finding: the one whose file name sorts first), and do the Apple partition map
    entries 2 and 3 delimit the two images at all (recorded finding: they stay empty)"""
    import pycdlib
    rp = {'kind': 'probe-mac-partitions'}
    with isoapi.frozen_time():
        iso = pycdlib.PyCdlib()
        iso.new()
        b = isoapi.isolinux_boot(2048, 0x11)
        iso.add_fp(io.BytesIO(b), len(b), '/ISOLINUX.BIN;1')
        iso.add_fp(io.BytesIO(b'z' * 5000), 5000, '/ZEFI.IMG;1')
        iso.add_fp(io.BytesIO(b'a' * 2048), 2048, '/AMAC.IMG;1')
        iso.add_eltorito('/ISOLINUX.BIN;1', boot_load_size=4)
        iso.add_eltorito('/ZEFI.IMG;1', efi=True, boot_load_size=12)
        iso.add_eltorito('/AMAC.IMG;1', efi=True, boot_load_size=4)
        iso.add_isohybrid(mac=True)
        out = io.BytesIO()
        iso.write_fp(out)
        first = iso.get_record(iso_path='/ZEFI.IMG;1').extent_location()
        second = iso.get_record(iso_path='/AMAC.IMG;1').extent_location()
        iso.close()
    img = out.getvalue()
    ctx.count(key=('probe-mac-partitions',), nontrivial=True, kind='probe')
    p2 = struct.unpack_from('<LL', img, 446 + 16 + 8)
    p3 = struct.unpack_from('<LL', img, 446 + 32 + 8)
    if (p2, p3) == ((4 * second, 4), (4 * first, 12)):
        ctx.violation('C12.efi/partitions-follow-name-order', 'MBR partition 2 = %s describes the SECOND EFI section entry (AMAC.IMG, sector %d), partition 3 = %s the '
                      'first (ZEFI.IMG, sector %d): sections are handed to the hybrid structures in file-name order' % (p2, second, p3, first), rp)
    elif (p2, p3) != ((4 * first, 12), (4 * second, 4)):
        ctx.violation('C12.efi/mbr-partition', 'MBR partitions 2 / 3 = %s / %s describe neither order of the EFI sections at sectors %d (12) and %d (4)' % (p2, p3, first, second), rp)
    # Apple partition map: entries of 2048 bytes from offset 2048; entry 2 / 3 = the two EFI images (either unit accepted)
    want = sorted([(first, 12), (second, 4)])
    got = []
    for k in (1, 2):
        off = 2048 * (k + 1)
        sig, _r, _mc, start, count = struct.unpack_from('>HHLLL', img, off)
        if sig != 0x504d:
            ctx.violation('C12.apm/signature', 'Apple partition map entry %d has no PM signature' % (k + 1), rp)
            return
        got.append((start, count))
    if all(g == (0, 0) for g in got):
        ctx.violation('C12.apm/partitions-empty', 'Apple partition map entries 2 and 3 have start block 0 and block count 0: they do not delimit the '
                      'EFI images at sectors %d and %d' % (first, second), rp)
    else:
        ok512 = sorted(got) == sorted([(4 * s, c) for s, c in want])
        ok2048 = sorted(got) == sorted([(s, (c + 3) // 4) for s, c in want])
        if not (ok512 or ok2048):
            ctx.violation('C12.apm/partition-extent', 'Apple partition map entries 2 / 3 = %s do not delimit the EFI images %s' % (got, want), rp)


def run(ctx):
    run_fn(ctx)
    probe_relocated_second_generation(ctx)
    probe_mac_partitions(ctx)
    tmpdir = tempfile.mkdtemp(prefix='verif-c12-')
    try:
        for _ in range(60 if ctx.quick else 1500):
            scenario.seed = ctx.rng.randrange(2 ** 62)
            scenario(ctx, random.Random(scenario.seed), tmpdir)
            if ctx.time_left() < 20:
                break
    finally:
        shutil.rmtree(tmpdir, ignore_errors=True)


def replay(ctx, obj):
    if obj.get('replay', obj).get('kind') == 'probe-mac-partitions':
        probe_mac_partitions(ctx)
        return [v['signature'] for v in ctx.violations]
    if obj.get('replay', obj).get('kind') == 'probe-relocated-gen2':
        probe_relocated_second_generation(ctx)
        for v in ctx.violations:
            core.log('violation:', v['signature'], v['summary'])
        return [v['signature'] for v in ctx.violations]
    r = obj.get('replay', obj)
    tmpdir = tempfile.mkdtemp(prefix='verif-c12-')
    try:
        if r.get('kind') == 'scenario':
            scenario.seed = r['seed']
            scenario(ctx, random.Random(r['seed']), tmpdir)
        else:
            core.log('model:', ctx.driver.ask([r['request']])[0])
    finally:
        shutil.rmtree(tmpdir, ignore_errors=True)
    for v in ctx.violations:
        core.log('violation:', v['signature'], v['summary'])
    return [v['signature'] for v in ctx.violations]
