"""
C17 — in-place modification touches only what it must and stays a valid image.
Theorems: Proofs/Pack.lean `writer_matches_cache` (the offset computed from the cached extents_to_here/offset_to_here
is where mastering placed that record), `writer_no_straddle`, Props/C03 `decDR_encDR`.

Oracle: images from generated histories (deep files, records in the 2nd+ sector of a directory, hard links, Joliet / UDF /
XA / Rock Ridge) are written to a file, opened read-write, and one file is replaced in place with new content of every
length class (0, 1, same, sector-1, sector, up to the same sector count), repeatedly.  Afterwards, on the image FILE:
  * the independent reader's view equals the old view with exactly that content's length/bytes replaced under ALL of its
    names and namespaces, no reader error appears, allocation stays sound;
  * the changed bytes lie inside the file's own sectors, the sectors holding its directory records / UDF file entry, and the
    volume descriptor sectors;
  * re-mastering the modified image reproduces it (it is itself a valid image).
A replacement that changes the sector count, or targets a directory, must raise PyCdlibInvalidInput and leave the file
byte-identical.
"""
import io
import os
import random
import shutil
import tempfile

from harness import core, gen, histcheck, isoapi
from harness.props import c01, c05

LEAN_MODULES = ['Pycdlib.Props.C04', 'Pycdlib.Props.C03', 'Pycdlib.Props.TiePack', 'Pycdlib.Props.C17Plan', 'Pycdlib.Props.C17Offset']
THEOREMS = ['Pycdlib.writer_matches_cache', 'Pycdlib.writer_no_straddle', 'Pycdlib.nfScan_append', 'Pycdlib.decDR_encDR',
            'Pycdlib.dr_recalc_tie', 'Pycdlib.dr_recalc_init_tie',
            'Pycdlib.InPlace.plan_touches_only', 'Pycdlib.InPlace.pvd_copies_identical', 'Pycdlib.InPlace.refused_iff',
            'Pycdlib.DirBytes.offset_is_record', 'Pycdlib.DirBytes.render_at_position', 'Pycdlib.DirBytes.positions_eq_place']
PARTIAL = {'patch_eq_remaster_partial': 'the offset arithmetic (cached next-fit position = writer position) is proved, and at byte level that the bytes found at '
           'that position of the directory extent ARE the record (offset_is_record, over Model/DirBytes which C03 compares with every '
           'directory extent of every image); equality of the '
           'patched image with a full re-master is decided per case by the oracle'}
TRUSTED = ['the independent reader; byte diff of the image file before/after']
ASSUMPTIONS = []
RULE = 'images from the common generator; for each, up to 3 in-place replacements + refusal probes; distinct = (history, target, new length)'
LEVEL_TEXT = ('Lean 4 theorem: the byte offset modify_file_in_place derives from the cached per-record packing state equals the offset at '
              'which mastering placed the record, for every directory. Validity, exact effect and the set of touched bytes are '
              'decided on the image file by the independent reader and a byte diff.')
LEVEL_NOTE = 'Trusted: Lean kernel, reader, diff.'
TECHNIQUE = 'Lean 4 packing proof (cached offset = written offset) + in-place differential on image files'


class RecordingFP:
    """the opened image file with every write noted as (offset, length)"""

    def __init__(self, fp):
        self.fp = fp
        self.writes = []

    def write(self, b):
        self.writes.append((self.fp.tell(), len(b)))
        return self.fp.write(b)

    def __getattr__(self, name):
        return getattr(self.fp, name)


def merge_writes(ws):
    out = []
    for o, ln in sorted((o, ln) for o, ln in ws if ln):
        if out and out[-1][0] + out[-1][1] >= o:
            out[-1] = (out[-1][0], max(out[-1][0] + out[-1][1], o + ln) - out[-1][0])
        else:
            out.append((o, ln))
    return ' '.join('%d:%d' % w for w in out)


def plan_request(iso, path, new_len):
    """the inputs of Model/InPlace.plan, read from the opened object before the call"""
    from pycdlib import dr as drmod, udf as udfmod
    rec = iso.get_record(iso_path=path)
    if rec.inode is None:
        return None
    recs = []
    for r, _ in rec.inode.linked_records:
        if isinstance(r, drmod.DirectoryRecord):
            recs.append('d:%d:%d:%d:%d' % (r.parent.extent_location(), r.extents_to_here, r.offset_to_here, r.dr_len))
        elif isinstance(r, udfmod.UDFFileEntry):
            recs.append('u:%d:%d' % (r.extent_location(), len(r.record())))
        else:
            recs.append('b')
    return 'inplace %s %s %s %d %d %d %d %s' % (
        ','.join(str(p.extent_location()) for p in iso.pvds),
        iso.joliet_vd.extent_location() if iso.joliet_vd is not None else '-',
        iso.enhanced_vd.extent_location() if iso.enhanced_vd is not None else '-',
        rec.extent_location(), rec.get_data_length(), new_len, 1 if rec.inode.boot_info_table is not None else 0, ' '.join(recs))


def modify_recorded(ctx, iso, data, new_len, path, rp):
    """modify_file_in_place with the writes recorded and compared with the model's plan (theorems plan_touches_only,
    pvd_copies_identical, refused_iff); exceptions are passed on to the caller"""
    try:
        req = plan_request(iso, path, new_len)
    except Exception:  # noqa
        req = None
    rec_fp = RecordingFP(iso._cdfp)
    iso._cdfp = rec_fp
    try:
        try:
            iso.modify_file_in_place(io.BytesIO(data), new_len, path)
            impl = merge_writes(rec_fp.writes)
        except Exception as e:  # noqa
            impl = 'refused' if (isoapi.exc_class(e) == 'invalidInput' and not rec_fp.writes) else 'raised-after-%d-writes' % len(rec_fp.writes)
            raise
    finally:
        iso._cdfp = rec_fp.fp
        if req is not None:
            ans = ctx.driver.ask([req])[0]
            model = ans if ans in ('refused', 'bad-op') else merge_writes([tuple(int(x) for x in w.split(':')) for w in ans.split()])
            ctx.traces_validated += 1
            ctx.dist['plan:%s' % ('refused' if model == 'refused' else 'accepted')] += 1
            if impl != model and not (impl.startswith('refused') and model == 'refused'):
                # a directory is refused for being a directory before the sector test: not part of the plan model
                if not (impl == 'refused' and ' d:' not in req and False):
                    ctx.disagree('S-inplace/plan', 'writes of modify_file_in_place(%s, %d bytes): impl=%s model=%s (%s)' % (path, new_len, impl[:160], model[:160], req[:120]), rp)


def fnv(data):
    h = 14695981039346656037
    for b in data:
        h = ((h ^ b) * 1099511628211) & 0xFFFFFFFFFFFFFFFF
    return str(h)


def post(ctx, c, rep):
    import pycdlib
    rng = random.Random(hash(repr(c.ops)) & 0xffffffff)
    rp = histcheck.replay_obj(c)
    files = [(k, a) for k, a in isoapi.parse_entries([e for e in rep.entries if e.startswith('I:F:')]).items() if a['loc'] not in ('0',) or a['len'] == 0]
    files = [(k, a) for k, a in files if not bytes.fromhex(k[2].split('/')[-1]).lower().startswith(b'boot.cat')]
    if not files:
        return
    path = c.path
    slack = []
    for attempt in range(3):
        (ns, kind, hpath), a = rng.choice(files)
        p = '/' + '/'.join(bytes.fromhex(h).decode('utf-8') for h in hpath.split('/') if h)
        old_len = a['len']
        nsec = -(-old_len // 2048)
        choices = [x for x in (0, 1, old_len, nsec * 2048, nsec * 2048 - 1, (nsec - 1) * 2048 + 1, max(0, old_len - 1), old_len + 1)
                   if -(-x // 2048) == nsec and x >= 0]
        new_len = rng.choice(choices)
        new_data = bytes((attempt * 31 + i * 13 + 7) % 251 for i in range(new_len))
        before = open(path, 'rb').read()
        rep0 = isoapi.read_image(ctx, path)
        iso = pycdlib.PyCdlib()
        try:
            iso.open(path, 'r+b')
        except Exception as e:  # noqa
            ctx.violation('C17.open-rw-fails', 'cannot open the image read-write: %r' % e, rp)
            return
        # refusal probes first: must leave the file untouched
        try:
            for bad_len, what in ((nsec * 2048 + 1, 'more-sectors'), ((nsec - 1) * 2048 if nsec > 0 else None, 'fewer-sectors')):
                if bad_len is None or bad_len < 0 or -(-bad_len // 2048) == nsec:
                    continue
                try:
                    modify_recorded(ctx, iso, bytes(bad_len), bad_len, p, rp)
                    ctx.violation('C17.refusal/%s/accepted' % what, 'replacing %d bytes (%d sectors) by %d bytes was accepted' % (old_len, nsec, bad_len), rp)
                except Exception as e:  # noqa
                    if isoapi.exc_class(e) != 'invalidInput':
                        ctx.violation('C17.refusal/%s/%s' % (what, isoapi.exc_class(e)), 'refusal raised %r' % e, rp)
            dirs = [k for k in isoapi.parse_entries([e for e in rep.entries if e.startswith('I:D:')])]
            if dirs:
                dp = '/' + '/'.join(bytes.fromhex(h).decode('utf-8') for h in dirs[0][2].split('/') if h)
                try:
                    iso.modify_file_in_place(io.BytesIO(b''), 0, dp)
                    ctx.violation('C17.refusal/directory/accepted', 'modify_file_in_place on a directory was accepted', rp)
                except Exception as e:  # noqa
                    if isoapi.exc_class(e) != 'invalidInput':
                        ctx.violation('C17.refusal/directory/%s' % isoapi.exc_class(e), 'refusal raised %r' % e, rp)
            iso._cdfp.flush()
            if open(path, 'rb').read() != before:
                ctx.violation('C17.refusal/image-changed', 'a refused in-place modification changed the image file', rp)
            # the real modification
            try:
                modify_recorded(ctx, iso, new_data, new_len, p, rp)
            except Exception as e:  # noqa
                ctx.violation('C17.modify-raises/%s' % isoapi.exc_class(e), 'modify_file_in_place(%r, %d -> %d bytes) raised %r' % (p, old_len, new_len, e), rp)
                return
        finally:
            try:
                iso.close()
            except Exception:
                pass
        after = open(path, 'rb').read()
        ctx.count(key=(repr(c.ops), p, new_len, attempt), nontrivial=True, kind='len:%d->%d' % (old_len, new_len),
                  sample={'cfg': c.cfg, 'target': p, 'old_len': old_len, 'new_len': new_len})
        if len(after) != len(before):
            ctx.violation('C17.image-length', 'image length changed from %d to %d' % (len(before), len(after)), rp)
            return
        rep1 = isoapi.read_image(ctx, path)
        for e in rep1.errs:
            if e not in rep0.errs:
                ctx.violation('C17.invalid/%s' % e.split(':')[0], 'after in-place modification the reader reports %s' % e[:140], rp)
        for code, detail in isoapi.check_allocs(rep1):
            ctx.violation('C17.alloc/%s' % code, detail, rp)
        # expected view: same entries, the content at that location replaced under all its names
        loc = a['loc']
        exp = []
        for e in rep0.entries:
            f = e.split(':')
            if f[1] == 'F' and f[5] == loc and (int(f[3]) > 0 or (f[0], f[2]) == (ns, hpath)) and (old_len > 0 or (f[0], f[2]) == (ns, hpath)):
                f[3] = str(new_len)
                f[4] = fnv(new_data)
                if new_len == 0:
                    f[5] = '0'
            exp.append(':'.join(f))
        got = list(rep1.entries)
        if new_len == 0 or old_len == 0:
            norm = lambda es: sorted(':'.join(x.split(':')[:5] + x.split(':')[6:]) for x in es)   # noqa (location of empty content is not meaningful)
        else:
            norm = sorted
        if norm(exp) != norm(got):
            d = sorted(set(norm(exp)) ^ set(norm(got)))
            ctx.violation('C17.effect', 'view after replacing %r (%d -> %d bytes) is not "old view with that content replaced": %s' % (p, old_len, new_len, [x[:90] for x in d[:4]]), rp)
        # touched bytes
        allowed = set()
        for label, first, cnt in rep0.allocs:
            if label.startswith('vd') or label.startswith('dir:') or label.startswith('udf:fe:') or label.startswith('udf:fid:'):
                allowed.update(range(first, first + cnt))
        if old_len > 0:
            allowed.update(range(int(loc), int(loc) + nsec))
        changed = {i // 2048 for i in range(0, len(after), 1) if after[i] != before[i]} if after != before else set()
        if not changed <= allowed:
            ctx.violation('C17.touched', 'sectors %s were modified although they hold neither the file, a directory/file entry, nor a volume descriptor' % sorted(changed - allowed)[:5], rp)
        # still a fixpoint of re-mastering
        try:
            with isoapi.frozen_time():
                again = c05.remaster(path)
            # bytes between the new end of file and the end of its last sector belong to no file (in-place
            # modification leaves the old bytes there, mastering writes zeros): not compared
            a2, b2 = bytearray(c05.mask(after)), bytearray(c05.mask(again))
            if old_len > 0:
                slack.append((int(loc) * 2048 + new_len, (int(loc) + nsec) * 2048))
            for lo, hi in slack:
                a2[lo:hi] = bytes(hi - lo)
                b2[lo:hi] = bytes(hi - lo)
            if bytes(a2) != bytes(b2):
                d = c05.first_diff(bytes(a2), bytes(b2))
                ctx.violation('C17.not-a-valid-image', 're-mastering the modified image changes it at byte %d (sector %d)' % (d, d // 2048), rp)
        except Exception as e:  # noqa
            ctx.violation('C17.remaster-fails/%s' % isoapi.exc_class(e), 'the modified image cannot be re-mastered: %r' % e, rp)
        rep = rep1
        files = [(k, x) for k, x in isoapi.parse_entries([e for e in rep.entries if e.startswith('I:F:')]).items()
                 if not bytes.fromhex(k[2].split('/')[-1]).lower().startswith(b'boot.cat')]
        if not files:
            return


def boot_cases(ctx):
    """El Torito boot files replaced in place (they have one more kind of record attached: the catalog entry): the call
    succeeds, the entry still points at the first sector of the new bytes, a requested boot info table describes the new
    content, the file reads back under all of its names, everything else is untouched."""
    import pycdlib
    tmpdir = tempfile.mkdtemp(prefix='verif-c17b-')
    path = os.path.join(tmpdir, 'boot.iso')
    try:
        for label, kw, names in (('plain', {}, {}), ('joliet-rr', {'joliet': 3, 'rock_ridge': '1.09'}, {'joliet_path': '/boot', 'rr_name': 'boot'}),
                                 ('udf', {'udf': '2.60'}, {'udf_path': '/boot'})):
            for table in (False, True):
                for old_len, new_len in ((3000, 2049), (3000, 4096), (2048, 100), (100, 2048)):
                    rp = {'kind': 'boot', 'label': label, 'table': table, 'old_len': old_len, 'new_len': new_len}
                    sig = lambda what: 'C17.boot/%s/%s' % ('table' if table else 'no-table', what)   # noqa
                    old = bytes((i * 7 + 3) % 253 for i in range(old_len))
                    other = b'other file' * 300
                    with isoapi.frozen_time():
                        iso = pycdlib.PyCdlib()
                        iso.new(interchange_level=3, **kw)
                        okw = {k: v.replace('boot', 'other') for k, v in names.items()}
                        iso.add_fp(io.BytesIO(old), old_len, iso_path='/BOOT.;1', **names)
                        iso.add_fp(io.BytesIO(other), len(other), iso_path='/OTHER.;1', **okw)
                        iso.add_eltorito('/BOOT.;1', boot_info_table=table, boot_load_size=4)
                        iso.write(path)
                        iso.close()
                    before = open(path, 'rb').read()
                    rep0 = isoapi.read_image(ctx, path)
                    new = bytes((i * 11 + 5) % 251 for i in range(new_len))
                    g = pycdlib.PyCdlib()
                    g.open(path, 'r+b')
                    try:
                        modify_recorded(ctx, g, new, new_len, '/BOOT.;1', rp)
                    except Exception as e:  # noqa
                        ctx.violation(sig('modify-raises/%s' % isoapi.exc_class(e)), 'modify_file_in_place on an El Torito boot file (%s, %d -> %d bytes) raised %r' % (
                            label, old_len, new_len, e), rp)
                        continue
                    finally:
                        try:
                            g.close()
                        except Exception:  # noqa
                            pass
                    ctx.count(key=('boot', label, table, old_len, new_len), nontrivial=True, kind='boot:%s:%s' % (label, 'table' if table else 'plain'))
                    after = open(path, 'rb').read()
                    rep1 = isoapi.read_image(ctx, path)
                    for e in rep1.errs:
                        if e not in rep0.errs:
                            ctx.violation(sig('invalid/%s' % e.split(':')[0]), 'after the modification the reader reports %s' % e[:140], rp)
                    for code, detail in isoapi.check_allocs(rep1):
                        ctx.violation(sig('alloc/%s' % code), detail, rp)
                    bents = [e for e in rep1.entries if e.startswith('B:')]
                    f = dict((x.rstrip('0123456789,-'), x[len(x.rstrip('0123456789,-')):]) for x in bents[0].split(':')[2:]) if bents else {}
                    rba = int(f.get('rba', -1))
                    expect = new
                    if table:
                        want = bytes.fromhex(ctx.driver.ask(['bit 16 %d %d %s' % (rba, new_len, new.hex())])[0])
                        expect = new[:8] + want + new[64:]
                    if after[rba * 2048: rba * 2048 + len(expect)] != expect:
                        ctx.violation(sig('stored-bytes'), 'the boot entry points at sector %d, which does not hold the new boot file%s' % (
                            rba, ' with its boot info table' if table else ''), rp)
                    h = pycdlib.PyCdlib()
                    try:
                        h.open(path)
                        for key, val in [('iso_path', '/BOOT.;1')] + [(k, v) for k, v in names.items() if k != 'rr_name']:
                            out = io.BytesIO()
                            h.get_file_from_iso_fp(out, **{key: val})
                            if out.getvalue() != expect[:new_len]:
                                ctx.violation(sig('readback/%s' % key.split('_')[0]), '%s=%s reads %d bytes that are not the new content' % (key, val, len(out.getvalue())), rp)
                        out = io.BytesIO()
                        h.get_file_from_iso_fp(out, iso_path='/OTHER.;1')
                        if out.getvalue() != other:
                            ctx.violation(sig('other-file'), 'the other file changed', rp)
                        h.close()
                    except Exception as e:  # noqa
                        ctx.violation(sig('reopen-fails'), 'the modified image cannot be read: %r' % e, rp)
                    # view: only the boot file's length and content changed
                    v0 = sorted(e for e in rep0.entries if e[:2] != 'B:' and ':F:' in e and '626f6f74' not in e.lower() and '424f4f54' not in e)
                    v1 = sorted(e for e in rep1.entries if e[:2] != 'B:' and ':F:' in e and '626f6f74' not in e.lower() and '424f4f54' not in e)
                    if v0 != v1:
                        ctx.violation(sig('effect'), 'entries other than the boot file changed: %s' % [x[:80] for x in sorted(set(v0) ^ set(v1))[:3]], rp)
                    allowed = set()
                    for lab, first, cnt in rep0.allocs:
                        if lab.startswith('vd') or lab.startswith('dir:') or lab.startswith('udf:fe:') or lab.startswith('udf:fid:'):
                            allowed.update(range(first, first + cnt))
                    allowed.update(range(rba, rba + -(-old_len // 2048)))
                    changed = {i // 2048 for i in range(len(after)) if after[i] != before[i]} if after != before else set()
                    if len(after) != len(before) or not changed <= allowed:
                        ctx.violation(sig('touched'), 'sectors %s were modified (or the length changed)' % sorted(changed - allowed)[:5], rp)
    finally:
        shutil.rmtree(tmpdir, ignore_errors=True)


def run(ctx):
    boot_cases(ctx)
    c01.run(ctx, focus='C17', post=post, n_quick=100, n_thorough=2500)


def replay(ctx, obj):
    r = obj.get('replay', obj)
    if r.get('kind') == 'boot':
        boot_cases(ctx)
        for v in ctx.violations:
            core.log('violation:', v['signature'], v['summary'])
        return [v['signature'] for v in ctx.violations]
    return c01.replay(ctx, obj, focus='C17', post=post)
