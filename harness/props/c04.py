"""
C04 — sector allocation is sound.  Theorems: Props/C04.lean + Proofs/Pack.lean.

Oracle on the implementation's bytes (independent Lean reader): every object found (descriptors, path tables, directories,
continuation areas, boot catalog, UDF structures, file data) is listed with its sectors; the harness checks pairwise
disjointness (two names may share sectors only when the specification says they are links to one content), that everything
lies inside the declared volume size, and that the image length equals the declared size.  A recording output file checks
that mastering writes no byte twice.
Correspondence: after EVERY edit of every history the structure change is read off the object, turned into an op of the Lean
machine Model/Iso, and the machine's prediction of every directory's data_length, both path-table reservations and the declared
volume size is compared with the object (harness/isotie.py); new and reopened objects must satisfy the invariant `Inv`.
Also: the per-child cache (`extents_to_here`, `offset_to_here`) of every directory vs `nfScan`, the writer's
record placement vs `writerPlace`, `data_length` vs the growth/shrink rule, after every history.
"""
import io

from harness import core, histcheck, isoapi, isotie
from harness.props import c01

LEAN_MODULES = ['Pycdlib.Props.C04', 'Pycdlib.Props.Tie', 'Pycdlib.Props.C04PathTable', 'Pycdlib.Props.TiePack', 'Pycdlib.Props.C04Iso', 'Pycdlib.Props.TieGrow', 'Pycdlib.Props.C08Alloc', 'Pycdlib.Props.C04DirBytes']
THEOREMS = ['Pycdlib.place_disjoint', 'Pycdlib.place_in_bounds', 'Pycdlib.place_end_exact', 'Pycdlib.space_delta_exact',
            'Pycdlib.sectors_fit', 'Pycdlib.insert_grows_le_one', 'Pycdlib.grow_keeps_fit', 'Pycdlib.shrink_keeps_fit',
            'Pycdlib.nfScan_append', 'Pycdlib.writer_matches_cache', 'Pycdlib.writer_no_straddle', 'Pycdlib.ceiling_div_tie',
            'Pycdlib.PathTable.run_exact', 'Pycdlib.PathTable.add_to_ptr_size_tie', 'Pycdlib.PathTable.remove_from_ptr_size_tie',
            'Pycdlib.PathTable.space_size_tie', 'Pycdlib.PathTable.addAll_independent_of_copies',
            'Pycdlib.dr_recalc_tie', 'Pycdlib.dr_recalc_init_tie',
            'Pycdlib.Iso.space_exact', 'Pycdlib.Iso.dirs_covered', 'Pycdlib.Iso.path_tables_exact', 'Pycdlib.Iso.layout_sound',
            'Pycdlib.Iso.step_inv', 'Pycdlib.Iso.invB_iff', 'Pycdlib.Iso.init0_inv', 'Pycdlib.dr_grow_tie', 'Pycdlib.dr_shrink_tie',
            'Pycdlib.Iso.ceb_ok', 'Pycdlib.Iso.cebOkB_iff', 'Pycdlib.DirBytes.render_length', 'Pycdlib.DirBytes.reachable_dir_fills', 'Pycdlib.DirBytes.reachable_pt_fits']
PARTIAL = {
    'space_exact_partial': 'Iso.space_exact proves declared size = from-scratch layout over EVERY history of the bookkeeping machine '
    '(directories of both hierarchies, path tables, contents with hard links, continuation blocks with the first-fit allocator that decides where an area lands and when a block is opened or given back, PVD copies, UDF directories '
    'with their File Entries and File Identifier areas, the File Entry sector shared by the UDF names of a content). Outside the '
    'machine and decided by the allocation oracle per history: the fixed UDF descriptor area and the partition length field, the El Torito catalog, isohybrid '
    'padding; an edit that allocates several continuation areas at once (relocation) starts a new segment of the comparison',
}
TRUSTED = ['the independent reader finds every object the image uses (what it does not decode cannot be checked for overlap)']
ASSUMPTIONS = []
RULE = c01.RULE
LEVEL_TEXT = ('Lean 4 theorems for all inputs: sequential placement is pairwise disjoint, in bounds and ends exactly at the sum; '
              'next-fit packing grows by at most one sector per inserted record (<= half a sector) so directory lengths maintained '
              'by deltas always cover their records; incremental cache = from-scratch packing; ceiling_div tie regenerated from '
              'utils.py; the packing loop of dr.py and the path-table / space-size accounting of headervd.py are regenerated from the source on every '
              'run and proved equal to the model (dr_recalc_tie, add/remove_ptr_size_tie), and so are the growth rule of _add_child and the shrink rule of remove_child (dr_grow_tie, dr_shrink_tie), and the path-table reservation is proved exact after '
              'any history (run_exact). Iso.space_exact / dirs_covered / path_tables_exact / layout_sound: over every history of public edits (ISO9660 + Joliet + Rock Ridge records, '
              'hard links, PVD copies, UDF directories / entries / links) the declared size kept by deltas equals the from-scratch layout, which is pairwise disjoint and ends exactly there; tied per edit by predicting '
              'every data_length, path table reservation and the volume size of the real object (isorun). El Torito / isohybrid parts of the layout and the fixed UDF descriptor area are decided per history by the allocation oracle.')
LEVEL_NOTE = 'Trusted: Lean kernel, reader completeness for allocation, generator coverage. See PARTIAL for the missing composition.'
TECHNIQUE = 'Lean 4 invariant proof over the edit-state machine (space_exact) + translated kernels with tie lemmas + per-edit bookkeeping correspondence + independent-reader allocation oracle'


class RecordingFile(io.BytesIO):
    def __init__(self):
        super().__init__()
        self.writes = []

    def write(self, b):
        self.writes.append((self.tell(), len(b)))
        return super().write(b)


def double_writes(writes):
    """byte ranges written more than once (the boot-info-table patch is 56 bytes at file offset 8 and is allowed)"""
    ev = sorted((o, o + n) for o, n in writes if n)
    bad = []
    end = -1
    for a, b in ev:
        if a < end:
            bad.append((a, min(b, end)))
        end = max(end, b)
    return bad


def dir_records(iso):
    """all directories of all descriptors: (tag, path, children)"""
    out = []
    vds = [('I', iso.pvd)] + ([('J', iso.joliet_vd)] if iso.joliet_vd is not None else [])
    for tag, vd in vds:
        stack = [(b'/', vd.root_directory_record())]
        while stack:
            path, d = stack.pop()
            out.append((tag, path, d))
            for c in d.children:
                if c.is_dir() and not c.is_dot() and not c.is_dotdot():
                    if c.rock_ridge is not None and c.rock_ridge.child_link_record_exists():
                        continue
                    stack.append((path + c.file_identifier() + b'/', c))
    return out


def post(ctx, c, rep):
    rp = histcheck.replay_obj(c)
    for code, detail in isoapi.check_allocs(rep):
        ctx.violation('C04.alloc/%s' % code, 'allocation: %s' % detail, rp)
    # no byte written twice
    rec = RecordingFile()
    try:
        with isoapi.frozen_time():
            c.iso.write_fp(rec)
        dbl = double_writes(rec.writes)
        has_bit = any(getattr(i, 'boot_info_table', None) is not None for i in c.iso.inodes)
        if dbl and not has_bit:
            ctx.violation('C04.double-write', 'mastering wrote bytes %s twice' % (dbl[:3],), rp)
        if len(rec.getvalue()) != int(rep.info.get('space', 0)) * 2048 and not c.iso.isohybrid_mbr:
            ctx.violation('C04.alloc/image-length', 'write_fp produced %d bytes, declared size %s sectors' % (len(rec.getvalue()), rep.info.get('space')), rp)
    except Exception as e:  # noqa
        ctx.violation('C04.write-fails/%s' % type(e).__name__, 'second write failed: %r' % e, rp)
    # cache correspondence
    reqs, impl, meta = [], [], []
    for tag, path, d in dir_records(c.iso):
        lens = [ch.dr_len for ch in d.children]
        if not lens:
            continue
        reqs.append('nfscan 2048 %s' % ','.join(map(str, lens)))
        impl.append(' '.join('%d:%d' % (ch.extents_to_here, ch.offset_to_here) for ch in d.children))
        meta.append((tag, path, d))
    if reqs:
        model = ctx.driver.ask(reqs)
        for rq, a, b, (tag, path, d) in zip(reqs, impl, model, meta):
            scan, _, place = b.partition(' | ')
            if a != scan:
                ctx.disagree('S-fn/nfscan', 'directory %s%r: cached extents/offsets differ from next-fit: impl=%s model=%s' % (tag, path, a[:80], scan[:80]), rp)
            need = int(scan.split(' ')[-1].split(':')[0]) * 2048
            if d.data_length < need or d.data_length % 2048:
                ctx.violation('C04.dir-length', 'directory %s%r data_length %d does not cover its records (%d needed)' % (tag, path, d.data_length, need), rp)
        ctx.traces_validated += len(reqs)
    # the size bookkeeping of every edit against the Lean machine (Model/Iso, theorems in Props/C04Iso)
    isotie.check_history(ctx, c.cfg, c.ops, rp)


def probe_inplace_and_hybrid(ctx):
    """two ways to put an object on top of another that the history oracle does not reach: (a) replacing a file in place
    with contents that need one more sector than the file owns (lengths that are exact multiples of the block size
    included) must be refused — if it is accepted the allocation of the modified image is examined; (b) an EFI hybrid
    whose ISO ends exactly on a cylinder boundary still needs room for the backup GPT: bytes 32768.. of the hybrid image
    must be the plain image (`Hybrid.backup_gpt_in_padding`)"""
    import os
    import shutil
    import tempfile
    import pycdlib
    tmpdir = tempfile.mkdtemp(prefix='verif-c04p-')
    try:
        rp = {'kind': 'probe-inplace-hybrid'}
        sizes = {'AAA': 2048, 'BBB': 4096, 'CCC': 1, 'DDD': 6144, 'ZZZ': 100}
        for flavour in ({}, {'joliet': 3}, {'udf': '2.60'}):
            path = os.path.join(tmpdir, 'i.iso')
            with isoapi.frozen_time():
                iso = pycdlib.PyCdlib()
                iso.new(**flavour)
                for nm, n in sizes.items():
                    kw = {'joliet_path': '/' + nm.lower()} if flavour.get('joliet') else {}
                    if flavour.get('udf'):
                        kw['udf_path'] = '/' + nm.lower()
                    iso.add_fp(io.BytesIO(nm[:1].encode() * n), n, '/%s.;1' % nm, **kw)
                iso.write(path)
                iso.close()
            for nm, n in sizes.items():
                for extra in (1, 2048):
                    newlen = ((n + 2047) // 2048) * 2048 + extra
                    work = os.path.join(tmpdir, 'w.iso')
                    shutil.copy(path, work)
                    iso = pycdlib.PyCdlib()
                    accepted = False
                    with open(work, 'r+b') as fp:
                        try:
                            iso.open_fp(fp)
                            with isoapi.frozen_time():
                                iso.modify_file_in_place(io.BytesIO(b'#' * newlen), newlen, '/%s.;1' % nm)
                            accepted = True
                        except Exception as e:  # noqa
                            if isoapi.exc_class(e) != 'invalidInput':
                                ctx.violation('C04.inplace/%s' % isoapi.exc_class(e), 'in-place replacement of %s (%d -> %d bytes) raised %r' % (nm, n, newlen, e), rp)
                        try:
                            iso.close()
                        except Exception:
                            pass
                    ctx.count(key=('inplace-larger', tuple(sorted(flavour)), nm, extra), nontrivial=True, kind='probe:inplace-larger:%s' % ('accepted' if accepted else 'refused'))
                    if accepted:
                        rep = isoapi.read_image(ctx, work)
                        bad = isoapi.check_allocs(rep)
                        detail = '; '.join('%s %s' % (c, d) for c, d in bad[:2]) or 'the file now claims sectors it was never given'
                        ctx.violation('C04.inplace/grows-beyond-its-sectors', 'in-place replacement of %s (%d bytes, %d sectors) by %d bytes was accepted: %s' % (
                            nm, n, (n + 2047) // 2048, newlen, detail), rp)
        # (b) EFI hybrid that ends exactly on a cylinder boundary (64 heads x 32 sectors x 512 = 1 MiB = 512 blocks)
        for target in (512, 1024):
            def build(hybrid, fill):
                with isoapi.frozen_time():
                    iso = pycdlib.PyCdlib()
                    iso.new()
                    b = isoapi.isolinux_boot(2048)
                    iso.add_fp(io.BytesIO(b), len(b), '/ISOLINUX.;1')
                    iso.add_fp(io.BytesIO(b'e' * 4096), 4096, '/EFI.;1')
                    iso.add_eltorito('/ISOLINUX.;1', boot_load_size=4)
                    iso.add_eltorito('/EFI.;1', efi=True)
                    if fill:
                        iso.add_fp(io.BytesIO(b'z' * fill), fill, '/ZZZ.;1')
                    if hybrid:
                        iso.add_isohybrid(efi=True)
                    out = io.BytesIO()
                    iso.write_fp(out)
                    space = iso.pvd.space_size
                    iso.close()
                return out.getvalue(), space
            _, space0 = build(False, 1)
            fill = (target - (space0 - 1)) * 2048
            if fill <= 0:
                continue
            base, space = build(False, fill)
            img, _ = build(True, fill)
            ctx.count(key=('hybrid-boundary', target, space), nontrivial=space % 512 == 0, kind='probe:hybrid-boundary')
            if space % 512 != 0:
                ctx.notes.append('hybrid boundary probe: space %d is not a multiple of 512' % space)
            if img[32768:len(base)] != base[32768:]:
                d = next(i for i in range(32768, len(base)) if img[i] != base[i])
                ctx.violation('C04.hybrid/backup-gpt-overwrites-iso', 'EFI hybrid of an ISO of %d sectors (exactly %d cylinders): byte %d (sector %d) of the ISO is overwritten by hybrid data' % (
                    space, space // 512, d, d // 2048), rp)
    finally:
        shutil.rmtree(tmpdir, ignore_errors=True)


def probe_relocation_directory_release(ctx):
    """a relocation directory with a long Rock Ridge name (set_relocated_name) has a continuation area of its own; when the
    last relocated directory goes and the relocation directory with it, that area has to be given back: after everything
    is removed the declared size is that of a new image, and the allocation of the written image is sound"""
    import os
    import shutil
    import tempfile
    import pycdlib
    tmpdir = tempfile.mkdtemp(prefix='verif-c04r-')
    try:
        for ver in ('1.09', '1.12'):
            for ln in (8, 120, 200):
                rp = {'kind': 'probe-relocation-release', 'ver': ver, 'len': ln}
                with isoapi.frozen_time():
                    iso = pycdlib.PyCdlib()
                    iso.new(interchange_level=3, rock_ridge=ver)
                    iso.set_relocated_name('XX_MOVED', 'm' * ln)
                    fresh = iso.pvd.space_size
                    p = ''
                    for i in range(8):
                        p += '/DIR%d' % i
                        iso.add_directory(p, rr_name='dir%d' % i)
                    for i in range(7, -1, -1):
                        iso.rm_directory('/' + '/'.join('DIR%d' % j for j in range(i + 1)), rr_name='dir%d' % i)
                    left = iso.pvd.space_size
                    path = os.path.join(tmpdir, 'r.iso')
                    iso.write(path)
                    iso.close()
                ctx.count(key=('relocation-release', ver, ln), nontrivial=True, kind='probe:relocation-release')
                rep = isoapi.read_image(ctx, path)
                bad = isoapi.check_allocs(rep)
                if left != fresh or bad:
                    ctx.violation('C04.alloc/relocation-directory-leak', 'Rock Ridge %s, relocation directory with a %d-byte name: after every directory is removed the '
                                  'declared size is %d sectors, a new image has %d (%s)' % (ver, ln, left, fresh, '; '.join('%s %s' % b for b in bad[:2]) or 'a continuation block is still counted'), rp)
    finally:
        shutil.rmtree(tmpdir, ignore_errors=True)


def run(ctx):
    probe_inplace_and_hybrid(ctx)
    probe_relocation_directory_release(ctx)
    c01.run(ctx, focus='C04', post=post, n_quick=170, n_thorough=5000, force={'duppvd': True})
    # allocation must stay sound for edits made to a reopened image (parsed continuation areas, parsed extents)
    c01.run(ctx, focus='C04', post=post, n_quick=100, n_thorough=3000, reopen_every=5)


def replay(ctx, obj):
    if obj.get('replay', obj).get('kind') == 'probe-relocation-release':
        probe_relocation_directory_release(ctx)
        return [v['signature'] for v in ctx.violations]
    if obj.get('replay', obj).get('kind') == 'probe-inplace-hybrid':
        probe_inplace_and_hybrid(ctx)
        return [v['signature'] for v in ctx.violations]
    return c01.replay(ctx, obj, focus='C04', post=post)
