"""
C01 — mastering fidelity.  Spec (Model/Spec.lean) ⟵ history ⟶ pycdlib ⟶ bytes ⟶ independent Lean reader (Model/Reader*.lean):
the view the reader recovers from the written bytes must EQUAL the view the specification computes from the
accepted edits, in every namespace (nothing missing, nothing extra, same bytes, same hidden flags), the image must
open in the library itself, and every file must read back byte for byte through the API.
"""
import io
import random
import shutil
import tempfile

from harness import core, gen, histcheck, isoapi

LEAN_MODULES = ['Pycdlib.Props.C01', 'Pycdlib.Props.C01Tree', 'Pycdlib.Props.C01Extents']
THEOREMS = ['Pycdlib.Spec.rmFile_exact', 'Pycdlib.Spec.rmFile_releases', 'Pycdlib.Spec.rmLink_local',
            'Pycdlib.Spec.gc_referenced', 'Pycdlib.Spec.addFp_visible', 'Pycdlib.Spec.run_none_of_step_none',
            'Pycdlib.Spec.history_is_forest', 'Pycdlib.Spec.entry_unique',
            'Pycdlib.Extents.addFile_in_order', 'Pycdlib.Extents.old_rule_three_extents']
PARTIAL = {
    'C01_fidelity_partial': 'the refinement pycdlib-model ⊑ Spec and Reader∘Master = abs are proved for the ISO9660/Joliet edit-state '
    'model of Props/C04 only (sizes/extents), not yet at byte level; the byte-level statement is decided by running the '
    'independent Lean reader on the bytes pycdlib writes and comparing with Spec.run (this check)',
}
TRUSTED = ['Model/Spec.lean is the specification (short, read it); Model/Reader*.lean are independent decoders written from the standards',
           'content(cid, i) byte function implemented identically in harness/isoapi.py and Spec.content (compared via FNV-1a of every file)']
ASSUMPTIONS = ['time.time frozen by the harness', 'files > 4 GiB are not generated in this tier']
RULE = ('random structured histories (add/remove/link/symlink/hide) x cfg (level 1-4 x Joliet x Rock Ridge 1.09/1.10/1.12 x UDF x XA); '
        'distinct = distinct (cfg, op list); non-trivial = at least 3 accepted structural edits')
LEVEL_TEXT = ('Specification and independent decoder are Lean definitions; theorems about the specification (well-formedness, exactness '
              'of removals, blob lifetime, tree invariants, order of the records of a multi-extent file) are proved; the implementation is sandwiched between Spec.run and Reader.read on every '
              'generated history. Refinement of the byte-level writer is partial (see PARTIAL).')
LEVEL_NOTE = 'Trusted: Lean kernel, Spec as the statement of the property, readers, generator coverage (distribution printed in evidence).'
TECHNIQUE = 'Lean 4 specification + independent Lean decoder, differential against pycdlib; proved spec lemmas'


def read_files(obj, exp, which):
    problems = []
    for (ns, kind, path), a in sorted(exp.items()):
        if kind != 'F' or ns == 'R':
            continue
        p = '/' + '/'.join(bytes.fromhex(x).decode('utf-8') for x in path.split('/') if x)
        key = {'I': 'iso_path', 'J': 'joliet_path', 'U': 'udf_path'}[ns]
        out = io.BytesIO()
        try:
            obj.get_file_from_iso_fp(out, **{key: p})
        except Exception as e:  # noqa
            if a['loc'] == 'b-':
                continue      # symlink placeholder record
            problems.append(('%sapi-read-fails' % which, '%s %s: %s' % (key, p, isoapi.exc_class(e))))
            continue
        data = out.getvalue()
        h = 14695981039346656037
        for b in data:
            h = ((h ^ b) * 1099511628211) & 0xFFFFFFFFFFFFFFFF
        if len(data) != a['len'] or str(h) != a['hash']:
            problems.append(('%sapi-read-differs' % which, '%s %s: %d bytes' % (key, p, len(data))))
    return problems


def api_readback(ctx, c, expected):
    """Every file in the spec view must read back through the library API (own parser) with the same bytes."""
    import pycdlib
    exp = isoapi.parse_entries(expected)
    # first from the object the edits were made on: its path lookups go through caches that every removal has to
    # invalidate (the caches are shared between PyCdlib objects, so this has to happen before another image is opened)
    problems = read_files(c.iso, exp, 'edited-object/') if c.iso is not None else []
    iso2 = pycdlib.PyCdlib()
    try:
        iso2.open(c.path)
    except Exception as e:  # noqa
        return problems + [('reopen-fails', '%s: %s' % (isoapi.exc_class(e), str(e)[:100]))]
    try:
        problems += read_files(iso2, exp, '')
        # the Rock Ridge tree through the library's own lookups: every directory lists exactly its children, every entry
        # resolves to a record of the right kind (relocated directories included)
        rr_children = {}
        for (ns, kind, path), a in exp.items():
            if ns == 'R' and path.strip('/'):
                rr_children.setdefault(path.rsplit('/', 1)[0], set()).add(path.rsplit('/', 1)[1])
        for (ns, kind, path), a in sorted(exp.items()):
            if ns != 'R' or kind not in ('D', 'F', 'L'):
                continue
            try:
                p = '/' + '/'.join(bytes.fromhex(x).decode('utf-8') for x in path.split('/') if x)
            except UnicodeDecodeError:
                continue
            try:
                rec = iso2.get_record(rr_path=p)
            except Exception as e:  # noqa
                problems.append(('api-rr-lookup-fails', 'rr_path %s: %s' % (p[:80], isoapi.exc_class(e))))
                continue
            if kind == 'L' and a.get('target') is not None:
                try:
                    got_t = rec.rock_ridge.symlink_path().hex() if rec.rock_ridge is not None and rec.is_symlink() else None
                except Exception as e:  # noqa
                    got_t = 'raises:' + isoapi.exc_class(e)
                if got_t != a['target']:
                    problems.append(('api-rr-symlink-target', 'rr_path %s: symlink_path() gives %s, the edits made %s' % (
                        p[:60], (got_t or 'no symlink')[:60], a['target'][:60])))
            if rec.is_dir() != (kind == 'D'):
                problems.append(('api-rr-kind', 'rr_path %s resolves to a %s, the edits made a %s' % (p[:80], 'directory' if rec.is_dir() else 'non-directory', kind)))
                continue
            if kind == 'D' and path.strip('/') != histcheck.RR_MOVED_RR_HEX:
                try:
                    got = {c.rock_ridge.name().hex() for c in iso2.list_children(rr_path=p) if c is not None and not c.is_dot() and not c.is_dotdot()}
                except Exception as e:  # noqa
                    problems.append(('api-rr-list-fails', 'list_children(rr_path=%s): %s' % (p[:80], isoapi.exc_class(e))))
                    continue
                want = rr_children.get(path, set())
                if got != want:
                    problems.append(('api-rr-children', 'rr_path %s lists %d children, the edits imply %d' % (p[:80], len(got), len(want))))
                    continue
                # each listed sub-directory must be THE sub-directory of that path (relocated directories with equal
                # names are told apart by the link, not by the name): its own children are those of the logical path
                try:
                    for ch in iso2.list_children(rr_path=p):
                        if ch is None or ch.is_dot() or ch.is_dotdot() or not ch.is_dir() or ch.rock_ridge is None:
                            continue
                        sub = path.rstrip('/') + '/' + ch.rock_ridge.name().hex()
                        if sub.strip('/') == histcheck.RR_MOVED_RR_HEX:
                            continue
                        inner = {g.rock_ridge.name().hex() for g in ch.children if g.rock_ridge is not None and not g.is_dot() and not g.is_dotdot()}
                        if inner != rr_children.get(sub, set()):
                            problems.append(('api-rr-listed-wrong-directory', 'list_children(rr_path=%s) yields for %s a directory with %d children, the edits imply %d' % (
                                p[:60], ch.rock_ridge.name()[:20], len(inner), len(rr_children.get(sub, set())))))
                except Exception as e:  # noqa
                    problems.append(('api-rr-list-fails', 'children of the entries of %s: %s' % (p[:80], isoapi.exc_class(e))))
        # nothing else appears: every path the history mentions and the specification no longer holds must be gone,
        # both for the object that was edited and for the reopened image
        have = {(ns, path) for (ns, kind, path) in exp}
        # entries below a relocated directory are reachable through their logical ISO9660 path as well (the library
        # follows the CL link); the expected view lists them under /RR_MOVED, so they are no ghosts
        placeholders = [path for (ns, kind, path) in exp if kind == 'P']
        ghosts = set()
        for op in c.ops:
            for key, ns in (('iso', 'I'), ('joliet', 'J'), ('udf', 'U')):
                if op.get(key):
                    ghosts.add((ns, op[key]))
                    if ns == 'I' and op.get('rr') and op[key].count('/') == 1:
                        ghosts.add(('R', '/' + op['rr']))
            if op.get('path') and op.get('ns') in ('i', 'j', 'u'):
                ghosts.add((op['ns'].upper(), op['path']))
            if op.get('new') and op.get('nns') in ('i', 'j', 'u'):
                ghosts.add((op['nns'].upper(), op['new']))
        for ns, p in sorted(ghosts):
            hx = '/' + '/'.join(x.encode('utf-8').hex() for x in p.split('/') if x)
            if ns == 'I' and any(hx.startswith(ph + '/') for ph in placeholders):
                continue
            if (ns, hx) in have or (ns == 'I' and any(h == ns and q.split('/')[-1].startswith(hx.split('/')[-1]) for h, q in have if q.rsplit('/', 1)[0] == hx.rsplit('/', 1)[0])):
                continue
            key = {'I': 'iso_path', 'J': 'joliet_path', 'U': 'udf_path', 'R': 'rr_path'}[ns]
            for which, obj in (('edited object', c.iso), ('reopened image', iso2)):
                if obj is None:
                    continue
                try:
                    obj.get_record(**{key: p})
                except Exception:  # noqa
                    continue
                problems.append(('ghost/%s' % ns, '%s still resolves %s %s although the edits removed it' % (which, key, p)))
                break
    finally:
        iso2.close()
    return problems


def check_case(ctx, c, focus='C01'):
    n_ok = sum(1 for r in c.results if r == 'ok')
    ctx.count(key=(repr(sorted(c.cfg.items())), repr(c.ops)), nontrivial=n_ok >= 3, kind='cfg:%s' % cfg_tag(c.cfg),
              sample={'cfg': c.cfg, 'ops': [histcheck.short(o) for o in c.ops[:6]], 'accepted': n_ok})
    rp = histcheck.replay_obj(c)
    for op, res in zip(c.ops, c.results):
        if res not in ('ok', 'invalidInput'):
            ctx.violation('%s.edit-raises/%s/%s' % (focus, op['op'], res), 'edit %s raised %s' % (histcheck.short(op), res), rp)
    if c.write_error:
        ctx.violation('%s.write-fails/%s' % (focus, c.write_error.split(':')[0]), 'accepted edits, then write fails: %s' % c.write_error, rp)
        return None
    expected, bad = histcheck.spec_view(ctx, c.cfg, c.tokens)
    if expected is None:
        k = int(bad.split('@')[1])
        ctx.violation('%s.accepted-impossible/%s' % (focus, c.tokens[k].split(',')[0]),
                      'the library accepted an edit the specification cannot apply (%s): %s' % (bad, c.tokens[k][:120]), rp)
        return None
    rep = isoapi.read_image(ctx, c.path)
    ctx.traces_validated += 1
    for code, detail in isoapi.compare_views(expected, rep.entries):
        ns = detail.split(':')[0]
        ctx.violation('%s.view/%s/%s' % (focus, code, ns), 'written image differs from the edits: %s %s' % (code, detail[:160]), rp)
    for code, detail in api_readback(ctx, c, expected):
        ctx.violation('%s.%s' % (focus, code), 'library read-back: %s %s' % (code, detail), rp)
    return rep


def cfg_tag(cfg):
    return 'L%d%s%s%s%s' % (cfg['ilevel'], 'J' if cfg.get('joliet') else '', 'R' + cfg['rr'][2:] if cfg.get('rr') else '',
                            'U' if cfg.get('udf') else '', 'X' if cfg.get('xa') else '')


def directed_cfgs(ctx, force):
    base = [{'ilevel': 1, 'rr': None, 'joliet': None, 'udf': None, 'xa': False},
            {'ilevel': 3, 'rr': '1.09', 'joliet': 3, 'udf': '2.60', 'xa': False},
            {'ilevel': 3, 'rr': '1.12', 'joliet': 3, 'udf': None, 'xa': False},
            {'ilevel': 2, 'rr': None, 'joliet': 3, 'udf': None, 'xa': False}]
    extra = 2 if ctx.quick else 12
    for _ in range(extra):
        base.append({'ilevel': ctx.rng.choice([1, 2, 3, 4]), 'rr': ctx.rng.choice([None, '1.09', '1.10', '1.12']),
                     'joliet': ctx.rng.choice([None, 1, 3]), 'udf': ctx.rng.choice([None, '2.60']), 'xa': ctx.rng.random() < 0.25})
    seen, out = set(), []
    for c in base:
        if force:
            c = dict(c, **{k: v for k, v in force.items() if k in c})
        key = repr(sorted(c.items()))
        if key not in seen:
            seen.add(key)
            out.append(c)
    return out


def run_directed(ctx, force, focus, post, reopen_every, tmpdir):
    """the directed histories of gen.directed (sector-exact directories, grow/shrink, resurrected names, continuation
    holes), through the same oracles as the generated ones; with reopen_every, once more with a reopen before the tail"""
    for cfg in directed_cfgs(ctx, force):
        for label, ops in gen.directed(cfg):
            variants = [ops]
            if reopen_every:
                cut = max(1, len(ops) - max(1, len(ops) // 4))
                variants = [ops[:cut] + [{'op': 'reopen'}] + ops[cut:]]
            for v in variants:
                c = histcheck.build_case(ctx, random.Random(7), cfg, 0, tmpdir, ops=v)
                ctx.dist['family:directed:%s' % label.split('-')[0]] += 1
                if any(r != 'ok' for r in c.results):
                    ctx.dist['directed-refused:%s' % label] += 1
                    ctx.notes.append('directed history %s refused under %s: %s' % (label, cfg, [r for r in c.results if r != 'ok'][:2]))
                else:
                    rep = check_case(ctx, c, focus)
                    if post is not None and rep is not None:
                        post(ctx, c, rep)
                if c.path:
                    try:
                        import os
                        os.unlink(c.path)
                    except OSError:
                        pass
                try:
                    c.session.close()
                except Exception:
                    pass


def extents_corr(ctx):
    """correspondence for Model/Extents.addChild (theorem addFile_in_order): DirectoryRecord._add_child with
    allow_duplicate, as _add_fp and the parser use it for the extents of a file, on real records"""
    import pycdlib
    from pycdlib import dr
    rng = ctx.rng
    seqs = [[5, 5, 5], [5, 5, 5, 5, 5], [3, 5, 5, 5, 7], [5, 3, 5, 7, 5, 5, 3]]
    for _ in range(60 if ctx.quick else 600):
        seqs.append([rng.choice([1, 2, 2, 3, 3, 3, 4]) for _ in range(rng.randint(1, 12))])
    impl = []
    for ids in seqs:
        iso = pycdlib.PyCdlib()
        iso.new(interchange_level=3)
        root = iso.pvd.root_directory_record()
        tags = {}
        try:
            for tag, i in enumerate(ids):
                r = dr.DirectoryRecord()
                r.new_file(iso.pvd, 10, b'F%03d.;1' % i, root, 1, '', b'', False, 0o100444, 0.0)
                tags[id(r)] = tag
                root._add_child(r, 2048, True, False)
            impl.append(' '.join('%d.%d.%d.%d' % (int(c.file_ident[1:4]), tags[id(c)], (c.file_flags >> 7) & 1, 1 if c.data_continuation is not None else 0)
                                 for c in root.children[2:]))
        except Exception as e:  # noqa
            impl.append('raised:%s' % isoapi.exc_class(e))
        iso.close()
    model = ctx.driver.ask(['addchild ' + ' '.join(str(i) for i in ids) for ids in seqs])
    for ids, a, b in zip(seqs, impl, model):
        ctx.count(key=('addchild', tuple(ids)), nontrivial=len(set(ids)) < len(ids), kind='addchild:%d-extent-max' % max(ids.count(x) for x in ids))
        if a != b:
            ctx.disagree('S-dr/addchild', 'records after adding %s: impl=%s model=%s' % (ids, a, b), {'kind': 'addchild', 'ids': ids})
    ctx.traces_validated += len(seqs)


def big_cases(ctx):
    """files larger than one directory record can describe (> 0xfffff800 bytes: multi-extent in ISO9660 and Joliet),
    mastered into a sparse in-memory image and read back under every name"""
    from harness import bigfile
    bigfile.big_case(ctx, 'C01', {'joliet': 3}, 0xfffff800 + 5000, 'two-extents')
    bigfile.big_case(ctx, 'C01', {'rock_ridge': '1.09', 'joliet': 3}, 2 * 0xfffff800 + 17, 'three-extents-rr-joliet')
    if not ctx.quick:
        bigfile.big_case(ctx, 'C01', {'rock_ridge': '1.09', 'udf': '2.60'}, 2 * 0xfffff800 + 17, 'three-extents-rr-udf', udf_check=True)
        bigfile.big_case(ctx, 'C01', {}, 0xfffff800, 'exactly-one-extent')


def run(ctx, force=None, focus='C01', n_quick=600, n_thorough=8000, post=None, reopen_every=None, opmix=None, sizes=None, directed=True):
    tmpdir = tempfile.mkdtemp(prefix='verif-%s-' % focus.lower())
    try:
        n = n_quick if ctx.quick else n_thorough
        if directed:
            run_directed(ctx, force, focus, post, reopen_every, tmpdir)
        if focus == 'C01' and not reopen_every:
            big_cases(ctx)
            extents_corr(ctx)
        for k in range(n):
            seed = ctx.rng.randrange(2 ** 62)
            rng = random.Random(seed)
            cfg = gen.sample_cfg(rng, force)
            nops = rng.choice([6, 10, 16, 25] if ctx.quick else [10, 20, 40, 80])
            c = histcheck.build_case(ctx, rng, cfg, nops, tmpdir, reopen_every=reopen_every, opmix=opmix)
            ctx.dist['family:%s' % getattr(getattr(c.session, 'shadow', None), 'family', '?')] += 1
            rep = check_case(ctx, c, focus)
            if post is not None and rep is not None:
                post(ctx, c, rep)
            if c.path:
                try:
                    import os
                    os.unlink(c.path)
                except OSError:
                    pass
            try:
                c.session.close()
            except Exception:
                pass
            if ctx.time_left() < 20:
                ctx.notes.append('stopped early after %d histories (time budget)' % (k + 1))
                break
    finally:
        shutil.rmtree(tmpdir, ignore_errors=True)


def replay(ctx, obj, focus='C01', post=None):
    r = obj.get('replay', obj)
    if r.get('kind') == 'bigfile':
        big_cases(ctx)
        return [v['signature'] for v in ctx.violations]
    if r.get('kind') == 'addchild':
        extents_corr(ctx)
        return ['disagreement' for _ in ctx.disagreements]
    tmpdir = tempfile.mkdtemp(prefix='verif-replay-')
    try:
        c = histcheck.build_case(ctx, random.Random(1), r['cfg'], 0, tmpdir, ops=r['ops'])
        rep = check_case(ctx, c, focus)
        if post is not None and rep is not None:
            post(ctx, c, rep)
    finally:
        shutil.rmtree(tmpdir, ignore_errors=True)
    for v in ctx.violations:
        core.log('violation:', v['signature'], v['summary'])
    return [v['signature'] for v in ctx.violations]
