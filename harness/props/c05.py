"""
C05 — re-mastering is a fixpoint.  Theorems: codec fixpoints (Props/C03, C19, C10) — see PARTIAL.

Oracle (literally the property): for every image produced by a generated history in any configuration —
plain, XA, Rock Ridge, Joliet, UDF, El Torito, isohybrid — open it, write it again without edits, and compare byte for byte
with the volume-modification date fields (17 bytes at offset 830 of every primary/supplementary descriptor, and the UDF
descriptors' recording times that pycdlib refreshes) masked; then do the same with the re-mastered image (idempotence).
"""
import io
import os
import random
import shutil
import tempfile

from harness import core, gen, histcheck, isoapi
from harness.props import c01

LEAN_MODULES = ['Pycdlib.Props.C03', 'Pycdlib.Props.C19', 'Pycdlib.Props.C10']
THEOREMS = ['Pycdlib.decDR_encDR', 'Pycdlib.decPTR_encPTR', 'Pycdlib.dr_date_parse_record', 'Pycdlib.Udf.tag_valid',
            'Pycdlib.decBoth32_both32', 'Pycdlib.decBoth16_both16']
PARTIAL = {
    'remaster_fix_partial': 'proved: decode∘encode = id for directory records, path table records, dates and tags (parsing what was '
    'recorded loses nothing at record level). Not proved: that parsing reconstructs an edit state whose layout equals the original '
    '(Parse.state); that part is decided by the byte-for-byte oracle on every generated image, twice.',
}
TRUSTED = ['which bytes are "volume modification timestamp fields" (masked): offset 830..846 of each PVD/SVD sector']
ASSUMPTIONS = ['time.time is frozen to the same instant for all writes, so only the fields pycdlib documents as refreshed may differ']
RULE = c01.RULE + '; every image is opened and written twice'
LEVEL_TEXT = ('Record-level codec fixpoints are Lean theorems; the image-level fixpoint is decided by re-mastering every generated image '
              'twice and comparing all bytes outside the volume-modification date fields.')
LEVEL_NOTE = 'Trusted: Lean kernel for the codec theorems; harness for the byte comparison.'
TECHNIQUE = 'Lean 4 codec round-trip proofs + byte-exact remaster oracle on generated images'


def mask(b):
    b = bytearray(b)
    sec = 16
    while (sec + 1) * 2048 <= len(b) and b[sec * 2048 + 1:sec * 2048 + 6] == b'CD001':
        t = b[sec * 2048]
        if t in (1, 2):
            b[sec * 2048 + 830: sec * 2048 + 847] = b'\x00' * 17
        if t == 255:
            break
        sec += 1
    return bytes(b)


def first_diff(a, b):
    n = min(len(a), len(b))
    for i in range(0, n, 2048):
        if a[i:i + 2048] != b[i:i + 2048]:
            for j in range(i, min(i + 2048, n)):
                if a[j] != b[j]:
                    return j
    return n if len(a) != len(b) else -1


def remaster(path):
    import pycdlib
    iso = pycdlib.PyCdlib()
    iso.open(path)
    out = io.BytesIO()
    iso.write_fp(out)
    iso.close()
    return out.getvalue()


def post(ctx, c, rep):
    rp = histcheck.replay_obj(c)
    orig = open(c.path, 'rb').read()
    try:
        with isoapi.frozen_time():
            again = remaster(c.path)
    except Exception as e:  # noqa
        ctx.violation('C05.remaster-fails/%s' % type(e).__name__, 're-mastering the written image fails: %r' % e, rp)
        return
    d = first_diff(mask(orig), mask(again))
    if d >= 0:
        what = locate(rep, d)
        ctx.violation('C05.remaster-differs/%s' % what.split(':')[0].split('@')[0], 'write(open(img)) differs from img at byte %d (sector %d: %s); sizes %d/%d' % (
            d, d // 2048, what, len(orig), len(again)), rp)
        return
    tmp = c.path + '.2'
    open(tmp, 'wb').write(again)
    try:
        with isoapi.frozen_time():
            third = remaster(tmp)
        if mask(third) != mask(again):
            ctx.violation('C05.not-idempotent', 'second re-mastering differs from the first', rp)
    except Exception as e:  # noqa
        ctx.violation('C05.remaster-fails/%s' % type(e).__name__, 'second re-mastering fails: %r' % e, rp)
    finally:
        os.unlink(tmp)


def locate(rep, byte):
    sec = byte // 2048
    for label, first, cnt in rep.allocs:
        if label.startswith('cearea:'):
            if first <= byte < first + cnt:
                return 'cearea'
            continue
        if first <= sec < first + cnt:
            return label.split('/')[0]
    return 'unknown'


def run(ctx):
    c01.run(ctx, focus='C05', post=post, n_quick=200, n_thorough=5000, force={'duppvd': True})


def replay(ctx, obj):
    return c01.replay(ctx, obj, focus='C05', post=post)
