"""
C05 — re-mastering is a fixpoint.  Theorems: codec fixpoints (Props/C03, C19, C10) — see PARTIAL.

Oracle (literally the property): for every image produced by a generated history in any configuration —
plain, XA, Rock Ridge, Joliet, UDF, El Torito, isohybrid — open it, write it again without edits, and compare byte for byte
with the volume-modification date fields (17 bytes at offset 830 of every primary/supplementary descriptor, and the UDF
descriptors' recording times that pycdlib refreshes) masked; then do the same with the re-mastered image (idempotence).
"""
import io
import os
import random
import shutil
import tempfile

from harness import core, gen, histcheck, isoapi
from harness.props import c01

LEAN_MODULES = ['Pycdlib.Props.C03', 'Pycdlib.Props.C19', 'Pycdlib.Props.C10', 'Pycdlib.Props.C03Dir', 'Pycdlib.Props.C03Pt']
THEOREMS = ['Pycdlib.decDR_encDR', 'Pycdlib.decPTR_encPTR', 'Pycdlib.dr_date_parse_record', 'Pycdlib.Udf.tag_valid',
            'Pycdlib.decBoth32_both32', 'Pycdlib.decBoth16_both16', 'Pycdlib.DirBytes.dir_roundtrip', 'Pycdlib.PtBytes.parse_render']
PARTIAL = {
    'remaster_fix_partial': 'proved: decode∘encode = id for directory records, path table records, dates and tags, and for whole directory extents '
    'and whole path tables (parsing what was recorded loses nothing, at record level and at extent level). Not proved: that parsing reconstructs an edit state whose layout equals the original '
    '(Parse.state); that part is decided by the byte-for-byte oracle on every generated image, twice.',
}
TRUSTED = ['which bytes are "volume modification timestamp fields" (masked): offset 830..846 of each PVD/SVD sector']
ASSUMPTIONS = ['time.time is frozen to the same instant for all writes, so only the fields pycdlib documents as refreshed may differ']
RULE = c01.RULE + '; every image is opened and written twice; plus volume-descriptor field grid, 10 time zones x 3 flavours, bootable / hybrid images (18)'
LEVEL_TEXT = ('Record-level codec fixpoints are Lean theorems; the image-level fixpoint is decided by re-mastering every generated image '
              'twice and comparing all bytes outside the volume-modification date fields.')
LEVEL_NOTE = 'Trusted: Lean kernel for the codec theorems; harness for the byte comparison.'
TECHNIQUE = 'Lean 4 codec round-trip proofs + byte-exact remaster oracle on generated images'


def mask(b):
    b = bytearray(b)
    sec = 16
    while (sec + 1) * 2048 <= len(b) and b[sec * 2048 + 1:sec * 2048 + 6] == b'CD001':
        t = b[sec * 2048]
        if t in (1, 2):
            b[sec * 2048 + 830: sec * 2048 + 847] = b'\x00' * 17
        if t == 255:
            break
        sec += 1
    return bytes(b)


def first_diff(a, b):
    n = min(len(a), len(b))
    for i in range(0, n, 2048):
        if a[i:i + 2048] != b[i:i + 2048]:
            for j in range(i, min(i + 2048, n)):
                if a[j] != b[j]:
                    return j
    return n if len(a) != len(b) else -1


def remaster(path):
    import pycdlib
    iso = pycdlib.PyCdlib()
    iso.open(path)
    out = io.BytesIO()
    iso.write_fp(out)
    iso.close()
    return out.getvalue()


def post(ctx, c, rep):
    rp = histcheck.replay_obj(c)
    orig = open(c.path, 'rb').read()
    try:
        with isoapi.frozen_time():
            again = remaster(c.path)
    except Exception as e:  # noqa
        ctx.violation('C05.remaster-fails/%s' % type(e).__name__, 're-mastering the written image fails: %r' % e, rp)
        return
    d = first_diff(mask(orig), mask(again))
    if d >= 0:
        what = locate(rep, d)
        ctx.violation('C05.remaster-differs/%s' % what.split(':')[0].split('@')[0], 'write(open(img)) differs from img at byte %d (sector %d: %s); sizes %d/%d' % (
            d, d // 2048, what, len(orig), len(again)), rp)
        return
    tmp = c.path + '.2'
    open(tmp, 'wb').write(again)
    try:
        with isoapi.frozen_time():
            third = remaster(tmp)
        if mask(third) != mask(again):
            ctx.violation('C05.not-idempotent', 'second re-mastering differs from the first', rp)
    except Exception as e:  # noqa
        ctx.violation('C05.remaster-fails/%s' % type(e).__name__, 'second re-mastering fails: %r' % e, rp)
    finally:
        os.unlink(tmp)


def locate(rep, byte):
    sec = byte // 2048
    for label, first, cnt in rep.allocs:
        if label.startswith('cearea:'):
            if first <= byte < first + cnt:
                return 'cearea'
            continue
        if first <= sec < first + cnt:
            return label.split('/')[0]
    return 'unknown'


def vd_field_cases(ctx):
    """images created with non-default volume descriptor fields (set size / sequence number that differ, identifiers,
    file identifiers, expiration date, application use) in every descriptor flavour: write(open(img)) == img, and the
    fields read from the bytes are the ones given"""
    import struct
    import pycdlib
    rng = ctx.rng
    tmpdir = tempfile.mkdtemp(prefix='verif-c05v-')
    try:
        combos = [(1, 1), (2, 1), (2, 2), (3, 2), (5, 3), (65535, 1), (65535, 65535), (rng.randint(2, 400), 1)]
        for i, (set_size, seq) in enumerate(combos):
            for flavour in ({}, {'joliet': 3}, {'interchange_level': 4}, {'rock_ridge': '1.09', 'joliet': 2}, {'udf': '2.60'}, {'xa': True, 'joliet': 1}):
                kw = dict(flavour, set_size=set_size, seqnum=seq, sys_ident='SYS%d' % i, vol_ident='VOL_%d' % i, vol_set_ident='SET %d' % i,
                          pub_ident_str='pub %d' % i, preparer_ident_str='prep %d' % i, app_ident_str='app %d' % i,
                          copyright_file='COPY.;1', abstract_file='ABST.;1', bibli_file='BIBL.;1',
                          vol_expire_date=rng.choice([None, 1700000000.0, 4102444799.0]), app_use='use %d' % i)
                rp = {'kind': 'vd-fields', 'new': {k: v for k, v in kw.items()}}
                path = os.path.join(tmpdir, 'v.iso')
                with isoapi.frozen_time():
                    iso = pycdlib.PyCdlib()
                    try:
                        iso.new(**kw)
                        iso.add_fp(io.BytesIO(b'c'), 1, '/COPY.;1', **({'rr_name': 'copy'} if kw.get('rock_ridge') else {}))
                        iso.write(path)
                    except Exception as e:  # noqa
                        if isoapi.exc_class(e) != 'invalidInput':
                            ctx.violation('C05.vd-fields/build-raises', 'new(%s) + write raised %r' % (kw, e), rp)
                        continue
                    finally:
                        iso.close()
                orig = open(path, 'rb').read()
                ctx.count(key=('vd-fields', set_size, seq, tuple(sorted(flavour))), nontrivial=set_size != seq, kind='vd-fields')
                # every PVD / SVD: set size at 120, sequence number at 124 (both-endian 16 bit)
                sec = 16
                while orig[sec * 2048 + 1: sec * 2048 + 6] == b'CD001' and orig[sec * 2048] != 255:
                    if orig[sec * 2048] in (1, 2):
                        ss = struct.unpack_from('<H', orig, sec * 2048 + 120)[0]
                        sq = struct.unpack_from('<H', orig, sec * 2048 + 124)[0]
                        if (ss, sq) != (set_size, seq):
                            ctx.violation('C05.vd-fields/set-seq-recorded', 'descriptor at sector %d records set size %d / sequence %d, given %d / %d' % (sec, ss, sq, set_size, seq), rp)
                    sec += 1
                try:
                    with isoapi.frozen_time():
                        again = remaster(path)
                except Exception as e:  # noqa
                    ctx.violation('C05.vd-fields/remaster-fails', 're-mastering fails: %r' % e, rp)
                    continue
                d = first_diff(mask(orig), mask(again))
                if d >= 0:
                    ctx.violation('C05.vd-fields/remaster-differs', 'write(open(img)) differs from img at byte %d (sector %d, offset %d) for new(%s)' % (
                        d, d // 2048, d % 2048, {k: kw[k] for k in ('set_size', 'seqnum')}), rp)
    finally:
        shutil.rmtree(tmpdir, ignore_errors=True)


def stepping_clock_case(ctx):
    """the clock advances during the write (0.6 s per reading instead of standing still): an image with copies of the PVD
    must still be one that opens, and re-mastering it under a standing clock reproduces it"""
    import time
    import pycdlib
    rp = {'kind': 'stepping-clock'}
    for flavour in ({}, {'joliet': 3}, {'rock_ridge': '1.09'}):
        with isoapi.frozen_time():
            iso = pycdlib.PyCdlib()
            iso.new(**flavour)
            iso.duplicate_pvd()
            iso.duplicate_pvd()
            iso.add_fp(io.BytesIO(b'abc'), 3, '/A.;1', **({'rr_name': 'a'} if flavour.get('rock_ridge') else {}))
            base = time.time()
            ticks = [0]

            def stepping():
                ticks[0] += 1
                return base + 0.6 * ticks[0]
            time.time = stepping
            out = io.BytesIO()
            try:
                iso.write_fp(out)
            finally:
                time.time = lambda: base
            iso.close()
        ctx.count(key=('stepping-clock', tuple(sorted(flavour))), nontrivial=True, kind='stepping-clock')
        g = pycdlib.PyCdlib()
        try:
            g.open_fp(io.BytesIO(out.getvalue()))
            g.close()
        except Exception as e:  # noqa
            ctx.violation('C05.pvd-copies/modification-date-race', 'an image with three PVD copies written while the clock advances cannot be opened: %r' % e, rp)


def tz_cases(ctx):
    """images mastered while the process is in a far-east / far-west / fractional time zone: every recorded date carries
    an offset from GMT (-48 .. +56 quarter hours); write(open(img)) == img in the same zone and in UTC"""
    import time
    import pycdlib
    zones = ['UTC', 'LINT-14', 'XXX-13:45', 'XXX-13', 'AAA+12', 'BBB+11:30', 'NPT-5:45', 'IST-5:30', 'NST+3:30', 'CCC-12:45']
    old = os.environ.get('TZ')
    try:
        for tz in zones:
            for flavour in ({'rock_ridge': '1.09', 'joliet': 3}, {'udf': '2.60', 'rock_ridge': '1.12'}, {'interchange_level': 4, 'xa': True}):
                rp = {'kind': 'tz', 'tz': tz, 'new': flavour}
                os.environ['TZ'] = tz
                time.tzset()
                rr = {'rr_name': 'x'} if flavour.get('rock_ridge') else {}
                with isoapi.frozen_time():
                    iso = pycdlib.PyCdlib()
                    iso.new(vol_expire_date=1700000000.0, **flavour)
                    iso.add_directory('/D', **({'rr_name': 'd'} if rr else {}), **({'joliet_path': '/d'} if flavour.get('joliet') else {}),
                                      **({'udf_path': '/d'} if flavour.get('udf') else {}))
                    iso.add_fp(io.BytesIO(b'tz'), 2, '/D/X.;1', **rr, **({'joliet_path': '/d/x'} if flavour.get('joliet') else {}),
                               **({'udf_path': '/d/x'} if flavour.get('udf') else {}))
                    out = io.BytesIO()
                    iso.write_fp(out)
                    iso.close()
                orig = out.getvalue()
                ctx.count(key=('tz', tz, tuple(sorted(flavour))), nontrivial=tz != 'UTC', kind='tz')
                for again_tz in (tz, 'UTC'):
                    os.environ['TZ'] = again_tz
                    time.tzset()
                    try:
                        with isoapi.frozen_time():
                            g = pycdlib.PyCdlib()
                            g.open_fp(io.BytesIO(orig))
                            out2 = io.BytesIO()
                            g.write_fp(out2)
                            g.close()
                    except Exception as e:  # noqa
                        ctx.violation('C05.tz/remaster-fails', 'image mastered with TZ=%s cannot be re-mastered with TZ=%s: %r' % (tz, again_tz, e), rp)
                        continue
                    d = first_diff(mask(orig), mask(out2.getvalue()))
                    if d >= 0:
                        ctx.violation('C05.tz/remaster-differs', 'image mastered with TZ=%s: write(open(img)) under TZ=%s differs at byte %d (sector %d, offset %d): %s -> %s'
                                      % (tz, again_tz, d, d // 2048, d % 2048, orig[d - 6:d + 2].hex(), out2.getvalue()[d - 6:d + 2].hex()), rp)
    finally:
        if old is None:
            os.environ.pop('TZ', None)
        else:
            os.environ['TZ'] = old
        time.tzset()


def boot_cases(ctx):
    """bootable and hybrid images (El Torito with one / two / three sections of different sizes, boot info table, isohybrid
    MBR, EFI, EFI + Mac, unusual geometry and partition offset): write(open(img)) == img, twice"""
    import pycdlib
    rng = ctx.rng
    hybrids = [None, {}, {'efi': True}, {'mac': True}, {'geometry_sectors': 17, 'geometry_heads': 9, 'part_entry': 4, 'mbr_id': 0xdeadbeef},
               {'mac': True, 'geometry_sectors': 63, 'geometry_heads': 255, 'part_offset': 1}]
    for flavour in ({}, {'rock_ridge': '1.09', 'joliet': 3}, {'udf': '2.60'}):
        for hy in hybrids:
            nsec = 1 if hy is None or not (hy.get('efi') or hy.get('mac')) else (3 if hy.get('mac') else 2)
            if hy is None:
                nsec = rng.choice([1, 2, 3])
            rp = {'kind': 'boot', 'new': flavour, 'hybrid': hy}
            with isoapi.frozen_time():
                iso = pycdlib.PyCdlib()
                try:
                    iso.new(**flavour)
                    sizes = [2048, rng.choice([4096, 10240]), rng.choice([6144, 40960])][:nsec]
                    for k, n in enumerate(sizes):
                        nm = '/%s.;1' % ['ISOLINUX', 'EFIBOOT', 'MACBOOT'][k]
                        kw = {'rr_name': nm[1:-3].lower()} if flavour.get('rock_ridge') else {}
                        if flavour.get('joliet'):
                            kw['joliet_path'] = nm[:-3].lower()
                        iso.add_fp(io.BytesIO(isoapi.isolinux_boot(n, 0x11 * (k + 1))), n, nm, **kw)
                        ekw = {'rr_bootcatname': 'boot.cat'} if (k == 0 and flavour.get('rock_ridge')) else {}
                        if k == 0:
                            iso.add_eltorito(nm, boot_load_size=4, boot_info_table=(hy is None and rng.random() < 0.5), **ekw)
                        else:
                            iso.add_eltorito(nm, efi=True, boot_load_size=[None, 8, 20][k])
                    iso.add_fp(io.BytesIO(b'z' * 5000), 5000, '/ZDATA.;1', **({'rr_name': 'zdata'} if flavour.get('rock_ridge') else {}))
                    if hy is not None:
                        iso.add_isohybrid(**hy)
                    out = io.BytesIO()
                    iso.write_fp(out)
                except Exception as e:  # noqa
                    if isoapi.exc_class(e) != 'invalidInput':
                        ctx.violation('C05.boot/build-raises', 'building %s / %s raised %r' % (flavour, hy, e), rp)
                    continue
                finally:
                    iso.close()
            orig = out.getvalue()
            ctx.count(key=('boot', tuple(sorted(flavour)), str(hy), nsec), nontrivial=True, kind='boot')
            cur = orig
            for gen_no in (1, 2):
                try:
                    with isoapi.frozen_time():
                        g = pycdlib.PyCdlib()
                        g.open_fp(io.BytesIO(cur))
                        o2 = io.BytesIO()
                        g.write_fp(o2)
                        g.close()
                except Exception as e:  # noqa
                    ctx.violation('C05.boot/remaster-fails', 're-mastering (%d) of %s / %s fails: %r' % (gen_no, flavour, hy, e), rp)
                    break
                d = first_diff(mask(cur), mask(o2.getvalue()))
                if d >= 0:
                    ctx.violation('C05.boot/remaster-differs', 're-mastering (%d) of a bootable image (%s, hybrid %s, %d sections) differs at byte %d (sector %d, offset %d)'
                                  % (gen_no, flavour, hy, nsec, d, d // 2048, d % 2048), rp)
                    break
                cur = o2.getvalue()


def run(ctx):
    vd_field_cases(ctx)
    tz_cases(ctx)
    boot_cases(ctx)
    stepping_clock_case(ctx)
    c01.run(ctx, focus='C05', post=post, n_quick=200, n_thorough=5000, force={'duppvd': True})


def replay(ctx, obj):
    if obj.get('replay', obj).get('kind') == 'stepping-clock':
        stepping_clock_case(ctx)
        return [v['signature'] for v in ctx.violations]
    if obj.get('replay', obj).get('kind') == 'boot':
        boot_cases(ctx)
        return [v['signature'] for v in ctx.violations]
    if obj.get('replay', obj).get('kind') == 'tz':
        tz_cases(ctx)
        return [v['signature'] for v in ctx.violations]
    if obj.get('replay', obj).get('kind') == 'vd-fields':
        vd_field_cases(ctx)
        return [v['signature'] for v in ctx.violations]
    return c01.replay(ctx, obj, focus='C05', post=post)
