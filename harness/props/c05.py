"""
C05 — re-mastering is a fixpoint.  Theorems: codec fixpoints (Props/C03, C19, C10) — see PARTIAL.

Oracle (literally the property): for every image produced by a generated history in any configuration —
plain, XA, Rock Ridge, Joliet, UDF, El Torito, isohybrid — open it, write it again without edits, and compare byte for byte
with the volume-modification date fields (17 bytes at offset 830 of every primary/supplementary descriptor, and the UDF
descriptors' recording times that pycdlib refreshes) masked; then do the same with the re-mastered image (idempotence).
"""
import io
import os
import random
import shutil
import tempfile

from harness import core, gen, histcheck, isoapi
from harness.props import c01

LEAN_MODULES = ['Pycdlib.Props.C03', 'Pycdlib.Props.C19', 'Pycdlib.Props.C10']
THEOREMS = ['Pycdlib.decDR_encDR', 'Pycdlib.decPTR_encPTR', 'Pycdlib.dr_date_parse_record', 'Pycdlib.Udf.tag_valid',
            'Pycdlib.decBoth32_both32', 'Pycdlib.decBoth16_both16']
PARTIAL = {
    'remaster_fix_partial': 'proved: decode∘encode = id for directory records, path table records, dates and tags (parsing what was '
    'recorded loses nothing at record level). Not proved: that parsing reconstructs an edit state whose layout equals the original '
    '(Parse.state); that part is decided by the byte-for-byte oracle on every generated image, twice.',
}
TRUSTED = ['which bytes are "volume modification timestamp fields" (masked): offset 830..846 of each PVD/SVD sector']
ASSUMPTIONS = ['time.time is frozen to the same instant for all writes, so only the fields pycdlib documents as refreshed may differ']
RULE = c01.RULE + '; every image is opened and written twice'
LEVEL_TEXT = ('Record-level codec fixpoints are Lean theorems; the image-level fixpoint is decided by re-mastering every generated image '
              'twice and comparing all bytes outside the volume-modification date fields.')
LEVEL_NOTE = 'Trusted: Lean kernel for the codec theorems; harness for the byte comparison.'
TECHNIQUE = 'Lean 4 codec round-trip proofs + byte-exact remaster oracle on generated images'


def mask(b):
    b = bytearray(b)
    sec = 16
    while (sec + 1) * 2048 <= len(b) and b[sec * 2048 + 1:sec * 2048 + 6] == b'CD001':
        t = b[sec * 2048]
        if t in (1, 2):
            b[sec * 2048 + 830: sec * 2048 + 847] = b'\x00' * 17
        if t == 255:
            break
        sec += 1
    return bytes(b)


def first_diff(a, b):
    n = min(len(a), len(b))
    for i in range(0, n, 2048):
        if a[i:i + 2048] != b[i:i + 2048]:
            for j in range(i, min(i + 2048, n)):
                if a[j] != b[j]:
                    return j
    return n if len(a) != len(b) else -1


def remaster(path):
    import pycdlib
    iso = pycdlib.PyCdlib()
    iso.open(path)
    out = io.BytesIO()
    iso.write_fp(out)
    iso.close()
    return out.getvalue()


def post(ctx, c, rep):
    rp = histcheck.replay_obj(c)
    orig = open(c.path, 'rb').read()
    try:
        with isoapi.frozen_time():
            again = remaster(c.path)
    except Exception as e:  # noqa
        ctx.violation('C05.remaster-fails/%s' % type(e).__name__, 're-mastering the written image fails: %r' % e, rp)
        return
    d = first_diff(mask(orig), mask(again))
    if d >= 0:
        what = locate(rep, d)
        ctx.violation('C05.remaster-differs/%s' % what.split(':')[0].split('@')[0], 'write(open(img)) differs from img at byte %d (sector %d: %s); sizes %d/%d' % (
            d, d // 2048, what, len(orig), len(again)), rp)
        return
    tmp = c.path + '.2'
    open(tmp, 'wb').write(again)
    try:
        with isoapi.frozen_time():
            third = remaster(tmp)
        if mask(third) != mask(again):
            ctx.violation('C05.not-idempotent', 'second re-mastering differs from the first', rp)
    except Exception as e:  # noqa
        ctx.violation('C05.remaster-fails/%s' % type(e).__name__, 'second re-mastering fails: %r' % e, rp)
    finally:
        os.unlink(tmp)


def locate(rep, byte):
    sec = byte // 2048
    for label, first, cnt in rep.allocs:
        if label.startswith('cearea:'):
            if first <= byte < first + cnt:
                return 'cearea'
            continue
        if first <= sec < first + cnt:
            return label.split('/')[0]
    return 'unknown'


def vd_field_cases(ctx):
    """images created with non-default volume descriptor fields (set size / sequence number that differ, identifiers,
    file identifiers, expiration date, application use) in every descriptor flavour: write(open(img)) == img, and the
    fields read from the bytes are the ones given"""
    import struct
    import pycdlib
    rng = ctx.rng
    tmpdir = tempfile.mkdtemp(prefix='verif-c05v-')
    try:
        combos = [(1, 1), (2, 1), (2, 2), (3, 2), (5, 3), (65535, 1), (65535, 65535), (rng.randint(2, 400), 1)]
        for i, (set_size, seq) in enumerate(combos):
            for flavour in ({}, {'joliet': 3}, {'interchange_level': 4}, {'rock_ridge': '1.09', 'joliet': 2}, {'udf': '2.60'}, {'xa': True, 'joliet': 1}):
                kw = dict(flavour, set_size=set_size, seqnum=seq, sys_ident='SYS%d' % i, vol_ident='VOL_%d' % i, vol_set_ident='SET %d' % i,
                          pub_ident_str='pub %d' % i, preparer_ident_str='prep %d' % i, app_ident_str='app %d' % i,
                          copyright_file='COPY.;1', abstract_file='ABST.;1', bibli_file='BIBL.;1',
                          vol_expire_date=rng.choice([None, 1700000000.0, 4102444799.0]), app_use='use %d' % i)
                rp = {'kind': 'vd-fields', 'new': {k: v for k, v in kw.items()}}
                path = os.path.join(tmpdir, 'v.iso')
                with isoapi.frozen_time():
                    iso = pycdlib.PyCdlib()
                    try:
                        iso.new(**kw)
                        iso.add_fp(io.BytesIO(b'c'), 1, '/COPY.;1', **({'rr_name': 'copy'} if kw.get('rock_ridge') else {}))
                        iso.write(path)
                    except Exception as e:  # noqa
                        if isoapi.exc_class(e) != 'invalidInput':
                            ctx.violation('C05.vd-fields/build-raises', 'new(%s) + write raised %r' % (kw, e), rp)
                        continue
                    finally:
                        iso.close()
                orig = open(path, 'rb').read()
                ctx.count(key=('vd-fields', set_size, seq, tuple(sorted(flavour))), nontrivial=set_size != seq, kind='vd-fields')
                # every PVD / SVD: set size at 120, sequence number at 124 (both-endian 16 bit)
                sec = 16
                while orig[sec * 2048 + 1: sec * 2048 + 6] == b'CD001' and orig[sec * 2048] != 255:
                    if orig[sec * 2048] in (1, 2):
                        ss = struct.unpack_from('<H', orig, sec * 2048 + 120)[0]
                        sq = struct.unpack_from('<H', orig, sec * 2048 + 124)[0]
                        if (ss, sq) != (set_size, seq):
                            ctx.violation('C05.vd-fields/set-seq-recorded', 'descriptor at sector %d records set size %d / sequence %d, given %d / %d' % (sec, ss, sq, set_size, seq), rp)
                    sec += 1
                try:
                    with isoapi.frozen_time():
                        again = remaster(path)
                except Exception as e:  # noqa
                    ctx.violation('C05.vd-fields/remaster-fails', 're-mastering fails: %r' % e, rp)
                    continue
                d = first_diff(mask(orig), mask(again))
                if d >= 0:
                    ctx.violation('C05.vd-fields/remaster-differs', 'write(open(img)) differs from img at byte %d (sector %d, offset %d) for new(%s)' % (
                        d, d // 2048, d % 2048, {k: kw[k] for k in ('set_size', 'seqnum')}), rp)
    finally:
        shutil.rmtree(tmpdir, ignore_errors=True)


def stepping_clock_case(ctx):
    """the clock advances during the write (0.6 s per reading instead of standing still): an image with copies of the PVD
    must still be one that opens, and re-mastering it under a standing clock reproduces it"""
    import time
    import pycdlib
    rp = {'kind': 'stepping-clock'}
    for flavour in ({}, {'joliet': 3}, {'rock_ridge': '1.09'}):
        with isoapi.frozen_time():
            iso = pycdlib.PyCdlib()
            iso.new(**flavour)
            iso.duplicate_pvd()
            iso.duplicate_pvd()
            iso.add_fp(io.BytesIO(b'abc'), 3, '/A.;1', **({'rr_name': 'a'} if flavour.get('rock_ridge') else {}))
            base = time.time()
            ticks = [0]

            def stepping():
                ticks[0] += 1
                return base + 0.6 * ticks[0]
            time.time = stepping
            out = io.BytesIO()
            try:
                iso.write_fp(out)
            finally:
                time.time = lambda: base
            iso.close()
        ctx.count(key=('stepping-clock', tuple(sorted(flavour))), nontrivial=True, kind='stepping-clock')
        g = pycdlib.PyCdlib()
        try:
            g.open_fp(io.BytesIO(out.getvalue()))
            g.close()
        except Exception as e:  # noqa
            ctx.violation('C05.pvd-copies/modification-date-race', 'an image with three PVD copies written while the clock advances cannot be opened: %r' % e, rp)


def run(ctx):
    vd_field_cases(ctx)
    stepping_clock_case(ctx)
    c01.run(ctx, focus='C05', post=post, n_quick=200, n_thorough=5000, force={'duppvd': True})


def replay(ctx, obj):
    if obj.get('replay', obj).get('kind') == 'stepping-clock':
        stepping_clock_case(ctx)
        return [v['signature'] for v in ctx.violations]
    if obj.get('replay', obj).get('kind') == 'vd-fields':
        vd_field_cases(ctx)
        return [v['signature'] for v in ctx.violations]
    return c01.replay(ctx, obj, focus='C05', post=post)
