"""
C09 — Joliet fidelity.  Theorems: Props/C09.lean (`joliet_decode_encode`, `joliet_fits`, `units16_le_utf8`).

S-fn   Python's UTF-16BE / UTF-8 codecs (what pycdlib calls) vs the model encoders over BMP boundaries, surrogate-pair
       range, random scalars; the reader's decoder on the model's encoding.
Oracle histories with Joliet forced on (levels 1-3), trees that differ between Joliet and ISO9660 (Joliet-only and ISO-only
       entries), Unicode name pools of 1..64 characters: the independent reader of the supplementary descriptor must
       recover exactly the Spec's Joliet map (names, hidden flags, file bytes), each Joliet file must sit on the same
       sectors as its ISO9660 link (partition check against the Spec's blob ids), the SVD's own path tables and
       sizes must be well formed; names that do not fit are refused at the edit (never truncated).
"""
import io

from harness import core, histcheck, isoapi
from harness.props import c01

LEAN_MODULES = ['Pycdlib.Props.C09', 'Pycdlib.Props.C09Indep']
THEOREMS = ['Pycdlib.joliet_decode_encode', 'Pycdlib.joliet_fits', 'Pycdlib.units16_le_utf8', 'Pycdlib.utf16_one',
            'Pycdlib.Spec.other_ns_untouched']
PARTIAL = {'joliet_indep / joliet_shares': 'independence of the namespaces is proved for the specification (other_ns_untouched: an edit that names '
           'nothing in a namespace leaves its entries as they were); that pycdlib refines the specification, and the sharing of data sectors '
           '(blob-id vs extent partition), are decided per history by the Spec/reader comparison'}
TRUSTED = ['CPython utf-8 / utf-16_be codecs as Model/Unicode encoders (compared on every sampled scalar)']
ASSUMPTIONS = []
RULE = c01.RULE + '; Joliet forced'
LEVEL_TEXT = ('Lean 4 theorems for every sequence of Unicode scalar values: the independent reader decodes the recorded UTF-16BE '
              'identifier to the UTF-8 of the given name; an accepted name (<= 64 UTF-8 bytes) needs <= 64 UTF-16 units, so '
              'nothing is truncated. Tree independence, shared data sectors and SVD path tables are decided by the reader/Spec '
              'comparison on every generated history.')
LEVEL_NOTE = 'Trusted: Lean kernel, CPython codecs (checked), reader.'
TECHNIQUE = 'Lean 4 proofs about the name codecs + independent Lean Joliet reader vs Lean Spec on generated histories'


def run_fn(ctx):
    rng = ctx.rng
    cases = [[c] for c in (0, 0x41, 0x7f, 0x80, 0x7ff, 0x800, 0xd7ff, 0xe000, 0xfffd, 0xffff, 0x10000, 0x10ffff, 0x1f600, 0x2f800)]
    for _ in range(400 if ctx.quick else 20000):
        n = rng.randint(1, 8)
        cases.append([rng.choice([rng.randrange(0x20, 0x7f), rng.randrange(0x80, 0x800), rng.randrange(0x800, 0xd800),
                                  rng.randrange(0xe000, 0x10000), rng.randrange(0x10000, 0x110000)]) for _ in range(n)])
    reqs, impl = [], []
    for cps in cases:
        s = ''.join(chr(c) for c in cps)
        reqs.append('utf16 ' + ','.join(map(str, cps)))
        impl.append('%s %s %s' % (core.hexs(s.encode('utf-16_be')), core.hexs(s.encode('utf-8')), core.hexs(s.encode('utf-8'))))
    model = ctx.driver.ask(reqs)
    for rq, a, b in zip(reqs, impl, model):
        ctx.count(key=rq, kind='utf16')
        if a != b:
            ctx.disagree('S-fn/utf16', '%s impl=%s model=%s' % (rq, a, b), {'kind': 'utf16', 'request': rq})
    ctx.traces_validated += len(reqs)
    # refusal instead of truncation: names around the limit
    import pycdlib
    from pycdlib import pycdlibexception as pe
    for name in ['a' * 63, 'a' * 64, 'a' * 65, '中' * 21, '中' * 22, '\U0001F600' * 16, '\U0001F600' * 17, 'é' * 32, 'é' * 33, 'x' * 200]:
        iso = pycdlib.PyCdlib()
        iso.new(joliet=3)
        try:
            iso.add_fp(io.BytesIO(b'j'), 1, iso_path='/A.;1', joliet_path='/' + name)
            res = 'ok'
        except pe.PyCdlibInvalidInput:
            res = 'refused'
        except Exception as e:  # noqa
            res = 'py:' + type(e).__name__
        ctx.count(key=('joliet-limit', name), kind='joliet-limit:' + res)
        if res.startswith('py:'):
            ctx.violation('C09.refusal/%s' % res, 'Joliet name of %d chars: %s' % (len(name), res), {'kind': 'jname', 'name': [ord(c) for c in name]})
        if res == 'ok':
            out = io.BytesIO()
            iso.write_fp(out)
            iso2 = pycdlib.PyCdlib()
            iso2.open_fp(io.BytesIO(out.getvalue()))
            names = [c.file_identifier().decode('utf-16_be') for c in iso2.list_children(joliet_path='/') if not c.is_dot() and not c.is_dotdot()]
            if names != [name]:
                ctx.violation('C09.truncated', 'Joliet name %r recorded as %r' % (name, names), {'kind': 'jname', 'name': [ord(c) for c in name]})
            iso2.close()
        iso.close()


def post(ctx, c, rep):
    rp = histcheck.replay_obj(c)
    for e in rep.errs:
        code = e.split(':')[0]
        if histcheck.owns(code, histcheck.JOLIET_CODES) or (':J' in e or 'joliet' in e) and histcheck.owns(code, histcheck.ECMA_CODES):
            ctx.violation('C09.joliet/%s' % code, 'independent Joliet reader: %s' % e[:200], rp)


def run(ctx):
    run_fn(ctx)
    for lvl, n in ((3, 90), (1, 30), (2, 30)):
        c01.run(ctx, focus='C09', post=post, n_quick=n, n_thorough=n * 25, force={'joliet': lvl})
    c01.run(ctx, focus='C09', post=post, n_quick=50, n_thorough=1200, force={'joliet': 3}, reopen_every=5)


def replay(ctx, obj):
    r = obj.get('replay', obj)
    if r.get('kind') in ('utf16', 'jname'):
        run_fn(ctx)
        return [v['signature'] for v in ctx.violations]
    return c01.replay(ctx, obj, focus='C09', post=post)
