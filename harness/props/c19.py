"""
C19 — recorded timestamps denote the instant they were made from.  Theorems: Props/C19.lean.

S-tz: for sampled (instant, TZ): the process time zone is switched with TZ + time.tzset(); Python's own
`time.gmtime(t)` / `time.localtime(t)` are compared with the model's `civil t` / `civil (t + off)` (the environment
assumption of the theorems is *checked*, not assumed), then `utils.gmtoffset_from_tm`, `DirectoryRecordDate`,
`VolumeDescriptorDate`, `UDFTimestamp` and `RRTFRecord` `new(t).record()` bytes are compared with the model.
Oracle on the implementation alone: the recorded local fields + recorded offset decode (calendar.timegm) to `t`;
parse(record) then record() is the identity.
"""
import calendar
import os
import struct
import time

from harness import core

LEAN_MODULES = ['Pycdlib.Props.C19']
THEOREMS = ['Pycdlib.gmtoffset_exact', 'Pycdlib.civil_instant', 'Pycdlib.dr_date_denotes', 'Pycdlib.vd_date_denotes',
            'Pycdlib.udf_date_denotes', 'Pycdlib.tf_denotes', 'Pycdlib.dr_date_parse_record',
            'Pycdlib.civil_days', 'Pycdlib.yearDoy_step', 'Pycdlib.month_round']
PARTIAL = {}
TRUSTED = ['time.gmtime/time.localtime as the 4-year-cycle calendar `civil` (valid 1901-03-01..2100-02-28; compared with '
           'the C library on every sampled instant and zone)',
           'struct.pack of unsigned/signed bytes (Model/Bytes u8, s8)']
ASSUMPTIONS = ['zone offsets that are multiples of 15 minutes (others are counted and excluded, as the property says)']
RULE = ('instants: every UTC-offset transition of each zone 1970-2099 (found by scanning) +-1 s and +-1 h, year ends, '
        'leap days, random; zones: tzdata names and POSIX TZ strings covering -12h..+14h, :30 and :45 offsets; distinct = '
        'distinct (t, offset); non-trivial = offset != 0 or a day/year boundary lies between local and UTC date')
LEVEL_TEXT = ('Lean 4 theorems for every instant in 1970..2099 and every offset that is a multiple of 15 min with |off| < 24 h: '
              'gmtoffset_from_tm is exact, and the 7-byte, 17-byte, UDF and TF encodings decode to the original instant. '
              'The calendar/environment assumption and the byte layouts are tied to the code by differential execution under '
              'real TZ switches.')
LEVEL_NOTE = ('Trusted: Lean kernel; libc time zone behaviour enters only through (t, off) pairs that the harness verifies '
              'against the model calendar; floats: instants are integral seconds (time.time() fractions are truncated by localtime).')
TECHNIQUE = 'Lean 4 proof (calendar arithmetic by omega + kernel decide over 366 days) + differential correspondence under TZ switches'

ZONES_QUICK = ['UTC', 'Asia/Kolkata', 'Asia/Kathmandu', 'America/St_Johns', 'Pacific/Kiritimati', 'Etc/GMT+12',
               'Australia/Lord_Howe', 'Pacific/Chatham', 'Europe/London', 'America/New_York', 'Australia/Adelaide',
               'Asia/Tehran', 'Pacific/Apia', 'IST-5:30', 'XXX12', 'YYY-14', 'NST3:30NDT,M3.2.0,M11.1.0',
               'CHAST-12:45CHADT,M9.5.0/2:45,M4.1.0/3:45']
ZONES_MORE = ['Europe/Berlin', 'Europe/Moscow', 'Asia/Tokyo', 'Asia/Shanghai', 'America/Los_Angeles', 'America/Sao_Paulo',
              'Africa/Cairo', 'Africa/Casablanca', 'Africa/Monrovia', 'Asia/Kabul', 'Asia/Yangon', 'Asia/Colombo',
              'Australia/Eucla', 'Australia/Sydney', 'Pacific/Marquesas', 'Pacific/Tongatapu', 'Pacific/Norfolk',
              'America/Caracas', 'America/Havana', 'America/Godthab', 'Antarctica/Troll', 'Europe/Dublin', 'Asia/Pyongyang',
              'Asia/Dhaka', 'America/Argentina/Buenos_Aires', 'Atlantic/Azores', 'Pacific/Honolulu', 'Asia/Jerusalem',
              'Asia/Gaza', 'Africa/Windhoek', 'America/Santiago', 'Pacific/Easter', 'Pacific/Fiji', 'Asia/Vladivostok']
END = 4102444800  # 2100-01-01


def set_tz(tz):
    os.environ['TZ'] = tz
    time.tzset()


def transitions(step):
    """Instants where the UTC offset changes, found by scanning and bisection."""
    out = []
    prev = time.localtime(0).tm_gmtoff
    t = step
    while t < END:
        cur = time.localtime(t).tm_gmtoff
        if cur != prev:
            lo, hi = t - step, t
            while hi - lo > 1:
                mid = (lo + hi) // 2
                if time.localtime(mid).tm_gmtoff == prev:
                    lo = mid
                else:
                    hi = mid
            out.append(hi)
            prev = cur
        t += step
    return out


def instants(ctx, tz):
    rng = ctx.rng
    ts = set()
    trs = transitions(86400 * (3 if ctx.quick else 1))
    if ctx.quick and len(trs) > 24:
        trs = trs[:8] + rng.sample(trs[8:], 16)
    for tr in trs:
        ts.update((tr - 3601, tr - 1, tr, tr + 1, tr + 3599))
    for y in (1970, 1971, 1972, 1999, 2000, 2001, 2024, 2037, 2038, 2039, 2096, 2099):
        jan1 = calendar.timegm((y, 1, 1, 0, 0, 0))
        for d in (-50400, -43200, -19800, -3600, -1, 0, 1, 3600, 20700, 45900, 50400):
            ts.add(jan1 + d)
        if y % 4 == 0:
            feb29 = calendar.timegm((y, 2, 29, 0, 0, 0))
            for d in (-45000, -1, 0, 1, 86399, 86400, 86400 + 45000):
                ts.add(feb29 + d)
    for _ in range(30 if ctx.quick else 400):
        ts.add(rng.randrange(0, END))
    # t = 0 is the documented 'date not specified' sentinel of VolumeDescriptorDate.new (dates.py:233)
    return sorted(t for t in ts if 0 < t < END)


def tm7(st):
    return '%d %d %d %d %d %d %d' % (st.tm_year, st.tm_mon, st.tm_mday, st.tm_hour, st.tm_min, st.tm_sec, st.tm_yday)


def decode_check(ctx, t, tz, dr, vd, udf, tf, flags):
    """The property on the implementation's bytes, decoded with calendar.timegm (independent of model and library)."""
    bad = []
    y, mo, d, h, mi, s, g = struct.unpack('=BBBBBBb', dr)
    if calendar.timegm((y + 1900, mo, d, h, mi, s)) - 900 * g != t:
        bad.append(('dr', dr.hex()))
    txt = vd[:14].decode()
    g, = struct.unpack('=b', vd[16:17])
    if calendar.timegm((int(txt[0:4]), int(txt[4:6]), int(txt[6:8]), int(txt[8:10]), int(txt[10:12]), int(txt[12:14]))) - 900 * g != t:
        bad.append(('vd', vd.hex()))
    tzlo, tt, yy, mo, d, h, mi, s = struct.unpack_from('<BBHBBBBB', udf, 0)
    raw = ((tt & 0xf) << 8) | tzlo
    if raw >= 2048:
        raw -= 4096
    if calendar.timegm((yy, mo, d, h, mi, s)) - 60 * raw != t or (tt >> 4) != 1:
        bad.append(('udf', udf.hex()))
    # TF stamps
    body = tf[5:]
    ln = 17 if flags & 0x80 else 7
    if tf[:2] != b'TF' or tf[2] != len(tf) or len(body) % ln != 0:
        bad.append(('tf-shape', tf.hex()))
    else:
        for i in range(0, len(body), ln):
            st = body[i:i + ln]
            if (st != vd) if ln == 17 else (st != dr):
                bad.append(('tf-stamp', tf.hex()))
                break
    for kind, hx in bad:
        ctx.violation('C19.denotes/%s' % kind, '%s timestamp for t=%d in TZ=%s decodes to another instant (%s)' % (kind, t, tz, hx),
                      {'kind': 'tz', 't': t, 'tz': tz, 'flags': flags})


def run_zone(ctx, tz, ts):
    from pycdlib import dates, utils, udf, rockridge
    set_tz(tz)
    reqs, impl, meta = [], [], []
    for t in ts:
        loc = time.localtime(t)
        gm = time.gmtime(t)
        off = loc.tm_gmtoff
        if off % 900 != 0 or not (0 <= t + off < END):
            ctx.dist['excluded:offset-not-multiple-of-15min-or-out-of-window'] += 1
            continue
        flags = ctx.rng.choice((0x0e, 0x01, 0x81, 0x8e, 0x7f, 0xff, 0x00, 0x80))
        # environment assumption
        reqs.append('civil %d' % t)
        impl.append(tm7(gm))
        meta.append(None)
        reqs.append('civil %d' % (t + off))
        impl.append(tm7(loc))
        meta.append(None)
        g = utils.gmtoffset_from_tm(t, loc)
        d1 = dates.DirectoryRecordDate()
        d1.new(t)
        d2 = dates.VolumeDescriptorDate()
        d2.new(t)
        d3 = udf.UDFTimestamp()
        d3.new(t)
        d4 = rockridge.RRTFRecord()
        d4.new(flags, t)
        dr, vd, ud, tf = d1.record(), d2.record(), d3.record(), d4.record()
        reqs.append('dates %d %d %d' % (t, off, flags))
        impl.append('%d %s %s %s %s' % (g, dr.hex(), vd.hex(), ud.hex(), tf.hex()))
        meta.append((t, off, flags))
        nontriv = off != 0 or time.gmtime(t)[:3] != loc[:3]
        ctx.count(key=(t, off), nontrivial=nontriv, kind='off=%+d' % (off // 900),
                  sample={'t': t, 'tz': tz, 'off': off, 'dr': dr.hex(), 'udf': ud.hex()} if nontriv and off % 3600 else None)
        decode_check(ctx, t, tz, dr, vd, ud, tf, flags)
        # parse -> record identity
        p1 = dates.DirectoryRecordDate()
        p1.parse(dr)
        p2 = dates.VolumeDescriptorDate()
        p2.parse(vd)
        p3 = udf.UDFTimestamp()
        p3.parse(ud)
        p4 = rockridge.RRTFRecord()
        p4.parse(tf)
        for nm, a, b in (('dr', p1.record(), dr), ('vd', p2.record(), vd), ('udf', p3.record(), ud), ('tf', p4.record(), tf)):
            if a != b:
                ctx.violation('C19.parse-record/%s' % nm, 'parse then record of the %s timestamp for t=%d TZ=%s is not the identity' % (nm, t, tz),
                              {'kind': 'tz', 't': t, 'tz': tz, 'flags': flags})
    model = ctx.driver.ask(reqs)
    for rq, a, b, m in zip(reqs, impl, model, meta):
        if a != b:
            if m is None:
                ctx.disagree('S-tz/env', 'calendar assumption: %s python=%s model=%s (TZ=%s)' % (rq, a, b, tz), {'kind': 'env', 'request': rq, 'tz': tz})
            else:
                ctx.disagree('S-tz', '%s TZ=%s: impl=%s model=%s' % (rq, tz, a, b), {'kind': 'tz', 't': m[0], 'tz': tz, 'flags': m[2]})
    ctx.traces_validated += len(reqs)


def random_parse_record(ctx):
    """parse/record identity of the 7-byte class on arbitrary bytes (theorem dr_date_parse_record)."""
    from pycdlib import dates
    for _ in range(300):
        b = bytes(ctx.rng.randrange(256) for _ in range(7))
        d = dates.DirectoryRecordDate()
        d.parse(b)
        ctx.count(key=b, nontrivial=True, kind='dr-parse-record')
        if d.record() != b:
            ctx.violation('C19.parse-record/dr', 'DirectoryRecordDate parse/record not identity on %s' % b.hex(), {'kind': 'drbytes', 'hex': b.hex()})


def wellformed_parse_record(ctx):
    """parse/record identity of the 17-byte class and of the UDF timestamp on EVERY well-formed value of each field (not only
    the values the library itself writes: hundredths 00, its own time zone), and on the unspecified date"""
    import struct
    from pycdlib import dates, udf
    rng = ctx.rng
    cases = [b'0' * 16 + b'\x00']
    for _ in range(400):
        hund = rng.choice([0, 1, 7, 9, 10, 50, 90, 99, rng.randrange(100)])
        s = '%04d%02d%02d%02d%02d%02d%02d' % (rng.choice([1, 999, 1000, 1970, 2024, 2099, 9999, rng.randint(1, 9999)]), rng.randint(1, 12),
                                          rng.randint(1, 28), rng.randint(0, 23), rng.randint(0, 59), rng.randint(0, 59), hund)
        cases.append(s.encode() + struct.pack('=b', rng.choice([-48, -1, 0, 1, 22, 52, rng.randint(-48, 52)])))
    for b in cases:
        d = dates.VolumeDescriptorDate()
        d.parse(b)
        ctx.count(key=b, nontrivial=True, kind='vd-parse-record')
        if d.record() != b:
            ctx.violation('C19.parse-record/vd', 'VolumeDescriptorDate parse/record not identity: %r -> %r' % (b, d.record()), {'kind': 'vdbytes', 'hex': b.hex()})
    for _ in range(300):
        tz = rng.choice([0, 22, -22, 1 << 11 | 0, rng.randint(-1440, 1440)]) & 0xfff
        b = struct.pack('<HhBBBBBBBB', (1 << 12) | tz, rng.randint(1, 9999), rng.randint(1, 12), rng.randint(1, 28), rng.randint(0, 23),
                        rng.randint(0, 59), rng.randint(0, 59), rng.randint(0, 99), rng.randint(0, 99), rng.randint(0, 99))
        u = udf.UDFTimestamp()
        try:
            u.parse(b)
        except Exception:
            continue
        ctx.count(key=b, nontrivial=True, kind='udf-parse-record')
        if u.record() != b:
            ctx.violation('C19.parse-record/udf', 'UDFTimestamp parse/record not identity: %s -> %s' % (b.hex(), u.record().hex()), {'kind': 'udfbytes', 'hex': b.hex()})


def run(ctx):
    old = os.environ.get('TZ')
    try:
        zones = ZONES_QUICK + ([] if ctx.quick else ZONES_MORE)
        for tz in zones:
            if '/' in tz and not os.path.exists('/usr/share/zoneinfo/' + tz):
                ctx.notes.append('zone %s not in tzdata, skipped' % tz)
                continue
            set_tz(tz)
            run_zone(ctx, tz, instants(ctx, tz))
        random_parse_record(ctx)
        wellformed_parse_record(ctx)
    finally:
        if old is None:
            os.environ.pop('TZ', None)
        else:
            os.environ['TZ'] = old
        time.tzset()


def replay(ctx, obj):
    r = obj.get('replay', obj)
    old = os.environ.get('TZ')
    try:
        if r.get('kind') == 'tz':
            run_zone(ctx, r['tz'], [r['t']])
        if r.get('kind') in ('vdbytes', 'udfbytes'):
            wellformed_parse_record(ctx)
    finally:
        if old is None:
            os.environ.pop('TZ', None)
        else:
            os.environ['TZ'] = old
        time.tzset()
    for v in ctx.violations:
        core.log('violation:', v['signature'], v['summary'])
    for d in ctx.disagreements:
        core.log('disagreement:', d['summary'])
    return [v['signature'] for v in ctx.violations] + ['disagreement' for _ in ctx.disagreements]
