"""
C15 — hostile or damaged images: open terminates promptly with a documented error.
Theorems: Props/C15.lean — the directory walk with a visited set (`Walk.walk`) is total, visits every extent at most once
and does work bounded by the number of sectors, for ANY child relation (cycles, self-loops, shared extents included).

S-open: seed images from the common generator (all configurations, El Torito, isohybrid) are mutated —
  * truncation at every sector boundary near structures, at structure boundaries the independent reader located, and at
    random byte offsets;
  * corruption of every field the parser follows, located through the independent reader's allocation list: volume
    descriptor sizes/locations, root record, directory record length/extent/data-length/flags/name-length bytes, path
    table entries, SUSP entry lengths and CE pointers, El Torito catalog, UDF tags, ICB/extent lengths and locations,
    with values {0, 1, 0xFF.., own extent, parent extent (cycle), beyond the image};
  * splices of sectors between positions —
and opened in worker processes under an alarm.  Allowed outcomes: success, PyCdlibInvalidISO, PyCdlibInvalidInput,
PyCdlibInternalError.  Anything else (other exception type, no termination within 5 s + 2 us/byte, RSS growth beyond
64 MiB + 40 x input) is a violation whose signature is (exception type, pycdlib function of the raise site).
"""
import io
import multiprocessing
import os
import random
import resource
import shutil
import signal
import struct
import tempfile
import time
import traceback

from harness import core, gen, histcheck, isoapi

LEAN_MODULES = ['Pycdlib.Props.C15', 'Pycdlib.Props.C15Ranges']
THEOREMS = ['Pycdlib.Walk.walk_nodup', 'Pycdlib.Walk.walk_bounded', 'Pycdlib.Walk.walk_terminates', 'Pycdlib.Walk.walk_fuel_irrelevant',
            'Pycdlib.Walk.cycle_example', 'Pycdlib.Walk.nodup_bounded_length',
            'Pycdlib.Ranges.claim_sorted', 'Pycdlib.Ranges.claim_refuses_overlap', 'Pycdlib.Ranges.total_le',
            'Pycdlib.Ranges.walk_reads_each_sector_once']
PARTIAL = {
    'open_documented_partial': 'termination and the work bound are proved for the directory-walk skeleton (the only unbounded loop '
    'driven by attacker-controlled pointers); that every slice/unpack/lookup inside the ~9 kLoC of parse methods raises only '
    'documented errors is decided by the mutation oracle (S-open), not proved. Memory and wall-clock are measured, not proved.',
}
TRUSTED = ['the mutation generator reaches the fields the parser follows (per-structure counts in the evidence)']
ASSUMPTIONS = ['CPU-bound Python loops are interruptible by SIGPROF / SIGALRM']
RULE = ('mutants = truncations + field corruptions + splices of seed images; distinct = (seed image hash, mutation); non-trivial = the '
        'mutant is not byte-identical to its seed and the parser reaches the mutated bytes or rejects the image')
LEVEL_TEXT = ('Lean 4 theorem: a breadth-first directory walk that skips already-visited extents terminates, visits each extent at most '
              'once and at most one per sector, for any (cyclic) child relation — the shape the repaired _walk_directories / '
              '_walk_udf_directories have; the sector ranges the ISO9660 walk accepts stay sorted and disjoint, so the directory sectors it reads '
              'add up to at most the size of the image for ANY sequence of directory records (walk_reads_each_sector_once), tied on random layouts. Exception classes, time and memory on damaged images are decided by mutation of seed images.')
LEVEL_NOTE = 'Trusted: Lean kernel; mutation generator; alarm-based timing.'
TECHNIQUE = 'Lean 4 termination/bound proof for the walk skeleton + structure-aware mutation oracle in worker processes'

DOCUMENTED = ('ok', 'invalidISO', 'invalidInput', 'internalError')


class _Timeout(Exception):
    pass


def _alarm(signum, frame):
    raise _Timeout()


def open_one(data, limit):
    """open the byte string; returns (outcome, detail)"""
    import pycdlib
    # the limit is CPU time of this worker (an endless loop burns CPU), so that a loaded machine cannot fake a hang;
    # a generous wall-clock alarm backs it up
    signal.signal(signal.SIGPROF, _alarm)
    signal.signal(signal.SIGALRM, _alarm)
    signal.setitimer(signal.ITIMER_PROF, limit)
    signal.setitimer(signal.ITIMER_REAL, 30 * limit)
    rss0 = resource.getrusage(resource.RUSAGE_SELF).ru_maxrss
    iso = pycdlib.PyCdlib()
    try:
        try:
            iso.open_fp(io.BytesIO(data))
            out = ('ok', '')
        finally:
            signal.setitimer(signal.ITIMER_PROF, 0)
            signal.setitimer(signal.ITIMER_REAL, 0)
    except _Timeout:
        out = ('timeout', 'no result within %.1f s of CPU time' % limit)
    except Exception as e:  # noqa
        cls = isoapi.exc_class(e)
        if cls in DOCUMENTED:
            out = (cls, '')
        else:
            tb = traceback.extract_tb(e.__traceback__)
            site = next((f for f in reversed(tb) if '/pycdlib/' in f.filename), tb[-1])
            out = (cls, '%s:%s' % (os.path.basename(site.filename), site.name))
    try:
        iso.close()
    except Exception:
        pass
    rss1 = resource.getrusage(resource.RUSAGE_SELF).ru_maxrss
    grow = (rss1 - rss0) * 1024
    if grow > 64 * 2 ** 20 + 40 * len(data):
        out = ('memory', 'RSS grew by %d MiB on %d bytes of input' % (grow >> 20, len(data)))
    return out


def worker(args):
    path, muts = args
    seed = open(path, 'rb').read()
    res = []
    for m in muts:
        data = apply_mut(seed, m)
        limit = 5.0 + 2e-6 * len(data)
        res.append((m, open_one(data, limit)))
    return res


def apply_mut(seed, m):
    kind = m[0]
    if kind == 'trunc':
        return seed[:m[1]]
    if kind == 'set':
        _, off, val = m
        b = bytearray(seed)
        b[off:off + len(val)] = val
        return bytes(b[:len(seed)])
    if kind == 'splice':
        _, src, dst, n = m
        b = bytearray(seed)
        b[dst:dst + n] = seed[src:src + n]
        return bytes(b[:len(seed)])
    if kind == 'zero':
        _, off, n = m
        b = bytearray(seed)
        b[off:off + n] = bytes(n)
        return bytes(b[:len(seed)])
    return seed


def both32(n):
    n &= 0xffffffff
    return struct.pack('<L', n) + struct.pack('>L', n)


def crc16(data):
    crc = 0
    for b in data:
        crc ^= b << 8
        for _ in range(8):
            crc = ((crc << 1) ^ 0x1021) & 0xffff if crc & 0x8000 else (crc << 1) & 0xffff
    return crc


def udf_repoint(seed, rep):
    """('set', offset, bytes) mutations: every directory File Identifier of the image pointed at every directory File Entry"""
    out = []
    part_start = None
    for sec in range(32, min(len(seed) // 2048, 600)):
        if struct.unpack_from('<H', seed, sec * 2048)[0] == 5 and struct.unpack_from('<L', seed, sec * 2048 + 12)[0] == sec:
            part_start = struct.unpack_from('<L', seed, sec * 2048 + 188)[0]
            break
    if part_start is None:
        return out
    fes = sorted({first - part_start for label, first, cnt in rep.allocs if label.startswith('udf:fe:')})
    dir_fes = [l for l in fes if 0 <= (part_start + l) * 2048 + 12 < len(seed) and seed[(part_start + l) * 2048 + 27] == 4][:12]
    for label, first, cnt in rep.allocs:
        if not label.startswith('udf:fid:'):
            continue
        base, end = first * 2048, min(len(seed), (first + cnt) * 2048)
        off = base
        guard = 0
        while off + 38 <= end and guard < 400:
            guard += 1
            if struct.unpack_from('<H', seed, off)[0] != 257:
                break
            l_fi, l_iu = seed[off + 19], struct.unpack_from('<H', seed, off + 36)[0]
            ln = (38 + l_iu + l_fi + 3) // 4 * 4
            chars = seed[off + 18]
            if chars & 0x02 and off + ln <= end:
                for target in dir_fes:
                    fid = bytearray(seed[off:off + ln])
                    if struct.unpack_from('<L', fid, 24)[0] == target:
                        continue
                    struct.pack_into('<L', fid, 24, target)
                    crc_len = struct.unpack_from('<H', fid, 10)[0]
                    struct.pack_into('<H', fid, 8, crc16(bytes(fid[16:16 + crc_len])))
                    fid[4] = 0
                    fid[4] = sum(fid[:16]) & 0xff
                    out.append(('set', off, bytes(fid)))
            off += ln
    return out[:150]


def mutations(rng, seed, rep, budget):
    n = len(seed)
    nsec = n // 2048
    muts = []
    # truncations
    cuts = {0, 1, 2047, 2048, 16 * 2048, 16 * 2048 + 7, 17 * 2048, 18 * 2048, n - 1, n - 2048, n // 2}
    for label, first, cnt in rep.allocs:
        if label.startswith('cearea:'):
            cuts.update((first, first + cnt, first + 5))
        else:
            cuts.update((first * 2048, first * 2048 + 1, first * 2048 + 34, (first + cnt) * 2048 - 1, first * 2048 + 100))
    for e in rep.entries:
        if e.startswith('B:'):
            try:
                rba = int([x for x in e.split(':') if x.startswith('rba')][0][3:])
            except (IndexError, ValueError):
                continue
            cuts.update((rba * 2048, rba * 2048 + 64, rba * 2048 + 1000, rba * 2048 + 2047, rba * 2048 + 2048))
    for c in cuts:
        if 0 <= c < n:
            muts.append(('trunc', c))
    vals32 = [0, 1, 16, nsec - 1, nsec, nsec + 5, 0x7fffffff, 0xffffffff]
    # hybrid system area: MBR partition table, primary GPT header / entries, APM map, backup GPT header
    sysarea_from = len(muts)
    if seed[510:512] == b'\x55\xaa':
        big = [0, 1, 2, 128, 129, 65536, 20000000, 0x7fffffff, 0xffffffff]
        for off in (432, 440, 446, 454, 458, 462, 470, 474, 478, 494):
            for v in (0, 0xffffffff, rng.getrandbits(32)):
                muts.append(('set', off, struct.pack('<L', v)))
        for hdr in (512, n - 512):
            if seed[hdr:hdr + 8] == b'EFI PART':
                for off in (8, 12, 16, 80, 84, 88):
                    for v in big:
                        muts.append(('set', hdr + off, struct.pack('<L', v)))
                for off in (24, 32, 40, 48, 72):
                    for v in (0, 1, nsec * 4, 2 ** 40, 2 ** 64 - 1):
                        muts.append(('set', hdr + off, struct.pack('<Q', v)))
                muts.append(('set', hdr, b'EFI PARX'))
        for ent in range(1024, 1024 + 4 * 128, 128):
            for off in (0, 32, 40):
                muts.append(('set', ent + off, bytes(rng.randrange(256) for _ in range(8))))
        for blk in range(2048, 8192, 2048):
            if seed[blk:blk + 2] == b'PM':
                for off in (4, 8, 12, 80, 84):
                    for v in (0, 0xffffffff):
                        muts.append(('set', blk + off, struct.pack('>L', v)))
                muts.append(('set', blk, b'XX'))
    dirs = [(label, first, cnt) for label, first, cnt in rep.allocs if label.startswith('dir:')]
    dir_extents = [f for _, f, _ in dirs]
    # volume descriptors
    for label, first, cnt in rep.allocs:
        if label.startswith('vd') and ('type1' in label or 'type2' in label):
            base = first * 2048
            for off, w in ((80, 8), (132, 8), (128, 4), (120, 4), (124, 4)):
                for v in (0, 1, nsec + 100, 0xffffffff, 4096, 10 ** 6):
                    val = both32(v) if w == 8 else (struct.pack('<H', v & 0xffff) + struct.pack('>H', v & 0xffff))
                    muts.append(('set', base + off, val))
            for off in (140, 144):
                for v in vals32:
                    muts.append(('set', base + off, struct.pack('<L', v)))
            for off in (148, 152):
                for v in vals32:
                    muts.append(('set', base + off, struct.pack('>L', v)))
            for v in vals32 + dir_extents[:2]:
                muts.append(('set', base + 156 + 2, both32(v)))          # root extent
                muts.append(('set', base + 156 + 10, both32(v * 2048 if v < 10 ** 6 else v)))   # root data length
            for v in (0, 1, 33, 35, 255):
                muts.append(('set', base + 156, bytes([v])))
            muts.append(('set', base + 1, b'XX001'))
            muts.append(('set', base, bytes([rng.choice([3, 4, 254])])))
            muts.append(('set', base + 813, b'garbage-date-1234\x00'[:17]))
            muts.append(('set', base + 881, bytes([rng.randrange(256)])))
        if label.startswith('vd') and 'type255' in label:
            muts.append(('set', first * 2048, b'\x01'))
            muts.append(('zero', first * 2048, 2048))
        if label.startswith('vd') and 'type0' in label:
            for v in vals32:
                muts.append(('set', first * 2048 + 71, struct.pack('<L', v)))
            muts.append(('set', first * 2048 + 7, b'EL TORITO SPECIFICATIOX'))
    # directory records: walk each directory sector
    for label, first, cnt in dirs:
        base = first * 2048
        pos = 0
        k = 0
        while pos < cnt * 2048 and k < 40:
            ln = seed[base + pos] if base + pos < n else 0
            if ln == 0:
                pos = (pos // 2048 + 1) * 2048
                continue
            p = base + pos
            for v in (0, 1, 33, 34, ln - 1, ln + 1, 255):
                muts.append(('set', p, bytes([v & 0xff])))
            for v in vals32 + [first] + dir_extents[:3]:
                muts.append(('set', p + 2, both32(v)))                  # extent: own / ancestor / other directory => cycles
            for v in (0, 1, 2048, 4096, nsec * 2048 + 2048, 0xfffff800, 0xffffffff):
                muts.append(('set', p + 10, both32(v)))                 # data length
            for v in (0, 2, 0x80, 0x82, 0xff):
                muts.append(('set', p + 25, bytes([v])))                # flags: file <-> directory, multi-extent
            for v in (0, 1, ln, 255):
                muts.append(('set', p + 32, bytes([v & 0xff])))         # len_fi
            lfi = seed[p + 32] if p + 32 < n else 0
            su = p + 33 + lfi + (1 if lfi % 2 == 0 else 0)
            if su + 4 <= p + ln:                                          # system use: SUSP entry header / XA
                for v in (0, 1, 3, 4, 200, 255):
                    muts.append(('set', su + 2, bytes([v])))
                muts.append(('set', su, b'ZZ'))
                muts.append(('set', su + 3, bytes([2])))
                # walk entries for CE / NM / SL / PX
                q = su
                j = 0
                while q + 4 <= p + ln and j < 12:
                    sig = seed[q:q + 2]
                    el = seed[q + 2]
                    if el < 4:
                        break
                    if sig == b'CE':
                        for v in vals32:
                            muts.append(('set', q + 4, both32(v)))
                            muts.append(('set', q + 12, both32(v)))
                            muts.append(('set', q + 20, both32(v)))
                    if sig in (b'NM', b'SL', b'PX', b'TF', b'ER', b'SP', b'RR', b'CL', b'PL', b'RE'):
                        for v in (0, 3, 4, 5, el + 1, 255):
                            muts.append(('set', q + 2, bytes([v & 0xff])))
                        muts.append(('set', q + 4, bytes([0xff])))
                    if sig in (b'CL', b'PL'):
                        for v in vals32 + [first]:
                            muts.append(('set', q + 4, both32(v)))
                    q += el
                    j += 1
            pos += ln
            k += 1
    # path tables
    for label, first, cnt in rep.allocs:
        if label.startswith('pt:'):
            base = first * 2048
            for off in (0, 8, 10, 20):
                for v in (0, 1, 200, 255):
                    muts.append(('set', base + off, bytes([v])))
            for v in vals32:
                muts.append(('set', base + 2, struct.pack('<L' if label.endswith('le') else '>L', v)))
            muts.append(('zero', base, 2048))
        if label.startswith('cearea:'):
            for off in (0, 2, 5):
                for v in (0, 1, 4, 255):
                    muts.append(('set', first + off + (2 if off == 0 else 0), bytes([v])))
            muts.append(('zero', first, min(cnt, 64)))
        if label == 'bootcat':
            base = first * 2048
            for off in (0, 1, 28, 30, 31, 32, 33, 38, 40, 64, 65, 66, 96):
                for v in (0, 1, 0x44, 0x88, 0x90, 0x91, 0xff):
                    muts.append(('set', base + off, bytes([v])))
            for v in vals32:
                muts.append(('set', base + 40, struct.pack('<L', v)))
        if label.startswith('udf:') or label.startswith('vrs'):
            base = first * 2048
            for off in (0, 1, 2, 4, 8, 10, 12, 16, 20, 24, 27, 34, 56, 64, 168, 172, 176, 180, 188, 192, 212, 248, 252, 400, 404, 432, 436):
                for v in (0, 1, 0xff):
                    muts.append(('set', base + off, bytes([v])))
            for off in (12, 16, 20, 24, 28, 56, 168, 172, 176, 180, 188, 192, 252, 404, 432, 436):
                for v in vals32:
                    muts.append(('set', base + off, struct.pack('<L', v)))
            muts.append(('zero', base, 2048))
    # UDF File Identifiers re-pointed at other directories' File Entries, with tag CRC and checksum made valid again:
    # cycles and shared sub-trees that a reader only sees if it follows the pointers
    muts += udf_repoint(seed, rep)
    # system area / hybrid
    for off in (0, 32, 432, 446, 450, 454, 458, 462, 470, 478, 510, 512, 520, 528, 536, 584, 592, 596, 600):
        for v in (b'\x00' * 4, b'\xff' * 4, b'\x01\x00\x00\x00'):
            muts.append(('set', off, v))
    # splices and random noise
    for _ in range(40):
        a, b = rng.randrange(nsec), rng.randrange(nsec)
        muts.append(('splice', a * 2048, b * 2048, 2048))
    for _ in range(60):
        off = rng.randrange(16 * 2048, n)
        muts.append(('set', off, bytes(rng.randrange(256) for _ in range(rng.choice([1, 2, 4, 8])))))
    # the hybrid system-area mutations are few and each field matters: they are always kept; the rest is sampled
    sysarea = [m for m in muts if m[0] == 'trunc' or (m[0] == 'set' and m[1] < 16 * 2048) or (m[0] == 'set' and m[1] >= n - 512) or (m[0] == 'set' and len(m[2]) >= 38)]
    rest = [m for m in muts if m not in set(sysarea)]
    rng.shuffle(rest)
    return sysarea[:budget // 2] + rest[:max(0, budget - len(sysarea[:budget // 2]))]


def seed_images(ctx, tmpdir, count):
    out = []
    rng = ctx.rng
    forced = [{'rr': '1.09'}, {'udf': None}, {'udf': '2.60'}, {'joliet': 3, 'udf': None}, {'rr': '1.12', 'joliet': 3, 'udf': '2.60', 'xa': True}, {'ilevel': 4, 'udf': None}]
    for i in range(count):
        cfg = gen.sample_cfg(rng, forced[i % len(forced)])
        c = histcheck.build_case(ctx, rng, cfg, rng.choice([6, 12, 20]), tmpdir)
        if c.path is None:
            continue
        # half of the seeds get El Torito (+ isohybrid); the boot edits are ordinary ops, so a finding replays from cfg + ops
        if i % 2 == 1 and not cfg.get('udf'):
            b = isoapi.isolinux_boot(2048)
            boot = {'op': 'addfp', 'cid': 990, 'n': len(b), 'hex': b.hex(), 'iso': '/ISOLINUX.;1'}
            if cfg.get('rr'):
                boot['rr'] = 'isolinux'
            if cfg.get('joliet'):
                boot['joliet'] = '/isolinux'
            extra = [boot, {'op': 'eltorito', 'boot': '/ISOLINUX.;1', 'kw': {'boot_load_size': 4, 'boot_info_table': i % 8 == 3}}]
            if i % 8 == 3:
                # a boot image with a boot info table that has lost its names: known to the parser through the catalog only
                extra.append({'op': 'rmlink', 'ns': 'i', 'path': '/ISOLINUX.;1'})
                if cfg.get('joliet'):
                    extra.append({'op': 'rmlink', 'ns': 'j', 'path': '/isolinux'})
            if i % 4 == 1:
                extra.append({'op': 'isohybrid', 'kw': {'efi': True, 'mac': i % 8 == 5} if i % 8 in (1, 5) else {}})
                if i % 8 in (1, 5):
                    extra.insert(2, {'op': 'eltorito', 'boot': '/ISOLINUX.;1', 'kw': {'efi': True, 'boot_load_size': 4}})
                    if i % 8 == 5:
                        extra.insert(3, {'op': 'eltorito', 'boot': '/ISOLINUX.;1', 'kw': {'efi': True, 'boot_load_size': 4}})
            try:
                with isoapi.frozen_time():
                    for op in extra:
                        res = c.session.apply(op)
                        if res != 'ok':
                            ctx.notes.append('seed boot setup: %s -> %s' % (op['op'], res))
                            break
                        c.session.record(op, res)
                    c.ops = c.session.ops
                    c.path = c.path + '.boot.iso'
                    c.iso.write(c.path)
            except Exception as e:  # noqa
                import traceback
                ctx.notes.append('seed boot setup failed: %r %s' % (e, traceback.format_exc()[-300:]))
        rep = isoapi.read_image(ctx, c.path)
        out.append((c, rep))
    return out


# ---------------------------------------------------------------- crafted images (no single-field mutation builds these)

def _b32(v):
    return struct.pack('<L', v) + struct.pack('>L', v)


def _dir_entries(img, extent, length):
    base, off = extent * 2048, 0
    while off < length:
        n = img[base + off]
        if n == 0:
            off = (off // 2048 + 1) * 2048
            continue
        pos = base + off
        yield pos, bytes(img[pos + 33: pos + 33 + img[pos + 32]]), struct.unpack_from('<L', img, pos + 2)[0], struct.unpack_from('<L', img, pos + 10)[0]
        off += n


def craft_diamonds(depth):
    """a chain of `depth` directories; every level has two records, D and E, and E is re-pointed at D's extent: no cycle,
    about 2 KiB per level, but 2^depth paths — a walk must notice that an extent is reached twice"""
    import pycdlib
    iso = pycdlib.PyCdlib()
    iso.new(interchange_level=4)
    path = ''
    for _ in range(depth):
        iso.add_directory(path + '/D')
        iso.add_directory(path + '/E')
        path += '/D'
    out = io.BytesIO()
    iso.write_fp(out)
    iso.close()
    img = bytearray(out.getvalue())
    ext = struct.unpack_from('<L', img, 16 * 2048 + 156 + 2)[0]
    ln = struct.unpack_from('<L', img, 16 * 2048 + 156 + 10)[0]
    for _ in range(depth):
        ents = {name: (pos, e, l) for pos, name, e, l in _dir_entries(img, ext, ln)}
        if b'D' not in ents or b'E' not in ents:
            break
        _, de, dl = ents[b'D']
        pos = ents[b'E'][0]
        img[pos + 2: pos + 10] = _b32(de)
        img[pos + 10: pos + 18] = _b32(dl)
        ext, ln = de, dl
    return bytes(img)


def craft_dirs(k, subs, root_blocks=None):
    """a hand-made ISO9660 image: a run of k blocks of empty-file records after the path tables; the root directory starts
    the run (its first blocks hold the records of the sub-directories), and every sub-directory record (i, l) points at
    block i of the run with a length of l blocks.  Returns (image, first sector of the run, blocks of the root)."""
    import pycdlib

    def drec(name, extent, length, flags):
        n = len(name)
        ln = 33 + n + (1 - n % 2)
        r = struct.pack('<BB', ln, 0) + _b32(extent) + _b32(length) + bytes(7) + bytes([flags, 0, 0]) + struct.pack('<H', 1) + struct.pack('>H', 1) + bytes([n]) + name
        return r.ljust(ln, b'\x00')

    def blocks(recs):
        out, cur = b'', b''
        for r in recs:
            if len(cur) + len(r) > 2048:
                out += cur.ljust(2048, b'\x00')
                cur = b''
            cur += r
        return out + cur.ljust(2048, b'\x00')
    iso = pycdlib.PyCdlib()
    iso.new(interchange_level=3)
    o = io.BytesIO()
    iso.write_fp(o)
    iso.close()
    base = bytearray(o.getvalue()[:18 * 2048])
    fileblocks = [blocks([drec(b'F%07d' % (b * 100 + j), 0, 0, 0) for j in range(48)]) for b in range(k)]
    names = [b'D%04d' % n for n in range(len(subs))]
    h = len(blocks([drec(b'\x00', 0, 0, 2), drec(b'\x01', 0, 0, 2)] + [drec(nm, 0, 0, 2) for nm in names])) // 2048
    rb = k if root_blocks is None else max(h, root_blocks)
    ptsize = 10 + 14 * len(subs)
    ptb = (ptsize + 2047) // 2048
    le_loc, be_loc = 18, 18 + ptb
    root = be_loc + ptb
    hdr = [drec(b'\x00', root, rb * 2048, 2), drec(b'\x01', root, rb * 2048, 2)] + [drec(nm, root + i, l * 2048, 2) for nm, (i, l) in zip(names, subs)]
    rootdata = blocks(hdr).ljust(h * 2048, b'\x00') + b''.join(fileblocks[h:])
    le = struct.pack('<BBLH', 1, 0, root, 1) + b'\x00\x00'
    be = struct.pack('>BBLH', 1, 0, root, 1) + b'\x00\x00'
    for nm, (i, l) in zip(names, subs):
        le += struct.pack('<BBLH', 5, 0, root + i, 1) + nm + b'\x00'
        be += struct.pack('>BBLH', 5, 0, root + i, 1) + nm + b'\x00'
    pvd = 16 * 2048
    base[pvd + 80: pvd + 88] = _b32(root + k)
    base[pvd + 132: pvd + 140] = _b32(ptsize)
    base[pvd + 140: pvd + 148] = struct.pack('<L', le_loc) + bytes(4)
    base[pvd + 148: pvd + 156] = struct.pack('>L', be_loc) + bytes(4)
    base[pvd + 156 + 2: pvd + 156 + 10] = _b32(root)
    base[pvd + 156 + 10: pvd + 156 + 18] = _b32(rb * 2048)
    return bytes(base) + le.ljust(ptb * 2048, b'\x00') + be.ljust(ptb * 2048, b'\x00') + rootdata, root, max(h, rb if root_blocks is not None else k), h


def craft_overlap(k):
    """one run of k blocks full of empty-file records is the root directory; its sub-directory records point INTO the run
    (block i, k-i blocks): no extent is shared and there is no cycle, but every sub-directory re-reads the tail of the
    run — quadratic work and memory in the image size unless overlapping directories are refused"""
    h = 1
    while True:
        img, _root, _rb, hh = craft_dirs(k, [(i, k - i) for i in range(h, k)])
        if hh <= h:
            return img
        h = hh


def ranges_tie(ctx):
    """random sub-directory ranges behind a short root directory: the walk must accept the image exactly when the Lean model
    of the claimed ranges (Model/Ranges.claimAll, theorems in Props/C15Ranges) accepts the same sequence"""
    import pycdlib
    rng = ctx.rng
    reqs, impl = [], []
    for _ in range(40 if ctx.quick else 600):
        k = rng.randint(6, 24)
        n = rng.randint(1, 6)
        # the root needs one block for at most 48 records
        subs = []
        for _ in range(n):
            i = rng.randint(1, k - 1)
            subs.append((i, rng.randint(1, min(4, k - i))))
        img, root, rb, h = craft_dirs(k, subs, root_blocks=1)
        iso = pycdlib.PyCdlib()
        try:
            iso.open_fp(io.BytesIO(img))
            res = 'ok'
        except Exception as e:  # noqa
            res = isoapi.exc_class(e)
        try:
            iso.close()
        except Exception:
            pass
        reqs.append('claims %s' % ','.join('%d:%d' % (s, n_) for s, n_ in [(root, rb)] + [(root + i, l) for i, l in subs]))
        impl.append(res)
    model = ctx.driver.ask(reqs)
    for rq, a, b in zip(reqs, impl, model):
        want = 'ok' if b.startswith('ranges') else 'invalidISO'
        ctx.count(key=('ranges', rq), nontrivial=True, kind='ranges:%s' % a)
        if a != want:
            ctx.disagree('S-open/ranges', '%s: library %s, model %s' % (rq, a, b), {'kind': 'ranges', 'request': rq})
    ctx.traces_validated += len(reqs)


def craft_gpt_sizes():
    """EFI hybrid whose backup GPT header claims 2^31 / 2^32 partition entries (and a distant own LBA): read through a
    real file this asks the file object for a negative seek / hundreds of GiB"""
    import pycdlib
    iso = pycdlib.PyCdlib()
    iso.new()
    b = isoapi.isolinux_boot(2048)
    iso.add_fp(io.BytesIO(b), len(b), '/ISOLINUX.;1')
    iso.add_fp(io.BytesIO(b'e' * 2048), 2048, '/EFI.;1')
    iso.add_eltorito('/ISOLINUX.;1', boot_load_size=4)
    iso.add_eltorito('/EFI.;1', efi=True)
    iso.add_isohybrid(efi=True)
    o = io.BytesIO()
    iso.write_fp(o)
    iso.close()
    img = o.getvalue()
    out = []
    hdr = len(img) - 512
    for cur, nparts in ((None, 0x7fffffff), (2 ** 32, 0xffffffff), (1, 0x00ffffff)):
        m = bytearray(img)
        if cur is not None:
            m[hdr + 24: hdr + 32] = struct.pack('<Q', cur)
        m[hdr + 80: hdr + 84] = struct.pack('<L', nparts)
        out.append(bytes(m))
    return out


def crafted_worker(args):
    name, data, via_file = args
    if not via_file:
        return name, open_one(data, 8.0)
    # the same bytes through a real file object (open(filename)): negative seeks and huge reads fail differently there
    import pycdlib
    fd, path = tempfile.mkstemp(prefix='verif-c15-crafted-', suffix='.iso')
    try:
        with os.fdopen(fd, 'wb') as f:
            f.write(data)
        signal.signal(signal.SIGPROF, _alarm)
        signal.setitimer(signal.ITIMER_PROF, 8.0)
        iso = pycdlib.PyCdlib()
        try:
            try:
                iso.open(path)
                out = ('ok', '')
            finally:
                signal.setitimer(signal.ITIMER_PROF, 0)
        except _Timeout:
            out = ('timeout', 'no result within 8 s of CPU time')
        except BaseException as e:  # noqa  (MemoryError included)
            cls = isoapi.exc_class(e)
            out = (cls, '') if cls in DOCUMENTED else (cls, 'open(filename)')
        try:
            iso.close()
        except Exception:
            pass
        return name, out
    finally:
        os.unlink(path)


def crafted(ctx):
    jobs = [('diamonds-%d' % d, craft_diamonds(d), False) for d in (12, 28)]
    jobs += [('overlap-%d' % k, craft_overlap(k), False) for k in ((60, 160) if ctx.quick else (60, 160, 400))]
    for i, img in enumerate(craft_gpt_sizes()):
        jobs.append(('gpt-sizes-%d' % i, img, False))
        jobs.append(('gpt-sizes-%d-file' % i, img, True))
    with multiprocessing.Pool(min(8, len(jobs)), maxtasksperchild=1) as pool:
        for name, (outcome, detail) in pool.imap_unordered(crafted_worker, jobs):
            ctx.count(key=('crafted', name), nontrivial=True, kind='crafted:%s:%s' % (name.split('-')[0], outcome))
            if outcome not in DOCUMENTED:
                ctx.violation('C15.crafted/%s/%s' % (name.split('-')[0], outcome), 'open of the crafted image %s -> %s %s' % (name, outcome, detail),
                              {'kind': 'crafted', 'name': name})


def run(ctx):
    crafted(ctx)
    ranges_tie(ctx)
    tmpdir = tempfile.mkdtemp(prefix='verif-c15-')
    try:
        nseeds = 6 if ctx.quick else 48
        per_seed = 2500 if ctx.quick else 8000
        seeds = seed_images(ctx, tmpdir, nseeds)
        jobs = []
        for c, rep in seeds:
            data = open(c.path, 'rb').read()
            muts = mutations(ctx.rng, data, rep, per_seed)
            chunk = max(1, len(muts) // 8)
            for i in range(0, len(muts), chunk):
                jobs.append((c.path, muts[i:i + chunk]))
        with multiprocessing.Pool(min(14, os.cpu_count() or 4), maxtasksperchild=4) as pool:
            for res in pool.imap_unordered(worker, jobs):
                for m, (outcome, detail) in res:
                    ctx.count(key=(m,), nontrivial=True, kind='%s:%s' % (m[0], outcome),
                              sample={'mutation': [str(x)[:40] for x in m], 'outcome': outcome} if outcome not in ('ok',) else None)
                    if outcome in DOCUMENTED:
                        continue
                    seedpath = [j[0] for j in jobs if m in j[1]][0]
                    keep = os.path.join(core.VERIF, 'findings', 'C15_seed_%s.iso' % abs(hash(seedpath)) if False else 'x')
                    ctx.violation('C15.%s/%s' % (outcome, detail.split(' ')[0] if outcome.startswith('py:') else outcome),
                                  'open of a mutated image (%s) -> %s %s' % (', '.join(str(x)[:24] for x in m), outcome, detail),
                                  {'kind': 'mutant', 'cfg': [c.cfg for c, _ in seeds if c.path == seedpath][0],
                                   'ops': [c.ops for c, _ in seeds if c.path == seedpath][0],
                                   'mutation': [x.hex() if isinstance(x, bytes) else x for x in m]})
        ctx.traces_validated += len(jobs)
        for c, _ in seeds:
            c.session.close()
    finally:
        shutil.rmtree(tmpdir, ignore_errors=True)


def replay(ctx, obj):
    r = obj.get('replay', obj)
    if r.get('kind') == 'crafted':
        crafted(ctx)
        for v in ctx.violations:
            core.log('violation:', v['signature'], v['summary'])
        return [v['signature'] for v in ctx.violations]
    tmpdir = tempfile.mkdtemp(prefix='verif-c15-')
    try:
        c = histcheck.build_case(ctx, random.Random(1), r['cfg'], 0, tmpdir, ops=r['ops'])
        data = open(c.path, 'rb').read()
        m = tuple(bytes.fromhex(x) if isinstance(x, str) and i > 0 and r['mutation'][0] == 'set' and i == 2 else x for i, x in enumerate(r['mutation']))
        out = open_one(apply_mut(data, m), 10.0)
        core.log('outcome:', out)
        c.session.close()
        return [] if out[0] in DOCUMENTED else ['C15.%s/%s' % (out[0], out[1].split(' ')[0] if out[0].startswith('py:') else out[0])]
    finally:
        shutil.rmtree(tmpdir, ignore_errors=True)
