"""
C13 — namespace rules.  Theorems: Props/C13.lean (`check_file_iff`, `check_dir_iff`,
`check_refusal_documented`, `isD1_matches_source`).

Streams
  S-fn    `_check_iso9660_filename/_directory`, `_interchange_level_from_*`, `_check_path_depth` on the real
          code vs the Lean model, exhaustively over all strings of length <= 3 (quick) / 4 (thorough) of a
          12-symbol alphabet, plus boundary lengths and random byte strings.  Because the model is *proved*
          equal to the declarative rule (`Legal*`), "implementation accepts, model refuses" is a property
          violation (an illegal identifier is accepted); it is confirmed through the public API
          (`add_fp` / `add_directory` + `write`) before being reported.
  S-api   edit histories that re-add names that exist / existed / exist in another namespace, names on the
          field-width boundaries, Joliet and UDF limits: every refusal must be PyCdlibInvalidInput at the time
          of the edit, the image must then master, and the identifiers read back must be pairwise distinct.
"""
import io
import itertools

from harness import core
from harness import isoapi
import os
import shutil
import tempfile

LEAN_MODULES = ['Pycdlib.Props.C13', 'Pycdlib.Props.C01Tree', 'Pycdlib.Props.C14', 'Pycdlib.Props.C10Names', 'Pycdlib.Props.C13Reloc']
THEOREMS = ['Pycdlib.check_file_iff', 'Pycdlib.check_dir_iff', 'Pycdlib.check_refusal_documented',
            'Pycdlib.isD1_matches_source', 'Pycdlib.splitLast_eq_some', 'Pycdlib.splitLast_eq_none',
            'Pycdlib.Spec.history_is_forest', 'Pycdlib.Atomic.run_preserves_wf',
            'Pycdlib.UdfNames.identOf_injective', 'Pycdlib.UdfNames.lookup_own_name',
            'Pycdlib.Reloc.relocName_fresh', 'Pycdlib.Reloc.relocMany_nodup']
PARTIAL = {
    'unique_idents / idents_legal over edit histories': 'stated on the edit-state model in Props/C04 (sortedness and '
    'distinctness of children) for the ISO9660/Joliet fragment; UDF and Rock Ridge names are covered by the S-api oracle only',
}
TRUSTED = ['bytes.split/join semantics as modelled by Names.splitLast (checked by S-fn)',
           'the S-api oracle reads identifiers back with the independent Lean reader (Model/Reader)']
ASSUMPTIONS = ['CPython bytes.isdigit/int semantics on ASCII digit strings']
RULE = ('S-fn: exhaustive strings over the alphabet ". ; _ + - space tab 0 1 9 A a" up to the tier length x 4 levels x '
        'file/dir, boundary lengths, random bytes; distinct = distinct (function, level, bytes); non-trivial = all '
        '(each is a separate decision of the acceptance predicate). S-api: distinct edit histories with >=1 accepted edit')

ALPHABET = [b'.', b';', b'_', b'+', b'-', b' ', b'\t', b'0', b'1', b'9', b'A', b'a']


def impl_class(fn, *args):
    from pycdlib import pycdlibexception as pe
    try:
        r = fn(*args)
        return 'ok' if r is None else str(r)
    except pe.PyCdlibInvalidInput:
        return 'invalidInput'
    except pe.PyCdlibInvalidISO:
        return 'invalidISO'
    except pe.PyCdlibInternalError:
        return 'internalError'
    except Exception as e:  # noqa
        return 'py:' + type(e).__name__


def gen_names(ctx):
    maxlen = 3 if ctx.quick else 4
    for n in range(0, maxlen + 1):
        for tup in itertools.product(ALPHABET, repeat=n):
            yield b''.join(tup)
    # boundary lengths (8.3, 207, record width)
    for ln in (7, 8, 9, 11, 12, 30, 31, 32, 206, 207, 208, 220, 221, 222, 223, 254, 255, 256):
        yield b'A' * ln
        yield b'A' * ln + b';1'
        yield b'A' * max(ln - 4, 1) + b'.BBB'
        yield b'A' * max(ln - 4, 1) + b'.BBB;1'
        yield b'A' * ln + b'.'
    for v in (b'0', b'1', b'9', b'00001', b'32767', b'32768', b'032767', b'99999999999999999999', b'1_0', b' 7', b'7 ',
              b'+5', b'-5', b'A', b'1A', b'\xb2', b'1\n', b'0x1', b'1e3', b'1.0', b'\xd9\xa1',
              b'0' * 5000 + b'1', b'9' * 5000, b'0' * 40, b'000032767', b'000032768'):
        yield b'FOO.BAR;' + v
        yield b'FOO;' + v
        yield b';' + v
        yield b'.;' + v
    # a line feed / carriage return / space / NUL at either end of each part (anchored patterns and str methods treat a
    # final newline specially)
    for ws in (b'\n', b'\r', b' ', b'\x00', b'\t', b'\x0b', b'\x0c', b'\x1c', b'\x85'):
        for nm in (b'FOO' + ws + b'.TXT;1', b'FOO.TX' + ws + b';1', b'FOO.TXT;1' + ws, ws + b'FOO.TXT;1', b'BAR' + ws + b';1', b'BAR' + ws,
                   ws + b'BAR', b'FOO.' + ws + b';1', b'F' + ws + b'O.TXT;1', b'DIR' + ws, b'DIR' + ws + ws, b'FOO.TXT;1' + ws + ws):
            yield nm
    rng = ctx.rng
    pool = b'ABZ09_.;;..az \x00\xff/+-1237\n'
    for _ in range(3000 if ctx.quick else 60000):
        ln = rng.choice((1, 2, 3, 5, 8, 9, 12, 13, 14, 20, 40))
        yield bytes(rng.choice(pool) for _ in range(rng.randint(0, ln)))


def confirm_api(level, name, is_dir):
    """Confirm on the public API that `name` (not legal) is accepted by an edit and survives mastering."""
    import pycdlib
    iso = pycdlib.PyCdlib()
    iso.new(interchange_level=level)
    path = '/' + name.decode('latin-1')
    try:
        if is_dir:
            iso.add_directory(iso_path=path)
        else:
            iso.add_fp(io.BytesIO(b'x'), 1, iso_path=path)
    except Exception as e:  # refused at API level after all
        return 'refused:' + type(e).__name__
    out = io.BytesIO()
    try:
        iso.write_fp(out)
    except Exception as e:
        return 'accepted-then-write-failed:' + type(e).__name__
    return 'accepted'


def run_fn(ctx):
    import pycdlib.pycdlib as P
    names = list(dict.fromkeys(gen_names(ctx)))
    reqs, impl = [], []
    for nm in names:
        hx = core.hexs(nm)
        for lvl in (1, 2, 3, 4):
            reqs.append('chkfile %d %s' % (lvl, hx))
            impl.append(impl_class(P._check_iso9660_filename, nm, lvl))
            reqs.append('chkdir %d %s' % (lvl, hx))
            impl.append(impl_class(P._check_iso9660_directory, nm, lvl))
        reqs.append('lvlfile %s' % hx)
        impl.append(impl_class(P._interchange_level_from_filename, nm))
        reqs.append('lvldir %s' % hx)
        impl.append(impl_class(P._interchange_level_from_directory, nm))
        reqs.append('depth %s' % hx)
        impl.append(impl_class(P._check_path_depth, nm))
    model = ctx.driver.ask(reqs)
    for rq, a, b in zip(reqs, impl, model):
        ctx.count(key=rq, kind=rq.split()[0] + ':' + a, sample={'request': rq, 'impl': a, 'model': b})
        if a == b:
            continue
        toks = rq.split()
        nm = bytes.fromhex(toks[-1]) if toks[-1] != '-' else b''
        if a.startswith('py:'):
            ctx.violation('C13.refusal/%s/%s' % (toks[0], a), '%s(%r) raises %s instead of PyCdlibInvalidInput' % (toks[0], nm, a[3:]),
                          {'kind': 'fn', 'request': rq, 'impl': a, 'model': b})
        elif toks[0] in ('chkfile', 'chkdir') and a == 'ok' and b == 'invalidInput':
            lvl = int(toks[1])
            api = confirm_api(lvl, nm, toks[0] == 'chkdir') if b'/' not in nm and b'\x00' not in nm else 'not-run'
            ctx.violation('C13.legal/%s/accepts-illegal' % toks[0],
                          '%s accepts %r at level %d although it is not a legal identifier (API: %s)' % (toks[0], nm, lvl, api),
                          {'kind': 'fn', 'request': rq, 'impl': a, 'model': b, 'api': api})
        else:
            ctx.disagree('S-fn', '%s: impl=%s model=%s' % (rq, a, b), {'kind': 'fn', 'request': rq, 'impl': a, 'model': b})
    ctx.traces_validated += len(reqs)


def scenario(ctx, tmpdir, cfg, ops, label):
    """Run ops; every refusal must be InvalidInput at the edit; the image must master; identifiers must be unique and legal."""
    rp = {'kind': 'history', 'cfg': cfg, 'ops': ops, 'label': label}
    with isoapi.frozen_time():
        iso = isoapi.new_iso(cfg)
        results = []
        for op in ops:
            res = isoapi.apply_op(iso, op)
            results.append(res)
            if res not in ('ok', 'invalidInput'):
                ctx.violation('C13.refusal/%s/%s' % (op['op'], res), '%s: edit %s raised %s instead of PyCdlibInvalidInput' % (label, _short(op), res), rp)
        if any(r != 'ok' for r in results):
            # what a refused call leaves behind is C14's subject: master the accepted edits only
            try:
                iso.close()
            except Exception:
                pass
            iso = isoapi.new_iso(cfg)
            for op, r in zip(ops, results):
                if r == 'ok':
                    isoapi.apply_op(iso, op)
        path = os.path.join(tmpdir, 's%d.iso' % ctx.rng.randrange(10 ** 12))
        try:
            iso.write(path)
        except Exception as e:  # noqa
            ctx.violation('C13.accepted-then-write-fails/%s/%s' % (label.split(':')[0], type(e).__name__),
                          '%s: edits %s were accepted, then write fails: %s %s' % (label, results, type(e).__name__, str(e)[:80]), rp)
            return results
        finally:
            try:
                iso.close()
            except Exception:
                pass
    rep = isoapi.read_image(ctx, path)
    os.unlink(path)
    for e in rep.errs:
        code = e.split(':')[0]
        if code in ('duplicate-identifier', 'udf-duplicate-name', 'ident-overruns-record', 'empty-identifier', 'joliet-identifier-too-long',
                    'joliet-odd-identifier-length', 'multi-extent-ident-mismatch'):
            ctx.violation('C13.image/%s' % code, '%s: written image has %s' % (label, e[:120]), rp)
    # a small file silently chained as a multi-extent continuation of another one shows up as ONE entry with the summed length
    if label.startswith('dup-iso-file') and results.count('ok') == 2:
        ctx.violation('C13.unique/add_fp/iso/duplicate-file-chained', '%s: a second file with an existing identifier was accepted (chained as multi-extent)' % label, rp)
    if label.startswith('dup-') and results[-1] == 'ok' and not label.startswith('dup-iso-file'):
        ctx.violation('C13.unique/%s' % label.split(':')[0], '%s: duplicate name accepted' % label, rp)
    # identifiers legal for the level (the reader's identifiers fed to the proved-equivalent predicate)
    lvl = cfg.get('ilevel', 1)
    reqs = []
    for ent in rep.entries:
        f = ent.split(':')
        if f[0] == 'I' and f[1] in ('F', 'D'):
            last = f[2].split('/')[-1]
            if last:
                reqs.append('%s %d %s' % ('chkfile' if f[1] == 'F' else 'chkdir', lvl, last))
    if reqs:
        for rq, ans in zip(reqs, ctx.driver.ask(reqs)):
            if ans != 'ok':
                ctx.violation('C13.image/illegal-identifier', '%s: identifier %s in the written image is not legal at level %d' % (label, rq.split()[-1], lvl), rp)
    return results


def _short(op):
    return {k: (v if not isinstance(v, str) or len(v) < 30 else v[:27] + '...') for k, v in op.items()}


def udf_encoding_lookup(ctx, cfg, ops, names):
    """both names present: each lookup returns its own content; removing one leaves the other"""
    import io
    rp = {'kind': 'history', 'cfg': cfg, 'ops': ops, 'label': 'udf-encoding-collision'}
    with isoapi.frozen_time():
        iso = isoapi.new_iso(cfg)
        for op in ops:
            isoapi.apply_op(iso, op)
        out = io.BytesIO()
        iso.write_fp(out)
        iso.close()
    import pycdlib
    g = pycdlib.PyCdlib()
    g.open_fp(io.BytesIO(out.getvalue()))
    try:
        lens = {}
        for nm, want in zip(names, (5, 7)):
            r = io.BytesIO()
            g.get_file_from_iso_fp(r, udf_path='/' + nm)
            lens[nm] = len(r.getvalue())
            if lens[nm] != want:
                ctx.violation('C13.udf-encoding/lookup-wrong-entry', 'UDF lookup of %r returns the %d-byte content of the other name (%r)' % (nm, lens[nm], names), rp)
        g.rm_file(udf_path='/' + names[1])
        try:
            r = io.BytesIO()
            g.get_file_from_iso_fp(r, udf_path='/' + names[0])
            if len(r.getvalue()) != 5:
                ctx.violation('C13.udf-encoding/remove-wrong-entry', 'after rm_file(udf_path=%r) the name %r reads other content' % (names[1], names[0]), rp)
        except Exception as e:  # noqa
            ctx.violation('C13.udf-encoding/remove-wrong-entry', 'rm_file(udf_path=%r) removed %r: %r' % (names[1], names[0], e), rp)
    except Exception as e:  # noqa
        ctx.violation('C13.udf-encoding/%s' % isoapi.exc_class(e), 'lookups with both names present raised %r' % e, rp)
    finally:
        g.close()


def missing_lookups(ctx):
    """a name that does not exist is refused with the invalid-input error in every namespace, wherever it would sort"""
    import io
    import pycdlib
    iso = pycdlib.PyCdlib()
    iso.new(interchange_level=3, rock_ridge='1.09', joliet=3, udf='2.60')
    iso.add_fp(io.BytesIO(b'x'), 1, '/MMM.;1', rr_name='mmm', joliet_path='/mmm', udf_path='/mmm')
    iso.add_directory('/DDD', rr_name='ddd', joliet_path='/ddd', udf_path='/ddd')
    for key, mk in (('iso_path', lambda n: '/' + n.upper() + '.;1'), ('rr_path', lambda n: '/' + n), ('joliet_path', lambda n: '/' + n), ('udf_path', lambda n: '/' + n)):
        for nm in ('aaa', 'mmn', 'zzz', 'ddd/zzz', 'ddd/000', 'nodir/x', 'mmm/x'):
            p = mk(nm) if '/' not in nm else '/' + (nm.upper() if key == 'iso_path' else nm)
            for call in ('get_record', 'get_file', 'rm_file'):
                try:
                    if call == 'get_record':
                        iso.get_record(**{key: p})
                    elif call == 'get_file':
                        iso.get_file_from_iso_fp(io.BytesIO(), **{key: p})
                    else:
                        if key == 'rr_path':
                            continue
                        iso.rm_file(**{key: p})
                    res = 'ok'
                except Exception as e:  # noqa
                    res = isoapi.exc_class(e)
                ctx.count(key=('missing', key, nm, call), kind='api:missing-lookup', nontrivial=True)
                if res != 'invalidInput':
                    ctx.violation('C13.missing-lookup/%s/%s' % (key.split('_')[0], res), '%s(%s=%r) for a name that does not exist: %s instead of PyCdlibInvalidInput' % (call, key, p, res),
                                  {'kind': 'missing-lookup'})
    iso.close()


def run_api(ctx):
    rng = ctx.rng
    tmpdir = tempfile.mkdtemp(prefix='verif-c13-')
    try:
        n = 0
        for lvl in (1, 3, 4):
            base = {'ilevel': lvl, 'joliet': None, 'rr': None, 'udf': None, 'xa': False}
            f1 = '/FOO.;1'
            d1 = '/DIR1'
            for label, ops in (
                ('dup-iso-file:L%d' % lvl, [{'op': 'addfp', 'cid': 1, 'n': 5, 'iso': f1}, {'op': 'addfp', 'cid': 2, 'n': 7, 'iso': f1}]),
                ('dup-iso-dir:L%d' % lvl, [{'op': 'adddir', 'iso': d1}, {'op': 'adddir', 'iso': d1}]),
                ('dup-iso-file-over-dir:L%d' % lvl, [{'op': 'adddir', 'iso': d1}, {'op': 'addfp', 'cid': 1, 'n': 5, 'iso': d1}]),
                ('dup-iso-dir-over-file:L%d' % lvl, [{'op': 'addfp', 'cid': 1, 'n': 5, 'iso': '/DIR1'}, {'op': 'adddir', 'iso': d1}]),
                ('dup-iso-link:L%d' % lvl, [{'op': 'addfp', 'cid': 1, 'n': 5, 'iso': f1}, {'op': 'addfp', 'cid': 2, 'n': 5, 'iso': '/BAR.;1'},
                                            {'op': 'addlink', 'ons': 'i', 'old': '/BAR.;1', 'nns': 'i', 'new': f1}]),
                ('readd-after-rm:L%d' % lvl, [{'op': 'addfp', 'cid': 1, 'n': 5, 'iso': f1}, {'op': 'rmfile', 'ns': 'i', 'path': f1},
                                              {'op': 'addfp', 'cid': 2, 'n': 6, 'iso': f1}]),
            ):
                scenario(ctx, tmpdir, base, ops, label)
                ctx.count(key=label, kind='api:' + label.split(':')[0])
                n += 1
        jb = {'ilevel': 3, 'joliet': 3, 'rr': None, 'udf': None, 'xa': False}
        for label, ops in (
            ('dup-joliet-file', [{'op': 'addfp', 'cid': 1, 'n': 5, 'iso': '/A.;1', 'joliet': '/a'}, {'op': 'addfp', 'cid': 2, 'n': 5, 'iso': '/B.;1', 'joliet': '/a'}]),
            ('dup-joliet-dir', [{'op': 'adddir', 'iso': '/A', 'joliet': '/a'}, {'op': 'adddir', 'iso': '/B', 'joliet': '/a'}]),
            ('dup-joliet-link', [{'op': 'addfp', 'cid': 1, 'n': 5, 'iso': '/A.;1', 'joliet': '/a'}, {'op': 'addlink', 'ons': 'i', 'old': '/A.;1', 'nns': 'j', 'new': '/a'}]),
            ('other-namespace-same-name', [{'op': 'addfp', 'cid': 1, 'n': 5, 'iso': '/A.;1'}, {'op': 'addfp', 'cid': 2, 'n': 5, 'joliet': '/A.;1'}]),
        ):
            scenario(ctx, tmpdir, jb, ops, label)
            ctx.count(key=label, kind='api:' + label)
        ub = {'ilevel': 3, 'joliet': None, 'rr': None, 'udf': '2.60', 'xa': False}
        for label, ops in (
            ('dup-udf-file', [{'op': 'addfp', 'cid': 1, 'n': 5, 'iso': '/A.;1', 'udf': '/a'}, {'op': 'addfp', 'cid': 2, 'n': 5, 'iso': '/B.;1', 'udf': '/a'}]),
            ('dup-udf-dir', [{'op': 'adddir', 'iso': '/A', 'udf': '/a'}, {'op': 'adddir', 'iso': '/B', 'udf': '/a'}]),
            ('dup-udf-link', [{'op': 'addfp', 'cid': 1, 'n': 5, 'iso': '/A.;1', 'udf': '/a'}, {'op': 'addlink', 'ons': 'i', 'old': '/A.;1', 'nns': 'u', 'new': '/a'}]),
            ('dup-udf-symlink', [{'op': 'addfp', 'cid': 1, 'n': 5, 'iso': '/A.;1', 'udf': '/a'}, {'op': 'addsym', 'udf': '/a', 'utarget': 'x'}]),
        ):
            scenario(ctx, tmpdir, ub, ops, label)
            ctx.count(key=label, kind='api:' + label)
        rb = {'ilevel': 3, 'joliet': None, 'rr': '1.09', 'udf': None, 'xa': False}
        scenario(ctx, tmpdir, rb, [{'op': 'addfp', 'cid': 1, 'n': 5, 'iso': '/A.;1', 'rr': 'same'}, {'op': 'addfp', 'cid': 2, 'n': 5, 'iso': '/B.;1', 'rr': 'same'}], 'dup-rr-name')
        # the same through every call that creates a Rock Ridge name, with the clash at the start / middle / end of the
        # sorted sibling list and after a remove-and-re-add
        sib = [{'op': 'adddir', 'iso': '/DIR1', 'rr': 'dir1'}] + [
            {'op': 'addfp', 'cid': 10 + i, 'n': 3, 'iso': '/DIR1/%s.;1' % nm.upper(), 'rr': nm} for i, nm in enumerate(('alpha', 'foo', 'mid', 'zeta'))]
        for clash in ('alpha', 'foo', 'mid', 'zeta'):
            for ver in ('1.09', '1.12'):
                rb2 = dict(rb, rr=ver)
                scenario(ctx, tmpdir, rb2, sib + [{'op': 'addlink', 'ons': 'i', 'old': '/DIR1/FOO.;1', 'nns': 'i', 'new': '/DIR1/NEW1.;1', 'rr': clash}], 'dup-rr-link:%s' % clash)
                scenario(ctx, tmpdir, rb2, sib + [{'op': 'adddir', 'iso': '/DIR1/NEWD', 'rr': clash}], 'dup-rr-dir:%s' % clash)
                scenario(ctx, tmpdir, rb2, sib + [{'op': 'addsym', 'iso': '/DIR1/NEWS.;1', 'rr': clash, 'target': 'x'}], 'dup-rr-symlink:%s' % clash)
                scenario(ctx, tmpdir, rb2, sib + [{'op': 'rmfile', 'ns': 'i', 'path': '/DIR1/%s.;1' % clash.upper()},
                                                 {'op': 'addfp', 'cid': 30, 'n': 3, 'iso': '/DIR1/BACK.;1', 'rr': clash},
                                                 {'op': 'addlink', 'ons': 'i', 'old': '/DIR1/BACK.;1', 'nns': 'i', 'new': '/DIR1/NEW2.;1', 'rr': clash}],
                         'dup-rr-link-after-readd:%s' % clash)
                ctx.count(key=('dup-rr', clash, ver), kind='api:dup-rr')
        # field widths: names near the limits of the on-disc fields, all configurations
        for lvl in (2, 3, 4):
            for ln in (30, 31, 190, 200, 207, 208, 212, 220, 221, 222, 223, 230, 250, 254, 255, 300):
                for xa in (False, True):
                    for rr in (None, '1.09'):
                        cfg = {'ilevel': lvl, 'joliet': None, 'rr': rr, 'udf': None, 'xa': xa}
                        name = 'A' * ln
                        op = {'op': 'adddir', 'iso': '/' + name}
                        if rr:
                            op['rr'] = 'r'
                        scenario(ctx, tmpdir, cfg, [op], 'width-iso-dir:L%d:%d' % (lvl, ln))
                        lk = {'op': 'addlink', 'ons': 'i', 'old': '/SRC.;1', 'nns': 'i', 'new': '/' + 'L' * max(1, ln - 6) + '.EXT;1'}
                        src = {'op': 'addfp', 'cid': 9, 'n': 3, 'iso': '/SRC.;1'}
                        if rr:
                            lk['rr'] = 'lnk'
                            src['rr'] = 'src'
                        scenario(ctx, tmpdir, cfg, [src, lk], 'width-iso-link:L%d:%d' % (lvl, ln))
                        op2 = {'op': 'addfp', 'cid': 1, 'n': 3, 'iso': '/' + 'B' * max(1, ln - 6) + '.EXT;1'}
                        if rr:
                            op2['rr'] = 'r'
                        scenario(ctx, tmpdir, cfg, [op2], 'width-iso-file:L%d:%d' % (lvl, ln))
                        ctx.count(key=('width', lvl, ln, xa, rr), kind='api:width')
        for ln in (100, 126, 127, 128, 200, 253, 254, 255, 256, 300, 1000):
            cfg = {'ilevel': 3, 'joliet': None, 'rr': None, 'udf': '2.60', 'xa': False}
            for ch in ('u', 'é', '中'):
                scenario(ctx, tmpdir, cfg, [{'op': 'addfp', 'cid': 1, 'n': 3, 'iso': '/A.;1', 'udf': '/' + ch * ln}], 'width-udf-file:%d' % ln)
                scenario(ctx, tmpdir, cfg, [{'op': 'adddir', 'iso': '/A', 'udf': '/' + ch * ln}], 'width-udf-dir:%d' % ln)
                ctx.count(key=('udfwidth', ln, ch), kind='api:width-udf')
        # Rock Ridge names and symbolic-link targets whose continuation data does not fit one sector: refused at the
        # edit (or, if accepted, writable) - never accepted and then unwritable
        for ver in ('1.09', '1.12'):
            cfg = {'ilevel': 3, 'joliet': None, 'rr': ver, 'udf': None, 'xa': False}
            for ln in (1500, 1900, 2040, 2100, 2500, 4000):
                scenario(ctx, tmpdir, cfg, [{'op': 'addfp', 'cid': 1, 'n': 3, 'iso': '/A.;1', 'rr': 'n' * ln}], 'width-rr-name:%d' % ln)
                scenario(ctx, tmpdir, cfg, [{'op': 'adddir', 'iso': '/A', 'rr': 'd' * ln}], 'width-rr-dir:%d' % ln)
                scenario(ctx, tmpdir, cfg, [{'op': 'addsym', 'iso': '/S.;1', 'rr': 's', 'target': 't' * ln}], 'width-rr-target:%d' % ln)
                scenario(ctx, tmpdir, cfg, [{'op': 'addsym', 'iso': '/S.;1', 'rr': 's', 'target': '/'.join(['c' * 9] * (ln // 10))}], 'width-rr-target-components:%d' % ln)
                ctx.count(key=('rrwidth', ver, ln), kind='api:width-rr')
        # UDF identifiers are stored in latin-1 or UTF-16: a UTF-16 name whose bytes equal the latin-1 bytes of another
        # name (U+6162 = 'ab') is a different name - both are accepted, each is found under its own name only
        cfg = {'ilevel': 3, 'joliet': None, 'rr': None, 'udf': '2.60', 'xa': False}
        for a, b in (('ab', '\u6162'), ('xy12', '\u7879\u3132'), ('AB', '\u4142')):
            for order in ((a, b), (b, a)):
                ops = [{'op': 'addfp', 'cid': 1, 'n': 5, 'iso': '/A.;1', 'udf': '/' + order[0]}, {'op': 'addfp', 'cid': 2, 'n': 7, 'iso': '/B.;1', 'udf': '/' + order[1]}]
                res = scenario(ctx, tmpdir, cfg, ops, 'udf-encoding-collision:%s' % a)
                ctx.count(key=('udfenc', a, order[0] == a), kind='api:udf-encoding')
                if res == ['ok', 'ok']:
                    udf_encoding_lookup(ctx, cfg, ops, order)
        # a path that normalises to the root is not a name: no entry with an empty identifier in any namespace
        cfg = {'ilevel': 3, 'joliet': 3, 'rr': None, 'udf': '2.60', 'xa': False}
        for ns in ('joliet', 'udf'):
            for pth in ('/', '/.', '/a/..', '//'):
                for op in ({'op': 'addfp', 'cid': 1, 'n': 3, 'iso': '/A.;1', ns: pth}, {'op': 'adddir', 'iso': '/A', ns: pth},
                           {'op': 'adddir', ns: pth}):
                    res = scenario(ctx, tmpdir, cfg, [{'op': 'adddir', 'iso': '/AA', 'joliet': '/a', 'udf': '/a'}, op], 'empty-name-%s:%s' % (ns, pth))
                    ctx.count(key=('empty-name', ns, pth, op['op'], 'iso' in op), kind='api:empty-name')
                    if res and res[-1] == 'ok':
                        ctx.violation('C13.empty-name/%s' % ns, 'a %s path %r was accepted as the name of a new entry (%s)' % (ns, pth, op['op']),
                                      {'kind': 'history', 'cfg': cfg, 'ops': [op], 'label': 'empty-name-%s' % ns})
        # three and four relocated directories with one identifier: the numbered names given to them must all differ
        for ver in ('1.09', '1.12'):
            cfg = {'ilevel': 3, 'joliet': None, 'rr': ver, 'udf': None, 'xa': False}
            ops = [{'op': 'adddir', 'iso': '/A', 'rr': 'a'}]
            p_ = '/A'
            for nm in 'BCDEF':
                p_ += '/' + nm
                ops.append({'op': 'adddir', 'iso': p_, 'rr': nm.lower()})
            for k, leaf in enumerate('GHIJ'):
                ops.append({'op': 'adddir', 'iso': p_ + '/' + leaf, 'rr': leaf.lower()})
                ops.append({'op': 'adddir', 'iso': p_ + '/' + leaf + '/DATA', 'rr': 'data'})
                if k >= 2:
                    scenario(ctx, tmpdir, cfg, list(ops), 'relocated-same-identifier-x%d:%s' % (k + 1, ver))
                    # correspondence with Model/Reloc (theorem relocMany_nodup): the identifiers the library gives them
                    with isoapi.frozen_time():
                        iso = isoapi.new_iso(cfg)
                        for op in ops:
                            isoapi.apply_op(iso, op)
                        try:
                            got = sorted(c.file_identifier().decode('ascii') for c in iso.get_record(iso_path='/RR_MOVED').children
                                         if not c.is_dot() and not c.is_dotdot())
                        except Exception as e:  # noqa
                            got = ['raised:%s' % isoapi.exc_class(e)]
                        iso.close()
                    want = sorted(ctx.driver.ask(['relocmany DATA %d' % (k + 1)])[0].split('.'))
                    ctx.traces_validated += 1
                    if got != want:
                        ctx.disagree('S-fn/relocmany', 'identifiers of %d relocated directories called DATA: impl=%s model=%s' % (k + 1, got, want),
                                     {'kind': 'history', 'cfg': cfg, 'ops': list(ops), 'label': 'relocated-same-identifier'})
            ctx.count(key=('reloc-same-ident', ver), kind='api:relocated-same-identifier')
        # entries a user puts below the relocation directory obey the uniqueness rule like any other (only relocated
        # directories themselves may share an identifier there)
        for ver in ('1.09', '1.12'):
            cfg = {'ilevel': 3, 'joliet': None, 'rr': ver, 'udf': None, 'xa': False}
            deep, p_ = [], ''
            for i in range(8):
                p_ += '/D%d' % i
                deep.append({'op': 'adddir', 'iso': p_, 'rr': 'd%d' % i})
            scenario(ctx, tmpdir, cfg, deep + [{'op': 'addfp', 'cid': 1, 'n': 3, 'iso': '/RR_MOVED/FOO.;1', 'rr': 'foo'},
                                              {'op': 'addfp', 'cid': 2, 'n': 4, 'iso': '/RR_MOVED/FOO.;1', 'rr': 'foo2'}], 'dup-in-relocation-dir-file:%s' % ver)
            scenario(ctx, tmpdir, cfg, deep + [{'op': 'adddir', 'iso': '/RR_MOVED/D7', 'rr': 'd7x'}], 'dup-in-relocation-dir-dir:%s' % ver)
            ctx.count(key=('dup-reloc', ver), kind='api:dup-in-relocation-dir')
        # depth rule
        for lvl, rr, depth in ((1, None, 7), (1, None, 8), (3, None, 8), (4, None, 9), (1, '1.09', 9)):
            cfg = {'ilevel': lvl, 'joliet': None, 'rr': rr, 'udf': None, 'xa': False}
            ops = []
            p = ''
            for i in range(depth):
                p += '/D%d' % i
                op = {'op': 'adddir', 'iso': p}
                if rr:
                    op['rr'] = 'd%d' % i
                ops.append(op)
            res = scenario(ctx, tmpdir, cfg, ops, 'depth:L%d:%s:%d' % (lvl, rr, depth))
            ctx.count(key=('depth', lvl, rr, depth), kind='api:depth')
            if not rr and lvl < 4 and depth > 7 and res and res[-1] == 'ok':
                ctx.violation('C13.depth', 'directory at depth %d accepted at level %d without Rock Ridge' % (depth, lvl), {'kind': 'history', 'cfg': cfg, 'ops': ops, 'label': 'depth'})
    finally:
        shutil.rmtree(tmpdir, ignore_errors=True)


def run(ctx):
    run_fn(ctx)
    missing_lookups(ctx)
    run_api(ctx)
    ctx.exhaustive = False


def replay(ctx, obj):
    r = obj.get('replay', obj)
    sigs = []
    if r.get('kind') == 'fn':
        import pycdlib.pycdlib as P
        toks = r['request'].split()
        nm = bytes.fromhex(toks[-1]) if toks[-1] != '-' else b''
        fn = {'chkfile': P._check_iso9660_filename, 'chkdir': P._check_iso9660_directory,
              'lvlfile': P._interchange_level_from_filename, 'lvldir': P._interchange_level_from_directory,
              'depth': P._check_path_depth}[toks[0]]
        args = (nm, int(toks[1])) if toks[0].startswith('chk') else (nm,)
        a = impl_class(fn, *args)
        b = ctx.driver.ask([r['request']])[0]
        core.log('impl=%s model=%s' % (a, b))
        if a != b:
            sigs.append(obj.get('signature', 'C13.fn'))
    elif r.get('kind') == 'missing-lookup':
        missing_lookups(ctx)
        for v in ctx.violations:
            core.log('violation:', v['signature'], v['summary'])
        sigs += [v['signature'] for v in ctx.violations]
    elif r.get('kind') == 'history':
        tmpdir = tempfile.mkdtemp(prefix='verif-c13-')
        try:
            res = scenario(ctx, tmpdir, r['cfg'], r['ops'], r.get('label', 'replay'))
            if r.get('label') == 'udf-encoding-collision' and res == ['ok', 'ok']:
                udf_encoding_lookup(ctx, r['cfg'], r['ops'], [r['ops'][0]['udf'][1:], r['ops'][1]['udf'][1:]])
        finally:
            shutil.rmtree(tmpdir, ignore_errors=True)
        for v in ctx.violations:
            core.log('violation:', v['signature'], v['summary'])
        sigs += [v['signature'] for v in ctx.violations]
    return sigs

LEVEL_TEXT = ('Lean 4 theorems: the identifier acceptance predicates equal the declarative naming rules for every byte string '
              'and every level (check_file_iff, check_dir_iff) and refuse only with the invalid-input error; the d-character '
              'set is regenerated from pycdlib.py on every run and proved equal to the model (isD1_matches_source). The '
              'functions themselves are tied by exhaustive differential execution over a 12-symbol alphabet; histories '
              '(duplicates, field widths, Joliet/UDF limits) are decided by the API oracle.')
LEVEL_NOTE = ('Trusted: Lean kernel, py2lean for the constant, the S-fn/S-api harness. Modelled not verified: bytes.split/join '
              '(splitLast), the path from the public edit calls to these predicates (exercised by S-api).')
TECHNIQUE = 'Lean 4 proof (iff with a declarative rule) + exhaustive differential correspondence'
