"""
C16 — reading files.  Theorems: Props/C16.lean (`stream_refines`, `call_refines`, `copy_exact`, `refused_unchanged`).

S-stream: real images are mastered with pycdlib, reopened, and 1-3 `open_file_from_iso` streams are driven with random
read / readall / readinto / seek / tell / close calls interleaved with other uses of the same PyCdlib object
(extraction of another file, listing, record lookup, the other streams).  Every return value is compared
  (a) with the Lean model `runW` started from the same (start, length) pairs and the same image file, the interfering
      uses being replayed as `clobber <position the shared file object was left at>`            [correspondence]
  (b) with `io.BytesIO(content)` driven by the same calls                                       [property oracle]
Also: `get_file_from_iso_fp` with many block sizes, files added but not yet written, `utils.copy_data` vs `copyData`.
"""
import io
import os
import shutil
import tempfile

from harness import core

LEAN_MODULES = ['Pycdlib.Props.C16', 'Pycdlib.Props.C16Cache']
THEOREMS = ['Pycdlib.stream_refines', 'Pycdlib.step_refines', 'Pycdlib.call_refines', 'Pycdlib.copy_exact',
            'Pycdlib.refused_unchanged', 'Pycdlib.spec_read_within',
            'Pycdlib.Cache.cache_transparent', 'Pycdlib.Cache.forget_harmless', 'Pycdlib.Cache.stale_without_clear']
PARTIAL = {}
TRUSTED = ['the backing file object as (bytes, one position): real file-descriptor semantics beyond seek/read/tell are not modelled',
           'boot-info-table overlay in _get_file_from_iso_fp and multi-extent chaining are covered by the extraction oracle only']
ASSUMPTIONS = ['the backing file is not modified or truncated while streams are open']
RULE = ('random op sequences (8-40 calls) over 1-3 streams on images with files of sizes {0,1,2047,2048,2049,5000,...}; '
        'distinct = distinct (image layout, op sequence); non-trivial = at least one interfering use lies between two calls '
        'of the same stream, or a readinto/seek past a boundary occurs')
LEVEL_TEXT = ('Lean 4 refinement theorem: for every sequence of stream calls on any number of open files and every interleaving '
              'with other uses of the shared file object, the outputs equal those of independent in-memory streams of each '
              "file's bytes (stream_refines); extraction with any positive block size is exact (copy_exact); path lookups through the caches "
              'answer as lookups without them for every history whose edits clear them (cache_transparent). The model is tied '
              'to pycdlibio.py by differential execution on real images, the property is re-checked against io.BytesIO.')
LEVEL_NOTE = ('Trusted: Lean kernel; backing file abstracted to bytes + one shared position; interfering uses abstracted to the '
              'position they leave behind (observed from the real run). Runtime part not exhibited by the model: OS-level '
              'descriptor sharing across processes/threads.')
TECHNIQUE = 'Lean 4 refinement proof (induction over operation sequences) + differential correspondence on real images'

SIZES = [0, 1, 7, 2047, 2048, 2049, 4096, 5000, 9000]


def content(cid, n):
    return bytes(((cid * 37 + i * 11 + (i >> 8) * 3 + 5) % 251) for i in range(n))


def build_image(ctx, tmpdir):
    import pycdlib
    rng = ctx.rng
    cfg = rng.choice([{}, {'joliet': 3}, {'rock_ridge': '1.09'}, {'udf': '2.60'}, {'interchange_level': 3}])
    iso = pycdlib.PyCdlib()
    iso.new(**cfg)
    files = {}
    nfiles = rng.randint(2, 5)
    for i in range(nfiles):
        n = rng.choice(SIZES)
        data = content(i + 1, n)
        name = '/F%d.;1' % i
        kw = {'iso_path': name}
        if 'rock_ridge' in cfg:
            kw['rr_name'] = 'f%d' % i
        if 'joliet' in cfg:
            kw['joliet_path'] = '/f%d' % i
        if 'udf' in cfg:
            kw['udf_path'] = '/f%d' % i
        iso.add_fp(io.BytesIO(data), n, **kw)
        files[name] = data
    path = os.path.join(tmpdir, 'img%d.iso' % rng.randrange(10 ** 9))
    iso.write(path)
    iso.close()
    return path, files, cfg


def expect_seek(cur, ln, off, wh):
    if wh == 0:
        t = off
    elif wh == 1:
        t = cur + off
    elif wh == 2:
        t = ln + off
    else:
        return None
    return None if t < 0 else t


def one_case(ctx, tmpdir):
    import pycdlib
    from pycdlib import pycdlibexception as pe
    rng = ctx.rng
    path, files, cfg = build_image(ctx, tmpdir)
    iso = pycdlib.PyCdlib()
    iso.open(path)
    names = sorted(files)
    nstreams = rng.randint(1, 3)
    streams, oracles, specs = [], [], []
    for i in range(nstreams):
        nm = rng.choice(names)
        f = iso.open_file_from_iso(iso_path=nm)
        f.__enter__()
        streams.append(f)
        oracles.append([io.BytesIO(files[nm]), True])
        rec = iso.get_record(iso_path=nm)
        specs.append('%d:%d' % (f._startpos, len(files[nm])))
        if f._startpos != rec.extent_location() * 2048 and len(files[nm]) > 0:
            ctx.notes.append('startpos differs from extent*2048')
    toks, impl_out, orac_out = [], [], []
    last_touch = {}
    interfered_since = {i: False for i in range(nstreams)}
    nontrivial = False
    nops = rng.randint(8, 40 if not ctx.quick else 24)
    for _ in range(nops):
        kind = rng.choice(['r', 'r', 'r', 'i', 'i', 'a', 's', 's', 't', 'x', 'x', 'c'] if rng.random() < 0.9 else ['c'])
        if kind == 'x':
            how = rng.choice(['extract', 'list', 'record', 'walk'])
            try:
                if how == 'extract':
                    iso.get_file_from_iso_fp(io.BytesIO(), iso_path=rng.choice(names), blocksize=rng.choice([1, 512, 2048, 8192]))
                elif how == 'list':
                    list(iso.list_children(iso_path='/'))
                elif how == 'record':
                    iso.get_record(iso_path=rng.choice(names))
                else:
                    for _x in iso.walk(iso_path='/'):
                        pass
            except Exception as e:  # noqa
                ctx.notes.append('interfering op failed: %r' % e)
            toks.append('x:%d' % iso._cdfp.tell())
            impl_out.append('unit')
            orac_out.append('unit')
            for k in interfered_since:
                interfered_since[k] = True
            continue
        sid = rng.randrange(nstreams)
        f = streams[sid]
        bio, is_open = oracles[sid]
        ln = len(bio.getvalue())
        for k in interfered_since:
            if k != sid:
                interfered_since[k] = True
        tag = 'interfered' if interfered_since[sid] else 'alone'
        if interfered_since[sid]:
            nontrivial = True
        interfered_since[sid] = False
        try:
            if kind == 'r':
                n = rng.choice([None, -1, 0, 1, 2, 100, 2047, 2048, 2049, 10 ** 6])
                toks.append('r:%d:%s' % (sid, 'N' if n is None or n < 0 else n))
                exp = 'b:' + core.hexs(bio.read() if n is None or n < 0 else bio.read(n)) if is_open else 'refused'
                got = 'b:' + core.hexs(f.read(n))
            elif kind == 'a':
                toks.append('a:%d' % sid)
                exp = 'b:' + core.hexs(bio.read()) if is_open else 'refused'
                got = 'b:' + core.hexs(f.readall())
            elif kind == 'i':
                k = rng.choice([0, 1, 3, 100, 2048, 5000, 20000])
                toks.append('i:%d:%d' % (sid, k))
                nontrivial = True
                if is_open:
                    buf = bytearray(k)
                    n = bio.readinto(buf)
                    exp = 'b:' + core.hexs(bytes(buf[:n]))
                else:
                    exp = 'refused'
                buf2 = bytearray(k)
                n2 = f.readinto(buf2)
                got = 'b:' + core.hexs(bytes(buf2[:n2]))
            elif kind == 's':
                wh = rng.choice([0, 0, 1, 1, 2, 2, 3])
                off = rng.choice([0, 1, -1, 5, -5, 2048, -2048, ln, -ln, ln + 1, -(ln + 1), ln - 1, 10 ** 6])
                toks.append('s:%d:%d:%d' % (sid, off, wh))
                t = expect_seek(bio.tell(), ln, off, wh) if is_open else None
                if t is None:
                    exp = 'refused'
                else:
                    bio.seek(t)
                    exp = 'n:%d' % t
                got = 'n:%d' % f.seek(off, wh)
            elif kind == 't':
                toks.append('t:%d' % sid)
                exp = 'n:%d' % bio.tell() if is_open else 'refused'
                got = 'n:%d' % f.tell()
            else:
                toks.append('c:%d' % sid)
                oracles[sid][1] = False
                exp = 'unit'
                f.close()
                got = 'unit'
        except pe.PyCdlibInvalidInput:
            got = 'refused'
        except Exception as e:  # noqa
            got = 'py:' + type(e).__name__
        impl_out.append(got)
        orac_out.append(exp)
        if got != exp:
            ctx.violation('C16.stream/%s/%s' % (toks[-1].split(':')[0], tag),
                          'stream call %s returned %s, an in-memory stream of the file returns %s (cfg %s, %s)' % (
                              toks[-1], got[:60], exp[:60], cfg, tag),
                          {'kind': 'stream', 'seed_case': ctx.case_seed})
            break
    for f in streams:
        try:
            f.close()
        except Exception:
            pass
    iso.close()
    # correspondence with the model on the same image file
    model = ctx.driver.ask(['stream %s %s %s' % (path, ','.join(specs), ' '.join(toks))])[0].split(' ')
    if model != impl_out:
        k = next((i for i, (a, b) in enumerate(zip(model, impl_out)) if a != b), min(len(model), len(impl_out)))
        ctx.disagree('S-stream', 'op %d %s: impl=%s model=%s' % (k, toks[k] if k < len(toks) else '?', impl_out[k][:50] if k < len(impl_out) else '?',
                                                                  model[k][:50] if k < len(model) else '?'),
                     {'kind': 'stream', 'seed_case': ctx.case_seed})
    ctx.traces_validated += 1
    ctx.count(key=(tuple(specs), tuple(toks)), nontrivial=nontrivial, kind='streams=%d' % nstreams,
              sample={'cfg': str(cfg), 'streams': specs, 'ops': toks[:12]})
    os.unlink(path)


def extraction_case(ctx, tmpdir):
    """get_file_from_iso_fp with any block size, on written and not-yet-written files."""
    import pycdlib
    rng = ctx.rng
    iso = pycdlib.PyCdlib()
    iso.new(interchange_level=3)
    files = {}
    for i in range(rng.randint(1, 4)):
        n = rng.choice(SIZES)
        data = content(40 + i, n)
        iso.add_fp(io.BytesIO(data), n, iso_path='/G%d.;1' % i)
        files['/G%d.;1' % i] = data

    def check(obj, stage):
        for nm, data in files.items():
            bs = rng.choice([1, 2, 7, 511, 2048, 4096, 32768, 10 ** 6])
            out = io.BytesIO()
            obj.get_file_from_iso_fp(out, iso_path=nm, blocksize=bs)
            ctx.count(key=(stage, nm, len(data), bs), nontrivial=len(data) > bs, kind='extract:' + stage)
            if out.getvalue() != data:
                ctx.violation('C16.extract/%s' % stage, 'get_file_from_iso_fp(%s, blocksize=%d) returns %d bytes, content differs (%s)' % (
                    nm, bs, len(out.getvalue()), stage), {'kind': 'extract', 'seed_case': ctx.case_seed})
            # stream over the same file
            with obj.open_file_from_iso(iso_path=nm) as f:
                a = f.read(3)
                out2 = io.BytesIO()
                obj.get_file_from_iso_fp(out2, iso_path=rng.choice(sorted(files)), blocksize=2048)
                b = f.read()
                if a + b != data:
                    ctx.violation('C16.stream/r/interfered', 'read(3) + extraction of another file + read() != content for %s (%s)' % (nm, stage),
                                  {'kind': 'extract', 'seed_case': ctx.case_seed})
    check(iso, 'unwritten')
    path = os.path.join(tmpdir, 'x.iso')
    iso.write(path)
    iso.close()
    iso2 = pycdlib.PyCdlib()
    iso2.open(path)
    check(iso2, 'written')
    iso2.close()
    os.unlink(path)


def names_case(ctx, tmpdir):
    """reads interleaved with edits that move names between files (hard links added and removed, a name reused for
    another file) in every namespace: every read returns the bytes of the file that has the name now, whatever was
    looked up before on the same object (new or re-opened image)."""
    import pycdlib
    rng = ctx.rng
    rp = {'kind': 'names', 'seed_case': ctx.case_seed}
    iso = pycdlib.PyCdlib()
    iso.new(interchange_level=3, joliet=3, udf='2.60', rock_ridge='1.09')
    keys = ('iso_path', 'joliet_path', 'udf_path')
    pool = {'iso_path': ['/A.;1', '/B.;1', '/C.;1', '/D.;1'], 'joliet_path': ['/a', '/b', '/c', '/d'], 'udf_path': ['/a', '/b', '/c', '/d']}
    rrn = {'/A.;1': 'a', '/B.;1': 'b', '/C.;1': 'c', '/D.;1': 'd'}
    live = {}           # (key, path) -> content id
    nxt = [70]
    log, seen = [], []  # requests for the cache model (Model/Cache): edits with the live name map, lookups; observed answers

    def pkey(key, path):
        return keys.index(key) * 10 + pool[key].index(path)

    def log_edit():
        log.append('E1:' + ','.join('%d=%d' % (pkey(k, p), c) for (k, p), c in sorted(live.items())))

    def body(cid):
        return content(cid, 2049 + 53 * cid)

    def add(key, path):
        cid = nxt[0]
        nxt[0] += 1
        kw = {key: path}
        if key == 'iso_path':
            kw['rr_name'] = rrn[path]
        else:
            # every file needs an ISO9660 name; a private one, never touched again
            kw['iso_path'] = '/X%d.;1' % cid
            kw['rr_name'] = 'x%d' % cid
        iso.add_fp(io.BytesIO(body(cid)), len(body(cid)), **kw)
        live[(key, path)] = cid

    def read_all(stage):
        for (key, path), cid in sorted(live.items()):
            how = rng.randrange(3)
            try:
                if how == 0:
                    out = io.BytesIO()
                    iso.get_file_from_iso_fp(out, blocksize=rng.choice([7, 2048, 65536]), **{key: path})
                    got = out.getvalue()
                else:
                    with iso.open_file_from_iso(**{key: path}) as f:
                        got = f.read() if how == 1 else f.read(5) + f.read()
            except Exception as e:  # noqa
                ctx.violation('C16.names/read-raises', '%s=%s cannot be read %s: %r' % (key, path, stage, e), rp)
                continue
            ctx.count(key=(stage, key, path, cid), nontrivial=True, kind='names:' + key.split('_')[0])
            log.append('L%d' % pkey(key, path))
            seen.append(str(cid) if got == body(cid) else '?')
            if got != body(cid):
                ctx.violation('C16.names/stale/%s' % key.split('_')[0], '%s=%s reads %d bytes that are not those of the file that has this name %s' % (
                    key, path, len(got), stage), rp)
        for key in keys:
            for path in pool[key]:
                if (key, path) not in live:
                    log.append('L%d' % pkey(key, path))
                    try:
                        iso.get_file_from_iso_fp(io.BytesIO(), **{key: path})
                    except Exception:  # noqa
                        seen.append('-')
                        continue
                    seen.append('?')
                    ctx.violation('C16.names/removed-name-readable/%s' % key.split('_')[0], '%s=%s can be read %s although no file has this name' % (key, path, stage), rp)

    for key in keys:
        add(key, pool[key][0])
    log_edit()
    read_all('after-new')
    reopened = False
    for step in range(rng.randint(6, 14)):
        key = rng.choice(keys)
        have = [p for (k, p) in live if k == key]
        free = [p for p in pool[key] if (key, p) not in live]
        r = rng.random()
        desc = ''
        try:
            if r < 0.35 and have and free:
                old, newp = rng.choice(have), rng.choice(free)
                kw = {key.replace('_path', '_old_path'): old, key.replace('_path', '_new_path'): newp}
                if key == 'iso_path':
                    kw['rr_name'] = rrn[newp]
                desc = 'add_hard_link %r' % kw
                iso.add_hard_link(**kw)
                live[(key, newp)] = live[(key, old)]
            elif r < 0.7 and len(have) > 0:
                old = rng.choice(have)
                desc = 'rm_hard_link %s=%s' % (key, old)
                iso.rm_hard_link(**{key: old})
                del live[(key, old)]
            elif free:
                newp = rng.choice(free)
                desc = 'add_fp %s=%s' % (key, newp)
                add(key, newp)
            elif not reopened and rng.random() < 0.5:
                desc = 'write+reopen'
                path = os.path.join(tmpdir, 'n.iso')
                iso.write(path)
                iso.close()
                iso = pycdlib.PyCdlib()
                iso.open(path)
                reopened = True
        except Exception as e:  # noqa
            ctx.violation('C16.names/edit-raises', '%s raised %r' % (desc, e), rp)
            break
        log_edit()
        read_all('after %s (step %d)' % (desc, step))
    # correspondence with the cache model: with every edit clearing the caches, each read is what the name map says
    model = ctx.driver.ask(['cacherun ' + ' '.join(log)])[0]
    ctx.traces_validated += 1
    if model != ','.join(seen):
        first = [i for i, (a, b) in enumerate(zip(model.split(','), seen)) if a != b][:1]
        ctx.disagree('S-cache/run', 'reads through the lookup caches differ from the model with clearing edits (first at read %s): impl=%s model=%s' % (
            first, ','.join(seen)[:120], model[:120]), rp)
    try:
        iso.close()
    except Exception:  # noqa
        pass
    if os.path.exists(os.path.join(tmpdir, 'n.iso')):
        os.unlink(os.path.join(tmpdir, 'n.iso'))


def bootinfo_case(ctx, tmpdir):
    """files carrying an El Torito boot info table: extraction returns exactly the file's bytes (table patched into
    [8, 64) and cut at the end of the file), before and after mastering, for every block size"""
    import struct
    import pycdlib
    rng = ctx.rng
    n = rng.choice([5, 8, 9, 20, 40, 56, 63, 64, 65, 100, 2048, 3000])
    data = content(77, n)
    iso = pycdlib.PyCdlib()
    other_names = {'joliet_path': '/boot', 'udf_path': '/boot'} if rng.random() < 0.5 else {}
    iso.new(interchange_level=3, **({'joliet': 3, 'udf': '2.60'} if other_names else {}))
    iso.add_fp(io.BytesIO(content(78, 2500)), 2500, iso_path='/OTHER.;1')
    iso.add_fp(io.BytesIO(data), n, iso_path='/BOOT.;1', **other_names)
    iso.add_eltorito('/BOOT.;1', boot_info_table=True, boot_load_size=4)
    rp = {'kind': 'bootinfo', 'seed_case': ctx.case_seed}

    def check(obj, stage, raw):
        for bs in (1, 7, rng.choice([16, 55, 56, 57, 64]), 2048, 8192):
            out = io.BytesIO()
            try:
                obj.get_file_from_iso_fp(out, iso_path='/BOOT.;1', blocksize=bs)
            except Exception as e:  # noqa
                ctx.violation('C16.bootinfo/%s/raises' % stage, 'get_file_from_iso_fp of a boot-info-table file (%d bytes, %s) raised %r' % (n, stage, e), rp)
                return
            got = out.getvalue()
            ctx.count(key=('bootinfo', stage, n, bs), nontrivial=True, kind='bootinfo:' + stage)
            if len(got) != n:
                ctx.violation('C16.bootinfo/length', 'boot-info-table file of %d bytes extracts as %d bytes (%s, blocksize %d)' % (n, len(got), stage, bs), rp)
            elif got[:8] != data[:8] or got[64:] != data[64:]:
                ctx.violation('C16.bootinfo/content', 'bytes outside the boot info table differ (%d-byte file, %s, blocksize %d)' % (n, stage, bs), rp)
            elif raw is not None and got != raw:
                ctx.violation('C16.bootinfo/table', 'extracted bytes differ from the bytes recorded in the image (%d-byte file, blocksize %d)' % (n, bs), rp)
            elif n >= 24:
                pvd_ext, file_ext, ln = struct.unpack_from('<LLL', got, 8)
                if pvd_ext != 16 or ln != n:
                    ctx.violation('C16.bootinfo/table', 'boot info table says pvd %d, length %d for a %d-byte file (%s)' % (pvd_ext, ln, n, stage), rp)

    def stream_check(obj, stage):
        # the file-like object must show the same bytes as the extraction: whole, and in pieces around the table
        want = io.BytesIO()
        try:
            obj.get_file_from_iso_fp(want, iso_path='/BOOT.;1')
        except Exception:  # noqa (reported by check)
            return
        want = want.getvalue()
        # the same bytes under every name of the file
        for key, val in other_names.items():
            alt = io.BytesIO()
            try:
                obj.get_file_from_iso_fp(alt, **{key: val})
                with obj.open_file_from_iso(**{key: val}) as f2:
                    alt2 = f2.read()
            except Exception as e:  # noqa
                ctx.violation('C16.bootinfo/other-name-raises', 'reading a boot-info-table file by %s raised %r (%s)' % (key, e, stage), rp)
                continue
            if alt.getvalue() != want or alt2 != want:
                ctx.violation('C16.bootinfo/other-name-differs', 'a boot-info-table file (%d bytes, %s) reads differently by %s (%s) than by iso_path' % (
                    n, stage, key, 'extraction' if alt.getvalue() != want else 'stream'), rp)
        try:
            with obj.open_file_from_iso(iso_path='/BOOT.;1') as f:
                whole = f.read()
                f.seek(0)
                cut = rng.choice([1, 7, 8, 9, 20, 63, 64, 65])
                pieces = f.read(cut) + f.read(3) + f.read()
                f.seek(rng.choice([0, 5, 8, 10, 60, 64]))
                pos = f.tell()
                buf = bytearray(30)
                k = f.readinto(buf)
                part = bytes(buf[:k])
        except Exception as e:  # noqa
            ctx.violation('C16.bootinfo/stream-raises', 'open_file_from_iso of a boot-info-table file (%d bytes, %s) raised %r' % (n, stage, e), rp)
            return
        ctx.count(key=('bootinfo-stream', stage, n, cut, pos), nontrivial=True, kind='bootinfo-stream:' + stage)
        if whole != want or pieces != want or part != want[pos:pos + 30]:
            ctx.violation('C16.bootinfo/stream-differs', 'open_file_from_iso reads other bytes than get_file_from_iso_fp for a boot-info-table file (%d bytes, %s): %s' % (
                n, stage, 'whole' if whole != want else ('pieces' if pieces != want else 'readinto at %d' % pos)), rp)
    check(iso, 'unwritten', None)
    stream_check(iso, 'unwritten')
    path = os.path.join(tmpdir, 'b.iso')
    iso.write(path)
    check(iso, 'after-write', None)
    stream_check(iso, 'after-write')
    iso.close()
    iso2 = pycdlib.PyCdlib()
    iso2.open(path)
    rec = iso2.get_record(iso_path='/BOOT.;1')
    with open(path, 'rb') as f:
        f.seek(rec.extent_location() * 2048)
        raw = f.read(n)
    check(iso2, 'written', raw)
    stream_check(iso2, 'written')
    # an edit moves the boot file: both ways of reading must show the table of the new layout
    iso2.add_directory('/NEWDIR')
    check(iso2, 'reopened-edited', None)
    stream_check(iso2, 'reopened-edited')
    iso2.close()
    os.unlink(path)


class MarkSink:
    """a write-only sink for multi-GiB extractions: keeps only the bytes at the marked offsets"""
    def __init__(self, marks, width):
        self.pos, self.marks, self.width, self.seen, self.nonzero = 0, marks, width, {m: bytearray(width) for m in marks}, 0

    def write(self, b):
        n = len(b)
        for m in self.marks:
            lo, hi = max(m, self.pos), min(m + self.width, self.pos + n)
            if lo < hi:
                self.seen[m][lo - m:hi - m] = b[lo - self.pos:hi - self.pos]
        self.pos += n
        return n


def multiextent_case(ctx, tmpdir):
    """a file of more than 0xfffff800 bytes added by name (the library opens it itself): every extent must be read from
    its own offset.  The source is a sparse file with markers; nothing of that size is written."""
    import pycdlib
    size = 0xfffff800 + 5 * 2048 + 17
    marks = {0: b'HEAD-OF-FILE....', 0xfffff800 - 16: b'END-OF-EXTENT-1.', 0xfffff800: b'START-OF-EXTENT2', size - 16: b'TAIL-OF-THE-FILE'}
    src = os.path.join(tmpdir, 'big.bin')
    with open(src, 'wb') as f:
        f.truncate(size)
        for off, m in marks.items():
            f.seek(off)
            f.write(m)
    rp = {'kind': 'multiextent', 'seed_case': ctx.case_seed}
    iso = pycdlib.PyCdlib()
    try:
        iso.new(interchange_level=3)
        iso.add_file(src, iso_path='/BIG.;1')
        sink = MarkSink(sorted(marks), 16)
        iso.get_file_from_iso_fp(sink, iso_path='/BIG.;1', blocksize=8 * 1024 * 1024)
        ctx.count(key=('multiextent', size), nontrivial=True, kind='extract:multi-extent')
        if sink.pos != size:
            ctx.violation('C16.multiextent/length', 'extraction of a %d-byte two-extent file produced %d bytes' % (size, sink.pos), rp)
        for off, m in marks.items():
            if bytes(sink.seen[off]) != m:
                ctx.violation('C16.multiextent/content', 'offset %#x of a two-extent file reads %r, the file has %r' % (off, bytes(sink.seen[off]), m), rp)
                break
    finally:
        try:
            iso.close()
        except Exception:  # noqa
            pass
        os.unlink(src)


def copy_corr(ctx):
    from pycdlib import utils
    rng = ctx.rng
    reqs, impl = [], []
    for _ in range(200 if ctx.quick else 3000):
        n = rng.choice([0, 1, 5, 16, 33, 64])
        src = bytes(rng.randrange(256) for _ in range(n + rng.choice([0, 0, 3])))
        if rng.random() < 0.15 and n > 0:
            src = src[:rng.randrange(n)]          # short source: the loop must stop silently
        bs = rng.choice([1, 2, 3, 7, 16, 100])
        out = io.BytesIO()
        utils.copy_data(n, bs, io.BytesIO(src), out)
        reqs.append('copy %d %d %s' % (n, bs, core.hexs(src)))
        impl.append(core.hexs(out.getvalue()))
    model = ctx.driver.ask(reqs)
    for rq, a, b in zip(reqs, impl, model):
        ctx.count(key=rq, kind='copy')
        if a != b:
            ctx.disagree('S-fn/copy', '%s impl=%s model=%s' % (rq, a, b), {'kind': 'copy', 'request': rq})
    ctx.traces_validated += len(reqs)


def run(ctx):
    tmpdir = tempfile.mkdtemp(prefix='verif-c16-')
    try:
        n = 60 if ctx.quick else 1500
        for i in range(n):
            ctx.case_seed = ctx.rng.randrange(2 ** 62)
            sub = type(ctx.rng)(ctx.case_seed)
            saved, ctx.rng = ctx.rng, sub
            try:
                one_case(ctx, tmpdir)
            finally:
                ctx.rng = saved
            if ctx.time_left() < 30:
                break
        for i in range(15 if ctx.quick else 300):
            ctx.case_seed = ctx.rng.randrange(2 ** 62)
            sub = type(ctx.rng)(ctx.case_seed)
            saved, ctx.rng = ctx.rng, sub
            try:
                extraction_case(ctx, tmpdir)
            finally:
                ctx.rng = saved
        for i in range(14 if ctx.quick else 120):
            ctx.case_seed = ctx.rng.randrange(2 ** 62)
            sub = type(ctx.rng)(ctx.case_seed)
            saved, ctx.rng = ctx.rng, sub
            try:
                bootinfo_case(ctx, tmpdir)
            finally:
                ctx.rng = saved
        for i in range(25 if ctx.quick else 600):
            ctx.case_seed = ctx.rng.randrange(2 ** 62)
            sub = type(ctx.rng)(ctx.case_seed)
            saved, ctx.rng = ctx.rng, sub
            try:
                names_case(ctx, tmpdir)
            finally:
                ctx.rng = saved
        ctx.case_seed = 0
        multiextent_case(ctx, tmpdir)
        copy_corr(ctx)
    finally:
        shutil.rmtree(tmpdir, ignore_errors=True)


def replay(ctx, obj):
    import random
    r = obj.get('replay', obj)
    tmpdir = tempfile.mkdtemp(prefix='verif-c16-')
    try:
        ctx.case_seed = r['seed_case']
        ctx.rng = random.Random(ctx.case_seed)
        if r.get('kind') == 'stream':
            one_case(ctx, tmpdir)
        elif r.get('kind') == 'bootinfo':
            bootinfo_case(ctx, tmpdir)
        elif r.get('kind') == 'names':
            names_case(ctx, tmpdir)
        elif r.get('kind') == 'multiextent':
            multiextent_case(ctx, tmpdir)
        else:
            extraction_case(ctx, tmpdir)
    finally:
        shutil.rmtree(tmpdir, ignore_errors=True)
    for v in ctx.violations:
        core.log('violation:', v['signature'], v['summary'])
    for d in ctx.disagreements:
        core.log('disagreement:', d['summary'])
    return [v['signature'] for v in ctx.violations] + ['disagreement' for _ in ctx.disagreements]
