"""
py2lean — the translator half of the model/source tie (DESIGN.md 4.1).

Reads /repo's *current* source with `ast` and writes lean/Pycdlib/Generated/*.lean:
  * constants and tables (evaluated from their defining expressions, restricted to literals, range,
    tuple/set/ord arithmetic),
  * the arithmetic kernel: loop-free integer functions translated statement by statement into Lean
    (`translate_function`), for the functions listed in KERNEL.
Pycdlib/Proofs/Tie*.lean then *prove* that every generated definition equals the hand-written model
definition the property theorems are about, so a changed constant, table entry, comparison or rounding
direction in /repo breaks a proof obligation (not a sample).

A generated file is rewritten only when its text changes (keeps lake's incremental build a no-op).
"""
import ast
import os
import struct


class Unsupported(Exception):
    pass


def _read(repo, rel):
    with open(os.path.join(repo, rel)) as f:
        return f.read()


def _module_assign(tree, name):
    for node in tree.body:
        if isinstance(node, ast.Assign) and len(node.targets) == 1 and isinstance(node.targets[0], ast.Name) \
                and node.targets[0].id == name:
            return node.value
    raise Unsupported('module constant %s not found' % name)


def _find_func(tree, qual):
    parts = qual.split('.')
    body = tree.body
    node = None
    for p in parts:
        for n in body:
            if isinstance(n, (ast.FunctionDef, ast.ClassDef)) and n.name == p:
                node = n
                body = n.body
                break
        else:
            raise Unsupported('%s not found' % qual)
    return node


_SAFE = {'range': range, 'tuple': tuple, 'set': set, 'ord': ord, 'len': len, 'list': list, 'sorted': sorted,
         'frozenset': frozenset, 'bytes': bytes}


def safe_eval(expr_node):
    """Evaluate a constant expression made of literals and a few pure builtins."""
    for n in ast.walk(expr_node):
        if isinstance(n, ast.Call):
            if not (isinstance(n.func, ast.Name) and n.func.id in _SAFE):
                raise Unsupported('call in constant: %s' % ast.dump(n.func))
        elif isinstance(n, ast.Name):
            if n.id not in _SAFE:
                raise Unsupported('name in constant: %s' % n.id)
        elif isinstance(n, (ast.Attribute, ast.Lambda, ast.Subscript)) and not isinstance(n, ast.Subscript):
            raise Unsupported('construct in constant: %s' % type(n).__name__)
    return eval(compile(ast.Expression(expr_node), '<const>', 'eval'), {'__builtins__': {}}, dict(_SAFE))


def lean_nat_list(name, vals, per_line=12, doc=None):
    out = []
    if doc:
        out.append('/-- %s -/' % doc)
    out.append('def %s : List Nat := [' % name)
    vals = list(vals)
    for i in range(0, len(vals), per_line):
        out.append('  ' + ', '.join(str(v) for v in vals[i:i + per_line]) + (',' if i + per_line < len(vals) else ''))
    out.append(']')
    return '\n'.join(out) + '\n'


# --------------------------------------------------------------------------- function translator

class FnTranslator:
    """
    Translate a loop-free Python function over ints into a Lean `def` over `Int`.
    Supported: assignment, augmented assignment, if/elif/else, return, int literals, names, + - * // %,
    comparisons, and/or/not, min/max, << >> & |, calls to other translated functions (by mapping).
    Statements are compiled in continuation style so that variables may be re-assigned in branches.
    """

    def __init__(self, calls=None, consts=None):
        self.calls = calls or {}
        self.consts = consts or {}

    def expr(self, e):
        if isinstance(e, ast.Constant):
            if isinstance(e.value, bool):
                return 'true' if e.value else 'false'
            if isinstance(e.value, int):
                return '(%d : Int)' % e.value
            raise Unsupported('constant %r' % (e.value,))
        if isinstance(e, ast.Name):
            if e.id in self.consts:
                return '(%d : Int)' % self.consts[e.id]
            return e.id
        if isinstance(e, ast.UnaryOp):
            if isinstance(e.op, ast.USub):
                return '(-%s)' % self.expr(e.operand)
            if isinstance(e.op, ast.Not):
                return '(!%s)' % self.bexpr(e.operand)
        if isinstance(e, ast.BinOp):
            ops = {ast.Add: '+', ast.Sub: '-', ast.Mult: '*', ast.FloorDiv: '/', ast.Mod: '%'}
            for k, v in ops.items():
                if isinstance(e.op, k):
                    # Python // and % are floor division; Lean Int `/` and `%` are T-rounding by default,
                    # so use Int.fdiv / Int.fmod explicitly.
                    if v == '/':
                        return '(Int.fdiv %s %s)' % (self.expr(e.left), self.expr(e.right))
                    if v == '%':
                        return '(Int.fmod %s %s)' % (self.expr(e.left), self.expr(e.right))
                    return '(%s %s %s)' % (self.expr(e.left), v, self.expr(e.right))
            if isinstance(e.op, ast.LShift) and isinstance(e.right, ast.Constant):
                return '(%s * %d)' % (self.expr(e.left), 1 << e.right.value)
            if isinstance(e.op, ast.RShift) and isinstance(e.right, ast.Constant):
                return '(Int.fdiv %s %d)' % (self.expr(e.left), 1 << e.right.value)
            if isinstance(e.op, ast.BitAnd) and isinstance(e.right, ast.Constant) and \
                    (e.right.value + 1) & e.right.value == 0:
                return '(Int.fmod %s %d)' % (self.expr(e.left), e.right.value + 1)
            raise Unsupported('binop %s' % type(e.op).__name__)
        if isinstance(e, ast.Call) and isinstance(e.func, ast.Name) and e.func.id in ('min', 'max') and len(e.args) == 2:
            return '(%s %s %s)' % (e.func.id, self.expr(e.args[0]), self.expr(e.args[1]))
        if isinstance(e, ast.Call):
            key = ast.unparse(e.func)
            if key in self.calls:
                return '(%s %s)' % (self.calls[key], ' '.join(self.expr(a) for a in e.args))
            raise Unsupported('call %s' % key)
        if isinstance(e, ast.IfExp):
            return '(if %s then %s else %s)' % (self.bexpr(e.test), self.expr(e.body), self.expr(e.orelse))
        raise Unsupported('expr %s' % ast.dump(e)[:80])

    def bexpr(self, e):
        if isinstance(e, ast.Compare) and len(e.ops) == 1:
            ops = {ast.Lt: '<', ast.LtE: '≤', ast.Gt: '>', ast.GtE: '≥', ast.Eq: '==', ast.NotEq: '!='}
            for k, v in ops.items():
                if isinstance(e.ops[0], k):
                    l, r = self.expr(e.left), self.expr(e.comparators[0])
                    if v in ('==', '!='):
                        return '(%s %s %s)' % (l, v, r)
                    return '(decide (%s %s %s))' % (l, v, r)
        if isinstance(e, ast.BoolOp):
            op = ' && ' if isinstance(e.op, ast.And) else ' || '
            return '(' + op.join(self.bexpr(v) for v in e.values) + ')'
        if isinstance(e, ast.UnaryOp) and isinstance(e.op, ast.Not):
            return '(!%s)' % self.bexpr(e.operand)
        if isinstance(e, ast.Constant) and isinstance(e.value, bool):
            return 'true' if e.value else 'false'
        if isinstance(e, ast.Name):     # truthiness of an int
            return '(%s != 0)' % e.id
        raise Unsupported('bool expr %s' % ast.dump(e)[:80])

    def block(self, stmts, cont, ind):
        """Compile statements; `cont` is Lean text to continue with (or None if the block must return)."""
        pad = '  ' * ind
        if not stmts:
            if cont is None:
                raise Unsupported('fall off the end without return')
            return pad + cont
        s, rest = stmts[0], stmts[1:]
        if isinstance(s, ast.Expr) and isinstance(s.value, ast.Constant) and isinstance(s.value.value, str):
            return self.block(rest, cont, ind)       # docstring
        if isinstance(s, ast.Return):
            return pad + self.expr(s.value)
        if isinstance(s, ast.Assign) and len(s.targets) == 1 and isinstance(s.targets[0], ast.Name):
            return pad + 'let %s := %s\n' % (s.targets[0].id, self.expr(s.value)) + self.block(rest, cont, ind)
        if isinstance(s, ast.AugAssign) and isinstance(s.target, ast.Name):
            e = ast.BinOp(left=ast.Name(id=s.target.id, ctx=ast.Load()), op=s.op, right=s.value)
            return pad + 'let %s := %s\n' % (s.target.id, self.expr(e)) + self.block(rest, cont, ind)
        if isinstance(s, ast.If):
            # variables assigned in either branch are threaded through a tuple
            assigned = sorted({t.id for b in (s.body, s.orelse) for n in b for t in _assigned(n)})
            returns_body = _always_returns(s.body)
            returns_else = _always_returns(s.orelse) if s.orelse else False
            if returns_body and returns_else:
                return (pad + 'if %s then\n' % self.bexpr(s.test) + self.block(s.body, None, ind + 1) + '\n' +
                        pad + 'else\n' + self.block(s.orelse, None, ind + 1))
            if returns_body and not s.orelse:
                return (pad + 'if %s then\n' % self.bexpr(s.test) + self.block(s.body, None, ind + 1) + '\n' +
                        pad + 'else\n' + self.block(rest, cont, ind + 1))
            if _has_return(s.body) or _has_return(s.orelse):
                raise Unsupported('return in only part of a branch')
            tup = '(' + ', '.join(assigned) + ')' if len(assigned) != 1 else assigned[0]
            if not assigned:
                return self.block(rest, cont, ind)
            body = self.block(s.body, tup, ind + 2)
            orelse = self.block(s.orelse, tup, ind + 2) if s.orelse else '  ' * (ind + 2) + tup
            return (pad + 'let %s :=\n' % tup + pad + '  if %s then\n' % self.bexpr(s.test) + body + '\n' +
                    pad + '  else\n' + orelse + '\n' + self.block(rest, cont, ind))
        if isinstance(s, ast.Raise):
            raise Unsupported('raise')
        raise Unsupported('statement %s' % type(s).__name__)

    def function(self, fn, lean_name, params=None, drop_self=True):
        args = [a.arg for a in fn.args.args]
        if drop_self and args and args[0] in ('self', 'cls'):
            args = args[1:]
        if params is not None:
            args = params
        body = self.block(fn.body, None, 1)
        return 'def %s %s : Int :=\n%s\n' % (lean_name, ' '.join('(%s : Int)' % a for a in args), body)


def _assigned(node):
    out = []
    for n in ast.walk(node):
        if isinstance(n, ast.Assign):
            out += [t for t in n.targets if isinstance(t, ast.Name)]
        elif isinstance(n, ast.AugAssign) and isinstance(n.target, ast.Name):
            out.append(n.target)
    return out


def _has_return(stmts):
    return any(isinstance(n, ast.Return) for s in stmts for n in ast.walk(s))


def _always_returns(stmts):
    if not stmts:
        return False
    last = stmts[-1]
    if isinstance(last, ast.Return):
        return True
    if isinstance(last, ast.If):
        return _always_returns(last.body) and bool(last.orelse) and _always_returns(last.orelse)
    return False


# --------------------------------------------------------------------------- generation

HEADER = '/- GENERATED by harness/py2lean.py from %s on every run — do not edit. -/\nnamespace Pycdlib.Generated\n\n'
FOOTER = '\nend Pycdlib.Generated\n'


def _emit(outdir, fname, text, info):
    os.makedirs(outdir, exist_ok=True)
    path = os.path.join(outdir, fname)
    old = open(path).read() if os.path.exists(path) else None
    if old != text:
        with open(path, 'w') as f:
            f.write(text)
    info['files'][fname] = 'rewritten' if old != text else 'unchanged'


def gen_names(repo, info):
    tree = ast.parse(_read(repo, 'pycdlib/pycdlib.py'))
    out = HEADER % 'pycdlib/pycdlib.py'
    try:
        d1 = sorted(safe_eval(_module_assign(tree, '_allowed_d1_characters')))
        out += lean_nat_list('allowedD1', d1, doc='`_allowed_d1_characters` (pycdlib.py:57), sorted')
    except Unsupported as e:
        info['unsupported'].append('allowedD1: %s' % e)
        out += 'def allowedD1 : List Nat := []\n'
    return out + FOOTER


GENERATORS = [('Names.lean', gen_names)]


def generate(repo, outdir):
    info = {'files': {}, 'unsupported': []}
    for fname, fn in GENERATORS:
        try:
            text = fn(repo, info)
        except (Unsupported, SyntaxError, KeyError, ValueError) as e:
            info['unsupported'].append('%s: %r' % (fname, e))
            # never leave a stale file behind: an empty module makes the tie lemmas fail to elaborate
            text = (HEADER % 'n/a') + '-- generation failed: %r\n' % (e,) + FOOTER
        _emit(outdir, fname, text, info)
    return info


if __name__ == '__main__':
    import json
    import sys
    here = os.path.dirname(os.path.dirname(os.path.abspath(__file__)))
    print(json.dumps(generate(sys.argv[1] if len(sys.argv) > 1 else '/repo',
                              os.path.join(here, 'lean', 'Pycdlib', 'Generated')), indent=1))
