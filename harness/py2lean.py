"""
py2lean — the translator half of the model/source tie (DESIGN.md 4.1).

Reads /repo's *current* source with `ast` and writes lean/Pycdlib/Generated/*.lean:
  * constants and tables (evaluated from their defining expressions, restricted to literals, range,
    tuple/set/ord arithmetic; struct format sizes via struct.calcsize),
  * the arithmetic kernel: integer functions translated statement by statement into Lean over `Int`
    (assignment, augmented assignment, if/elif/else, return, tuple return, + - * // %, comparisons, and/or/not,
    min/max, << >> & | ^, table lookup, `for x in data` / `for i, x in enumerate(data)` folds, calls to other
    translated functions, reads of `self.attr` / `param.attr` turned into parameters; methods that update
    `self.attr` in state-passing form: listed attributes in, (attributes..., result) out, True/False as 1/0,
    `raise` as result -1).
    Python semantics of the operators on Int are fixed once, in lean/Pycdlib/Model/PyOps.lean.
Pycdlib/Props/Tie.lean then *proves* that every generated definition equals the hand-written model
definition the property theorems are about, so a changed constant, table entry, comparison or rounding
direction in /repo breaks a proof obligation (not a sample).

A generated file is rewritten only when its text changes (keeps lake's incremental build a no-op).
Anything outside the subset raises Unsupported: the generated module then lacks that definition and the tie
lemma fails to elaborate — a stale definition is never left behind.
"""
import ast
import os
import struct


class Unsupported(Exception):
    pass


def _read(repo, rel):
    with open(os.path.join(repo, rel)) as f:
        return f.read()


def _module_assign(tree, name):
    for node in tree.body:
        if isinstance(node, ast.Assign) and len(node.targets) == 1 and isinstance(node.targets[0], ast.Name) \
                and node.targets[0].id == name:
            return node.value
    raise Unsupported('module constant %s not found' % name)


def _find(tree, qual):
    body = tree.body
    node = None
    for p in qual.split('.'):
        for n in body:
            if isinstance(n, (ast.FunctionDef, ast.ClassDef)) and n.name == p:
                node = n
                body = n.body
                break
        else:
            raise Unsupported('%s not found' % qual)
    return node


def _class_const(tree, cls, name):
    c = _find(tree, cls)
    for n in c.body:
        if isinstance(n, ast.Assign) and len(n.targets) == 1 and isinstance(n.targets[0], ast.Name) and n.targets[0].id == name:
            return safe_eval(n.value)
    raise Unsupported('%s.%s not found' % (cls, name))


_SAFE = {'range': range, 'tuple': tuple, 'set': set, 'ord': ord, 'len': len, 'list': list, 'sorted': sorted,
         'frozenset': frozenset, 'bytes': bytes}


def safe_eval(expr_node):
    """Evaluate a constant expression made of literals and a few pure builtins."""
    for n in ast.walk(expr_node):
        if isinstance(n, ast.Call):
            if not (isinstance(n.func, ast.Name) and n.func.id in _SAFE):
                raise Unsupported('call in constant: %s' % ast.dump(n.func))
        elif isinstance(n, ast.Name):
            if n.id not in _SAFE:
                raise Unsupported('name in constant: %s' % n.id)
        elif isinstance(n, (ast.Attribute, ast.Lambda)):
            raise Unsupported('construct in constant: %s' % type(n).__name__)
    return eval(compile(ast.Expression(expr_node), '<const>', 'eval'), {'__builtins__': {}}, dict(_SAFE))


def lean_nat_list(name, vals, per_line=10, doc=None):
    out = []
    if doc:
        out.append('/-- %s -/' % doc)
    out.append('def %s : List Nat := [' % name)
    vals = list(vals)
    for i in range(0, len(vals), per_line):
        out.append('  ' + ', '.join(str(v) for v in vals[i:i + per_line]) + (',' if i + per_line < len(vals) else ''))
    out.append(']')
    return '\n'.join(out) + '\n'


# --------------------------------------------------------------------------- function translator

class Fn:
    """Translate one Python function into a Lean `def` over Int (see module docstring for the subset)."""

    def __init__(self, tree, qual, lean_name, calls=None, tables=None, cls=None, fmt_sizes=None, opaque=(), state=()):
        self.tree, self.qual, self.lean_name = tree, qual, lean_name
        # state-passing mode for methods that update `self.<attr>`: the listed attributes become leading parameters and
        # the result is the tuple (attributes..., returned value); True/False are 1/0, falling off the end returns 0,
        # `raise` returns -1 with the attributes as they are at that point
        self.state = list(state)
        self.calls = calls or {}          # python call text -> lean function name
        self.tables = tables or {}        # python name -> lean List Nat name
        self.cls = cls
        self.fmt_sizes = fmt_sizes or {}  # 'cls.FMT' / 'self.FMT' -> int
        self.opaque = set(opaque)         # names of opaque objects whose attributes become parameters
        self.params = []
        self.attr_params = []

    # ---- expressions
    def attr_param(self, e):
        base = e.value.id
        nm = e.attr if base in ('self', 'cls') else '%s_%s' % (base, e.attr)
        if nm not in self.attr_params:
            self.attr_params.append(nm)
        return nm

    def expr(self, e):
        if isinstance(e, ast.Constant):
            if isinstance(e.value, bool):
                if self.state:
                    return '(%d : Int)' % int(e.value)
                raise Unsupported('bool constant in int context')
            if isinstance(e.value, int):
                return '(%d : Int)' % e.value
            raise Unsupported('constant %r' % (e.value,))
        if isinstance(e, ast.Name):
            return e.id
        if isinstance(e, ast.Attribute) and isinstance(e.value, ast.Name):
            return self.attr_param(e)
        if isinstance(e, ast.UnaryOp) and isinstance(e.op, ast.USub):
            return '(-%s)' % self.expr(e.operand)
        if isinstance(e, ast.BinOp):
            l, r = self.expr(e.left), self.expr(e.right)
            if isinstance(e.op, ast.Add):
                return '(%s + %s)' % (l, r)
            if isinstance(e.op, ast.Sub):
                return '(%s - %s)' % (l, r)
            if isinstance(e.op, ast.Mult):
                return '(%s * %s)' % (l, r)
            if isinstance(e.op, ast.FloorDiv):
                return '(pyFloorDiv %s %s)' % (l, r)
            if isinstance(e.op, ast.Mod):
                return '(pyMod %s %s)' % (l, r)
            if isinstance(e.op, ast.LShift):
                return '(pyShl %s %s)' % (l, r)
            if isinstance(e.op, ast.RShift):
                return '(pyShr %s %s)' % (l, r)
            if isinstance(e.op, ast.BitAnd):
                return '(pyAnd %s %s)' % (l, r)
            if isinstance(e.op, ast.BitOr):
                return '(pyOr %s %s)' % (l, r)
            if isinstance(e.op, ast.BitXor):
                return '(pyXor %s %s)' % (l, r)
            raise Unsupported('binop %s' % type(e.op).__name__)
        if isinstance(e, ast.Subscript) and isinstance(e.value, ast.Name) and e.value.id in self.tables:
            return '(pyIndex %s %s)' % (self.tables[e.value.id], self.expr(e.slice))
        if isinstance(e, ast.Call):
            key = ast.unparse(e.func)
            if key in ('min', 'max') and len(e.args) == 2:
                return '(%s %s %s)' % (key, self.expr(e.args[0]), self.expr(e.args[1]))
            if key == 'struct.calcsize' and len(e.args) == 1:
                k = ast.unparse(e.args[0])
                if k in self.fmt_sizes:
                    return '(%d : Int)' % self.fmt_sizes[k]
                raise Unsupported('calcsize of %s' % k)
            if key in ('myord', 'int') and len(e.args) == 1:
                return self.expr(e.args[0])
            if key == 'len' and len(e.args) == 1 and isinstance(e.args[0], ast.Name):
                return '(%s.length : Int)' % e.args[0].id
            if key in self.calls:
                return '(%s %s)' % (self.calls[key], ' '.join(self.expr(a) for a in e.args))
            raise Unsupported('call %s' % key)
        if isinstance(e, ast.IfExp):
            return '(if %s then %s else %s)' % (self.bexpr(e.test), self.expr(e.body), self.expr(e.orelse))
        if isinstance(e, ast.Tuple):
            return '(' + ', '.join(self.expr(x) for x in e.elts) + ')'
        raise Unsupported('expr %s' % ast.dump(e)[:80])

    def bexpr(self, e):
        if isinstance(e, ast.Compare) and len(e.ops) == 1:
            ops = {ast.Lt: '<', ast.LtE: '≤', ast.Gt: '>', ast.GtE: '≥', ast.Eq: '=', ast.NotEq: '≠'}
            for k, v in ops.items():
                if isinstance(e.ops[0], k):
                    return '(decide (%s %s %s))' % (self.expr(e.left), v, self.expr(e.comparators[0]))
        if isinstance(e, ast.BoolOp):
            op = ' && ' if isinstance(e.op, ast.And) else ' || '
            return '(' + op.join(self.bexpr(v) for v in e.values) + ')'
        if isinstance(e, ast.UnaryOp) and isinstance(e.op, ast.Not):
            return '(!%s)' % self.bexpr(e.operand)
        # truthiness of an int expression
        return '(decide (%s ≠ 0))' % self.expr(e)

    # ---- statements (continuation style; `vars_` is the tuple of live state variables for fold bodies)
    def block(self, stmts, cont, ind):
        pad = '  ' * ind
        if not stmts:
            if cont is None:
                if self.state:
                    return pad + self.result('(0 : Int)')
                raise Unsupported('fall off the end without return')
            return pad + cont
        s, rest = stmts[0], stmts[1:]
        if isinstance(s, ast.Expr) and isinstance(s.value, ast.Constant) and isinstance(s.value.value, str):
            return self.block(rest, cont, ind)
        if isinstance(s, ast.Return):
            if self.state:
                return pad + self.result(self.expr(s.value) if s.value is not None else '(0 : Int)')
            return pad + self.expr(s.value)
        if isinstance(s, ast.Assign) and len(s.targets) == 1 and isinstance(s.targets[0], ast.Name):
            if isinstance(s.value, ast.Call) and ast.unparse(s.value.func) in ('time.gmtime', 'time.localtime'):
                self.opaque.add(s.targets[0].id)        # opaque environment object: its fields are parameters
                return self.block(rest, cont, ind)
            return pad + 'let %s := %s\n' % (s.targets[0].id, self.expr(s.value)) + self.block(rest, cont, ind)
        if isinstance(s, ast.AugAssign) and isinstance(s.target, ast.Name):
            e = ast.BinOp(left=ast.Name(id=s.target.id, ctx=ast.Load()), op=s.op, right=s.value)
            return pad + 'let %s := %s\n' % (s.target.id, self.expr(e)) + self.block(rest, cont, ind)
        if isinstance(s, ast.If):
            t = ast.unparse(s.test)
            if 'isinstance(' in t or t in ('not self._initialized', 'self._initialized'):
                if all(isinstance(x, (ast.Raise, ast.Assign)) for x in s.body + s.orelse):
                    return self.block(rest, cont, ind)      # initialisation guards / py2-py3 shims
            assigned = sorted({t_.id for b in (s.body, s.orelse) for n in b for t_ in _assigned(n)})
            rb = _always_returns(s.body)
            re_ = _always_returns(s.orelse) if s.orelse else False
            if rb and re_:
                return (pad + 'if %s then\n' % self.bexpr(s.test) + self.block(s.body, None, ind + 1) + '\n' +
                        pad + 'else\n' + self.block(s.orelse, None, ind + 1))
            if rb and not s.orelse:
                return (pad + 'if %s then\n' % self.bexpr(s.test) + self.block(s.body, None, ind + 1) + '\n' +
                        pad + 'else\n' + self.block(rest, cont, ind + 1))
            if _has_return(s.body) or _has_return(s.orelse):
                raise Unsupported('return in only part of a branch')
            if not assigned:
                return self.block(rest, cont, ind)
            tup = '(' + ', '.join(assigned) + ')' if len(assigned) != 1 else assigned[0]
            body = self.block(s.body, tup, ind + 2)
            orelse = self.block(s.orelse, tup, ind + 2) if s.orelse else '  ' * (ind + 2) + tup
            return (pad + 'let %s :=\n' % tup + pad + '  if %s then\n' % self.bexpr(s.test) + body + '\n' +
                    pad + '  else\n' + orelse + '\n' + self.block(rest, cont, ind))
        if isinstance(s, ast.For):
            return self.for_fold(s, rest, cont, ind)
        if isinstance(s, ast.Raise):
            if self.state and cont is None:
                return pad + self.result('(-1 : Int)')
            raise Unsupported('raise')
        raise Unsupported('statement %s' % type(s).__name__)

    def for_fold(self, s, rest, cont, ind):
        pad = '  ' * ind
        if s.orelse:
            raise Unsupported('for-else')
        it = s.iter
        if isinstance(it, ast.Name) and isinstance(s.target, ast.Name):
            seq, pat = it.id, s.target.id
        elif isinstance(it, ast.Call) and ast.unparse(it.func) == 'enumerate' and isinstance(s.target, ast.Tuple) \
                and len(s.target.elts) == 2 and isinstance(it.args[0], ast.Name):
            seq = '(pyEnumerate %s)' % it.args[0].id
            pat = '(%s, %s)' % (s.target.elts[0].id, s.target.elts[1].id)
        else:
            raise Unsupported('for over %s' % ast.unparse(it))
        loop_targets = {n.id for n in ast.walk(s.target) if isinstance(n, ast.Name)}
        assigned = [t.id for n in s.body for t in _assigned(n)]
        # state = variables assigned in the body that already exist before the loop (read-before-write in body)
        state = []
        for v in assigned:
            if v not in state and v not in loop_targets and _read_before_write(s.body, v):
                state.append(v)
        if not state:
            raise Unsupported('loop without carried state')
        tup = '(' + ', '.join(state) + ')' if len(state) != 1 else state[0]
        body = self.block(s.body, tup, ind + 2)
        return (pad + 'let %s := %s.foldl (fun %s %s =>\n' % (tup, seq, tup if len(state) == 1 else 'st__', pat) +
                (pad + '    let %s := st__\n' % tup if len(state) != 1 else '') +
                body + ') %s\n' % tup + self.block(rest, cont, ind))

    def result(self, value):
        return '(' + ', '.join(self.state + [value]) + ')'

    def translate(self, ret='Int', seq_params=()):
        fn = _find(self.tree, self.qual)
        args = [a.arg for a in fn.args.args if a.arg not in ('self', 'cls')]
        if self.state:
            state = set(self.state)

            class SelfToLocal(ast.NodeTransformer):
                def visit_Attribute(self_, node):     # noqa: N805
                    if isinstance(node.value, ast.Name) and node.value.id == 'self' and node.attr in state:
                        return ast.copy_location(ast.Name(id=node.attr, ctx=node.ctx), node)
                    return self_.generic_visit(node)
            fn = SelfToLocal().visit(ast.parse(ast.unparse(fn)).body[0])
            ast.fix_missing_locations(fn)
            args = self.state + args
            ret = ' × '.join(['Int'] * (len(self.state) + 1))
        body = self.block(fn.body, None, 1)
        args = [a for a in args if a not in self.opaque]
        sig = ' '.join('(%s : %s)' % (a, 'List Int' if a in seq_params else 'Int') for a in args + self.attr_params)
        self.params = args + self.attr_params
        return 'def %s %s : %s :=\n%s\n' % (self.lean_name, sig, ret, body)


def _assigned(node):
    out = []
    for n in ast.walk(node):
        if isinstance(n, ast.Assign):
            out += [t for t in n.targets if isinstance(t, ast.Name)]
        elif isinstance(n, ast.AugAssign) and isinstance(n.target, ast.Name):
            out.append(n.target)
    return out


def _read_before_write(stmts, var):
    """Is `var` read in the loop body before (or in the same statement as) its first write?"""
    for s in stmts:
        reads = {n.id for n in ast.walk(s) if isinstance(n, ast.Name) and isinstance(n.ctx, ast.Load)}
        if isinstance(s, ast.AugAssign) and isinstance(s.target, ast.Name) and s.target.id == var:
            return True
        if var in reads:
            return True
        if any(t.id == var for t in _assigned(s)):
            return False
    return False


def _has_return(stmts):
    return any(isinstance(n, ast.Return) for s in stmts for n in ast.walk(s))


def _always_returns(stmts):
    if not stmts:
        return False
    last = stmts[-1]
    if isinstance(last, (ast.Return, ast.Raise)):
        return True
    if isinstance(last, ast.If):
        return _always_returns(last.body) and bool(last.orelse) and _always_returns(last.orelse)
    return False


# --------------------------------------------------------------------------- generation

HEADER = ('/- GENERATED by harness/py2lean.py from %s on every run — do not edit. -/\n'
          'import Pycdlib.Model.PyOps\nnamespace Pycdlib.Generated\nopen Pycdlib.PyOps\n\n')
FOOTER = '\nend Pycdlib.Generated\n'


def _emit(outdir, fname, text, info):
    os.makedirs(outdir, exist_ok=True)
    path = os.path.join(outdir, fname)
    old = open(path).read() if os.path.exists(path) else None
    if old != text:
        with open(path, 'w') as f:
            f.write(text)
    info['files'][fname] = 'rewritten' if old != text else 'unchanged'


def _try(info, label, thunk):
    try:
        return thunk()
    except (Unsupported, SyntaxError, KeyError, ValueError, AttributeError, IndexError, TypeError) as e:
        info['unsupported'].append('%s: %s' % (label, e))
        return '-- %s could not be translated: %s\n' % (label, str(e).replace('\n', ' ')[:200])


def gen_names(repo, info):
    tree = ast.parse(_read(repo, 'pycdlib/pycdlib.py'))
    out = HEADER % 'pycdlib/pycdlib.py'
    out += _try(info, 'allowedD1', lambda: lean_nat_list(
        'allowedD1', sorted(safe_eval(_module_assign(tree, '_allowed_d1_characters'))),
        doc='`_allowed_d1_characters` (pycdlib.py), sorted'))
    return out + FOOTER


def gen_checksum(repo, info):
    udf = ast.parse(_read(repo, 'pycdlib/udf.py'))
    hyb = ast.parse(_read(repo, 'pycdlib/isohybrid.py'))
    elt = ast.parse(_read(repo, 'pycdlib/eltorito.py'))
    out = HEADER % 'pycdlib/udf.py, pycdlib/isohybrid.py, pycdlib/eltorito.py'
    out += _try(info, 'crc_ccitt_table', lambda: lean_nat_list('crc_ccitt_table', safe_eval(_module_assign(udf, 'crc_ccitt_table')),
                                                               doc='udf.py `crc_ccitt_table`'))
    out += '\n' + _try(info, 'crc32_table', lambda: lean_nat_list('crc32_table', safe_eval(_module_assign(hyb, 'crc32_table')),
                                                                  doc='isohybrid.py `crc32_table`'))
    out += '\n' + _try(info, 'crc_ccitt', lambda: Fn(udf, 'crc_ccitt', 'crc_ccitt', tables={'crc_ccitt_table': 'crc_ccitt_table'}).translate(seq_params=('data',)))
    out += '\n' + _try(info, 'crc32', lambda: Fn(hyb, 'crc32', 'crc32', tables={'crc32_table': 'crc32_table'}).translate(seq_params=('data',)))
    out += '\n' + _try(info, 'eltorito_checksum', lambda: Fn(elt, 'EltoritoValidationEntry._checksum', 'eltorito_checksum').translate(seq_params=('data',)))
    return out + FOOTER


def gen_kernel(repo, info):
    utils = ast.parse(_read(repo, 'pycdlib/utils.py'))
    ptr = ast.parse(_read(repo, 'pycdlib/path_table_record.py'))
    udf = ast.parse(_read(repo, 'pycdlib/udf.py'))
    hyb = ast.parse(_read(repo, 'pycdlib/isohybrid.py'))
    out = HEADER % 'pycdlib/utils.py, path_table_record.py, udf.py, isohybrid.py'
    out += _try(info, 'ceiling_div', lambda: Fn(utils, 'ceiling_div', 'ceiling_div').translate())
    out += '\n' + _try(info, 'gmtoffset_from_tm', lambda: Fn(utils, 'gmtoffset_from_tm', 'gmtoffset_from_tm', opaque=('tm', 'localtime')).translate())

    def ptr_len():
        size = struct.calcsize(_class_const(ptr, 'PathTableRecord', 'FMT'))
        return Fn(ptr, 'PathTableRecord.record_length', 'ptr_record_length', fmt_sizes={'cls.FMT': size}).translate()
    out += '\n' + _try(info, 'ptr_record_length', ptr_len)

    def fid_len():
        size = struct.calcsize(_class_const(udf, 'UDFFileIdentifierDescriptor', 'FMT'))
        a = Fn(udf, 'UDFFileIdentifierDescriptor.pad', 'fid_pad').translate()
        b = Fn(udf, 'UDFFileIdentifierDescriptor.length', 'fid_length', fmt_sizes={'cls.FMT': size},
               calls={'UDFFileIdentifierDescriptor.pad': 'fid_pad'}).translate()
        return a + '\n' + b
    out += '\n' + _try(info, 'fid_length', fid_len)
    out += '\n' + _try(info, 'calc_cc', lambda: Fn(hyb, 'IsoHybrid._calc_cc', 'calc_cc').translate(ret='Int × Int'))
    # volume descriptor accounting (headervd.py): path table size / extents, volume space size
    hvd = ast.parse(_read(repo, 'pycdlib/headervd.py'))
    cd = {'utils.ceiling_div': 'ceiling_div'}
    vd = 'PrimaryOrSupplementaryVD.'
    for meth, state in (('add_to_ptr_size', ('path_tbl_size', 'path_table_num_extents')),
                        ('remove_from_ptr_size', ('path_tbl_size', 'path_table_num_extents')),
                        ('add_to_space_size', ('space_size',)), ('remove_from_space_size', ('space_size',))):
        out += '\n' + _try(info, meth, lambda meth=meth, state=state: Fn(hvd, vd + meth, 'vd_' + meth, calls=cd, state=state).translate())
    return out + FOOTER


def gen_susp(repo, info):
    rr = ast.parse(_read(repo, 'pycdlib/rockridge.py'))
    out = HEADER % 'pycdlib/rockridge.py'

    def const(name, lean):
        return _try(info, name, lambda: 'def %s : Nat := %d\n' % (lean, int(safe_eval(_module_assign(rr, name)))))

    def blen(name, lean):
        return _try(info, name, lambda: 'def %s : Nat := %d\n' % (lean, len(safe_eval(_module_assign(rr, name)))))
    out += const('ALLOWED_DR_SIZE', 'allowedDrSize') + const('TF_FLAGS', 'tfFlags')
    for n in ('EXT_ID_109', 'EXT_DES_109', 'EXT_SRC_109', 'EXT_ID_112', 'EXT_DES_112', 'EXT_SRC_112'):
        out += blen(n, n.lower() + '_len')
    # fixed entry lengths: the `length()` static methods that return a constant
    for cls, lean in (('RRSPRecord', 'spLen'), ('RRRRRecord', 'rrLen'), ('RRCERecord', 'ceLen'), ('RRCLRecord', 'clLen'),
                      ('RRPLRecord', 'plLen'), ('RRRERecord', 'reLen')):
        out += _try(info, cls, lambda cls=cls, lean=lean: Fn(rr, cls + '.length', lean).translate().replace(' : Int :=', ' : Int :=') )
    out += _try(info, 'RRSLRecord.header_length', lambda: Fn(rr, 'RRSLRecord.header_length', 'slHeaderLen').translate())
    return out + FOOTER


def gen_pack(repo, info):
    """dr.py `DirectoryRecord._recalculate_extents_and_offsets`: the loop over the children, as a fold over their lengths
    that also returns what is stored in each child (`extents_to_here`, `offset_to_here`).  The shape of the method is
    matched strictly; the condition and the updates are translated expression by expression."""
    tree = ast.parse(_read(repo, 'pycdlib/dr.py'))
    out = HEADER % 'pycdlib/dr.py'

    def build():
        fn = _find(tree, 'DirectoryRecord._recalculate_extents_and_offsets')
        body = [s for s in fn.body if not (isinstance(s, ast.Expr) and isinstance(s.value, ast.Constant))]
        if len(body) != 3 or not isinstance(body[0], ast.If) or not isinstance(body[1], ast.For) or not isinstance(body[2], ast.Return):
            raise Unsupported('shape of _recalculate_extents_and_offsets')
        init, loop, ret = body
        if ast.unparse(init.test) != 'index == 0' or ast.unparse(loop.iter) != 'range(index, len(self.children))' or not isinstance(loop.target, ast.Name):
            raise Unsupported('loop header of _recalculate_extents_and_offsets')
        state = [e.id for e in ret.value.elts]                      # (num_extents, dirrecord_offset)
        f = Fn(tree, 'DirectoryRecord._recalculate_extents_and_offsets', 'dr_recalc')
        # initial state of a recalculation from scratch
        ini = {t.targets[0].id: f.expr(t.value) for t in init.body if isinstance(t, ast.Assign)}
        if sorted(ini) != sorted(state):
            raise Unsupported('initial state')
        # loop body: `c = self.children[i]`, then statements over c.dr_len, then the stores into c
        lb = list(loop.body)
        if ast.unparse(lb[0]) != 'c = self.children[%s]' % loop.target.id:
            raise Unsupported('first statement of the loop')
        stores = {}
        while lb and isinstance(lb[-1], ast.Assign) and isinstance(lb[-1].targets[0], ast.Attribute) \
                and isinstance(lb[-1].targets[0].value, ast.Name) and lb[-1].targets[0].value.id == 'c':
            st = lb.pop()
            stores[st.targets[0].attr] = st.value
        if set(stores) != {'extents_to_here', 'offset_to_here', 'index_in_parent'}:
            raise Unsupported('stores into the child: %s' % sorted(stores))

        class ChildLen(ast.NodeTransformer):
            def visit_Attribute(self_, node):     # noqa: N805
                if isinstance(node.value, ast.Name) and node.value.id == 'c':
                    if node.attr != 'dr_len':
                        raise Unsupported('reads c.%s' % node.attr)
                    return ast.copy_location(ast.Name(id='c_dr_len', ctx=ast.Load()), node)
                return self_.generic_visit(node)
        core = [ChildLen().visit(x) for x in lb[1:]]
        tup = '(%s)' % ', '.join(state)
        cont = '(%s, out__ ++ [(%s, %s)])' % (tup, f.expr(stores['extents_to_here']), f.expr(stores['offset_to_here']))
        text = f.block(core, cont, 2)
        return ('def dr_recalc_init : Int × Int := (%s)\n\n' % ', '.join(ini[v] for v in state) +
                'def dr_recalc %s (lens : List Int) (logical_block_size : Int) : (Int × Int) × List (Int × Int) :=\n' % ' '.join('(%s : Int)' % v for v in state) +
                '  lens.foldl (fun st__ c_dr_len =>\n    let (%s, out__) := st__\n%s) (%s, [])\n' % (tup, text, tup))
    out += _try(info, 'dr_recalc', build)
    return out + FOOTER


def gen_grow(repo, info):
    """dr.py `DirectoryRecord._add_child` / `remove_child`: the rules that grow / shrink a directory's `data_length` after the
    records were re-packed.  Matched strictly by shape: in `_add_child` the statement
    `if check_overflow and (<cond>): ... self.data_length += <inc>`, in `remove_child` the assignment `total_size = <expr>`
    followed by `if <cond>: self.data_length -= <dec>`; conditions and amounts are translated expression by expression
    (`self.data_length` becomes the parameter `data_length`)."""
    tree = ast.parse(_read(repo, 'pycdlib/dr.py'))
    out = HEADER % 'pycdlib/dr.py'

    class SelfAttr(ast.NodeTransformer):
        def visit_Attribute(self_, node):     # noqa: N805
            if isinstance(node.value, ast.Name) and node.value.id == 'self':
                if node.attr != 'data_length':
                    raise Unsupported('reads self.%s' % node.attr)
                return ast.copy_location(ast.Name(id='data_length', ctx=ast.Load()), node)
            return self_.generic_visit(node)

    def aug(stmt, op):
        if not (isinstance(stmt, ast.AugAssign) and isinstance(stmt.op, op) and ast.unparse(stmt.target) == 'self.data_length'):
            raise Unsupported('expected an update of self.data_length, found %s' % ast.unparse(stmt)[:60])
        return SelfAttr().visit(stmt.value)

    def build_grow():
        fn = _find(tree, 'DirectoryRecord._add_child')
        ifs = [s for s in fn.body if isinstance(s, ast.If) and isinstance(s.test, ast.BoolOp) and isinstance(s.test.op, ast.And)
               and ast.unparse(s.test.values[0]) == 'check_overflow']
        if len(ifs) != 1 or len(ifs[0].test.values) != 2:
            raise Unsupported('overflow test of _add_child')
        s = ifs[0]
        ups = [x for x in s.body if isinstance(x, ast.AugAssign)]
        if len(ups) != 1:
            raise Unsupported('updates in the overflow branch')
        f = Fn(tree, 'DirectoryRecord._add_child', 'dr_grow')
        cond = f.bexpr(SelfAttr().visit(s.test.values[1]))
        inc = f.expr(aug(ups[0], ast.Add))
        return ('def dr_grow (num_extents logical_block_size data_length : Int) : Int × Bool :=\n'
                '  if %s then ((data_length + %s), true) else (data_length, false)\n' % (cond, inc))

    def build_shrink():
        fn = _find(tree, 'DirectoryRecord.remove_child')
        idx = [i for i, s in enumerate(fn.body) if isinstance(s, ast.Assign) and ast.unparse(s.targets[0]) == 'total_size']
        if len(idx) != 1 or not isinstance(fn.body[idx[0] + 1], ast.If):
            raise Unsupported('total_size / shrink test of remove_child')
        asg, s = fn.body[idx[0]], fn.body[idx[0] + 1]
        ups = [x for x in s.body if isinstance(x, ast.AugAssign)]
        if len(ups) != 1 or s.orelse:
            raise Unsupported('updates in the shrink branch')
        f = Fn(tree, 'DirectoryRecord.remove_child', 'dr_shrink')
        total = f.expr(SelfAttr().visit(asg.value))
        cond = f.bexpr(SelfAttr().visit(s.test))
        dec = f.expr(aug(ups[0], ast.Sub))
        return ('def dr_shrink (num_extents dirrecord_offset logical_block_size data_length : Int) : Int × Bool :=\n'
                '  let total_size := %s\n'
                '  if %s then ((data_length - %s), true) else (data_length, false)\n' % (total, cond, dec))
    out += _try(info, 'dr_grow', build_grow)
    out += '\n' + _try(info, 'dr_shrink', build_shrink)
    return out + FOOTER


GENERATORS = [('Grow.lean', gen_grow), ('Names.lean', gen_names), ('Susp.lean', gen_susp), ('Checksum.lean', gen_checksum), ('Kernel.lean', gen_kernel),
              ('Pack.lean', gen_pack)]


def generate(repo, outdir):
    info = {'files': {}, 'unsupported': []}
    for fname, fn in GENERATORS:
        try:
            text = fn(repo, info)
        except Exception as e:  # noqa  (unreadable / unparsable source)
            info['unsupported'].append('%s: %r' % (fname, e))
            # never leave a stale file behind: an empty module makes the tie lemmas fail to elaborate
            text = (HEADER % 'n/a') + '-- generation failed: %s\n' % (repr(e).replace('\n', ' ')[:200],) + FOOTER
        _emit(outdir, fname, text, info)
    return info


if __name__ == '__main__':
    import json
    import sys
    here = os.path.dirname(os.path.dirname(os.path.abspath(__file__)))
    print(json.dumps(generate(sys.argv[1] if len(sys.argv) > 1 else '/repo',
                              os.path.join(here, 'lean', 'Pycdlib', 'Generated')), indent=1))
