"""
Files of several GiB without the disk space or the memory: a sparse in-memory file object for the image, a source whose
bytes are zero except for markers, and a sink that keeps only the bytes at the marked offsets.

pycdlib is driven through its public API only (add_fp / write_fp / open_fp / get_file_from_iso_fp); the objects below are
ordinary file-like objects.
"""
import io
import struct

BLK = 1 << 16


class SparseFile:
    """read/write/seek/tell over a dict of non-zero 64 KiB blocks"""

    def __init__(self):
        self.blocks = {}
        self.pos = 0
        self.size = 0
        self.mode = 'r+b'

    def seek(self, off, whence=0):
        self.pos = off if whence == 0 else (self.pos + off if whence == 1 else self.size + off)
        return self.pos

    def tell(self):
        return self.pos

    def flush(self):
        pass

    def close(self):
        pass

    def readable(self):
        return True

    def writable(self):
        return True

    def seekable(self):
        return True

    def fileno(self):
        raise io.UnsupportedOperation('fileno')

    def write(self, b):
        b = bytes(b)
        n = len(b)
        if n == 0:
            return 0
        if b.count(0) == n:
            # zeros are stored as holes, but they still overwrite what was there
            for bi in range(self.pos // BLK, (self.pos + n - 1) // BLK + 1):
                if bi in self.blocks:
                    lo = max(self.pos, bi * BLK) - bi * BLK
                    hi = min(self.pos + n, (bi + 1) * BLK) - bi * BLK
                    blk = self.blocks[bi]
                    blk[lo:hi] = bytes(hi - lo)
        else:
            done = 0
            while done < n:
                bi, off = divmod(self.pos + done, BLK)
                k = min(BLK - off, n - done)
                piece = b[done:done + k]
                if piece.count(0) != k or bi in self.blocks:
                    blk = self.blocks.get(bi)
                    if blk is None:
                        blk = self.blocks[bi] = bytearray(BLK)
                    blk[off:off + k] = piece
                done += k
        self.pos += n
        self.size = max(self.size, self.pos)
        return n

    def read(self, n=-1):
        if n is None or n < 0:
            n = max(0, self.size - self.pos)
        n = max(0, min(n, self.size - self.pos))
        if n == 0:
            return b''
        first, last = self.pos // BLK, (self.pos + n - 1) // BLK
        if not any(bi in self.blocks for bi in range(first, last + 1)):
            self.pos += n
            return bytes(n)
        out = bytearray(n)
        done = 0
        while done < n:
            bi, off = divmod(self.pos + done, BLK)
            k = min(BLK - off, n - done)
            blk = self.blocks.get(bi)
            if blk is not None:
                out[done:done + k] = blk[off:off + k]
            done += k
        self.pos += n
        return bytes(out)

    def readinto(self, buf):
        data = self.read(len(buf))
        buf[:len(data)] = data
        return len(data)

    def at(self, off, n):
        p = self.pos
        self.pos = off
        d = self.read(n)
        self.pos = p
        return d

    def dump(self, path):
        """write a real sparse file (holes are never written)"""
        with open(path, 'wb') as f:
            f.truncate(self.size)
            for bi in sorted(self.blocks):
                f.seek(bi * BLK)
                f.write(bytes(self.blocks[bi])[:max(0, min(BLK, self.size - bi * BLK))])


class MarkedSource:
    """`size` zero bytes with markers {offset: bytes}"""

    def __init__(self, size, marks):
        self.size, self.marks, self.pos = size, dict(marks), 0
        self.mode = 'rb'
        self.spans = sorted((o, o + len(m), m) for o, m in marks.items())

    def seek(self, off, whence=0):
        self.pos = off if whence == 0 else (self.pos + off if whence == 1 else self.size + off)
        return self.pos

    def tell(self):
        return self.pos

    def fileno(self):
        raise io.UnsupportedOperation('fileno')

    def read(self, n=-1):
        if n is None or n < 0:
            n = self.size - self.pos
        n = max(0, min(n, self.size - self.pos))
        lo, hi = self.pos, self.pos + n
        self.pos = hi
        hit = [s for s in self.spans if s[0] < hi and s[1] > lo]
        if not hit:
            return bytes(n)
        out = bytearray(n)
        for a, b, m in hit:
            x, y = max(a, lo), min(b, hi)
            out[x - lo:y - lo] = m[x - a:y - a]
        return bytes(out)

    def close(self):
        pass


class MarkSink:
    """write-only: keeps the bytes at the marked offsets, counts the rest, notices non-zero bytes elsewhere"""

    def __init__(self, marks):
        self.pos = 0
        self.marks = dict(marks)
        self.seen = {o: bytearray(len(m)) for o, m in marks.items()}
        self.spans = sorted((o, o + len(m)) for o, m in marks.items())
        self.stray = 0

    def write(self, b):
        n = len(b)
        lo, hi = self.pos, self.pos + n
        hit = [s for s in self.spans if s[0] < hi and s[1] > lo]
        if not hit:
            if b.count(0) != n:
                self.stray += 1
        else:
            for a, e in hit:
                x, y = max(a, lo), min(e, hi)
                self.seen[a][x - a:y - a] = b[x - lo:y - lo]
        self.pos = hi
        return n

    def problems(self, size):
        out = []
        if self.pos != size:
            out.append('%d bytes instead of %d' % (self.pos, size))
        for o, m in sorted(self.marks.items()):
            if bytes(self.seen[o]) != m:
                out.append('offset %#x reads %r instead of %r' % (o, bytes(self.seen[o])[:20], m[:20]))
        if self.stray:
            out.append('%d blocks with bytes that are not in the file' % self.stray)
        return out


def marks_for(size, cuts):
    """markers at the start, the end and on both sides of every extent boundary in `cuts`"""
    m = {0: b'HEAD-OF-FILE....', size - 16: b'TAIL-OF-THE-FILE'}
    for i, c in enumerate(cuts):
        # markers never overlap (a tail shorter than two markers keeps the tail marker only)
        if 32 <= c <= size - 32:
            m[c - 16] = b'END-OF-CHUNK-%03d' % i
            m[c] = b'START-OF-CHNK%03d' % i
        elif 32 <= c < size - 16:
            m[c - 16] = b'END-OF-CHUNK-%03d' % i
    return m


def udf_extents_of(sp, size):
    """independent decode (ECMA-167 14.9 / 14.14.1): find the File Entry whose information length is `size` in the sparse
    image, return (partition start, [(length, logical block), ...]) from its short allocation descriptors"""
    part_start = None
    fe = None
    for bi in sorted(sp.blocks):
        blk = sp.blocks[bi]
        for s in range(0, BLK, 2048):
            tag = struct.unpack_from('<H', blk, s)[0]
            if tag == 5 and part_start is None:                       # Partition Descriptor: starting location at 188
                part_start = struct.unpack_from('<L', blk, s + 188)[0]
            elif tag == 261 and struct.unpack_from('<Q', blk, s + 56)[0] == size:
                fe = bytes(blk[s:s + 2048])
    if fe is None or part_start is None:
        return part_start, None
    l_ea, l_ad = struct.unpack_from('<LL', fe, 168)
    ads = []
    for o in range(176 + l_ea, 176 + l_ea + l_ad, 8):
        ln, pos = struct.unpack_from('<LL', fe, o)
        ads.append((ln & 0x3fffffff, pos))
    return part_start, ads


def big_case(ctx, focus, cfgkw, size, label, udf_check=False):
    """a file of `size` bytes (zeros with markers) between two small files, in every namespace of the configuration:
    written to a sparse image, opened again, read back under each of its names; optionally the UDF File Entry's
    allocation descriptors are decoded independently and followed."""
    import pycdlib
    from harness import isoapi
    cuts = [k * 0xfffff800 for k in range(1, 4)] + [k * 0x3ffff800 for k in range(1, 8)]
    marks = marks_for(size, cuts)
    rp = {'kind': 'bigfile', 'label': label}
    names = {'iso_path': '/BIG.DAT;1'}
    small = {'iso_path': '/AAA.;1'}, {'iso_path': '/ZZZ.;1'}
    if cfgkw.get('rock_ridge'):
        names['rr_name'] = 'big.dat'
        small[0]['rr_name'], small[1]['rr_name'] = 'aaa', 'zzz'
    if cfgkw.get('joliet'):
        names['joliet_path'] = '/big.dat'
        small[0]['joliet_path'], small[1]['joliet_path'] = '/aaa', '/zzz'
    if cfgkw.get('udf'):
        names['udf_path'] = '/big.dat'
        small[0]['udf_path'], small[1]['udf_path'] = '/aaa', '/zzz'
    sp = SparseFile()
    with isoapi.frozen_time():
        iso = pycdlib.PyCdlib()
        iso.new(interchange_level=3, **cfgkw)
        try:
            iso.add_fp(io.BytesIO(b'A' * 3000), 3000, **small[0])
            iso.add_fp(MarkedSource(size, marks), size, **names)
            iso.add_fp(io.BytesIO(b'Z' * 5000), 5000, **small[1])
            iso.write_fp(sp, blocksize=1 << 20)
        except Exception as e:  # noqa
            ctx.violation('%s.big/%s/write-raises-%s' % (focus, label, isoapi.exc_class(e)), 'adding / writing a %d-byte file raised %r' % (size, e), rp)
            return
        finally:
            iso.close()
    ctx.count(key=('big', label, size), nontrivial=True, kind='bigfile:%s' % label)
    g = pycdlib.PyCdlib()
    try:
        sp.seek(0)
        g.open_fp(sp)
    except Exception as e:  # noqa
        ctx.violation('%s.big/%s/reopen-fails' % (focus, label), 'the image with a %d-byte file cannot be opened: %r' % (size, e), rp)
        return
    try:
        for key in ('iso_path', 'joliet_path', 'udf_path'):
            if key not in names:
                continue
            sink = MarkSink(marks)
            try:
                g.get_file_from_iso_fp(sink, blocksize=1 << 20, **{key: names[key]})
            except Exception as e:  # noqa
                ctx.violation('%s.big/%s/read-raises' % (focus, label), 'reading the %d-byte file by %s raised %r' % (size, key, e), rp)
                continue
            for pr in sink.problems(size)[:2]:
                ctx.violation('%s.big/%s/content/%s' % (focus, label, key.split('_')[0]), 'the %d-byte file read by %s: %s' % (size, key, pr), rp)
            for sm, val in ((small[0], b'A' * 3000), (small[1], b'Z' * 5000)):
                if key in sm:
                    out = io.BytesIO()
                    g.get_file_from_iso_fp(out, **{key: sm[key]})
                    if out.getvalue() != val:
                        ctx.violation('%s.big/%s/neighbour' % (focus, label), 'the small file %s next to the big one reads differently' % sm[key], rp)
    finally:
        g.close()
    if udf_check:
        part_start, ads = udf_extents_of(sp, size)
        if not ads:
            ctx.violation('%s.big/%s/udf-file-entry-missing' % (focus, label), 'no UDF File Entry with information length %d' % size, rp)
            return
        if sum(a[0] for a in ads) != size:
            ctx.violation('%s.big/%s/udf-extent-lengths' % (focus, label), 'allocation descriptors add up to %d, the file has %d bytes' % (sum(a[0] for a in ads), size), rp)
        off = 0
        for ln, pos in ads:
            base = (part_start + pos) * 2048
            for o, m in marks.items():
                if off <= o and o + len(m) <= off + ln and sp.at(base + o - off, len(m)) != m:
                    ctx.violation('%s.big/%s/udf-extent-location' % (focus, label),
                                  'UDF allocation descriptor (%d bytes at block %d) does not hold the file: offset %#x reads %r' % (
                                      ln, pos, o, sp.at(base + o - off, len(m))), rp)
                    break
            off += ln
