"""
History generator: structured, mostly-accepted edit histories built against a light shadow tree (used only to pick
plausible arguments — acceptance is decided by the real library, semantics by the Lean specification).
Every random choice comes from the rng passed in, so a case replays from its seed.
"""
import string

D1 = string.ascii_uppercase + string.digits + '_'
SIZES = [0, 0, 1, 5, 100, 2047, 2048, 2049, 4096, 5000, 7000]


def sample_cfg(rng, force=None):
    cfg = {
        'ilevel': rng.choice([1, 1, 2, 3, 3, 4]),
        'joliet': rng.choice([None, None, 3, 3, 1, 2]),
        'rr': rng.choice([None, None, '1.09', '1.09', '1.10', '1.12']),
        'udf': rng.choice([None, None, None, '2.60']),
        'xa': rng.random() < 0.15,
    }
    if force:
        cfg.update(force)
    return cfg


class Node:
    __slots__ = ('kind', 'parent', 'names', 'children', 'blob', 'rr')

    def __init__(self, kind, parent, names, blob=None, rr=None):
        self.kind, self.parent, self.names, self.blob, self.rr = kind, parent, names, blob, rr
        self.children = []

    def path(self, ns):
        comps = []
        n = self
        while n.parent is not None:
            if ns not in n.names:
                return None
            comps.append(n.names[ns])
            n = n.parent
        return '/' + '/'.join(reversed(comps))

    def depth(self):
        d, n = 0, self
        while n.parent is not None:
            d += 1
            n = n.parent
        return d


class Shadow:
    def __init__(self, cfg, rng):
        self.cfg, self.rng = cfg, rng
        self.root = Node('dir', None, {})
        self.nodes = [self.root]
        self.next_cid = 1
        self.nss = ['i'] + (['j'] if cfg.get('joliet') else []) + (['u'] if cfg.get('udf') else [])
        # history families (shapes that uniform sampling practically never produces):
        #   burst     - one directory (root, or a directory that itself has a sub-directory) receives 33..92 equally long
        #               names so that its records end exactly on / just before / just after a sector boundary, then shrinks
        #   resurrect - removed names come back (same identifiers), and the resurrected directory gets children
        #   rrhole    - Rock Ridge names of nearly equal, continuation-area lengths, so freed holes are reused +-1 byte
        #   deep      - a chain of seven nested directories first, so that later edits happen at depth 8 (Rock Ridge relocation)
        r = rng.random()
        self.family = 'plain' if r < 0.45 else 'burst' if r < 0.65 else 'resurrect' if r < 0.82 else 'rrhole' if r < 0.91 else 'deep'
        self.graveyard = []
        self.freed_rr_len = None
        self.focus_parent = None
        self.plan = []
        self.burst_dir = None
        self.burst_files = []
        if self.family == 'burst':
            self._plan_burst()
        if self.family == 'deep':
            self.plan = [('chain', i) for i in range(7)]
        self.extra = len(self.plan)

    # ---- names
    def iso_name(self, is_dir, siblings):
        rng, lvl = self.rng, self.cfg['ilevel']
        for _ in range(50):
            if lvl == 1:
                base = ''.join(rng.choice(D1) for _ in range(rng.randint(1, 8)))
                ext = ''.join(rng.choice(D1) for _ in range(rng.randint(0, 3)))
            elif lvl in (2, 3):
                base = ''.join(rng.choice(D1) for _ in range(rng.choice([1, 2, 5, 8, 9, 12, 20, 27])))
                ext = ''.join(rng.choice(D1) for _ in range(rng.choice([0, 1, 3, 3])))
            else:
                pool = D1 + 'abcxyz-+ '
                base = ''.join(rng.choice(pool) for _ in range(rng.choice([1, 3, 8, 12, 30, 60]))).strip() or 'x'
                ext = ''.join(rng.choice(pool) for _ in range(rng.choice([0, 1, 3, 5]))).strip()
            if is_dir:
                name = base
            else:
                ver = rng.choice([';1', ';1', ';1', ';2', ';32767', ''])
                name = base + '.' + ext + ver
                if lvl == 4 and rng.random() < 0.3:
                    name = base + ('.' + ext if ext else '')
            # near-collisions to exercise ordering: prefix of an existing sibling
            if siblings and rng.random() < 0.15:
                s = rng.choice(sorted(siblings))
                stem = s.split(';')[0].split('.')[0][: 7 if lvl == 1 else 20]
                cand = (stem + rng.choice(D1))[: 8 if lvl == 1 else 30]
                name = cand if is_dir else cand + '.' + ext[:3] + ';1'
            if name not in siblings and name not in ('.', '..'):
                return name
        return None

    def long_name(self, maxlen, pool):
        rng = self.rng
        n = rng.choice([1, 2, 3, 5, 8, 12, 20, 40, maxlen - 1, maxlen]) if maxlen > 3 else maxlen
        n = max(1, min(n, maxlen))
        s = ''.join(rng.choice(pool) for _ in range(n))
        return s

    def rr_name(self, siblings):
        rng = self.rng
        pool = string.ascii_letters + string.digits + '._-+ ,='
        for _ in range(30):
            ln = rng.choice([1, 2, 4, 8, 11, 20, 40, 80, 120, 152, 190, 200, 249, 255])
            if rng.random() < (0.8 if self.family == 'rrhole' else 0.08):
                ln = rng.choice([200, 201, 202, 209, 210, 211, 212])
                if self.freed_rr_len and rng.random() < 0.7:
                    ln = max(1, min(255, self.freed_rr_len + rng.choice([1, 1, 1, 0, -1, 2])))
            s = ''.join(rng.choice(pool) for _ in range(ln))
            if rng.random() < 0.1:
                s = s[: max(1, ln - 2)] + rng.choice(['é', 'ß', '中'])
            if s not in siblings and s not in ('.', '..'):
                return s
        return None

    def joliet_name(self, siblings):
        rng = self.rng
        pool = string.ascii_letters + string.digits + '._- ' * 2 + 'éßçñ中文日本ΩЖ'
        for _ in range(30):
            ln = rng.choice([1, 2, 5, 8, 13, 20, 31, 50, 63, 64])
            s = ''.join(rng.choice(pool) for _ in range(ln)).strip(' ') or 'j'
            if rng.random() < 0.05:
                s = s[: max(1, ln - 2)] + '\U0001F600'
            if rng.random() < 0.08:
                # code units whose low byte is 00 / '.' / '/' / ';' / ' ' at the end of the identifier (byte-level edge cases)
                s = s[: max(1, ln - 2)] + rng.choice(['\u0100', '\u4e00', '\u012e', '\u012f', '\u013b', '\u0120', '\u0200\u0100'])
            if rng.random() < 0.04:
                # 17..40 characters outside the BMP: at most 64 characters but more than 64 UCS-2 code units / UTF-8 bytes
                s = rng.choice(['', 'x']) + rng.choice(['\U0001F600', '\U0001F3B5']) * rng.randint(15, 40) + rng.choice(['', '.mp3'])
            if s not in siblings and s not in ('.', '..') and '/' not in s:
                return s
        return None

    def udf_twin(self, siblings):
        """a name whose UDF identifier has the same BYTES as that of a sibling, in the other encoding (8-bit 'ab' and the
        16-bit U+6162): lookups and removals that compare bytes without the encoding take one for the other"""
        for s in sorted(siblings):
            cands = []
            try:
                b = s.encode('latin-1')
                if len(b) >= 2 and len(b) % 2 == 0:
                    cands.append(b.decode('utf-16-be'))
            except (UnicodeEncodeError, UnicodeDecodeError):
                try:
                    cands.append(s.encode('utf-16-be').decode('latin-1'))
                except (UnicodeEncodeError, UnicodeDecodeError):
                    pass
            for tw in cands:
                if tw in siblings or tw in ('.', '..') or '/' in tw or '\x00' in tw or any(0xd800 <= ord(c) <= 0xdfff for c in tw) or tw.strip(' ') != tw:
                    continue
                latin = True
                try:
                    tw.encode('latin-1')
                except UnicodeEncodeError:
                    latin = False
                if latin == all(ord(c) < 256 for c in s):
                    continue            # both would be stored in the same encoding: not a twin
                return tw
        return None

    def udf_name(self, siblings):
        rng = self.rng
        pool = string.ascii_letters + string.digits + '._- ' + 'éßçñ'
        if siblings and rng.random() < 0.12:
            tw = self.udf_twin(siblings)
            if tw is not None:
                return tw
        for _ in range(30):
            ln = rng.choice([1, 2, 5, 8, 13, 20, 40, 80, 120, 200])
            s = ''.join(rng.choice(pool) for _ in range(ln)).strip(' ') or 'u'
            if rng.random() < 0.15:
                s = s[: max(1, ln // 2)] + rng.choice(['中文', 'Ω', 'Ж日', '\u0100', '第\u4e00', 'x\u012f', '\u013b', 'a\u0200\u0100', '\u0120'])
            elif rng.random() < 0.05:
                s = s[: max(1, ln // 2)] + rng.choice(['\xff', '\xa0x', '\xad'])
            if s not in siblings and s not in ('.', '..'):
                return s
        return None

    def siblings(self, parent, ns):
        return {c.names[ns] for c in parent.children if ns in c.names}

    def pick_namespaces(self, parent):
        """namespaces in which a new child of `parent` can exist (parent must exist there)"""
        avail = [ns for ns in self.nss if parent.parent is None or ns in parent.names]
        if not avail:
            return []
        if self.rng.random() < 0.75:
            return avail
        k = self.rng.randint(1, len(avail))
        return sorted(self.rng.sample(avail, k))

    def make_names(self, parent, nss, is_dir):
        names, rr = {}, None
        for ns in nss:
            sib = self.siblings(parent, ns)
            if ns == 'i':
                nm = self.iso_name(is_dir, sib)
                if self.cfg.get('rr'):
                    rr = self.rr_name({c.rr for c in parent.children if c.rr})
            elif ns == 'j':
                nm = self.joliet_name(sib)
            else:
                nm = self.udf_name(sib)
            if nm is None:
                return None, None
            names[ns] = nm
        return names, rr

    def dirs(self):
        return [n for n in self.nodes if n.kind == 'dir']

    def files(self):
        return [n for n in self.nodes if n.kind == 'file']

    def remove(self, node):
        node.parent.children.remove(node)
        self.nodes.remove(node)
        if node.rr:
            self.freed_rr_len = len(node.rr.encode('utf-8'))
        if node.kind in ('dir', 'file') and node.names:
            self.graveyard.append((node.parent, node.kind == 'dir', dict(node.names), node.rr))

    # ---- ops
    def _plan_burst(self):
        rng = self.rng
        k = rng.choice([44, 45, 45, 45, 46, 33, 90, 91, 92])
        r = rng.random()
        if r < 0.35:
            self.plan.append(('dir', 'top'))          # grows and shrinks while it has a sub-directory ('..' of SUB)
            self.plan.append(('dir', 'sub'))
        elif r < 0.6:
            self.plan.append(('dir', 'top'))          # 68 + 45 x 44 = 2048 exactly, as for the root
        self.plan += [('file', i) for i in range(k)]
        self.plan.append(('rmfiles', rng.choice([1, 2, k // 2, k - 2, k - 1])))

    def _planned(self):
        rng = self.rng
        step = self.plan.pop(0)
        if step[0] == 'chain':
            parent = self.focus_parent if step[1] > 0 else self.root
            if parent is None or parent not in self.nodes:
                self.plan = []
                return None
            nss = [ns for ns in self.nss if parent.parent is None or ns in parent.names]
            tag = 'N%d' % step[1]
            names = {ns: (tag if ns == 'i' else tag.lower()) for ns in nss}
            if any(names[ns] in self.siblings(parent, ns) for ns in nss):
                self.plan = []
                return None
            node = Node('dir', parent, names, rr=tag.lower() if self.cfg.get('rr') and 'i' in names else None)
            self.focus_parent = node
            op = {'op': 'adddir'}
            self._fill_paths(op, parent, node)
            return op, ('add', node)
        if step[0] == 'dir':
            parent = self.root if step[1] == 'top' else self.burst_dir
            if parent is None or parent not in self.nodes:
                self.plan = []
                return None
            tag = 'BD%02d' % rng.randrange(100) if step[1] == 'top' else 'SUB'
            nss = [ns for ns in self.nss if parent.parent is None or ns in parent.names]
            names = {ns: (tag if ns == 'i' else tag.lower()) for ns in nss}
            if any(names[ns] in self.siblings(parent, ns) for ns in nss):
                return None
            node = Node('dir', parent, names, rr=tag.lower() if self.cfg.get('rr') and 'i' in names else None)
            if step[1] == 'top':
                self.burst_dir = node
            op = {'op': 'adddir'}
            self._fill_paths(op, parent, node)
            return op, ('add', node)
        parent = self.burst_dir or self.root
        if parent not in self.nodes:
            self.plan = []
            return None
        if step[0] == 'file':
            i = step[1]
            nss = [ns for ns in self.nss if parent.parent is None or ns in parent.names]
            # 11-character ISO9660 identifiers and 5-character Joliet names: 45 such records fill a sector exactly
            names = {ns: ('FILE%04d.;1' % i if ns == 'i' else 'f%04d' % i) for ns in nss}
            if any(names[ns] in self.siblings(parent, ns) for ns in nss):
                return None
            node = Node('file', parent, names, blob=self.next_cid, rr='f%04d' % i if self.cfg.get('rr') and 'i' in names else None)
            op = {'op': 'addfp', 'cid': self.next_cid, 'n': rng.choice([0, 1, 1, 700])}
            self.next_cid += 1
            self._fill_paths(op, parent, node)
            self.burst_files.append(node)
            return op, ('add', node)
        if step[0] == 'rmfiles':
            live = [n for n in self.burst_files if n in self.nodes]
            if step[1] > 1 and len(live) > 1:
                self.plan.insert(0, ('rmfiles', step[1] - 1))
            if not live:
                return None
            node = rng.choice(live)
            ns = rng.choice(sorted(node.names))
            return {'op': 'rmfile', 'ns': ns, 'path': node.path(ns)}, ('rmblob', node)
        return None

    def _resurrect(self, parent, nss, is_dir):
        """names of an entry removed earlier from this parent, if they are free again"""
        p = 0.6 if self.family == 'resurrect' else 0.12
        if not self.graveyard or self.rng.random() >= p:
            return None
        cands = [g for g in self.graveyard if g[0] is parent and g[1] == is_dir and sorted(g[2]) == sorted(nss)
                 and all(g[2][ns] not in self.siblings(parent, ns) for ns in nss)
                 and (g[3] is None or g[3] not in {c.rr for c in parent.children if c.rr})]
        if not cands:
            return None
        g = self.rng.choice(cands)
        return dict(g[2]), g[3]

    def gen_op(self):
        rng, cfg = self.rng, self.cfg
        if self.plan:
            return self._planned()
        if cfg.get('duppvd') and rng.random() < 0.04:
            return {'op': 'duppvd'}, None
        limit = 7 if (not cfg.get('rr') and cfg['ilevel'] < 4) else 9
        mix = getattr(self, 'opmix', None) or {'addfp': 36, 'adddir': 20, 'rmfile': 8, 'rmdir': 6, 'addlink': 10, 'rmlink': 5,
                                               'addsym': 8, 'hide': 7}
        cats = sorted(mix)
        pick = rng.choices(cats, weights=[mix[c] for c in cats])[0]
        # map the category onto the threshold ladder below
        r = {'addfp': 0.0, 'adddir': 0.40, 'rmfile': 0.60, 'rmdir': 0.66, 'addlink': 0.72, 'rmlink': 0.82, 'addsym': 0.88, 'hide': 0.95}[pick]
        if r < 0.36:
            parent = rng.choice(self.dirs())
            if self.focus_parent is not None and self.focus_parent in self.nodes and rng.random() < 0.7:
                parent = self.focus_parent
            nss = self.pick_namespaces(parent)
            if not nss:
                return None
            names, rr = self._resurrect(parent, nss, False) or self.make_names(parent, nss, False)
            if names is None:
                return None
            node = Node('file', parent, names, blob=self.next_cid, rr=rr)
            op = {'op': 'addfp', 'cid': self.next_cid, 'n': rng.choice(SIZES)}
            self.next_cid += 1
            self._fill_paths(op, parent, node)
            if cfg.get('rr') and 'i' in names and rng.random() < 0.3:
                op['mode'] = rng.choice([0o100644, 0o100755, 0o100400, 0o100444])
            return op, ('add', node)
        if r < 0.56:
            cands = [d for d in self.dirs() if d.depth() < limit - 1]
            parent = rng.choice(cands)
            if self.focus_parent is not None and self.focus_parent in cands and rng.random() < 0.6:
                parent = self.focus_parent
            nss = self.pick_namespaces(parent)
            if not nss:
                return None
            back = self._resurrect(parent, nss, True)
            names, rr = back or self.make_names(parent, nss, True)
            if names is None:
                return None
            node = Node('dir', parent, names, rr=rr)
            if back:
                self.focus_parent = node
            op = {'op': 'adddir'}
            self._fill_paths(op, parent, node)
            return op, ('add', node)
        if r < 0.64 and self.files():
            node = rng.choice(self.files())
            ns = rng.choice(sorted(node.names))
            return {'op': 'rmfile', 'ns': ns, 'path': node.path(ns)}, ('rmblob', node)
        if r < 0.70:
            cands = [d for d in self.dirs() if d.parent is not None and not d.children]
            if not cands:
                return None
            node = rng.choice(cands)
            op = {'op': 'rmdir'}
            for ns, k in (('i', 'iso'), ('j', 'joliet'), ('u', 'udf')):
                if ns in node.names:
                    op[k] = node.path(ns)
            return op, ('rm', node)
        if r < 0.80 and self.files():
            old = rng.choice(self.files())
            ons = rng.choice(sorted(old.names))
            parent = rng.choice(self.dirs())
            avail = [ns for ns in self.nss if parent.parent is None or ns in parent.names]
            if not avail:
                return None
            nns = rng.choice(avail)
            names, rr = self.make_names(parent, [nns], False)
            if names is None:
                return None
            # a link that keeps the base name of the original in another directory (records that compare equal)
            if nns in old.names and parent is not old.parent and rng.random() < 0.4 and old.names[nns] not in self.siblings(parent, nns):
                names = {nns: old.names[nns]}
                if rr is not None and old.rr and old.rr not in {c.rr for c in parent.children if c.rr}:
                    rr = old.rr
            node = Node('file', parent, names, blob=old.blob, rr=rr)
            op = {'op': 'addlink', 'ons': ons, 'old': old.path(ons), 'nns': nns}
            node.parent = parent
            parent.children.append(node)
            op['new'] = node.path(nns)
            parent.children.remove(node)
            if rr is not None and nns == 'i':
                op['rr'] = rr
            return op, ('add', node)
        if r < 0.85 and self.files():
            node = rng.choice(self.files())
            ns = rng.choice(sorted(node.names))
            return {'op': 'rmlink', 'ns': ns, 'path': node.path(ns)}, ('rmname', node, ns)
        if r < 0.93 and (cfg.get('rr') or cfg.get('udf')):
            parent = rng.choice(self.dirs())
            avail = [ns for ns in self.nss if (parent.parent is None or ns in parent.names)]
            want = [ns for ns in avail if (ns == 'i' and cfg.get('rr')) or ns == 'u' or (ns == 'j' and 'i' in avail and cfg.get('rr'))]
            if not want:
                return None
            if 'i' not in want and 'j' in want:
                want.remove('j')
            if not want:
                return None
            names, rr = self.make_names(parent, want, False)
            if names is None:
                return None
            node = Node('sym', parent, names, rr=rr)
            op = {'op': 'addsym'}
            self._fill_paths(op, parent, node)
            tgt = self.sym_target()
            if 'i' in names:
                op['target'] = tgt
            if 'u' in names:
                op['utarget'] = self.sym_target(udf=True)
            return op, ('add', node)
        cands = [n for n in self.nodes if n.parent is not None and ('i' in n.names or 'j' in n.names)]
        if not cands:
            return None
        node = rng.choice(cands)
        ns = rng.choice([ns for ns in ('i', 'j') if ns in node.names])
        return {'op': rng.choice(['hide', 'hide', 'unhide']), 'ns': ns, 'path': node.path(ns)}, None

    def sym_target(self, udf=False):
        rng = self.rng
        comps = []
        for _ in range(rng.choice([1, 1, 2, 3, 5, 12])):
            c = rng.choice(['a', 'bb', 'target', '..', '.', 'x' * rng.choice([10, 100, 200, 249]), 'dir', 'é' if udf else 'e',
                            'привет' if udf else 'p', '日本語' if udf else 'n'])
            comps.append(c)
        s = '/'.join(comps)
        if rng.random() < 0.15:
            # many medium components: some boundary between SL records falls exactly between two components
            w = rng.choice([3, 6, 11, 17])
            s = '/'.join('%s%02d' % ('c' * (w - 2), i) for i in range(rng.choice([20, 30, 45, 64])))
        if rng.random() < 0.3:
            s = '/' + s
        return s

    def _fill_paths(self, op, parent, node):
        parent.children.append(node)
        node.parent = parent
        for ns, k in (('i', 'iso'), ('j', 'joliet'), ('u', 'udf')):
            if ns in node.names:
                op[k] = node.path(ns)
        if node.rr is not None and 'i' in node.names:
            op['rr'] = node.rr
        parent.children.remove(node)

    def commit(self, effect):
        """Apply the effect of an accepted op to the shadow."""
        if effect is None:
            return
        kind = effect[0]
        if kind == 'add':
            node = effect[1]
            node.parent.children.append(node)
            self.nodes.append(node)
        elif kind == 'rm':
            self.remove(effect[1])
        elif kind == 'rmblob':
            b = effect[1].blob
            for n in [n for n in self.nodes if n.kind == 'file' and n.blob == b]:
                self.remove(n)
        elif kind == 'rmname':
            node, ns = effect[1], effect[2]
            if node.kind == 'file':
                # the freed name may come back for other content (stale lookups by that name)
                self.graveyard.append((node.parent, False, {ns: node.names[ns]}, node.rr if ns == 'i' else None))
            del node.names[ns]
            if ns == 'i':
                node.rr = None
            if not node.names:
                self.remove(node)


# ------------------------------------------------------------------ directed histories (run first, every run)
def _names(cfg, parent, iso, other, rr=None):
    """paths of one new entry in every namespace the configuration has; parent = (iso_parent, other_parent)"""
    op = {'iso': parent[0] + '/' + iso}
    if cfg.get('rr'):
        op['rr'] = rr or other
    if cfg.get('joliet'):
        op['joliet'] = parent[1] + '/' + other
    if cfg.get('udf'):
        op['udf'] = parent[1] + '/' + other
    return op


def directed(cfg):
    """Edit histories for shapes that random generation reaches too rarely: directories that fill a sector exactly,
    directories that grow and shrink while they have sub-directories, names that come back after a removal, and Rock
    Ridge continuation entries that reuse a freed hole of almost the same size.  Returns [(label, ops)]."""
    out = []
    cid = [1000]

    def addfp(parent, iso, other, n=1, rr=None):
        cid[0] += 1
        d = {'op': 'addfp', 'cid': cid[0], 'n': n}
        d.update(_names(cfg, parent, iso, other, rr))
        return d

    def adddir(parent, iso, other):
        d = {'op': 'adddir'}
        d.update(_names(cfg, parent, iso, other))
        return d

    def rm(kind, parent, iso, other):
        if kind == 'rmfile':
            return {'op': 'rmfile', 'ns': 'i', 'path': parent[0] + '/' + iso}
        d = {'op': 'rmdir', 'iso': parent[0] + '/' + iso}
        if cfg.get('joliet'):
            d['joliet'] = parent[1] + '/' + other
        if cfg.get('udf'):
            d['udf'] = parent[1] + '/' + other
        return d
    root = ('', '')
    bd = ('/BD', '/bd')
    for k in (44, 45, 46):
        out.append(('fill-root-%d' % k, [addfp(root, 'FILE%04d.;1' % i, 'f%04d' % i, n=i % 3) for i in range(k)]))
    out.append(('fill-dir-45', [adddir(root, 'BD', 'bd')] + [addfp(bd, 'FILE%04d.;1' % i, 'f%04d' % i) for i in range(45)]))
    out.append(('fill-root-2sectors', [addfp(root, 'FILE%04d.;1' % i, 'f%04d' % i, n=0) for i in range(91)] +
                [rm('rmfile', root, 'FILE%04d.;1' % i, '') for i in range(0, 91, 2)]))
    ops = [adddir(root, 'BD', 'bd'), adddir(bd, 'SUB', 'sub')] + [addfp(bd, 'FILE%04d.;1' % i, 'f%04d' % i) for i in range(50)]
    ops.append(addfp(('/BD/SUB', '/bd/sub'), 'DEEP.;1', 'deep', n=5))
    ops += [rm('rmfile', bd, 'FILE%04d.;1' % i, '') for i in range(48)]
    out.append(('grow-shrink-with-subdir', ops))
    d1 = ('/D1', '/d1')
    out.append(('resurrect', [adddir(root, 'D1', 'd1'), addfp(d1, 'A.;1', 'a', n=3),
                              {'op': 'query', 'ns': 'j', 'path': '/d1'} if cfg.get('joliet') else {'op': 'query', 'ns': 'i', 'path': '/D1'}, rm('rmfile', d1, 'A.;1', ''),
                              rm('rmdir', root, 'D1', 'd1'), adddir(root, 'D1', 'd1'), addfp(d1, 'FOO.;1', 'foo', n=4),
                              addfp(root, 'BAR.;1', 'bar', n=2), rm('rmfile', root, 'BAR.;1', ''), addfp(root, 'BAR.;1', 'bar', n=7)]))
    # hard links that keep the base name of the original in another directory; the data moves afterwards
    foo = addfp(root, 'FOO.;1', 'foo', n=5400)
    ops = [foo, adddir(root, 'DIR1', 'dir1'), addfp(root, 'AAA.;1', 'aaa', n=100)]
    ln = {'op': 'addlink', 'ons': 'i', 'old': '/FOO.;1', 'nns': 'i', 'new': '/DIR1/FOO.;1'}
    if cfg.get('rr'):
        ln['rr'] = 'foo'
    ops += [ln, {'op': 'rmlink', 'ns': 'i', 'path': '/DIR1/FOO.;1'}] + [adddir(root, 'N%d' % i, 'n%d' % i) for i in range(4)]
    out.append(('link-same-name-removed', ops))
    ops2 = [dict(o) for o in ops[:4]] + [{'op': 'rmlink', 'ns': 'i', 'path': '/FOO.;1'}] + [adddir(root, 'M%d' % i, 'm%d' % i) for i in range(4)]
    out.append(('link-same-name-original-removed', ops2))
    if cfg.get('rr'):
        # a symbolic link whose target needs a continuation area is removed again: the block must be released
        sym = {'op': 'addsym', 'iso': '/SYMC.;1', 'rr': 'symc', 'target': '/'.join(['abcdefgh'] * 40)}
        if cfg.get('joliet'):
            sym['joliet'] = '/symc'
        out.append(('rr-symlink-with-continuation-removed', [addfp(root, 'KEEP.;1', 'keep', n=5), sym, {'op': 'rmfile', 'ns': 'i', 'path': '/SYMC.;1'}]))
        out.append(('rr-symlink-with-continuation-removed-link', [addfp(root, 'KEEP.;1', 'keep', n=5), dict(sym), {'op': 'rmlink', 'ns': 'i', 'path': '/SYMC.;1'}]))
    if cfg.get('rr') and cfg['ilevel'] < 4:
        # deep directories: the 8th level is relocated to RR_MOVED (placeholder with CL in place, real record with RE)
        chain, ip, op_ = [], '', ''
        for i in range(7):
            chain.append(adddir((ip, op_), 'L%d' % i, 'l%d' % i))
            ip, op_ = ip + '/L%d' % i, op_ + '/l%d' % i
        deep = lambda nm, rrn: dict({'op': 'adddir', 'iso': ip + '/' + nm, 'rr': rrn}, **({'joliet': op_ + '/' + nm.lower()} if cfg.get('joliet') else {}))  # noqa
        rmdeep = lambda nm: dict({'op': 'rmdir', 'iso': ip + '/' + nm}, **({'joliet': op_ + '/' + nm.lower()} if cfg.get('joliet') else {}))  # noqa
        out.append(('reloc-two-long-names', chain + [deep('DEEPA', 'a' * 150), deep('DEEPB', 'b' * 150),
                                                     dict({'op': 'addfp', 'cid': 2001, 'n': 9, 'iso': ip + '/DEEPA/X.;1', 'rr': 'x'},
                                                          **({'joliet': op_ + '/deepa/x'} if cfg.get('joliet') else {}))]))
        # two relocated directories with the same Rock Ridge name (different identifiers) in different parents, each with
        # its own file: listing a parent must give ITS directory, also after a reopen
        chain2, ip2, op2 = [], '', ''
        for i in range(7):
            chain2.append(adddir((ip2, op2), 'M%d' % i, 'm%d' % i))
            ip2, op2 = ip2 + '/M%d' % i, op2 + '/m%d' % i
        jo = lambda pth: ({'joliet': pth} if cfg.get('joliet') else {})   # noqa
        same = chain + chain2 + [
            dict({'op': 'adddir', 'iso': ip + '/DEEPA', 'rr': 'same'}, **jo(op_ + '/deepa')),
            dict({'op': 'adddir', 'iso': ip2 + '/DEEPB', 'rr': 'same'}, **jo(op2 + '/deepb')),
            dict({'op': 'addfp', 'cid': 2003, 'n': 11, 'iso': ip + '/DEEPA/FA.;1', 'rr': 'file-a'}, **jo(op_ + '/deepa/fa')),
            dict({'op': 'addfp', 'cid': 2004, 'n': 12, 'iso': ip2 + '/DEEPB/FB.;1', 'rr': 'file-b'}, **jo(op2 + '/deepb/fb'))]
        out.append(('reloc-same-rr-name', same))
        out.append(('reloc-same-rr-name-reopened', same + [{'op': 'reopen'}, dict({'op': 'addfp', 'cid': 2005, 'n': 3, 'iso': '/Z.;1', 'rr': 'z'}, **jo('/z'))]))
        # a relocated directory survives a write + open; the image then grows (the placeholder must not turn into a file)
        out.append(('reloc-reopen-grow', chain + [deep('DEEP', 'deep'), deep('DEER', 'deer'), {'op': 'reopen'},
                                                   dict({'op': 'addfp', 'cid': 2002, 'n': 5000, 'iso': '/GROW.;1', 'rr': 'grow'},
                                                        **({'joliet': '/grow'} if cfg.get('joliet') else {})),
                                                   {'op': 'reopen'}, deep('DEEQ', 'deeq')]))
        out.append(('reloc-remove-readd', chain + [deep('DEEP', 'deep'), rmdeep('DEEP'), deep('DEEP', 'deep'), deep('DEEQ', 'q' * 200), rmdeep('DEEQ')]))
    # a directory of two sectors whose second sector starts with a record too long to move up into the room that a
    # removal in the first sector frees; then a record of the second sector is removed (per-child bookkeeping)
    mixed = [addfp(root, 'A%03d.;1' % i, 'a%03d' % i, n=10 + i) for i in range(1, 50)] + \
            [addfp(root, 'B' * 26 + '.;1', 'b' * 26, n=77)] + [addfp(root, 'C%03d.;1' % i, 'c%03d' % i, n=100 + i) for i in range(1, 6)]
    for tag, first, second in (('first-then-second', 'A010.;1', 'C001.;1'), ('second-then-first', 'C001.;1', 'A010.;1'), ('two-in-second', 'C002.;1', 'C004.;1')):
        out.append(('mixed-lengths-two-sectors-%s' % tag, mixed + [{'op': 'reopen'}, rm('rmfile', root, first, first.split('.')[0].lower()),
                                                                  rm('rmfile', root, second, second.split('.')[0].lower())]))
        out.append(('mixed-lengths-two-sectors-live-%s' % tag, mixed + [rm('rmfile', root, first, first.split('.')[0].lower()),
                                                                       rm('rmfile', root, second, second.split('.')[0].lower())]))
    # three copies of the primary volume descriptor, then the root directory grows and moves
    out.append(('three-pvds-root-grows', [{'op': 'duppvd'}, {'op': 'duppvd'}, addfp(root, 'FIRST.;1', 'first', n=3)] +
                [addfp(root, 'G%04d.;1' % i, 'g%04d' % i, n=0) for i in range(50)] + [adddir(root, 'LATE', 'late')]))
    # a path table of more than two sectors (4096 bytes) that shrinks again across the boundary
    # (10 + 16 k bytes with 8-character identifiers: 4122, 4106, 4090 bytes for k = 257, 256, 255)
    many = [adddir(root, 'PPPPP%03d' % i, 'ppppp%03d' % i) for i in range(258)]
    out.append(('path-table-just-above-two-sectors', many + [rm('rmdir', root, 'PPPPP%03d' % i, 'ppppp%03d' % i) for i in (257, 100)]))
    out.append(('path-table-back-to-two-sectors', many + [rm('rmdir', root, 'PPPPP%03d' % i, 'ppppp%03d' % i) for i in (257, 100, 256, 3)]))
    # the same with copies of the PVD: the path tables exist once, whatever the number of descriptors that describe them
    out.append(('path-table-above-two-sectors-pvd-copy-first', [{'op': 'duppvd'}] + many + [rm('rmdir', root, 'PPPPP%03d' % i, 'ppppp%03d' % i) for i in (257, 100)]))
    out.append(('path-table-back-to-two-sectors-pvd-copy-later', many + [{'op': 'duppvd'}] +
                [rm('rmdir', root, 'PPPPP%03d' % i, 'ppppp%03d' % i) for i in (257, 100, 256, 3)]))
    # Joliet directory of two sectors next to an ISO9660 directory of one (long UCS-2 names, short identifiers)
    out.append(('joliet-two-sectors', [addfp(root, 'F%02d.;1' % i, 'file-%02d-with-a-long-joliet-name-xxxxxxxxxx' % i, n=60 + i, rr='f%02d' % i) for i in range(30)]))
    if cfg.get('udf'):
        # one of two UDF names of a file is unlinked and the name is given to other content
        f1 = addfp(root, 'FOO.;1', 'foo', n=3808)
        f2 = addfp(root, 'BAR2.;1', 'bar', n=3001)
        f2.pop('joliet', None)
        out.append(('udf-link-name-reused', [f1, {'op': 'addlink', 'ons': 'u', 'old': '/foo', 'nns': 'u', 'new': '/bar'},
                                             {'op': 'query', 'ns': 'u', 'path': '/bar'}, {'op': 'rmlink', 'ns': 'u', 'path': '/bar'}, f2]))
    if cfg.get('udf'):
        # a content with two UDF names on an image that is opened again: one name is unlinked, the other keeps the File
        # Entry; then the second goes too
        h1 = addfp(root, 'TWO.;1', 'two', n=2500)
        lk = {'op': 'addlink', 'ons': 'u', 'old': '/two', 'nns': 'u', 'new': '/two-again'}
        out.append(('udf-two-names-reopen-unlink-one', [h1, lk, addfp(root, 'ZZZ.;1', 'zzz', n=9), {'op': 'reopen'}, {'op': 'rmlink', 'ns': 'u', 'path': '/two-again'}]))
        out.append(('udf-two-names-reopen-unlink-both', [dict(h1), dict(lk), addfp(root, 'ZZZ.;1', 'zzz', n=9), {'op': 'reopen'},
                                                         {'op': 'rmlink', 'ns': 'u', 'path': '/two-again'}, {'op': 'rmlink', 'ns': 'u', 'path': '/two'}]))
    if cfg.get('joliet'):
        g1 = addfp(root, 'FOO.;1', 'foo', n=3808)
        g2 = addfp(root, 'BAR2.;1', 'bar', n=3001)
        g2.pop('udf', None)
        out.append(('joliet-link-name-reused', [g1, {'op': 'addlink', 'ons': 'j', 'old': '/foo', 'nns': 'j', 'new': '/bar'},
                                                {'op': 'query', 'ns': 'j', 'path': '/bar'}, {'op': 'rmlink', 'ns': 'j', 'path': '/bar'}, g2]))
    if cfg.get('udf'):
        # a directory that exists in UDF only is removed and made again (lookups in between must not be remembered)
        out.append(('udf-only-dir-recreated', [{'op': 'adddir', 'udf': '/dir1'}, {'op': 'addfp', 'cid': 2900, 'n': 4, 'udf': '/dir1/a'},
                                               {'op': 'rmfile', 'ns': 'u', 'path': '/dir1/a'}, {'op': 'rmdir', 'udf': '/dir1'},
                                               {'op': 'adddir', 'udf': '/dir1'}, {'op': 'addfp', 'cid': 2901, 'n': 6, 'udf': '/dir1/foo'}]))
    if cfg.get('udf'):
        # File Identifiers spanning three and more sectors: every crossing carries part of a descriptor over
        out.append(('udf-fids-many-sectors', [{'op': 'adddir', 'udf': '/wide'}] +
                    [dict({'op': 'addfp', 'cid': 3000 + i, 'n': 1, 'udf': '/wide/%03d%s' % (i, 'x' * 250)}) for i in range(90)] +
                    [{'op': 'addsym', 'udf': '/wide/link', 'utarget': '../docs/привет/日本語/readme'}]))
    if cfg.get('udf'):
        # UDF File Identifiers: parent 40 bytes + 2 x 44 + 40 x 48 = 2048 exactly, then the list continues
        def uf(name, n=1):
            cid[0] += 1
            d = {'op': 'addfp', 'cid': cid[0], 'n': n, 'udf': '/docs/' + name}
            return d
        ops = [{'op': 'adddir', 'udf': '/docs'}] + [uf('f%04d' % i) for i in range(2)] + [uf('g%08d' % i, n=0) for i in range(40)]
        ops += [uf('appendix', n=10), uf('latest', n=3000)]
        out.append(('udf-fid-sector-exact', ops))
        out.append(('udf-fid-sector-exact-shrunk', ops + [{'op': 'rmfile', 'ns': 'u', 'path': '/docs/g%08d' % i} for i in range(0, 40, 3)]))
    if cfg.get('rr'):
        # enough long names for a second continuation block; then the block that holds a single entry is emptied
        many = [addfp(root, 'L%02d.;1' % i, 'l%02d' % i, n=0, rr=chr(97 + i) * 243) for i in range(16)]
        out.append(('rr-second-block-emptied', many + [rm('rmfile', root, 'L15.;1', '')]))
        out.append(('rr-first-block-entry-removed', many + [rm('rmfile', root, 'L00.;1', ''), addfp(root, 'L99.;1', 'l99', rr='z' * 243)]))
        for delta in (1, 0, -1, 2):
            ops = [addfp(root, 'AAAA.;1', 'aaaa', rr='a' * 200), addfp(root, 'BBBB.;1', 'bbbb', rr='b' * 210),
                   addfp(root, 'CCCC.;1', 'cccc', rr='c' * 220), rm('rmfile', root, 'BBBB.;1', ''),
                   addfp(root, 'DDDD.;1', 'dddd', rr='d' * (210 + delta))]
            out.append(('rr-hole%+d' % delta, ops))
    return out
