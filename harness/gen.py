"""
History generator: structured, mostly-accepted edit histories built against a light shadow tree (used only to pick
plausible arguments — acceptance is decided by the real library, semantics by the Lean specification).
Every random choice comes from the rng passed in, so a case replays from its seed.
"""
import string

D1 = string.ascii_uppercase + string.digits + '_'
SIZES = [0, 0, 1, 5, 100, 2047, 2048, 2049, 4096, 5000, 7000]


def sample_cfg(rng, force=None):
    cfg = {
        'ilevel': rng.choice([1, 1, 2, 3, 3, 4]),
        'joliet': rng.choice([None, None, 3, 3, 1, 2]),
        'rr': rng.choice([None, None, '1.09', '1.09', '1.10', '1.12']),
        'udf': rng.choice([None, None, None, '2.60']),
        'xa': rng.random() < 0.15,
    }
    if force:
        cfg.update(force)
    return cfg


class Node:
    __slots__ = ('kind', 'parent', 'names', 'children', 'blob', 'rr')

    def __init__(self, kind, parent, names, blob=None, rr=None):
        self.kind, self.parent, self.names, self.blob, self.rr = kind, parent, names, blob, rr
        self.children = []

    def path(self, ns):
        comps = []
        n = self
        while n.parent is not None:
            if ns not in n.names:
                return None
            comps.append(n.names[ns])
            n = n.parent
        return '/' + '/'.join(reversed(comps))

    def depth(self):
        d, n = 0, self
        while n.parent is not None:
            d += 1
            n = n.parent
        return d


class Shadow:
    def __init__(self, cfg, rng):
        self.cfg, self.rng = cfg, rng
        self.root = Node('dir', None, {})
        self.nodes = [self.root]
        self.next_cid = 1
        self.nss = ['i'] + (['j'] if cfg.get('joliet') else []) + (['u'] if cfg.get('udf') else [])

    # ---- names
    def iso_name(self, is_dir, siblings):
        rng, lvl = self.rng, self.cfg['ilevel']
        for _ in range(50):
            if lvl == 1:
                base = ''.join(rng.choice(D1) for _ in range(rng.randint(1, 8)))
                ext = ''.join(rng.choice(D1) for _ in range(rng.randint(0, 3)))
            elif lvl in (2, 3):
                base = ''.join(rng.choice(D1) for _ in range(rng.choice([1, 2, 5, 8, 9, 12, 20, 27])))
                ext = ''.join(rng.choice(D1) for _ in range(rng.choice([0, 1, 3, 3])))
            else:
                pool = D1 + 'abcxyz-+ '
                base = ''.join(rng.choice(pool) for _ in range(rng.choice([1, 3, 8, 12, 30, 60]))).strip() or 'x'
                ext = ''.join(rng.choice(pool) for _ in range(rng.choice([0, 1, 3, 5]))).strip()
            if is_dir:
                name = base
            else:
                ver = rng.choice([';1', ';1', ';1', ';2', ';32767', ''])
                name = base + '.' + ext + ver
                if lvl == 4 and rng.random() < 0.3:
                    name = base + ('.' + ext if ext else '')
            # near-collisions to exercise ordering: prefix of an existing sibling
            if siblings and rng.random() < 0.15:
                s = rng.choice(sorted(siblings))
                stem = s.split(';')[0].split('.')[0][: 7 if lvl == 1 else 20]
                cand = (stem + rng.choice(D1))[: 8 if lvl == 1 else 30]
                name = cand if is_dir else cand + '.' + ext[:3] + ';1'
            if name not in siblings and name not in ('.', '..'):
                return name
        return None

    def long_name(self, maxlen, pool):
        rng = self.rng
        n = rng.choice([1, 2, 3, 5, 8, 12, 20, 40, maxlen - 1, maxlen]) if maxlen > 3 else maxlen
        n = max(1, min(n, maxlen))
        s = ''.join(rng.choice(pool) for _ in range(n))
        return s

    def rr_name(self, siblings):
        rng = self.rng
        pool = string.ascii_letters + string.digits + '._-+ ,='
        for _ in range(30):
            ln = rng.choice([1, 2, 4, 8, 11, 20, 40, 80, 120, 152, 190, 200, 249, 255])
            s = ''.join(rng.choice(pool) for _ in range(ln))
            if rng.random() < 0.1:
                s = s[: max(1, ln - 2)] + rng.choice(['é', 'ß', '中'])
            if s not in siblings and s not in ('.', '..'):
                return s
        return None

    def joliet_name(self, siblings):
        rng = self.rng
        pool = string.ascii_letters + string.digits + '._- ' * 2 + 'éßçñ中文日本ΩЖ'
        for _ in range(30):
            ln = rng.choice([1, 2, 5, 8, 13, 20, 31, 50, 63, 64])
            s = ''.join(rng.choice(pool) for _ in range(ln)).strip(' ') or 'j'
            if rng.random() < 0.05:
                s = s[: max(1, ln - 2)] + '\U0001F600'
            if s not in siblings and s not in ('.', '..') and '/' not in s:
                return s
        return None

    def udf_name(self, siblings):
        rng = self.rng
        pool = string.ascii_letters + string.digits + '._- ' + 'éßçñ'
        for _ in range(30):
            ln = rng.choice([1, 2, 5, 8, 13, 20, 40, 80, 120, 200])
            s = ''.join(rng.choice(pool) for _ in range(ln)).strip(' ') or 'u'
            if rng.random() < 0.15:
                s = s[: max(1, ln // 2)] + rng.choice(['中文', 'Ω', 'Ж日'])
            if s not in siblings and s not in ('.', '..'):
                return s
        return None

    def siblings(self, parent, ns):
        return {c.names[ns] for c in parent.children if ns in c.names}

    def pick_namespaces(self, parent):
        """namespaces in which a new child of `parent` can exist (parent must exist there)"""
        avail = [ns for ns in self.nss if parent.parent is None or ns in parent.names]
        if not avail:
            return []
        if self.rng.random() < 0.75:
            return avail
        k = self.rng.randint(1, len(avail))
        return sorted(self.rng.sample(avail, k))

    def make_names(self, parent, nss, is_dir):
        names, rr = {}, None
        for ns in nss:
            sib = self.siblings(parent, ns)
            if ns == 'i':
                nm = self.iso_name(is_dir, sib)
                if self.cfg.get('rr'):
                    rr = self.rr_name({c.rr for c in parent.children if c.rr})
            elif ns == 'j':
                nm = self.joliet_name(sib)
            else:
                nm = self.udf_name(sib)
            if nm is None:
                return None, None
            names[ns] = nm
        return names, rr

    def dirs(self):
        return [n for n in self.nodes if n.kind == 'dir']

    def files(self):
        return [n for n in self.nodes if n.kind == 'file']

    def remove(self, node):
        node.parent.children.remove(node)
        self.nodes.remove(node)

    # ---- ops
    def gen_op(self):
        rng, cfg = self.rng, self.cfg
        if cfg.get('duppvd') and rng.random() < 0.04:
            return {'op': 'duppvd'}, None
        limit = 7 if (not cfg.get('rr') and cfg['ilevel'] < 4) else 9
        mix = getattr(self, 'opmix', None) or {'addfp': 36, 'adddir': 20, 'rmfile': 8, 'rmdir': 6, 'addlink': 10, 'rmlink': 5,
                                               'addsym': 8, 'hide': 7}
        cats = sorted(mix)
        pick = rng.choices(cats, weights=[mix[c] for c in cats])[0]
        # map the category onto the threshold ladder below
        r = {'addfp': 0.0, 'adddir': 0.40, 'rmfile': 0.60, 'rmdir': 0.66, 'addlink': 0.72, 'rmlink': 0.82, 'addsym': 0.88, 'hide': 0.95}[pick]
        if r < 0.36:
            parent = rng.choice(self.dirs())
            nss = self.pick_namespaces(parent)
            if not nss:
                return None
            names, rr = self.make_names(parent, nss, False)
            if names is None:
                return None
            node = Node('file', parent, names, blob=self.next_cid, rr=rr)
            op = {'op': 'addfp', 'cid': self.next_cid, 'n': rng.choice(SIZES)}
            self.next_cid += 1
            self._fill_paths(op, parent, node)
            if cfg.get('rr') and 'i' in names and rng.random() < 0.3:
                op['mode'] = rng.choice([0o100644, 0o100755, 0o100400, 0o100444])
            return op, ('add', node)
        if r < 0.56:
            cands = [d for d in self.dirs() if d.depth() < limit - 1]
            parent = rng.choice(cands)
            nss = self.pick_namespaces(parent)
            if not nss:
                return None
            names, rr = self.make_names(parent, nss, True)
            if names is None:
                return None
            node = Node('dir', parent, names, rr=rr)
            op = {'op': 'adddir'}
            self._fill_paths(op, parent, node)
            return op, ('add', node)
        if r < 0.64 and self.files():
            node = rng.choice(self.files())
            ns = rng.choice(sorted(node.names))
            return {'op': 'rmfile', 'ns': ns, 'path': node.path(ns)}, ('rmblob', node)
        if r < 0.70:
            cands = [d for d in self.dirs() if d.parent is not None and not d.children]
            if not cands:
                return None
            node = rng.choice(cands)
            op = {'op': 'rmdir'}
            for ns, k in (('i', 'iso'), ('j', 'joliet'), ('u', 'udf')):
                if ns in node.names:
                    op[k] = node.path(ns)
            return op, ('rm', node)
        if r < 0.80 and self.files():
            old = rng.choice(self.files())
            ons = rng.choice(sorted(old.names))
            parent = rng.choice(self.dirs())
            avail = [ns for ns in self.nss if parent.parent is None or ns in parent.names]
            if not avail:
                return None
            nns = rng.choice(avail)
            names, rr = self.make_names(parent, [nns], False)
            if names is None:
                return None
            node = Node('file', parent, names, blob=old.blob, rr=rr)
            op = {'op': 'addlink', 'ons': ons, 'old': old.path(ons), 'nns': nns}
            node.parent = parent
            parent.children.append(node)
            op['new'] = node.path(nns)
            parent.children.remove(node)
            if rr is not None and nns == 'i':
                op['rr'] = rr
            return op, ('add', node)
        if r < 0.85 and self.files():
            node = rng.choice(self.files())
            ns = rng.choice(sorted(node.names))
            return {'op': 'rmlink', 'ns': ns, 'path': node.path(ns)}, ('rmname', node, ns)
        if r < 0.93 and (cfg.get('rr') or cfg.get('udf')):
            parent = rng.choice(self.dirs())
            avail = [ns for ns in self.nss if (parent.parent is None or ns in parent.names)]
            want = [ns for ns in avail if (ns == 'i' and cfg.get('rr')) or ns == 'u' or (ns == 'j' and 'i' in avail and cfg.get('rr'))]
            if not want:
                return None
            if 'i' not in want and 'j' in want:
                want.remove('j')
            if not want:
                return None
            names, rr = self.make_names(parent, want, False)
            if names is None:
                return None
            node = Node('sym', parent, names, rr=rr)
            op = {'op': 'addsym'}
            self._fill_paths(op, parent, node)
            tgt = self.sym_target()
            if 'i' in names:
                op['target'] = tgt
            if 'u' in names:
                op['utarget'] = self.sym_target(udf=True)
            return op, ('add', node)
        cands = [n for n in self.nodes if n.parent is not None and ('i' in n.names or 'j' in n.names)]
        if not cands:
            return None
        node = rng.choice(cands)
        ns = rng.choice([ns for ns in ('i', 'j') if ns in node.names])
        return {'op': rng.choice(['hide', 'hide', 'unhide']), 'ns': ns, 'path': node.path(ns)}, None

    def sym_target(self, udf=False):
        rng = self.rng
        comps = []
        for _ in range(rng.choice([1, 1, 2, 3, 5, 12])):
            c = rng.choice(['a', 'bb', 'target', '..', '.', 'x' * rng.choice([10, 100, 200, 249]), 'dir', 'é' if udf else 'e'])
            comps.append(c)
        s = '/'.join(comps)
        if rng.random() < 0.3:
            s = '/' + s
        return s

    def _fill_paths(self, op, parent, node):
        parent.children.append(node)
        node.parent = parent
        for ns, k in (('i', 'iso'), ('j', 'joliet'), ('u', 'udf')):
            if ns in node.names:
                op[k] = node.path(ns)
        if node.rr is not None and 'i' in node.names:
            op['rr'] = node.rr
        parent.children.remove(node)

    def commit(self, effect):
        """Apply the effect of an accepted op to the shadow."""
        if effect is None:
            return
        kind = effect[0]
        if kind == 'add':
            node = effect[1]
            node.parent.children.append(node)
            self.nodes.append(node)
        elif kind == 'rm':
            self.remove(effect[1])
        elif kind == 'rmblob':
            b = effect[1].blob
            for n in [n for n in self.nodes if n.kind == 'file' and n.blob == b]:
                self.remove(n)
        elif kind == 'rmname':
            node, ns = effect[1], effect[2]
            del node.names[ns]
            if ns == 'i':
                node.rr = None
            if not node.names:
                self.remove(node)
