def run_c13_api(ctx):
    pass
def replay_api(ctx, obj):
    return []
