"""
Edit histories on the real pycdlib (in-process) and their comparison with the Lean specification and the
independent Lean readers.  Shared by C01-C14 / C17.

A history is (cfg, ops).  cfg = dict(ilevel, joliet, rr, udf, xa).  ops are dicts:
  addfp   cid n [iso rr joliet udf mode]        adddir  [iso rr joliet udf mode]
  rmfile  ns path                               rmdir   [iso joliet udf]
  addlink ons old nns new [rr]                  rmlink  ns path
  addsym  [iso rr target joliet udf utarget]    hide/unhide ns path
  force / query ns path / write / reopen        (schedule ops, C06 / C02)
  eltorito ..., rmeltorito, isohybrid ..., rmisohybrid, duppvd   (C11/C12)
Paths are Python str as the API takes them.  File contents come from content(cid, n), the same byte function the
Lean specification uses (Spec.content).
"""
import contextlib
import io
import os
import time

from harness import core

FIXED_TIME = 1700000000.0


def isolinux_boot(n=2048, fill=0x5a):
    """a boot file isohybrid accepts: 0x40 bytes, the isolinux signature fb c0 78 70, filler"""
    b = bytes(0x40) + b'\xfb\xc0\x78\x70' + bytes([fill]) * max(0, n - 0x44)
    return b[:max(n, 0x44)]


def content(cid, n):
    return bytes(((cid * 37 + i * 11 + (i >> 8) * 3 + 5) % 251) for i in range(n))


_content_cache = {}


def content_cached(cid, n):
    k = (cid, n)
    if k not in _content_cache:
        if len(_content_cache) > 400:
            _content_cache.clear()
        _content_cache[k] = content(cid, n)
    return _content_cache[k]


@contextlib.contextmanager
def frozen_time(t=FIXED_TIME):
    """Freeze the environment inputs pycdlib reads while building an image: time.time, random.getrandbits (UDF volume set
    identifier, isohybrid MBR id) and uuid.uuid4 (GPT GUIDs) — the latter two as deterministic sequences restarted here."""
    import random as _random
    import uuid as _uuid
    real, real_bits, real_uuid = time.time, _random.getrandbits, _uuid.uuid4
    counter = [0]

    def bits(n):
        counter[0] += 1
        return (0x2545F491 * counter[0]) & ((1 << n) - 1)

    def uuid4():
        counter[0] += 1
        return _uuid.UUID(int=(0x9E3779B97F4A7C15F39CC0605CEDC834 * counter[0]) & ((1 << 128) - 1), version=4)
    time.time = lambda: t
    _random.getrandbits = bits
    _uuid.uuid4 = uuid4
    try:
        yield
    finally:
        time.time = real
        _random.getrandbits = real_bits
        _uuid.uuid4 = real_uuid


def exc_class(e):
    from pycdlib import pycdlibexception as pe
    if isinstance(e, pe.PyCdlibInvalidInput):
        return 'invalidInput'
    if isinstance(e, pe.PyCdlibInvalidISO):
        return 'invalidISO'
    if isinstance(e, pe.PyCdlibInternalError):
        return 'internalError'
    return 'py:' + type(e).__name__


def new_iso(cfg, always_consistent=False):
    import pycdlib
    iso = pycdlib.PyCdlib(always_consistent=always_consistent)
    iso.new(interchange_level=cfg.get('ilevel', 1), joliet=cfg.get('joliet'), rock_ridge=cfg.get('rr'),
            xa=cfg.get('xa', False), udf=cfg.get('udf'), vol_ident=cfg.get('vol_ident', ''))
    return iso


def _kw(d, **names):
    return {k: d[v] for k, v in names.items() if d.get(v) is not None}


def apply_op(iso, op):
    """Run one op on the real API. Returns 'ok' or the refusal class."""
    o = op['op']
    try:
        if o == 'addfp':
            data = bytes.fromhex(op['hex']) if 'hex' in op else content_cached(op['cid'], op['n'])
            kw = _kw(op, iso_path='iso', rr_name='rr', joliet_path='joliet', udf_path='udf', file_mode='mode')
            iso.add_fp(io.BytesIO(data), op['n'], **kw)
        elif o == 'adddir':
            iso.add_directory(**_kw(op, iso_path='iso', rr_name='rr', joliet_path='joliet', udf_path='udf', file_mode='mode'))
        elif o == 'rmfile':
            iso.rm_file(**{{'i': 'iso_path', 'j': 'joliet_path', 'u': 'udf_path'}[op['ns']]: op['path']})
        elif o == 'rmdir':
            iso.rm_directory(**_kw(op, iso_path='iso', joliet_path='joliet', udf_path='udf'))
        elif o == 'addlink':
            kw = {{'i': 'iso_old_path', 'j': 'joliet_old_path', 'u': 'udf_old_path'}[op['ons']]: op['old'],
                  {'i': 'iso_new_path', 'j': 'joliet_new_path', 'u': 'udf_new_path'}[op['nns']]: op['new']}
            if op.get('rr') is not None:
                kw['rr_name'] = op['rr']
            iso.add_hard_link(**kw)
        elif o == 'rmlink':
            iso.rm_hard_link(**{{'i': 'iso_path', 'j': 'joliet_path', 'u': 'udf_path'}[op['ns']]: op['path']})
        elif o == 'addsym':
            iso.add_symlink(**_kw(op, symlink_path='iso', rr_symlink_name='rr', rr_path='target', joliet_path='joliet',
                                  udf_symlink_path='udf', udf_target='utarget'))
        elif o in ('hide', 'unhide'):
            fn = iso.set_hidden if o == 'hide' else iso.clear_hidden
            fn(**{{'i': 'iso_path', 'r': 'rr_path', 'j': 'joliet_path'}[op['ns']]: op['path']})
        elif o == 'force':
            iso.force_consistency()
        elif o == 'query':
            key = {'i': 'iso_path', 'j': 'joliet_path', 'u': 'udf_path', 'r': 'rr_path'}[op['ns']]
            rec = iso.get_record(**{key: op['path']})
            return 'ok'
        elif o == 'walk':
            for _ in iso.walk(iso_path='/'):
                pass
        elif o == 'duppvd':
            iso.duplicate_pvd()
        elif o == 'eltorito':
            kw = dict(op['kw'])
            iso.add_eltorito(op['boot'], **kw)
        elif o == 'rmeltorito':
            iso.rm_eltorito()
        elif o == 'isohybrid':
            iso.add_isohybrid(**op.get('kw', {}))
        elif o == 'rmisohybrid':
            iso.rm_isohybrid()
        else:
            raise ValueError('unknown op %r' % o)
        return 'ok'
    except Exception as e:  # noqa
        return exc_class(e)


# ------------------------------------------------------------------ spec tokens

def ptok(path, enc='utf-8'):
    """API path string -> '/hex/hex' as the spec protocol wants (normalised the way utils.normpath does)."""
    comps = [c for c in path.split('/') if c not in ('', '.')]
    if not comps:
        return '/'
    return ''.join('/' + c.encode(enc).hex() for c in comps)


def btok(s):
    if s is None:
        return '-'
    b = s.encode('utf-8') if isinstance(s, str) else s
    return b.hex() if b else '-'


def spec_token(op):
    o = op['op']
    f = [o]
    if o == 'addfp':
        f += ['c=%d' % op['cid'], 'n=%d' % op['n']]
    if o in ('addfp', 'adddir', 'addsym'):
        if op.get('iso'):
            f.append('i=' + ptok(op['iso']))
        if op.get('rr') is not None:
            f.append('r=' + btok(op['rr']))
        if op.get('joliet'):
            f.append('j=' + ptok(op['joliet']))
        if op.get('udf'):
            f.append('u=' + ptok(op['udf']))
        if op.get('mode') is not None:
            f.append('m=%d' % op['mode'])
        if o == 'addsym':
            f.append('t=' + btok(op.get('target')))
            f.append('ut=' + btok(op.get('utarget')))
    elif o in ('rmfile', 'rmlink', 'hide', 'unhide'):
        f += ['ns=' + op['ns'], 'p=' + ptok(op['path'])]
    elif o == 'rmdir':
        for k, t in (('iso', 'i'), ('joliet', 'j'), ('udf', 'u')):
            if op.get(k):
                f.append('%s=%s' % (t, ptok(op[k])))
    elif o == 'addlink':
        f += ['ons=' + op['ons'], 'o=' + ptok(op['old']), 'nns=' + op['nns'], 'p=' + ptok(op['new'])]
        if op.get('rr') is not None:
            f.append('r=' + btok(op['rr']))
    elif o == 'reopen':
        return 'reopen'
    else:
        return None
    return ','.join(f)


# ------------------------------------------------------------------ report parsing

class Report:
    def __init__(self, line):
        self.raw = line
        sec = {}
        for part in line.split(' ;; '):
            k, _, v = part.partition('=')
            sec[k] = [x for x in v.split('|') if x] if v else []
        self.errs = sec.get('errs', [])
        self.info = dict(x.split('=', 1) for x in sec.get('info', []) if '=' in x)
        self.allocs = []
        for a in sec.get('allocs', []):
            label, _, rng = a.rpartition('@')
            first, _, cnt = rng.partition('+')
            self.allocs.append((label, int(first), int(cnt)))
        self.entries = sec.get('entries', [])


def read_image(ctx, path):
    return Report(ctx.driver.ask(['read ' + path])[0])


def parse_entries(entries):
    """entry strings -> {(ns, kind, path): attrs dict}"""
    out = {}
    for e in entries:
        f = e.split(':')
        ns, kind, path = f[0], f[1], f[2]
        if ns == 'B':
            out[('B', kind, '')] = {'raw': e}
            continue
        a = {}
        if kind == 'F':
            a['len'] = int(f[3])
            a['hash'] = f[4]
            a['loc'] = f[5]
            rest = f[6:]
        elif kind == 'L':
            a['target'] = f[3]
            rest = f[4:]
        else:
            rest = f[3:]
        for r in rest:
            if r.startswith('h') and ns in 'IJ':
                a['hidden'] = r[1:]
            elif r.startswith('m'):
                a['mode'] = r[1:] if r[1:] == '*' else int(r[1:])
            elif r.startswith('n'):
                a['nlink'] = int(r[1:])
        out[(ns, kind, path)] = a
    return out


def compare_views(expected_entries, actual_entries):
    """Spec view vs reader view. Returns list of (code, detail)."""
    skip_iso = any(e.startswith('X:relocation-name-collision') for e in expected_entries)
    expected_entries = [e for e in expected_entries if not e.startswith('X:')]
    exp = parse_entries(expected_entries)
    act = parse_entries([e for e in actual_entries if not e.startswith('B:')])
    # relocation placeholders: kind P on both sides (histcheck.relocate_expected / Reader.emitPhys)
    if skip_iso:
        exp = {k: v for k, v in exp.items() if k[0] not in ('I', 'R')}
        act = {k: v for k, v in act.items() if k[0] not in ('I', 'R')}
    diffs = []
    for k in sorted(set(exp) - set(act)):
        diffs.append(('missing', '%s:%s:%s' % k))
    for k in sorted(set(act) - set(exp)):
        diffs.append(('extra', '%s:%s:%s' % k))
    blob_of_loc, loc_of_blob = {}, {}
    for k in sorted(set(exp) & set(act)):
        e, a = exp[k], act[k]
        for fld in ('len', 'hash', 'hidden', 'mode', 'nlink', 'target'):
            if fld == 'mode' and e.get(fld) == '*':
                if not isinstance(a.get(fld), int) or (a[fld] & 0o170000) != 0o100000:
                    diffs.append((fld, '%s:%s:%s expected a regular-file mode got %s' % (k + (a.get(fld),))))
                continue
            if fld in e and e.get(fld) != a.get(fld):
                diffs.append((fld, '%s:%s:%s expected %s got %s' % (k + (e.get(fld), a.get(fld)))))
        if k[1] == 'F' and e.get('len', 0) > 0 and e['loc'].startswith('b') and e['loc'] != 'b-':
            b, loc = e['loc'], a['loc']
            if blob_of_loc.setdefault(loc, b) != b:
                diffs.append(('shared-sectors-unlinked', '%s:%s:%s at sector %s shares data with another content' % (k + (loc,))))
            if loc_of_blob.setdefault(b, loc) != loc:
                diffs.append(('linked-not-shared', '%s:%s:%s content %s stored at %s and %s' % (k + (b, loc_of_blob[b], loc))))
    return diffs


def check_allocs(rep):
    """C04 on the reader's allocation list: pairwise disjoint objects, inside the declared size, exact image length."""
    bad = []
    space = int(rep.info.get('space', 0))
    imgsec = int(rep.info.get('imgsectors', 0))
    if imgsec != space:
        bad.append(('image-length', 'image has %d sectors, declared volume size %d' % (imgsec, space)))
    objs = {}
    ce = []
    for label, first, cnt in rep.allocs:
        if label.startswith('cearea:'):
            ce.append((label, first, cnt))           # byte offset, byte length
            continue
        if cnt == 0:
            continue
        kind = 'file' if label.startswith('file:') or label == 'bootcat' else ('udffe' if label.startswith('udf:fe:') else label)
        key = (first, cnt)
        if kind in ('file', 'udffe'):
            # several names may legitimately reach one data extent / one UDF file entry (hard links);
            # that they are links to ONE content is checked against the specification by compare_views
            objs.setdefault((kind, key), []).append(label)
        else:
            objs.setdefault((label, key), []).append(label)
    items = sorted(((k[1][0], k[1][0] + k[1][1], k[0], v) for k, v in objs.items()))
    # CE sectors are objects of their own
    ce_secs = {}
    for label, off, ln in ce:
        if ln:
            ce_secs.setdefault(off // 2048, []).append((off % 2048, ln, label))
    for sec, areas in ce_secs.items():
        areas.sort()
        for (o1, l1, n1), (o2, l2, n2) in zip(areas, areas[1:]):
            if o1 + l1 > o2:
                bad.append(('ce-overlap', 'continuation areas %s and %s overlap in sector %d' % (n1, n2, sec)))
        items.append((sec, sec + 1, 'ce-sector', ['ce:%d' % sec]))
    items.sort(key=lambda t: (t[0], t[1]))
    for (a0, a1, ka, la), (b0, b1, kb, lb) in zip(items, items[1:]):
        if a1 > b0:
            bad.append(('overlap', '%s [%d,%d) overlaps %s [%d,%d)' % (la[0], a0, a1, lb[0], b0, b1)))
    if items and max(t[1] for t in items) != space:
        bad.append(('trailing-slack', 'last object ends at sector %d but the declared size is %d' % (max(t[1] for t in items), space)))
    for a0, a1, k, l in items:
        if a1 > space:
            bad.append(('out-of-bounds', '%s [%d,%d) beyond declared size %d' % (l[0], a0, a1, space)))
    return bad


# ------------------------------------------------------------------ running histories

class Run:
    pass


def run_history(ctx, cfg, ops, tmpdir, always_consistent=False, want_image=True):
    """Execute ops on the real library; returns Run with per-op results, accepted spec tokens, image path."""
    r = Run()
    r.results = []
    r.tokens = []
    r.sizes = []
    r.image = None
    r.write_error = None
    with frozen_time():
        iso = new_iso(cfg, always_consistent)
        for op in ops:
            if op['op'] == 'write':
                continue
            res = apply_op(iso, op)
            r.results.append(res)
            if res == 'ok':
                t = spec_token(op)
                if t is not None:
                    r.tokens.append(t)
            r.sizes.append(iso.pvd.space_size)
        if want_image:
            path = os.path.join(tmpdir, 'h%d.iso' % ctx.rng.randrange(10 ** 12))
            try:
                iso.write(path)
                r.image = path
            except Exception as e:  # noqa
                r.write_error = exc_class(e) + ':' + str(e)[:100]
        r.iso = iso
    return r
