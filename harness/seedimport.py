#!/venv/bin/python
"""
Import a seeded change produced by a sub-agent, confirming its claims first.

  harness/seedimport.py <outdir with patch.diff demo.py meta.json> <name, e.g. C17-q1> <scratch worktree of /repo>

In the scratch worktree (never /repo): the unedited test suite is run without and with the patch and the sets of failing
test ids must be equal; demo.py must exit 0 without the patch and 1 with it.  Only then the change is copied to
seeded/<name>/ with the commands and results recorded in meta.json ("confirmed").  The worktree is left clean.
"""
import json
import os
import re
import shutil
import subprocess
import sys

ROOT = os.path.dirname(os.path.dirname(os.path.abspath(__file__)))


def sh(cmd, **kw):
    return subprocess.run(cmd, stdout=subprocess.PIPE, stderr=subprocess.STDOUT, text=True, **kw)


def failing(wt):
    cache = os.path.join(wt, '.baseline_fail.json')
    r = sh(['/venv/bin/python', '-m', 'pytest', '-q', '-p', 'no:cacheprovider', '--timeout=900', '--continue-on-collection-errors',
            '-n', '8', '-rfE'], cwd=wt, env=dict(os.environ, PYTHONPATH=wt), timeout=3600)
    ids = sorted(set(re.findall(r'^(?:FAILED|ERROR) (\S+)', r.stdout, re.M)))
    tail = r.stdout.strip().split('\n')[-1]
    return ids, tail


def main(argv):
    out, name, wt = os.path.abspath(argv[0]), argv[1], os.path.abspath(argv[2])
    if wt.startswith('/repo') or wt.startswith('/verif'):
        print('refusing to work in', wt)
        return 2
    if sh(['git', '-C', wt, 'status', '--porcelain', '--untracked-files=no']).stdout.strip():
        sh(['git', '-C', wt, 'checkout', '--', '.'])
    base_file = os.path.join(os.path.dirname(wt), 'baseline_%s.json' % os.path.basename(wt))
    if os.path.exists(base_file):
        base_ids, base_tail = json.load(open(base_file))
    else:
        base_ids, base_tail = failing(wt)
        json.dump([base_ids, base_tail], open(base_file, 'w'))
    env = dict(os.environ, PYTHONPATH=wt)
    demo = os.path.join(out, 'demo.py')
    clean = sh(['/venv/bin/python', demo], env=env, cwd='/tmp', timeout=900).returncode
    r = sh(['git', '-C', wt, 'apply', os.path.join(out, 'patch.diff')])
    if r.returncode != 0:
        print(name, 'patch does not apply:', r.stdout[:300])
        return 1
    try:
        with_patch = sh(['/venv/bin/python', demo], env=env, cwd='/tmp', timeout=900).returncode
        ids, tail = failing(wt)
    finally:
        sh(['git', '-C', wt, 'checkout', '--', '.'])
    ok = clean == 0 and with_patch == 1 and ids == base_ids
    print(name, 'demo clean=%d patched=%d; suite: %s | baseline: %s | same failing ids: %s -> %s'
          % (clean, with_patch, tail, base_tail, ids == base_ids, 'CONFIRMED' if ok else 'REJECTED'))
    if not ok:
        return 1
    dst = os.path.join(ROOT, 'seeded', name)
    os.makedirs(dst, exist_ok=True)
    for f in ('patch.diff', 'demo.py'):
        shutil.copy(os.path.join(out, f), os.path.join(dst, f))
    meta = json.load(open(os.path.join(out, 'meta.json')))
    meta['confirmed'] = {'worktree': 'scratch git worktree of /repo HEAD (removed afterwards)',
                         'suite_cmd': 'PYTHONPATH=<worktree> /venv/bin/python -m pytest -q -p no:cacheprovider --timeout=900 --continue-on-collection-errors -n 8 -rfE',
                         'suite_without_patch': base_tail, 'suite_with_patch': tail, 'same_failing_ids': True,
                         'demo_exit_without_patch': clean, 'demo_exit_with_patch': with_patch}
    json.dump(meta, open(os.path.join(dst, 'meta.json'), 'w'), indent=1)
    return 0


if __name__ == '__main__':
    sys.exit(main(sys.argv[1:]))
