"""
Shared machinery of the pycdlib proof checks (see DESIGN.md sections 2, 4, 9 and Appendix C).

One invocation `bin/check Cxx --tier T`:
  1. regenerate lean/Pycdlib/Generated/*.lean from /repo (py2lean), build the property's Lean
     modules and the model driver (lake; serialised by a file lock),
  2. audit the proofs (forbidden tokens, `#print axioms` of every property theorem),
  3. run the property's correspondence streams and oracles (harness/props/cxx.py),
  4. decide (KNOWN-FINDING / VIOLATION / no-failing-input-found), write evidence/Cxx.json.
Exit codes: 0 held, 1 violation, 2 infrastructure failure.
"""
import collections
import contextlib
import fcntl
import hashlib
import importlib
import io
import json
import os
import random
import re
import subprocess
import sys
import time
import traceback

VERIF = os.path.dirname(os.path.dirname(os.path.abspath(__file__)))
REPO = os.environ.get('VERIF_REPO', '/repo')
LEAN = os.path.join(VERIF, 'lean')
DRIVER = os.path.join(LEAN, '.lake', 'build', 'bin', 'driver')
EVID = os.path.join(VERIF, 'evidence')
FINDINGS_DIR = os.path.join(VERIF, 'findings')
KNOWN = os.path.join(VERIF, 'known_findings.json')
ALLOWED_AXIOMS = {'propext', 'Classical.choice', 'Quot.sound'}
FORBIDDEN = re.compile(r'\b(sorry|admit|native_decide|bv_decide|implemented_by)\b|^\s*axiom\s|\bunsafe\s|maxHeartbeats\s+0\b')

if REPO not in sys.path:
    sys.path.insert(0, REPO)


def log(*a):
    print(*a, flush=True)


# --------------------------------------------------------------------------- lean build

@contextlib.contextmanager
def lake_lock():
    os.makedirs(os.path.join(LEAN, '.lake'), exist_ok=True)
    with open(os.path.join(LEAN, '.lake', 'verif.lock'), 'w') as f:
        fcntl.flock(f, fcntl.LOCK_EX)
        try:
            yield
        finally:
            fcntl.flock(f, fcntl.LOCK_UN)


def regen():
    """Run the translator; returns {generated file: changed?} and a list of translator notes."""
    from harness import py2lean
    return py2lean.generate(REPO, os.path.join(LEAN, 'Pycdlib', 'Generated'))


def lake_build(targets, timeout=900):
    """Build targets; returns (ok, output)."""
    with lake_lock():
        p = subprocess.run(['lake', 'build'] + list(targets), cwd=LEAN, stdout=subprocess.PIPE,
                           stderr=subprocess.STDOUT, text=True, timeout=timeout)
    return p.returncode == 0, p.stdout


def strip_comments(src):
    # remove /- ... -/ (nested not needed for our files) and -- comments
    src = re.sub(r'/-.*?-/', lambda m: '\n' * m.group(0).count('\n'), src, flags=re.S)
    src = re.sub(r'--.*', '', src)
    return src


def forbidden_tokens():
    hits = []
    for root, _d, files in os.walk(os.path.join(LEAN, 'Pycdlib')):
        for fn in files:
            if fn.endswith('.lean'):
                p = os.path.join(root, fn)
                for n, line in enumerate(strip_comments(open(p).read()).split('\n'), 1):
                    if FORBIDDEN.search(line):
                        hits.append('%s:%d: %s' % (os.path.relpath(p, LEAN), n, line.strip()))
    return hits


def audit_axioms(pid, modules, theorems):
    """#print axioms for every theorem. Returns {theorem: [axioms] or None if missing}."""
    src = ''.join('import %s\n' % m for m in modules)
    src += ''.join('#print axioms %s\n' % t for t in theorems)
    path = os.path.join(LEAN, '.lake', 'Audit_%s.lean' % pid)
    with open(path, 'w') as f:
        f.write(src)
    p = subprocess.run(['lake', 'env', 'lean', path], cwd=LEAN, stdout=subprocess.PIPE,
                       stderr=subprocess.STDOUT, text=True, timeout=900)
    out = p.stdout
    res = {t: None for t in theorems}
    for m in re.finditer(r"'([^']+)' depends on axioms: \[([^\]]*)\]", out):
        res[m.group(1)] = [a.strip() for a in m.group(2).replace('\n', ' ').split(',') if a.strip()]
    for m in re.finditer(r"'([^']+)' does not depend on any axioms", out):
        res[m.group(1)] = []
    return res, out


# --------------------------------------------------------------------------- driver

class Driver:
    """The compiled Lean model behind the line protocol (one answer line per request line)."""

    def __init__(self):
        self.ok = os.path.exists(DRIVER)
        self.lines = 0

    def ask(self, lines, timeout=600):
        if not lines:
            return []
        for l in lines:
            assert '\n' not in l
        data = '\n'.join(lines) + '\n'
        for attempt in range(6):
            try:
                p = subprocess.run([DRIVER], input=data, stdout=subprocess.PIPE, stderr=subprocess.PIPE,
                                   text=True, timeout=timeout)
                break
            except (FileNotFoundError, PermissionError, OSError):
                # the executable is being relinked by a build that another check started (lake replaces the file)
                if attempt == 5:
                    raise
                time.sleep(5)
        out = p.stdout.split('\n')
        if out and out[-1] == '':
            out.pop()
        if p.returncode != 0 or len(out) != len(lines):
            raise RuntimeError('driver failed rc=%s, %d answers for %d requests: %s' %
                               (p.returncode, len(out), len(lines), p.stderr[-400:]))
        self.lines += len(lines)
        return out


def hexs(b):
    return b.hex() if b else '-'


# --------------------------------------------------------------------------- context

class Ctx:
    def __init__(self, pid, tier, seed):
        self.pid, self.tier, self.seed = pid, tier, seed
        self.rng = random.Random(seed * 1000003 + int(pid[1:]))
        self.quick = tier == 'quick'
        self.evaluations = 0
        self.distinct = set()
        self.samples = []
        self.dist = collections.Counter()
        self.violations = []      # dicts: signature, summary, replay
        self.disagreements = []   # dicts: stream, summary, replay
        self.known_hits = set()
        self.notes = []
        self.traces_validated = 0
        self.exhaustive = False
        self.rule = ''
        self.extra = {}
        self.driver = Driver()
        self.deadline = time.time() + (240 if self.quick else 1500)

    def time_left(self):
        return self.deadline - time.time()

    def count(self, key=None, nontrivial=True, sample=None, kind=None):
        """Account one explored case."""
        self.evaluations += 1
        if kind:
            self.dist[kind] += 1
        if nontrivial and key is not None:
            self.distinct.add(hashlib.blake2b(repr(key).encode(), digest_size=8).digest())
        if sample is not None and len(self.samples) < 6:
            self.samples.append(sample)

    def violation(self, signature, summary, replay):
        for v in self.violations:
            if v['signature'] == signature:
                v['count'] += 1
                return
        self.violations.append({'signature': signature, 'summary': summary, 'replay': replay, 'count': 1})

    def disagree(self, stream, summary, replay):
        if len(self.disagreements) < 50:
            self.disagreements.append({'stream': stream, 'summary': summary, 'replay': replay})


def load_known():
    if not os.path.exists(KNOWN):
        return []
    return json.load(open(KNOWN))['findings']


def write_replay(pid, name, obj):
    os.makedirs(FINDINGS_DIR, exist_ok=True)
    path = os.path.join(FINDINGS_DIR, '%s_%s.json' % (pid, re.sub(r'[^A-Za-z0-9_.-]+', '_', name)[:80]))
    with open(path, 'w') as f:
        json.dump(obj, f, indent=1, sort_keys=True, default=str)
    return os.path.relpath(path, VERIF)


TRUSTED_BASE_COMMON = [
    'Lean 4.33.0 kernel (and leanchecker in the thorough tier)',
    'axioms: subset of {propext, Classical.choice, Quot.sound}, re-checked by #print axioms on every run; no native_decide/bv_decide/sorry',
    'harness/py2lean.py (translator of constants, tables and arithmetic kernels from /repo into Pycdlib/Generated)',
    'the correspondence harness and generators (harness/), which run /repo in-process and the compiled Lean driver on the same inputs',
    'Lean compiler/runtime for the driver executable (test infrastructure only, not part of any proof)',
]


def main(argv):
    import argparse
    ap = argparse.ArgumentParser()
    ap.add_argument('pid')
    ap.add_argument('--tier', default=os.environ.get('VERIF_TIER', 'quick'))
    ap.add_argument('--replay')
    ap.add_argument('--no-build', action='store_true')
    a = ap.parse_args(argv)
    pid = a.pid.upper()
    tier = a.tier if a.tier in ('quick', 'thorough') else 'quick'
    seed = int(os.environ.get('VERIF_SEED', '0') or 0)
    t0 = time.time()
    try:
        prop = importlib.import_module('harness.props.%s' % pid.lower())
    except ImportError:
        traceback.print_exc()
        log('no check for', pid)
        return 2
    ctx = Ctx(pid, tier, seed)

    if a.replay:
        obj = json.load(open(a.replay if os.path.isabs(a.replay) else os.path.join(VERIF, a.replay)))
        sigs = prop.replay(ctx, obj)
        for s in sigs:
            log('REPLAY: property=%s reproduces %s' % (pid, s))
        if not sigs:
            log('REPLAY: property=%s does not reproduce' % pid)
        return 1 if sigs else 0

    # 1. regenerate + build
    broken = []          # names of obligations / streams that no longer check
    try:
        gen_info = regen()
    except Exception as e:  # translator could not handle the changed source
        gen_info = {'error': repr(e)}
        broken.append('py2lean: %r' % e)
    modules = list(prop.LEAN_MODULES)
    theorems = list(prop.THEOREMS)
    build_log = ''
    if not a.no_build:
        ok, out = lake_build(['driver'])
        if not ok:
            build_log += out
            ctx.driver.ok = os.path.exists(DRIVER)
            broken.append('lake build driver')
        for m in modules:
            ok, out = lake_build([m])
            if not ok:
                build_log += out
                errs = re.findall(r'error: (\S+\.lean:\d+:\d+): (.*)', out)
                broken.append('lake build %s failed: %s' % (m, '; '.join('%s %s' % e for e in errs[:3])))
    # 2. audit
    tok = forbidden_tokens()
    if tok:
        broken.append('forbidden tokens: ' + '; '.join(tok[:5]))
    built_modules = [m for m in modules if not any(m in b for b in broken)]
    ax, ax_out = ({t: None for t in theorems}, '')
    if built_modules:
        try:
            ax, ax_out = audit_axioms(pid, built_modules, theorems)
        except Exception as e:
            broken.append('axiom audit failed: %r' % e)
    discharged = 0
    ax_used = set()
    for t in theorems:
        if ax.get(t) is None:
            broken.append('theorem %s does not check' % t)
        elif not set(ax[t]) <= ALLOWED_AXIOMS:
            broken.append('theorem %s uses axioms %s' % (t, ax[t]))
        else:
            discharged += 1
            ax_used |= set(ax[t])
    if tier == 'thorough' and not broken and getattr(prop, 'LEANCHECKER', True):
        with lake_lock():
            p = subprocess.run(['lake', 'env', 'leanchecker'] + modules, cwd=LEAN, stdout=subprocess.PIPE,
                               stderr=subprocess.STDOUT, text=True, timeout=3000)
        ctx.extra['leanchecker'] = 'ok' if p.returncode == 0 else p.stdout[-500:]
        if p.returncode != 0:
            broken.append('leanchecker rejected the modules')

    # 3. correspondence + oracle
    ctx.broken = broken
    try:
        prop.run(ctx)
    except Exception:
        traceback.print_exc()
        log('infrastructure failure in the check itself')
        return 2

    # 4. decide
    known = [k for k in load_known() if k['property'] == pid]
    known_sigs = {k['signature']: k for k in known if k['status'] == 'known'}
    # every recorded finding is re-executed on every run (its replay must still fail with its signature)
    for sig, k in known_sigs.items():
        if sig in {v['signature'] for v in ctx.violations} or 'replay_obj' not in k:
            continue
        sub = Ctx(pid, tier, seed)
        sub.driver = ctx.driver
        try:
            with contextlib.redirect_stdout(io.StringIO()):
                sigs = prop.replay(sub, {'replay': k['replay_obj'], 'signature': sig})
        except Exception:
            sigs = []
        if sig in sigs:
            ctx.known_hits.add(sig)
    rc = 0
    new_viol = []
    for v in ctx.violations:
        if v['signature'] in known_sigs:
            ctx.known_hits.add(v['signature'])
        else:
            new_viol.append(v)
    for sig, k in known_sigs.items():
        if sig in ctx.known_hits:
            log('KNOWN-FINDING: property=%s %s [%s]' % (pid, k['summary'], sig))
        else:
            log('note: known finding %s did not reproduce in this run' % sig)
    for v in new_viol:
        path = write_replay(pid, v['signature'], {'property': pid, 'signature': v['signature'],
                                                  'summary': v['summary'], 'seed': seed, 'tier': tier,
                                                  'replay': v['replay']})
        log('VIOLATION property=%s replay=%s' % (pid, path))
        log('  ' + v['summary'])
        rc = 1
    if not new_viol and (broken or ctx.disagreements):
        path = write_replay(pid, 'unproved', {
            'property': pid, 'kind': 'obligation', 'seed': seed, 'tier': tier,
            'no_longer_checks': broken, 'disagreements': ctx.disagreements[:10],
            'build_log_tail': build_log[-3000:],
            'search': {'evaluations': ctx.evaluations, 'distinct': len(ctx.distinct)}})
        for b in broken:
            log('  broken: ' + b)
        for d in ctx.disagreements[:5]:
            log('  model/implementation disagreement [%s]: %s' % (d['stream'], d['summary']))
        log('VIOLATION property=%s replay=%s no-failing-input-found' % (pid, path))
        rc = 1

    # 5. evidence
    os.makedirs(EVID, exist_ok=True)
    ev = {
        'property_id': pid, 'tier': tier, 'seed': seed, 'level': 'proof',
        'coverage': {
            'obligations': len(theorems), 'discharged': discharged,
            'checker_cmd': 'cd lean && lake build %s && lake env lean .lake/Audit_%s.lean  (# print axioms)%s' % (
                ' '.join(modules), pid, ' && lake env leanchecker ' + ' '.join(modules) if tier == 'thorough' else ''),
            'trusted_base': TRUSTED_BASE_COMMON + list(getattr(prop, 'TRUSTED', [])),
            'theorems': theorems, 'axioms_used': sorted(ax_used),
            'partial_theorems': getattr(prop, 'PARTIAL', {}),
            'evaluations': ctx.evaluations, 'distinct_nontrivial': len(ctx.distinct),
            'rule': ctx.rule or getattr(prop, 'RULE', ''),
            'samples': ctx.samples, 'traces_validated_against_impl': ctx.traces_validated,
            'driver_lines': ctx.driver.lines, 'distribution': dict(ctx.dist),
            'exhaustive': ctx.exhaustive, 'generated': gen_info, 'broken': broken,
            'known_findings_reproduced': sorted(ctx.known_hits),
            'model_impl_disagreements': len(ctx.disagreements),
        },
        'assumptions': list(getattr(prop, 'ASSUMPTIONS', [])),
        'wall_s': round(time.time() - t0, 2),
        'violations': len(new_viol) + (1 if rc == 1 and not new_viol else 0),
    }
    ev['coverage'].update(ctx.extra)
    ev['coverage']['notes'] = ctx.notes[:20]
    with open(os.path.join(EVID, '%s.json' % pid), 'w') as f:
        json.dump(ev, f, indent=1, default=str)
    log('%s %s: %d/%d obligations, %d evaluations (%d distinct non-trivial), %d driver lines, %.1fs -> %s' % (
        pid, tier, discharged, len(theorems), ctx.evaluations, len(ctx.distinct), ctx.driver.lines,
        time.time() - t0, 'OK' if rc == 0 else 'VIOLATION'))
    return rc
