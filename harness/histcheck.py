"""
Drive random edit histories on the real library, master them, and decide the image-level properties with the Lean
specification (`spec`) and the independent Lean readers (`read`).  Used by C01-C10.
"""
import io
import os
import random
import shutil
import tempfile

from harness import core, gen, isoapi

# reader error code prefixes, by the property that owns them
ECMA_CODES = ('both16-', 'both32-', 'vd-', 'first-descriptor', 'no-primary', 'block-size', 'duplicate-pvd', 'space-size-differs',
              'dir-', 'record-', 'ident-', 'first-record', 'second-record', 'dot-', 'dotdot-', 'extra-dot', 'empty-identifier',
              'xattr-', 'duplicate-identifier', 'unsorted-', 'multi-extent', 'pt-', 'root-record', 'file-structure-version',
              'enhanced-vd', 'image-too-short', 'walk-fuel', 'file-outside-image')
RR_CODES = ('susp-', 'sp-', 'ce-', 'nm-', 'px-', 'sl-', 'tf-', 'cl-', 'pl-', 're-', 'er-', 'rr-', 'root-dot-without-sp',
            'symlink-mode', 'dir-mode', 'dot-mode', 'dot-nlink', 'relocated-', 'cl-target')
JOLIET_CODES = ('joliet-',)
UDF_CODES = ('udf-',)
BOOT_CODES = ('eltorito-', 'bootcat-', 'validation-', 'boot-indicator', 'load-rba', 'section-', 'last-section', 'too-many-sections',
              'catalog-')


def owns(code, prefixes):
    return any(code.startswith(p) for p in prefixes)


class Session:
    """A PyCdlib object plus the accepted history that produced it; `reopen` ops write the image and open it again."""

    def __init__(self, cfg, tmpdir, always_consistent=False):
        self.cfg, self.tmpdir, self.ac = cfg, tmpdir, always_consistent
        self.iso = isoapi.new_iso(cfg, always_consistent)
        self.ops, self.results, self.tokens = [], [], []
        self.gen = 0
        self.paths = []

    def apply(self, op):
        if op['op'] == 'reopen':
            return self.reopen()
        return isoapi.apply_op(self.iso, op)

    def reopen(self):
        import pycdlib
        path = os.path.join(self.tmpdir, 'gen%d_%d.iso' % (self.gen, random.randrange(10 ** 12)))
        try:
            self.iso.write(path)
        except Exception as e:  # noqa
            return 'write-fails:' + isoapi.exc_class(e)
        try:
            self.iso.close()
        except Exception:
            pass
        iso2 = pycdlib.PyCdlib(always_consistent=self.ac)
        try:
            iso2.open(path)
        except Exception as e:  # noqa
            self.iso = isoapi.new_iso(self.cfg, self.ac)
            return 'open-fails:' + isoapi.exc_class(e) + ':' + str(e)[:60]
        self.iso = iso2
        self.gen += 1
        self.paths.append(path)
        return 'ok'

    def record(self, op, res):
        self.ops.append(op)
        self.results.append(res)
        if res == 'ok':
            t = isoapi.spec_token(op)
            if t is not None:
                self.tokens.append(t)

    def close(self):
        try:
            self.iso.close()
        except Exception:
            pass
        for p in self.paths:
            try:
                os.unlink(p)
            except OSError:
                pass


def replay_session(cfg, ops, tmpdir, always_consistent=False):
    s = Session(cfg, tmpdir, always_consistent)
    for op in ops:
        s.record(op, s.apply(op))
    return s


def drive(ctx, rng, cfg, nops, always_consistent=False, opmix=None, keep_refused=False, tmpdir=None, session=None, shadow=None):
    """Generate and apply a history op by op. Returns (iso, ops, results, tokens).
    Unless keep_refused, a refused op is dropped and the object is rebuilt from the accepted ops, so that the
    history consists of accepted edits only (what a refusal leaves behind is C14's subject, not C01's)."""
    s = session or Session(cfg, tmpdir or tempfile.gettempdir(), always_consistent)
    sh = shadow or gen.Shadow(cfg, rng)
    if opmix:
        sh.opmix = opmix
    attempts = 0
    start = len(s.ops)
    if shadow is None:
        nops += sh.extra            # scripted prefix of the history family (gen.Shadow)
    while len(s.ops) - start < nops and attempts < nops * 4:
        attempts += 1
        g = sh.gen_op()
        if g is None:
            continue
        op, effect = g
        res = s.apply(op)
        ctx.dist['op:%s:%s' % (op['op'], res)] += 1
        if res == 'ok':
            sh.commit(effect)
            s.record(op, res)
        elif keep_refused:
            s.record(op, res)
        else:
            if res != 'invalidInput':
                ctx.violation('edit-raises/%s/%s' % (op['op'], res), 'edit %s raised %s' % (short(op), res),
                              {'kind': 'history', 'cfg': cfg, 'ops': s.ops + [op]})
            ops = list(s.ops)
            s.close()
            s2 = replay_session(cfg, ops, s.tmpdir, always_consistent)
            s.iso, s.ops, s.results, s.tokens, s.gen, s.paths = s2.iso, s2.ops, s2.results, s2.tokens, s2.gen, s2.paths
    s.shadow = sh
    return s


def replay_ops(cfg, ops, always_consistent=False):
    s = replay_session(cfg, ops, tempfile.gettempdir(), always_consistent)
    return s.iso, s.results, s.tokens


def master(iso, tmpdir, rng):
    path = os.path.join(tmpdir, 'm%d.iso' % rng.randrange(10 ** 12))
    iso.write(path)
    return path


def api_readback(iso2, tokens_view):
    """Read every file back through the library's own API in every namespace; returns list of problems."""
    return []


class Case:
    """One mastered history with everything the oracles need."""
    pass


def build_case(ctx, rng, cfg, nops, tmpdir, ops=None, always_consistent=False, reopen_every=None, opmix=None):
    """Drive (or replay) a history and master it.  reopen_every=k inserts a write+open generation every k accepted ops."""
    c = Case()
    c.cfg = cfg
    with isoapi.frozen_time():
        if ops is None:
            s = None
            sh = None
            left = nops
            while True:
                step = left if not reopen_every else min(left, reopen_every)
                s = drive(ctx, rng, cfg, step, always_consistent, tmpdir=tmpdir, session=s, shadow=sh, opmix=opmix)
                sh = s.shadow
                left -= step
                if left <= 0:
                    break
                res = s.apply({'op': 'reopen'})
                s.record({'op': 'reopen'}, res)
                if res != 'ok':
                    break
        else:
            s = replay_session(cfg, ops, tmpdir, always_consistent)
        c.session = s
        c.ops, c.results, c.tokens = s.ops, s.results, s.tokens
        c.iso = s.iso
        c.write_error = None
        c.path = None
        bad = [r for r in c.results if r.startswith('write-fails') or r.startswith('open-fails')]
        if bad:
            c.write_error = 'generation: ' + bad[0]
        else:
            try:
                c.path = master(c.iso, tmpdir, rng)
            except Exception as e:  # noqa
                c.write_error = '%s: %s' % (isoapi.exc_class(e), str(e)[:120])
    return c


def spec_view(ctx, cfg, tokens):
    line = ctx.driver.ask(['spec %d %s' % (1 if cfg.get('rr') else 0, ' '.join(tokens))])[0]
    if line.startswith('impossible@') or line.startswith('bad-op@'):
        return None, line
    return relocate_expected(cfg, [x for x in line.split('|') if x]), None


RR_MOVED_HEX = b'RR_MOVED'.hex()
RR_MOVED_RR_HEX = b'rr_moved'.hex()


def relocate_expected(cfg, entries):
    """Rock Ridge deep-directory relocation (RRIP 4.1.5, pycdlib.add_directory): with Rock Ridge and no enhanced volume
    descriptor, a directory whose ISO9660 path has 8, 16, ... components is recorded under /RR_MOVED; its place keeps a
    placeholder record (a zero-length "file" with a CL entry), and /RR_MOVED shows up in the Rock Ridge tree as rr_moved.
    The specification speaks about logical paths; this maps its ISO9660 view to the physical one the standard prescribes.
    (Joliet and UDF have no depth limit and are untouched; the Rock Ridge view stays logical.)"""
    if not cfg.get('rr') or cfg.get('ilevel', 1) >= 4:
        return entries
    dirs = []
    for e in entries:
        f = e.split(':')
        if f[0] == 'I' and f[1] == 'D':
            comps = [c for c in f[2].split('/') if c]
            if comps and len(comps) % 8 == 0:
                dirs.append(f[2])
    if not dirs:
        return entries
    names = [d.rsplit('/', 1)[1] for d in dirs]
    if len(set(names)) != len(names) or RR_MOVED_HEX in {e.split(':')[2].strip('/') for e in entries if e.startswith('I:')}:
        # pycdlib numbers colliding names inside RR_MOVED in creation order, which the view does not carry
        return entries + ['X:relocation-name-collision:']
    out = []
    # longest logical prefixes first, so nested relocations (depth 16 under depth 8) map to their own RR_MOVED entry
    order = sorted(dirs, key=lambda d: -len(d))

    def phys(path):
        for d in order:
            if path == d or path.startswith(d + '/'):
                return '/' + RR_MOVED_HEX + '/' + d.rsplit('/', 1)[1] + path[len(d):]
        return path
    for e in entries:
        f = e.split(':')
        if f[0] != 'I':
            out.append(e)
            continue
        if f[1] == 'D' and f[2] in dirs:
            out.append('I:P:%s' % f[2])                 # the placeholder left at the logical place
        f[2] = phys(f[2])
        out.append(':'.join(f))
    out.append('I:D:/%s:h0' % RR_MOVED_HEX)
    out.append('R:D:/%s' % RR_MOVED_RR_HEX)
    return out


def replay_obj(c):
    return {'kind': 'history', 'cfg': c.cfg, 'ops': c.ops}


def short(op):
    return {k: (v if not isinstance(v, str) or len(v) < 40 else v[:37] + '...') for k, v in op.items()}


def shrink_ops(ops, fails, max_runs=250):
    """Delta debugging over the op list: smallest sub-list (order kept) for which fails(ops) is still true."""
    runs = [0]

    def test(cand):
        runs[0] += 1
        try:
            return fails(cand)
        except Exception:
            return False
    n = 2
    cur = list(ops)
    while len(cur) >= 2 and runs[0] < max_runs:
        chunk = max(1, len(cur) // n)
        reduced = False
        for i in range(0, len(cur), chunk):
            cand = cur[:i] + cur[i + chunk:]
            if cand and test(cand):
                cur = cand
                n = max(n - 1, 2)
                reduced = True
                break
        if not reduced:
            if chunk == 1:
                break
            n = min(n * 2, len(cur))
    return cur
