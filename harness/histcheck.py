"""
Drive random edit histories on the real library, master them, and decide the image-level properties with the Lean
specification (`spec`) and the independent Lean readers (`read`).  Used by C01-C10.
"""
import io
import os
import random
import shutil
import tempfile

from harness import core, gen, isoapi

# reader error code prefixes, by the property that owns them
ECMA_CODES = ('both16-', 'both32-', 'vd-', 'first-descriptor', 'no-primary', 'block-size', 'duplicate-pvd', 'space-size-differs',
              'dir-', 'record-', 'ident-', 'first-record', 'second-record', 'dot-', 'dotdot-', 'extra-dot', 'empty-identifier',
              'xattr-', 'duplicate-identifier', 'unsorted-', 'multi-extent', 'pt-', 'root-record', 'file-structure-version',
              'enhanced-vd', 'image-too-short', 'walk-fuel', 'file-outside-image')
RR_CODES = ('susp-', 'sp-', 'ce-', 'nm-', 'px-', 'sl-', 'tf-', 'cl-', 'pl-', 're-', 'er-', 'rr-', 'root-dot-without-sp',
            'symlink-mode', 'dir-mode', 'dot-mode', 'dot-nlink', 'relocated-', 'cl-target')
JOLIET_CODES = ('joliet-',)
UDF_CODES = ('udf-',)
BOOT_CODES = ('eltorito-', 'bootcat-', 'validation-', 'boot-indicator', 'load-rba', 'section-', 'last-section', 'too-many-sections',
              'catalog-')


def owns(code, prefixes):
    return any(code.startswith(p) for p in prefixes)


def drive(ctx, rng, cfg, nops, always_consistent=False, opmix=None, keep_refused=False):
    """Generate and apply a history op by op. Returns (iso, ops, results, tokens).
    Unless keep_refused, a refused op is dropped and the object is rebuilt from the accepted ops, so that the
    history consists of accepted edits only (what a refusal leaves behind is C14's subject, not C01's)."""
    iso = isoapi.new_iso(cfg, always_consistent)
    sh = gen.Shadow(cfg, rng)
    ops, results, tokens = [], [], []
    attempts = 0
    while len(ops) < nops and attempts < nops * 4:
        attempts += 1
        g = sh.gen_op()
        if g is None:
            continue
        op, effect = g
        res = isoapi.apply_op(iso, op)
        ctx.dist['op:%s:%s' % (op['op'], res)] += 1
        if res == 'ok':
            sh.commit(effect)
            ops.append(op)
            results.append(res)
            t = isoapi.spec_token(op)
            if t is not None:
                tokens.append(t)
        elif keep_refused:
            ops.append(op)
            results.append(res)
        else:
            if res != 'invalidInput':
                ctx.violation('edit-raises/%s/%s' % (op['op'], res), 'edit %s raised %s' % (short(op), res),
                              {'kind': 'history', 'cfg': cfg, 'ops': ops + [op]})
            try:
                iso.close()
            except Exception:
                pass
            iso, _r, _t = replay_ops(cfg, ops, always_consistent)
    return iso, ops, results, tokens


def replay_ops(cfg, ops, always_consistent=False):
    iso = isoapi.new_iso(cfg, always_consistent)
    results, tokens = [], []
    for op in ops:
        res = isoapi.apply_op(iso, op)
        results.append(res)
        if res == 'ok':
            t = isoapi.spec_token(op)
            if t is not None:
                tokens.append(t)
    return iso, results, tokens


def master(iso, tmpdir, rng):
    path = os.path.join(tmpdir, 'm%d.iso' % rng.randrange(10 ** 12))
    iso.write(path)
    return path


def api_readback(iso2, tokens_view):
    """Read every file back through the library's own API in every namespace; returns list of problems."""
    return []


class Case:
    """One mastered history with everything the oracles need."""
    pass


def build_case(ctx, rng, cfg, nops, tmpdir, ops=None, always_consistent=False):
    c = Case()
    c.cfg = cfg
    with isoapi.frozen_time():
        if ops is None:
            iso, c.ops, c.results, c.tokens = drive(ctx, rng, cfg, nops, always_consistent)
        else:
            c.ops = ops
            iso, c.results, c.tokens = replay_ops(cfg, ops, always_consistent)
        c.iso = iso
        c.write_error = None
        c.path = None
        try:
            c.path = master(iso, tmpdir, rng)
        except Exception as e:  # noqa
            c.write_error = '%s: %s' % (isoapi.exc_class(e), str(e)[:120])
    return c


def spec_view(ctx, cfg, tokens):
    line = ctx.driver.ask(['spec %d %s' % (1 if cfg.get('rr') else 0, ' '.join(tokens))])[0]
    if line.startswith('impossible@') or line.startswith('bad-op@'):
        return None, line
    return [x for x in line.split('|') if x], None


def replay_obj(c):
    return {'kind': 'history', 'cfg': c.cfg, 'ops': c.ops}


def short(op):
    return {k: (v if not isinstance(v, str) or len(v) < 40 else v[:37] + '...') for k, v in op.items()}


def shrink_ops(ops, fails, max_runs=250):
    """Delta debugging over the op list: smallest sub-list (order kept) for which fails(ops) is still true."""
    runs = [0]

    def test(cand):
        runs[0] += 1
        try:
            return fails(cand)
        except Exception:
            return False
    n = 2
    cur = list(ops)
    while len(cur) >= 2 and runs[0] < max_runs:
        chunk = max(1, len(cur) // n)
        reduced = False
        for i in range(0, len(cur), chunk):
            cand = cur[:i] + cur[i + chunk:]
            if cand and test(cand):
                cur = cand
                n = max(n - 1, 2)
                reduced = True
                break
        if not reduced:
            if chunk == 1:
                break
            n = min(n * 2, len(cur))
    return cur
