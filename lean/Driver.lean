/-
Driver — the executable model behind the line protocol.
One request per input line (space-separated tokens, bytes as hex, `-` = empty), one answer line per request.
Unknown or malformed requests answer `bad-op` (never a default value).
-/
import Pycdlib.Model.Dispatch
open Pycdlib

partial def loop (h : IO.FS.Stream) (out : IO.FS.Stream) : IO Unit := do
  let line ← h.getLine
  if line.isEmpty then return ()
  let toks := (String.ofList (line.toList.reverse.dropWhile (fun c => c = '\n' || c = '\r')).reverse).splitOn " "
  let ans ← dispatch toks
  out.putStrLn ans
  loop h out

def main : IO Unit := do
  let out ← IO.getStdout
  loop (← IO.getStdin) out
  out.flush
