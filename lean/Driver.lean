/-
Driver — the executable model behind the line protocol.
One request per input line (space-separated tokens, bytes as hex, `-` = empty), one answer line per request.
Unknown or malformed requests answer `bad-op` (never a default value).
-/
import Pycdlib.Model.Dispatch
open Pycdlib

partial def loop (h : IO.FS.Stream) (out : IO.FS.Stream) : IO Unit := do
  let line ← h.getLine
  if line.isEmpty then return ()
  let toks := (String.ofList (line.toList.reverse.dropWhile (fun c => c = '\n' || c = '\r')).reverse).splitOn " "
  let ans ← dispatch toks
  -- one answer line per request, whatever bytes a damaged image put into a message
  out.putStrLn (String.ofList (ans.toList.map fun c => if c = '\n' || c = '\r' then ' ' else c))
  loop h out

def main : IO Unit := do
  let out ← IO.getStdout
  loop (← IO.getStdin) out
  out.flush
