/-
Proofs/Symlink — the SL entries `_new_symlink` emits reassemble to the target, for every target.
Strategy: `L s` = the reader's fold state over all components emitted so far (closed records in the directory record,
closed records in the continuation area, the open record).  Closing a record does not change `L`; marking the last
piece CONTINUE only sets `cont`; appending a piece appends its bytes.  The component loop `slComp` therefore appends
exactly the rest of the component (`slComp_normal`), and the fold over the components keeps
`out ++ pending-separator = join(done) ++ "/"`.
-/
import Pycdlib.Model.Susp
namespace Pycdlib.Susp

/-! ### the reader side -/

def sepOf (a : SlAcc) : Bytes := if a.needSep && !a.cont then [47] else []
def pend (a : SlAcc) : Bytes := if a.needSep then [47] else []

theorem slFold_append (xs ys : List Comp) : slFold (xs ++ ys) = ys.foldl slStep (slFold xs) := by
  simp [slFold, List.foldl_append]

theorem slFold_snoc (xs : List Comp) (c : Comp) : slFold (xs ++ [c]) = slStep (slFold xs) c := by
  simp [slFold_append]

theorem allComps_append (a b : List Ent) : allComps (a ++ b) = allComps a ++ allComps b := by
  simp [allComps, List.flatMap_append]

theorem allComps_sl (b : Bool) (cs : List Comp) : allComps [Ent.sl b cs] = cs := by
  simp [allComps]

/-- a plain piece (flags 0) -/
theorem slStep_plain (a : SlAcc) (d : Bytes) :
    slStep a ⟨0, d⟩ = { out := a.out ++ sepOf a ++ d, needSep := true, cont := false } := by
  simp [slStep, sepOf, compName]

/-- the same piece with CONTINUE set differs in `cont` only -/
theorem slStep_cont (a : SlAcc) (d : Bytes) :
    slStep a ⟨0 ||| 1, d⟩ = { out := a.out ++ sepOf a ++ d, needSep := true, cont := true } := by
  simp [slStep, sepOf, compName]

theorem slStep_dot (a : SlAcc) : slStep a ⟨2, []⟩ = { out := a.out ++ sepOf a ++ [46], needSep := true, cont := false } := by
  simp [slStep, sepOf, compName]

theorem slStep_dotdot (a : SlAcc) :
    slStep a ⟨4, []⟩ = { out := a.out ++ sepOf a ++ [46, 46], needSep := true, cont := false } := by
  simp [slStep, sepOf, compName]

theorem slStep_root (a : SlAcc) : slStep a ⟨8, []⟩ = { out := a.out ++ sepOf a ++ [47], needSep := false, cont := false } := by
  simp [slStep, sepOf]

/-! ### the writer side -/

def comps (s : SlSt) : List Comp := allComps s.doneDr ++ allComps s.doneCe ++ s.open_
def L (s : SlSt) : SlAcc := slFold (comps s)
def Inv (s : SlSt) : Prop := s.inDr = true → s.doneCe = []

theorem comps_closeSl (s : SlSt) (b : Bool) (h : Inv s) : comps (closeSl s b) = comps s := by
  unfold closeSl comps
  by_cases hd : s.inDr = true
  · simp [hd, h hd, allComps_append, allComps_sl, allComps]
  · simp [hd, allComps_append, allComps_sl]

theorem closeSl_open (s : SlSt) (b : Bool) : (closeSl s b).open_ = [] := by
  unfold closeSl; split <;> rfl

theorem setLastContinued_snoc (xs : List Comp) (c : Comp) :
    setLastContinued (xs ++ [c]) = xs ++ [{ c with flags := c.flags ||| 1 }] := by
  simp [setLastContinued]

theorem reopen_inv (s : SlSt) (m : Bool) : Inv (s.reopen m) := by intro h; simp [SlSt.reopen] at h

theorem comps_reopen_false (s : SlSt) (h : Inv s) : comps (s.reopen false) = comps s := by
  have := comps_closeSl s true h
  simpa [SlSt.reopen, comps] using this

theorem comps_reopen_true (s : SlSt) (h : Inv s) (xs : List Comp) (c : Comp) (ho : s.open_ = xs ++ [c]) :
    comps (s.reopen true) = allComps s.doneDr ++ allComps s.doneCe ++ (xs ++ [{ c with flags := c.flags ||| 1 }]) := by
  have hinv' : Inv { s with open_ := setLastContinued s.open_ } := h
  have := comps_closeSl { s with open_ := setLastContinued s.open_ } true hinv'
  simp only [SlSt.reopen, if_true]
  have e : comps { closeSl { s with open_ := setLastContinued s.open_ } true with inDr := false, area := 250 } =
      comps (closeSl { s with open_ := setLastContinued s.open_ } true) := by simp [comps]
  rw [e, this]
  simp [comps, ho, setLastContinued_snoc]

theorem reopen_area (s : SlSt) (m : Bool) : (s.reopen m).area = 250 := by simp [SlSt.reopen]

theorem comps_push (s : SlSt) (c : Comp) (g u : Nat) : comps (s.push c g u) = comps s ++ [c] := by
  simp [comps, SlSt.push, List.append_assoc]

theorem push_inv (s : SlSt) (c : Comp) (g u : Nat) (h : Inv s) : Inv (s.push c g u) := h

theorem push_open (s : SlSt) (c : Comp) (g u : Nat) : (s.push c g u).open_ = s.open_ ++ [c] := rfl
theorem push_area (s : SlSt) (c : Comp) (g u : Nat) : (s.push c g u).area = s.area - u := rfl

/-- the reader state after the optional reopen: unchanged when the component has not started, otherwise only
`cont` is set (the piece already emitted is marked CONTINUE) -/
theorem L_after_reopen (s : SlSt) (offset m : Nat) (hinv : Inv s)
    (hoff : offset ≠ 0 → (∃ xs d, s.open_ = xs ++ [⟨0, d⟩]) ∧ s.area < m) (s1 : SlSt)
    (hs1 : s1 = if m > s.area then s.reopen (decide (offset ≠ 0)) else s) (hm : m ≤ 250) :
    Inv s1 ∧ m ≤ s1.area ∧ (offset = 0 → L s1 = L s) ∧
      (offset ≠ 0 → (L s1).out = (L s).out ∧ (L s1).cont = true) := by
  subst hs1
  by_cases h3 : m > s.area
  · simp only [h3, if_true]
    refine ⟨reopen_inv _ _, by rw [reopen_area]; omega, ?_, ?_⟩
    · intro h0
      simp only [h0, ne_eq, not_true_eq_false, decide_false]
      simp [L, comps_reopen_false s hinv]
    · intro hne
      obtain ⟨⟨xs, d, hopen⟩, _⟩ := hoff hne
      simp only [hne, ne_eq, not_false_eq_true, decide_true]
      have hc := comps_reopen_true s hinv xs ⟨0, d⟩ hopen
      have hc0 : comps s = allComps s.doneDr ++ allComps s.doneCe ++ (xs ++ [⟨0, d⟩]) := by simp [comps, hopen]
      simp only [L, hc, hc0]
      rw [← List.append_assoc, slFold_snoc, ← List.append_assoc (allComps s.doneDr ++ allComps s.doneCe) xs, slFold_snoc,
        slStep_cont, slStep_plain]
      exact ⟨rfl, rfl⟩
  · simp only [h3, if_false]
    refine ⟨hinv, by omega, fun _ => trivial, ?_⟩
    intro hne
    have := (hoff hne).2
    omega

/-- the smallest piece of a normal component -/
def minOf (comp : Bytes) : Nat := if comp.isEmpty then 2 else 3

/-- **one component**: the loop appends exactly the bytes of `comp` from `offset` on (with the separator in front when
it starts the component), whatever the room left, splitting across records as needed. -/
theorem slComp_normal (fuel : Nat) (s : SlSt) (comp : Bytes) (offset : Nat)
    (hfuel : comp.length - offset + 1 ≤ fuel) (hinv : Inv s)
    (hoff : offset ≠ 0 → (∃ xs d, s.open_ = xs ++ [⟨0, d⟩]) ∧ s.area < minOf comp ∧ offset < comp.length) :
    Inv (slComp fuel s comp false 0 offset) ∧
    (L (slComp fuel s comp false 0 offset)).out =
      (L s).out ++ (if offset = 0 then sepOf (L s) else []) ++ comp.drop offset ∧
    (L (slComp fuel s comp false 0 offset)).needSep = true ∧ (L (slComp fuel s comp false 0 offset)).cont = false := by
  induction fuel generalizing s offset with
  | zero => omega
  | succ fuel ih =>
    simp only [slComp, Bool.false_or, Bool.false_eq_true, if_false]
    have hmin : (if comp.isEmpty = true then 2 else 3) = minOf comp := rfl
    rw [hmin]
    generalize hs1 : (if minOf comp > s.area then s.reopen (decide (offset ≠ 0)) else s) = s1
    have hm250 : minOf comp ≤ 250 := by unfold minOf; split <;> omega
    obtain ⟨hinv1, harea1, hL0, hLn⟩ := L_after_reopen s offset (minOf comp) hinv
      (fun h => ⟨(hoff h).1, (hoff h).2.1⟩) s1 hs1.symm hm250
    generalize hrest : comp.drop offset = restc
    have hrl : restc.length = comp.length - offset := by rw [← hrest]; simp
    have hpiece : ∀ d : Bytes, (slStep (L s1) ⟨0, d⟩).out =
        (L s).out ++ (if offset = 0 then sepOf (L s) else []) ++ d := by
      intro d
      rw [slStep_plain]
      by_cases h0 : offset = 0
      · simp only [h0, if_true]; rw [hL0 h0]
      · simp only [h0, if_false]
        have := hLn h0
        simp [sepOf, this.1, this.2]
    have hmin2 : 2 ≤ minOf comp := by unfold minOf; split <;> omega
    by_cases hfin : 2 + restc.length ≤ s1.area
    · have hlen : (if 2 + restc.length > s1.area then s1.area - 2 else 2 + restc.length) = 2 + restc.length := by
        rw [if_neg]; omega
      simp only [hlen]
      have htake : restc.take (2 + restc.length) = restc := List.take_of_length_le (by omega)
      have hfinal : offset + (2 + restc.length) ≥ comp.length := by omega
      simp only [hfinal, if_true, htake]
      refine ⟨push_inv _ _ _ _ hinv1, ?_, ?_, ?_⟩
      · simp only [L, comps_push, slFold_snoc]; exact hpiece restc
      · simp only [L, comps_push, slFold_snoc, slStep_plain]
      · simp only [L, comps_push, slFold_snoc, slStep_plain]
    · have hgt : 2 + restc.length > s1.area := by omega
      simp only [hgt, if_true]
      -- something is left, so the component is not empty and the room is at least 3
      have hne : comp ≠ [] := by
        intro h0
        have h2 : minOf comp = 2 := by rw [h0]; rfl
        have h3 : restc.length = 0 := by rw [hrl, h0]; simp
        omega
      have hm3 : minOf comp = 3 := by
        unfold minOf
        have : comp.isEmpty = false := by cases comp with | nil => exact absurd rfl hne | cons _ _ => rfl
        simp [this]
      have hnotfinal : ¬ (offset + (s1.area - 2) ≥ comp.length) := by omega
      simp only [hnotfinal, if_false]
      have htl : (restc.take (s1.area - 2)).length = s1.area - 2 := by rw [List.length_take]; omega
      generalize hs2 : s1.push ⟨0, restc.take (s1.area - 2)⟩ (2 + (restc.take (s1.area - 2)).length)
        (2 + (restc.take (s1.area - 2)).length) = s2
      have hoff' : offset + (s1.area - 2) ≠ 0 := by omega
      have hinv2 : Inv s2 := by rw [← hs2]; exact push_inv _ _ _ _ hinv1
      have hpre : offset + (s1.area - 2) ≠ 0 →
          (∃ xs d, s2.open_ = xs ++ [⟨0, d⟩]) ∧ s2.area < minOf comp ∧ offset + (s1.area - 2) < comp.length := by
        intro _
        rw [← hs2]
        exact ⟨⟨s1.open_, _, rfl⟩, by rw [push_area, htl, hm3]; omega, by omega⟩
      have hf : comp.length - (offset + (s1.area - 2)) + 1 ≤ fuel := by omega
      obtain ⟨i1, i2, i3, i4⟩ := ih s2 (offset + (s1.area - 2)) hf hinv2 hpre
      simp only [hoff', if_false, List.append_nil] at i2
      refine ⟨i1, ?_, i3, i4⟩
      rw [i2]
      have hL2 : (L s2).out = (L s).out ++ (if offset = 0 then sepOf (L s) else []) ++ restc.take (s1.area - 2) := by
        rw [← hs2]
        simp only [L, comps_push, slFold_snoc]
        exact hpiece _
      rw [hL2]
      have hsplit : restc.take (s1.area - 2) ++ comp.drop (offset + (s1.area - 2)) = restc := by
        rw [← hrest, ← List.drop_drop]
        exact List.take_append_drop _ _
      rw [List.append_assoc, hsplit]

/-- the special components `.`, `..` and the root -/
theorem slComp_special (fuel : Nat) (s : SlSt) (comp : Bytes) (flag : Nat) (hinv : Inv s) :
    Inv (slComp (fuel + 1) s comp true flag 0) ∧
    L (slComp (fuel + 1) s comp true flag 0) = slStep (L s) ⟨flag, []⟩ := by
  simp only [slComp, Bool.true_or, if_true]
  by_cases h : 2 > s.area
  · simp only [h, if_true, ne_eq, not_true_eq_false, decide_false]
    refine ⟨push_inv _ _ _ _ (reopen_inv _ _), ?_⟩
    simp only [L, comps_push, slFold_snoc, comps_reopen_false s hinv]
  · simp only [h, if_false]
    exact ⟨push_inv _ _ _ _ hinv, by simp only [L, comps_push, slFold_snoc]⟩

/-! ### all components -/

def join : List Bytes → Bytes
  | [] => []
  | [a] => a
  | a :: b :: r => a ++ 47 :: join (b :: r)

theorem join_snoc (done : List Bytes) (h : done ≠ []) (c : Bytes) : join (done ++ [c]) = join done ++ 47 :: c := by
  induction done with
  | nil => exact absurd rfl h
  | cons a r ih =>
    cases r with
    | nil => simp [join]
    | cons b r' =>
      have := ih (by simp)
      simp only [List.cons_append, join] at this ⊢
      rw [this]; simp

theorem splitSlash_ne_nil (t : Bytes) : splitSlash t ≠ [] := by
  induction t with
  | nil => simp [splitSlash]
  | cons x xs ih =>
    simp only [splitSlash]
    split
    · simp
    · split <;> simp

theorem join_splitSlash (t : Bytes) : join (splitSlash t) = t := by
  induction t with
  | nil => simp [splitSlash, join]
  | cons x xs ih =>
    simp only [splitSlash]
    split
    · rename_i h
      cases hs : splitSlash xs with
      | nil => exact absurd hs (splitSlash_ne_nil xs)
      | cons p ps => rw [hs] at ih; simp [join, ih, h]
    · cases hs : splitSlash xs with
      | nil => exact absurd hs (splitSlash_ne_nil xs)
      | cons p ps =>
        rw [hs] at ih
        cases ps with
        | nil => simp only [join] at ih ⊢; rw [ih]
        | cons q r => simp only [join, List.cons_append] at ih ⊢; rw [ih]

/-- what `_new_symlink` does with component number `i` -/
def compStep (i : Nat) (c : Bytes) (s : SlSt) : SlSt :=
  if i = 0 ∧ c = [] then slComp (c.length + 3) s [47] true 8 0
  else if c = [46] then slComp 3 s c true 2 0
  else if c = [46, 46] then slComp 3 s c true 4 0
  else slComp (c.length + 3) s c false 0 0

def go : Nat → List Bytes → SlSt → SlSt
  | _, [], s => s
  | k, c :: cs, s => go (k + 1) cs (compStep k c s)

theorem foldl_zip_range' (cs : List Bytes) (k : Nat) (s : SlSt) :
    (List.zip (List.range' k cs.length) cs).foldl (fun s (p : Nat × Bytes) => compStep p.1 p.2 s) s = go k cs s := by
  induction cs generalizing k s with
  | nil => simp [go]
  | cons c cs ih =>
    simp only [List.length_cons, List.range'_succ, List.zip_cons_cons, List.foldl_cons, go]
    exact ih (k + 1) _

/-- reader state invariant after the components `done` have been emitted -/
def G (s : SlSt) (done : List Bytes) : Prop :=
  Inv s ∧ (L s).cont = false ∧ (L s).out ++ pend (L s) = join done ++ [47] ∧ ((L s).needSep = false → done = [[]])

theorem sepOf_eq_pend (a : SlAcc) (h : a.cont = false) : sepOf a = pend a := by simp [sepOf, pend, h]

theorem G_step (k : Nat) (hk : k ≠ 0) (c : Bytes) (s : SlSt) (done : List Bytes) (hd : done ≠ []) (h : G s done) :
    G (compStep k c s) (done ++ [c]) := by
  obtain ⟨hinv, hcont, hout, _⟩ := h
  have hsep := sepOf_eq_pend (L s) hcont
  have key : ∀ s' : SlSt, Inv s' → (L s').out = (L s).out ++ sepOf (L s) ++ c → (L s').needSep = true →
      (L s').cont = false → G s' (done ++ [c]) := by
    intro s' i1 i2 i3 i4
    refine ⟨i1, i4, ?_, fun h => by rw [i3] at h; cases h⟩
    rw [i2, hsep, join_snoc done hd]
    have hp : pend (L s') = [47] := by simp [pend, i3]
    rw [hp]
    have : (L s).out ++ pend (L s) ++ c ++ [47] = (join done ++ [47]) ++ c ++ [47] := by rw [hout]
    simpa [List.append_assoc] using this
  unfold compStep
  have hk' : ¬ (k = 0 ∧ c = []) := fun h => hk h.1
  simp only [hk', if_false]
  by_cases h1 : c = [46]
  · subst h1
    simp only [if_true]
    obtain ⟨i1, i2⟩ := slComp_special 2 s [46] 2 hinv
    exact key _ i1 (by rw [i2, slStep_dot]) (by rw [i2, slStep_dot]) (by rw [i2, slStep_dot])
  · simp only [h1, if_false]
    by_cases h2 : c = [46, 46]
    · subst h2
      simp only [if_true]
      obtain ⟨i1, i2⟩ := slComp_special 2 s [46, 46] 4 hinv
      exact key _ i1 (by rw [i2, slStep_dotdot]) (by rw [i2, slStep_dotdot]) (by rw [i2, slStep_dotdot])
    · simp only [h2, if_false]
      obtain ⟨i1, i2, i3, i4⟩ := slComp_normal (c.length + 3) s c 0 (by omega) hinv (fun h => absurd rfl h)
      simp only [if_true, List.drop_zero] at i2
      exact key _ i1 i2 i3 i4

theorem G_first (c : Bytes) (s : SlSt) (hinv : Inv s) (hL : L s = {}) : G (compStep 0 c s) [c] := by
  unfold compStep
  by_cases h0 : c = []
  · subst h0
    simp only [true_and, if_true]
    obtain ⟨i1, i2⟩ := slComp_special 2 s [47] 8 hinv
    simp only [List.length_nil, Nat.zero_add]
    refine ⟨i1, ?_, ?_, fun _ => rfl⟩
    · rw [i2, slStep_root]
    · rw [i2, slStep_root, hL]; simp [pend, sepOf, join]
  · have hn : ¬ ((0 : Nat) = 0 ∧ c = []) := fun h => h0 h.2
    rw [if_neg hn]
    have key : ∀ s' : SlSt, Inv s' → (L s').out = c → (L s').needSep = true → (L s').cont = false → G s' [c] := by
      intro s' i1 i2 i3 i4
      exact ⟨i1, i4, by simp [i2, pend, i3, join], fun h => by rw [i3] at h; cases h⟩
    by_cases h1 : c = [46]
    · subst h1
      simp only [if_true]
      obtain ⟨i1, i2⟩ := slComp_special 2 s [46] 2 hinv
      exact key _ i1 (by rw [i2, slStep_dot, hL]; simp [sepOf]) (by rw [i2, slStep_dot]) (by rw [i2, slStep_dot])
    · simp only [h1, if_false]
      by_cases h2 : c = [46, 46]
      · subst h2
        simp only [if_true]
        obtain ⟨i1, i2⟩ := slComp_special 2 s [46, 46] 4 hinv
        exact key _ i1 (by rw [i2, slStep_dotdot, hL]; simp [sepOf]) (by rw [i2, slStep_dotdot]) (by rw [i2, slStep_dotdot])
      · simp only [h2, if_false]
        obtain ⟨i1, i2, i3, i4⟩ := slComp_normal (c.length + 3) s c 0 (by omega) hinv (fun h => absurd rfl h)
        simp only [if_true, List.drop_zero, hL] at i2
        exact key _ i1 (by rw [i2]; simp [sepOf]) i3 i4

theorem G_go (k : Nat) (hk : k ≠ 0) (cs : List Bytes) (s : SlSt) (done : List Bytes) (hd : done ≠ []) (h : G s done) :
    G (go k cs s) (done ++ cs) := by
  induction cs generalizing k s done with
  | nil => simpa [go] using h
  | cons c cs ih =>
    simp only [go]
    have := ih (k + 1) (by omega) (compStep k c s) (done ++ [c]) (by simp) (G_step k hk c s done hd h)
    simpa [List.append_assoc] using this

theorem comps_closed (s : SlSt) (h : Inv s) :
    allComps ((closeSl s false).doneDr ++ (closeSl s false).doneCe) = comps s := by
  have h1 := comps_closeSl s false h
  have h2 := closeSl_open s false
  simp only [comps, h2, List.append_nil] at h1
  rw [allComps_append]; exact h1

theorem go_reassembles (s0 : SlSt) (hinv0 : Inv s0) (hL0 : L s0 = {}) (target : Bytes) (ht : target ≠ []) :
    slTarget (allComps ((closeSl (go 0 (splitSlash target) s0) false).doneDr ++
      (closeSl (go 0 (splitSlash target) s0) false).doneCe)) = target := by
  cases hcs : splitSlash target with
  | nil => exact absurd hcs (splitSlash_ne_nil target)
  | cons c0 rest =>
    simp only [go]
    have hG := G_go 1 (by decide) rest (compStep 0 c0 s0) [c0] (by simp) (G_first c0 s0 hinv0 hL0)
    simp only [List.singleton_append] at hG
    obtain ⟨gi, _, gout, gsep⟩ := hG
    rw [comps_closed _ gi]
    show (L (go 1 rest (compStep 0 c0 s0))).out = target
    have hj : join (c0 :: rest) = target := by rw [← hcs]; exact join_splitSlash target
    rw [hj] at gout
    by_cases hn : (L (go 1 rest (compStep 0 c0 s0))).needSep = true
    · simp only [pend, hn, if_true] at gout
      exact List.append_cancel_right gout
    · have := gsep (by simpa using hn)
      rw [this] at hj
      simp only [join] at hj
      exact absurd hj.symm ht

/-- **C08 (symbolic links)**: for every non-empty target, the SL entries that `_new_symlink` distributes over the
directory record and the continuation area reassemble, read in that order by the RRIP rules, to exactly the target —
whatever room the directory record has left and however components are cut at record boundaries. -/
theorem symlink_reassembles (hasCE : Bool) (a a' : Acc) (target : Bytes) (ht : target ≠ [])
    (h : newSymlink hasCE a target = some a') :
    ∃ dr ce, a'.dr = a.dr ++ dr ∧ a'.ce = a.ce ++ ce ∧ slTarget (allComps (dr ++ ce)) = target := by
  unfold newSymlink at h
  simp only at h
  split at h
  · cases h
  · simp only [Option.some.injEq] at h
    subst h
    refine ⟨_, _, rfl, rfl, ?_⟩
    have hfun : (fun (s : SlSt) (x : Nat × Bytes) =>
        match x with
        | (i, c) =>
          if i = 0 ∧ c = [] then slComp (c.length + 3) s [47] true 8 0
          else if c = [46] then slComp 3 s c true 2 0
          else if c = [46, 46] then slComp 3 s c true 4 0
          else slComp (c.length + 3) s c false 0 0) = fun s p => compStep p.1 p.2 s := by
      funext s p; cases p; rfl
    rw [hfun, List.range_eq_range', foldl_zip_range']
    exact go_reassembles _ (by intro _; rfl) (by simp [L, comps, allComps, slFold]) target ht

/-! ### without a continuation entry nothing goes to the continuation area -/

/-- bytes one component takes in an SL record -/
def need (c : Bytes) : Nat := 2 + (if c = [46] ∨ c = [46, 46] ∨ c = [47] then 0 else c.length)

def InDr (s : SlSt) : Prop := s.inDr = true ∧ s.doneCe = []

theorem slComp_fits_normal (fuel : Nat) (s : SlSt) (comp : Bytes) (h : InDr s) (hroom : 2 + comp.length ≤ s.area) :
    InDr (slComp (fuel + 1) s comp false 0 0) ∧ (slComp (fuel + 1) s comp false 0 0).area = s.area - (2 + comp.length) := by
  simp only [slComp, Bool.false_or, Bool.false_eq_true, if_false, List.drop_zero, Nat.zero_add]
  have hmin : ¬ ((if comp.isEmpty = true then 2 else 3) > s.area) := by
    cases comp with
    | nil => simp at hroom ⊢; omega
    | cons x xs => simp at hroom ⊢; omega
  simp only [hmin, if_false]
  have hlen : ¬ (2 + comp.length > s.area) := by omega
  simp only [hlen, if_false]
  have htake : comp.take (2 + comp.length) = comp := List.take_of_length_le (by omega)
  have hfinal : 2 + comp.length ≥ comp.length := by omega
  simp only [hfinal, if_true, htake]
  exact ⟨h, rfl⟩

theorem slComp_fits_special (fuel : Nat) (s : SlSt) (comp : Bytes) (flag : Nat) (h : InDr s) (hroom : 2 ≤ s.area) :
    InDr (slComp (fuel + 1) s comp true flag 0) ∧ (slComp (fuel + 1) s comp true flag 0).area = s.area - 2 := by
  simp only [slComp, Bool.true_or, if_true]
  have hmin : ¬ (2 > s.area) := by omega
  simp only [hmin, if_false]
  exact ⟨h, rfl⟩

theorem need_le (i : Nat) (c : Bytes) (hns : (47 : UInt8) ∉ c) (s : SlSt) (h : InDr s) (hroom : need c ≤ s.area) :
    InDr (compStep i c s) ∧ (compStep i c s).area + need c = s.area := by
  unfold compStep
  by_cases h0 : i = 0 ∧ c = []
  · simp only [h0, and_self, if_true, List.length_nil, Nat.zero_add]
    obtain ⟨a, b⟩ := slComp_fits_special 2 s [47] 8 h (by simp [need, h0.2] at hroom; omega)
    refine ⟨a, ?_⟩
    rw [b]; simp [need, h0.2] at hroom ⊢; omega
  · simp only [h0, if_false]
    by_cases h1 : c = [46]
    · subst h1
      simp only [if_true]
      obtain ⟨a, b⟩ := slComp_fits_special 2 s [46] 2 h (by simp [need] at hroom; omega)
      exact ⟨a, by rw [b]; simp [need] at hroom ⊢; omega⟩
    · simp only [h1, if_false]
      by_cases h2 : c = [46, 46]
      · subst h2
        simp only [if_true]
        obtain ⟨a, b⟩ := slComp_fits_special 2 s [46, 46] 4 h (by simp [need] at hroom; omega)
        exact ⟨a, by rw [b]; simp [need] at hroom ⊢; omega⟩
      · simp only [h2, if_false]
        have h3 : c ≠ [47] := by intro h3; subst h3; exact hns (by simp)
        have hneed : need c = 2 + c.length := by simp [need, h1, h2, h3]
        obtain ⟨a, b⟩ := slComp_fits_normal (c.length + 2) s c h (by omega)
        exact ⟨a, by rw [b, hneed]; omega⟩

theorem splitSlash_no_slash (t : Bytes) : ∀ c ∈ splitSlash t, (47 : UInt8) ∉ c := by
  induction t with
  | nil => intro c hc; simp [splitSlash] at hc; subst hc; simp
  | cons x xs ih =>
    intro c hc
    simp only [splitSlash] at hc
    split at hc
    · rcases List.mem_cons.mp hc with rfl | hc
      · simp
      · exact ih c hc
    · rename_i hx
      cases hs : splitSlash xs with
      | nil => simp [hs] at hc; subst hc; simp only [List.mem_singleton]; exact fun h => hx h.symm
      | cons p ps =>
        rw [hs] at hc ih
        rcases List.mem_cons.mp hc with rfl | hc
        · intro hm
          rcases List.mem_cons.mp hm with h | h
          · exact hx h.symm
          · exact ih p List.mem_cons_self h
        · exact ih c (List.mem_cons_of_mem _ hc)

theorem go_inDr (k : Nat) (cs : List Bytes) (hns : ∀ c ∈ cs, (47 : UInt8) ∉ c) (s : SlSt) (h : InDr s)
    (hroom : (cs.map need).sum ≤ s.area) : InDr (go k cs s) := by
  induction cs generalizing k s with
  | nil => exact h
  | cons c cs ih =>
    simp only [go]
    simp only [List.map_cons, List.sum_cons] at hroom
    obtain ⟨a, b⟩ := need_le k c (hns c List.mem_cons_self) s h (by omega)
    exact ih (k + 1) (fun x hx => hns x (List.mem_cons_of_mem _ hx)) _ a (by omega)

/-- **no continuation entry, no continuation data**: when `_new_symlink` is called without a CE record and does not give up,
every SL record it makes is in the directory record. -/
theorem newSymlink_noCE (a a' : Acc) (target : Bytes) (h : newSymlink false a target = some a') : a'.ce = a.ce := by
  unfold newSymlink at h
  simp only at h
  split at h
  · cases h
  · rename_i hfit
    simp only [Bool.not_false, and_true, Nat.not_lt] at hfit
    simp only [Option.some.injEq] at h
    subst h
    have hfun : (fun (s : SlSt) (x : Nat × Bytes) =>
        match x with
        | (i, c) =>
          if i = 0 ∧ c = [] then slComp (c.length + 3) s [47] true 8 0
          else if c = [46] then slComp 3 s c true 2 0
          else if c = [46, 46] then slComp 3 s c true 4 0
          else slComp (c.length + 3) s c false 0 0) = fun s p => compStep p.1 p.2 s := by
      funext s p; cases p; rfl
    simp only [hfun, List.range_eq_range', foldl_zip_range', Bool.not_false, Bool.true_or, if_true]
    have hin := go_inDr 0 (splitSlash target) (splitSlash_no_slash target)
      { cur := a.cur + 5, inDr := true, area := allowed - a.cur - 5, open_ := [], doneDr := [], doneCe := [] }
      ⟨rfl, rfl⟩ (by
        have : (List.map need (splitSlash target)).sum =
            (List.map (fun c => 2 + if c = [46] ∨ c = [46, 46] ∨ c = [47] then 0 else c.length) (splitSlash target)).sum := rfl
        simp only at this ⊢
        omega)
    have hcl : (closeSl (go 0 (splitSlash target)
        { cur := a.cur + 5, inDr := true, area := allowed - a.cur - 5, open_ := [], doneDr := [], doneCe := [] }) false).doneCe = [] := by
      unfold closeSl
      rw [hin.1]; simp [hin.2]
    rw [hcl]; simp

end Pycdlib.Susp

