/-
Proofs/Crc — the structural facts that make table-driven CRCs equal to the bit-by-bit definitions.
They are statements about the MODEL only (no table from the source appears), proved by kernel evaluation
over all 65536 (byte, byte) pairs.
-/
import Pycdlib.Model.Checksum
namespace Pycdlib

/-- eight shifts of (b, lo): the low byte only moves up; all feedback comes from the high byte -/
theorem crc16_split : ∀ b lo : Fin 256,
    iter8 crc16Shift (b.val * 256 + lo.val) = iter8 crc16Shift (b.val * 256) ^^^ (lo.val * 256) := by
  decide +kernel

theorem crc32_split : ∀ hi : Fin 256, ∀ b : Fin 256,
    iter8 crc32Shift (hi.val * 256 + b.val) % 16777216 = (iter8 crc32Shift b.val ^^^ hi.val) % 16777216 := by
  decide +kernel


/-- CRC-16, one byte: the bit-by-bit update equals "table[high byte xor x] xor (low byte shifted up)",
for ANY table that holds the bitwise CRC of each index. -/
theorem crc16Byte_table (tbl : Nat → Nat) (htbl : ∀ b : Fin 256, tbl b.val = iter8 crc16Shift (b.val * 256))
    (crc x : Nat) (hc : crc < 65536) (hx : x < 256) :
    crc16Byte crc x = tbl (x ^^^ (crc / 256 % 256)) ^^^ ((crc * 256) % 65536 / 256 * 256) := by
  unfold crc16Byte
  have hdiv : (crc ^^^ x * 256) / 2 ^ 8 = crc / 2 ^ 8 ^^^ x * 256 / 2 ^ 8 := Nat.xor_div_two_pow
  have hmod : (crc ^^^ x * 256) % 2 ^ 8 = crc % 2 ^ 8 ^^^ x * 256 % 2 ^ 8 := Nat.xor_mod_two_pow
  have e1 : x * 256 / 2 ^ 8 = x := by omega
  have e2 : x * 256 % 2 ^ 8 = 0 := by omega
  rw [e1] at hdiv
  rw [e2, Nat.xor_zero] at hmod
  have hb : crc / 2 ^ 8 ^^^ x < 256 := Nat.xor_lt_two_pow (n := 8) (by omega) (by omega)
  have hlo : crc % 2 ^ 8 < 256 := by omega
  have hdecomp : crc ^^^ x * 256 = (crc / 2 ^ 8 ^^^ x) * 256 + crc % 2 ^ 8 := by
    have := Nat.div_add_mod (crc ^^^ x * 256) (2 ^ 8)
    rw [hdiv, hmod] at this
    omega
  rw [hdecomp]
  have := crc16_split ⟨crc / 2 ^ 8 ^^^ x, hb⟩ ⟨crc % 2 ^ 8, hlo⟩
  simp only at this
  rw [this, ← htbl ⟨crc / 2 ^ 8 ^^^ x, hb⟩]
  simp only
  have e3 : crc / 256 % 256 = crc / 2 ^ 8 := by omega
  have e4 : crc * 256 % 65536 / 256 * 256 = crc % 2 ^ 8 * 256 := by omega
  rw [e3, e4, Nat.xor_comm x]

theorem crc16Byte_lt (crc x : Nat) (hc : crc < 65536) (hx : x < 256) : crc16Byte crc x < 65536 := by
  have hs : ∀ c, crc16Shift c < 65536 := by
    intro c; unfold crc16Shift; split <;> omega
  unfold crc16Byte iter8
  exact hs _

end Pycdlib
