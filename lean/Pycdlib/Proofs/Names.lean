/-
Proofs/Names — helper lemmas about `splitLast` and `splitIsoFilename`.
-/
import Pycdlib.Model.Names
namespace Pycdlib

theorem splitLast_eq_none {α : Type} [DecidableEq α] (c : α) (l : List α) :
    splitLast c l = none ↔ c ∉ l := by
  induction l with
  | nil => simp [splitLast]
  | cons x xs ih =>
    unfold splitLast
    cases h : splitLast c xs with
    | some p =>
      have : c ∈ xs := by
        by_cases hc : c ∈ xs
        · exact hc
        · exact absurd (ih.mpr hc) (by simp [h])
      simp [this]
    | none =>
      have hn := ih.mp h
      by_cases hx : x = c
      · simp [hx]
      · simp [hx, hn]; exact fun h' => hx h'.symm

theorem splitLast_eq_some {α : Type} [DecidableEq α] (c : α) (l pre post : List α) :
    splitLast c l = some (pre, post) ↔ l = pre ++ c :: post ∧ c ∉ post := by
  induction l generalizing pre post with
  | nil => simp [splitLast]
  | cons x xs ih =>
    unfold splitLast
    cases h : splitLast c xs with
    | some p =>
      obtain ⟨p1, p2⟩ := p
      have hs := (ih p1 p2).mp h
      constructor
      · intro heq
        simp only [Option.some.injEq, Prod.mk.injEq] at heq
        obtain ⟨rfl, rfl⟩ := heq
        exact ⟨by simp [hs.1], hs.2⟩
      · rintro ⟨heq, hnot⟩
        cases pre with
        | nil =>
          simp only [List.nil_append, List.cons.injEq] at heq
          obtain ⟨_, rfl⟩ := heq
          have := (splitLast_eq_none c xs).mpr hnot
          simp [this] at h
        | cons y ys =>
          simp only [List.cons_append, List.cons.injEq] at heq
          obtain ⟨rfl, hxs⟩ := heq
          have := (ih ys post).mpr ⟨hxs, hnot⟩
          rw [h] at this
          simp only [Option.some.injEq, Prod.mk.injEq] at this
          obtain ⟨rfl, rfl⟩ := this
          rfl
    | none =>
      have hn := (splitLast_eq_none c xs).mp h
      by_cases hx : x = c
      · subst hx
        simp only [if_true, Option.some.injEq, Prod.mk.injEq]
        constructor
        · rintro ⟨rfl, rfl⟩; exact ⟨rfl, hn⟩
        · rintro ⟨heq, hnot⟩
          cases pre with
          | nil => simp at heq; exact ⟨rfl, heq⟩
          | cons y ys =>
            simp only [List.cons_append, List.cons.injEq] at heq
            exact absurd (heq.2 ▸ (by simp : x ∈ ys ++ x :: post)) hn
      · simp only [hx, if_false]
        constructor
        · intro h'; cases h'
        · rintro ⟨heq, _⟩
          cases pre with
          | nil => simp at heq; exact absurd heq.1 hx
          | cons y ys =>
            simp only [List.cons_append, List.cons.injEq] at heq
            exact absurd (heq.2 ▸ (by simp : c ∈ ys ++ c :: post)) hn

end Pycdlib
