/-
Proofs/SpecInv — the specification's state is a forest in every namespace, after every history.
`TreeInv`: no (namespace, path) occurs twice, no entry is a root, and every entry hangs below a directory entry of its
own namespace.  Every operation `Spec.step` accepts preserves it (including `reopen`).
-/
import Pycdlib.Props.C01
namespace Pycdlib.Spec

def keyOf (e : Entry) : NS × Path := (e.ns, e.path)

def HasDir (es : List Entry) (ns : NS) (p : Path) : Prop :=
  p = [] ∨ ∃ e ∈ es, e.ns = ns ∧ e.path = p ∧ e.node = Node.dir

def TreeInvL (es : List Entry) : Prop :=
  (es.map keyOf).Nodup ∧ ∀ e ∈ es, e.path ≠ [] ∧ HasDir es e.ns e.path.dropLast

def TreeInv (s : State) : Prop := TreeInvL s.entries

theorem isDir_hasDir (s : State) (ns : NS) (p : Path) (h : s.isDir ns p = true) : HasDir s.entries ns p := by
  unfold State.isDir at h
  simp only [Bool.or_eq_true, List.isEmpty_iff] at h
  rcases h with h | h
  · exact Or.inl h
  · cases hf : s.find ns p with
    | none => simp [hf] at h
    | some e =>
      simp only [hf, decide_eq_true_eq] at h
      obtain ⟨hm, h1, h2⟩ := find_some hf
      exact Or.inr ⟨e, hm, h1, h2, h⟩

theorem canAdd_facts (s : State) (ns : NS) (p : Path) (h : s.canAdd ns p = true) :
    p ≠ [] ∧ HasDir s.entries ns p.dropLast ∧ ∀ e ∈ s.entries, ¬ (e.ns = ns ∧ e.path = p) := by
  unfold State.canAdd at h
  simp only [Bool.and_eq_true, Bool.not_eq_true', List.isEmpty_eq_false_iff, Option.isNone_iff_eq_none] at h
  exact ⟨h.1.1, isDir_hasDir s ns _ h.1.2, find_none h.2⟩

theorem hasDir_append (es es' : List Entry) (ns : NS) (p : Path) (h : HasDir es ns p) : HasDir (es ++ es') ns p := by
  rcases h with h | ⟨e, he, h⟩
  · exact Or.inl h
  · exact Or.inr ⟨e, List.mem_append_left _ he, h⟩

theorem nodup_of_map {α β : Type} (f : α → β) (l : List α) (h : (l.map f).Nodup) : l.Nodup := by
  have h' : List.Pairwise (fun a b => f a ≠ f b) l := List.pairwise_map.mp h
  exact h'.imp fun hne heq => hne (congrArg f heq)

/-- the (at most three) targets of one multi-namespace edit have pairwise different namespaces -/
theorem targets_ns_nodup (i j u : Option Path) :
    ((optAll [i.map (NS.iso, ·), j.map (NS.joliet, ·), u.map (NS.udf, ·)]).map (·.1)).Nodup := by
  cases i <;> cases j <;> cases u <;> simp [optAll]

/-- adding fresh entries below existing directories keeps the forest -/
theorem treeInv_add (es : List Entry) (targets : List (NS × Path)) (mk : NS × Path → Entry)
    (hmk : ∀ t, (mk t).ns = t.1 ∧ (mk t).path = t.2)
    (hns : (targets.map (·.1)).Nodup)
    (hok : ∀ t ∈ targets, t.2 ≠ [] ∧ HasDir es t.1 t.2.dropLast ∧ ∀ e ∈ es, ¬ (e.ns = t.1 ∧ e.path = t.2))
    (h : TreeInvL es) : TreeInvL (es ++ targets.map mk) := by
  constructor
  · rw [List.map_append, List.nodup_append]
    refine ⟨h.1, ?_, ?_⟩
    · -- the new keys are pairwise different: their namespaces are
      rw [List.map_map]
      have : (targets.map (keyOf ∘ mk)).map (·.1) = targets.map (·.1) := by
        rw [List.map_map]; apply List.map_congr_left; intro t _; simp [keyOf, (hmk t).1]
      exact nodup_of_map (·.1) _ (by rw [this]; exact hns)
    · intro k hk k' hk' heq
      subst heq
      obtain ⟨e, he, rfl⟩ := List.mem_map.mp hk
      rw [List.map_map] at hk'
      obtain ⟨t, ht, htk⟩ := List.mem_map.mp hk'
      simp only [Function.comp, keyOf, Prod.mk.injEq] at htk
      exact (hok t ht).2.2 e he ⟨by rw [← htk.1, (hmk t).1], by rw [← htk.2, (hmk t).2]⟩
  · intro e he
    rcases List.mem_append.mp he with he | he
    · exact ⟨(h.2 e he).1, hasDir_append _ _ _ _ (h.2 e he).2⟩
    · obtain ⟨t, ht, rfl⟩ := List.mem_map.mp he
      rw [(hmk t).1, (hmk t).2]
      exact ⟨(hok t ht).1, hasDir_append _ _ _ _ (hok t ht).2.1⟩

/-- removing entries that are not the directory any remaining entry hangs below keeps the forest -/
theorem treeInv_filter (es : List Entry) (keep : Entry → Bool)
    (hpar : ∀ e ∈ es, keep e = true → ∀ d ∈ es, d.ns = e.ns → d.path = e.path.dropLast → d.node = Node.dir → keep d = true)
    (h : TreeInvL es) : TreeInvL (es.filter keep) := by
  constructor
  · exact ((List.filter_sublist).map keyOf).nodup h.1
  · intro e he
    obtain ⟨hm, hk⟩ := List.mem_filter.mp he
    refine ⟨(h.2 e hm).1, ?_⟩
    rcases (h.2 e hm).2 with h0 | ⟨d, hd, h1, h2, h3⟩
    · exact Or.inl h0
    · exact Or.inr ⟨d, List.mem_filter.mpr ⟨hd, hpar e hm hk d hd h1 h2 h3⟩, h1, h2, h3⟩

/-- rewriting entries without touching namespace, path or directory-ness keeps the forest -/
theorem treeInv_map (es : List Entry) (f : Entry → Entry)
    (hf : ∀ e, (f e).ns = e.ns ∧ (f e).path = e.path ∧ ((f e).node = Node.dir ↔ e.node = Node.dir))
    (h : TreeInvL es) : TreeInvL (es.map f) := by
  constructor
  · rw [List.map_map]
    have : es.map (keyOf ∘ f) = es.map keyOf := by
      apply List.map_congr_left; intro e _; simp [keyOf, (hf e).1, (hf e).2.1]
    rw [this]; exact h.1
  · intro e he
    obtain ⟨x, hx, rfl⟩ := List.mem_map.mp he
    rw [(hf x).1, (hf x).2.1]
    refine ⟨(h.2 x hx).1, ?_⟩
    rcases (h.2 x hx).2 with h0 | ⟨d, hd, h1, h2, h3⟩
    · exact Or.inl h0
    · exact Or.inr ⟨f d, List.mem_map.mpr ⟨d, hd, rfl⟩, by rw [(hf d).1, h1], by rw [(hf d).2.1, h2], (hf d).2.2.mpr h3⟩

/-! ### the invariant depends only on (namespace, path, directory?) of each entry -/

def shape (e : Entry) : NS × Path × Bool := (e.ns, e.path, decide (e.node = Node.dir))

theorem treeInv_congr (es es' : List Entry) (hs : es.map shape = es'.map shape) (h : TreeInvL es) : TreeInvL es' := by
  have hkey : es.map keyOf = es'.map keyOf := by
    have := congrArg (List.map fun (t : NS × Path × Bool) => (t.1, t.2.1)) hs
    rw [List.map_map, List.map_map] at this
    exact this
  have hmem : ∀ t, t ∈ es.map shape ↔ t ∈ es'.map shape := by rw [hs]; intro t; exact Iff.rfl
  constructor
  · rw [← hkey]; exact h.1
  · intro e' he'
    have : shape e' ∈ es.map shape := (hmem _).mpr (List.mem_map.mpr ⟨e', he', rfl⟩)
    obtain ⟨e, he, hse⟩ := List.mem_map.mp this
    simp only [shape, Prod.mk.injEq] at hse
    rw [← hse.1, ← hse.2.1]
    refine ⟨(h.2 e he).1, ?_⟩
    rcases (h.2 e he).2 with h0 | ⟨d, hd, h1, h2, h3⟩
    · exact Or.inl h0
    · have : shape d ∈ es'.map shape := (hmem _).mp (List.mem_map.mpr ⟨d, hd, rfl⟩)
      obtain ⟨d', hd', hsd⟩ := List.mem_map.mp this
      simp only [shape, Prod.mk.injEq] at hsd
      refine Or.inr ⟨d', hd', by rw [hsd.1, h1], by rw [hsd.2.1, h2], ?_⟩
      have := hsd.2.2
      simp only [h3, decide_true, decide_eq_true_eq] at this
      exact this

theorem key_unique (es : List Entry) (h : (es.map keyOf).Nodup) (a b : Entry) (ha : a ∈ es) (hb : b ∈ es)
    (hk : a.ns = b.ns ∧ a.path = b.path) : a = b := by
  induction es with
  | nil => cases ha
  | cons x xs ih =>
    simp only [List.map_cons, List.nodup_cons] at h
    rcases List.mem_cons.mp ha with rfl | ha' <;> rcases List.mem_cons.mp hb with rfl | hb'
    · rfl
    · exact absurd (List.mem_map.mpr ⟨b, hb', by simp [keyOf, hk.1, hk.2]⟩) h.1
    · exact absurd (List.mem_map.mpr ⟨a, ha', by simp [keyOf, hk.1, hk.2]⟩) h.1
    · exact ih h.2 ha' hb'

theorem reopen_shape (s : State) (es : List Entry) (acc : List Entry × List Blob × Nat × List (Nat × Nat)) :
    (es.foldl (reopenStep s) acc).1.map shape = acc.1.map shape ++ es.map shape := by
  induction es generalizing acc with
  | nil => simp
  | cons e es ih =>
    simp only [List.foldl_cons, List.map_cons]
    rw [ih]
    have : (reopenStep s acc e).1.map shape = acc.1.map shape ++ [shape e] := by
      unfold reopenStep
      cases hn : e.node with
      | dir => simp
      | symlink t => simp
      | file b =>
        simp only
        cases s.blobs.find? (·.id = b) with
        | none => simp
        | some bl =>
          simp only
          split
          · split
            · split <;> simp [shape, hn]
            · simp [shape, hn]
          · simp
    rw [this]; simp

/-! ### every accepted operation keeps the forest -/

theorem targets_ok (s : State) (targets : List (NS × Path))
    (h : (targets.all fun (ns, p) => s.canAdd ns p) = true) :
    ∀ t ∈ targets, t.2 ≠ [] ∧ HasDir s.entries t.1 t.2.dropLast ∧ ∀ e ∈ s.entries, ¬ (e.ns = t.1 ∧ e.path = t.2) := by
  intro t ht
  have := List.all_eq_true.mp h t ht
  exact canAdd_facts s t.1 t.2 this

theorem step_tree_inv (s s' : State) (op : Op) (hi : TreeInv s) (h : step s op = some s') : TreeInv s' := by
  unfold TreeInv at *
  cases op with
  | addFp a =>
    simp only [step] at h
    split at h; · cases h
    split at h; · cases h
    rename_i _ hall
    simp only [Bool.not_eq_true', Bool.not_eq_false] at hall
    simp only [Option.some.injEq] at h; subst h
    exact treeInv_add _ _ _ (fun t => ⟨rfl, rfl⟩) (targets_ns_nodup _ _ _) (targets_ok s _ (by simpa using hall)) hi
  | addDir iso rrName joliet udf mode =>
    simp only [step] at h
    split at h; · cases h
    split at h; · cases h
    rename_i _ hall
    simp only [Option.some.injEq] at h; subst h
    exact treeInv_add _ _ _ (fun t => ⟨rfl, rfl⟩) (targets_ns_nodup _ _ _) (targets_ok s _ (by simpa using hall)) hi
  | addSymlink iso rrName rrTarget joliet udf udfTarget =>
    simp only [step] at h
    split at h; · cases h
    split at h; · cases h
    rename_i _ hall
    simp only [Option.some.injEq] at h; subst h
    exact treeInv_add _ _ _ (fun t => ⟨rfl, rfl⟩) (targets_ns_nodup _ _ _) (targets_ok s _ (by simpa using hall)) hi
  | rmFile ns p =>
    simp only [step] at h
    cases hf : s.find ns p with
    | none => simp [hf] at h
    | some e =>
      simp only [hf] at h
      obtain ⟨hm, h1, h2⟩ := find_some hf
      cases hn : e.node with
      | dir => simp [hn] at h
      | file b =>
        simp only [hn, Option.some.injEq] at h; subst h
        show TreeInvL (s.entries.filter _)
        apply treeInv_filter _ _ _ hi
        intro x _ _ d _ _ _ hd
        simp [hd]
      | symlink t =>
        simp only [hn, Option.some.injEq] at h; subst h
        apply treeInv_filter _ _ _ hi
        intro x _ _ d hdm _ _ hd
        simp only [Bool.not_eq_true', decide_eq_false_iff_not]
        intro hk
        have := key_unique s.entries hi.1 d e hdm hm ⟨by rw [hk.1, h1], by rw [hk.2, h2]⟩
        rw [this, hn] at hd; cases hd
  | rmLink ns p =>
    simp only [step] at h
    cases hf : s.find ns p with
    | none => simp [hf] at h
    | some e =>
      simp only [hf] at h
      obtain ⟨hm, h1, h2⟩ := find_some hf
      cases hn : e.node with
      | dir => simp [hn] at h
      | file b =>
        simp only [hn, Option.some.injEq] at h; subst h
        show TreeInvL (s.entries.filter _)
        apply treeInv_filter _ _ _ hi
        intro x _ _ d hdm _ _ hd
        simp only [Bool.not_eq_true', decide_eq_false_iff_not]
        intro hk
        have := key_unique s.entries hi.1 d e hdm hm ⟨by rw [hk.1, h1], by rw [hk.2, h2]⟩
        rw [this, hn] at hd; cases hd
      | symlink t =>
        simp only [hn, Option.some.injEq] at h; subst h
        show TreeInvL (s.entries.filter _)
        apply treeInv_filter _ _ _ hi
        intro x _ _ d hdm _ _ hd
        simp only [Bool.not_eq_true', decide_eq_false_iff_not]
        intro hk
        have := key_unique s.entries hi.1 d e hdm hm ⟨by rw [hk.1, h1], by rw [hk.2, h2]⟩
        rw [this, hn] at hd; cases hd
  | rmDir iso joliet udf =>
    simp only [step] at h
    split at h; · cases h
    split at h; · cases h
    rename_i _ hall
    simp only [Option.some.injEq] at h; subst h
    apply treeInv_filter _ _ _ hi
    intro x hx _ d hdm hdns hdp _
    simp only [Bool.not_eq_true', List.any_eq_false, Bool.and_eq_true, decide_eq_true_eq, not_and]
    intro t ht hns hpath
    -- `d` would be a removed directory with the child `x`: but removed directories have no children
    have hall' : ∀ (a : NS) (b : Path), (a, b) ∈ optAll [iso.map (NS.iso, ·), joliet.map (NS.joliet, ·), udf.map (NS.udf, ·)] →
        ¬ b = [] ∧ s.isDir a b = true ∧ s.hasChildren a b = false := by simpa using hall
    have hnc := (hall' t.1 t.2 ht).2.2
    unfold State.hasChildren at hnc
    have := List.any_eq_false.mp hnc x hx
    apply this
    have hxne := (hi.2 x hx).1
    simp only [Bool.and_eq_true, decide_eq_true_eq]
    have hlen : x.path.dropLast.length + 1 = x.path.length := by
      rw [List.length_dropLast]; have := List.length_pos_iff.mpr hxne; omega
    refine ⟨by rw [← hns, hdns], ?_, by rw [← hpath, hdp]⟩
    rw [← hpath, hdp]; omega
  | addLink oldNs oldP newNs newP rrName =>
    simp only [step] at h
    cases hf : s.find oldNs oldP with
    | none => simp [hf] at h
    | some e =>
      simp only [hf] at h
      cases hn : e.node with
      | dir => simp [hn] at h
      | symlink t => simp [hn] at h
      | file b =>
        simp only [hn] at h
        split at h; · cases h
        rename_i hca
        simp only [Option.some.injEq] at h; subst h
        have := treeInv_add s.entries [(newNs, newP)]
          (fun t => ({ ns := t.1, path := t.2, node := .file b, rrName := if t.1 = .iso then rrName else [],
                       mode := if t.1 = .iso ∧ s.rr then (if oldNs = .iso then e.mode else 0) else 0 } : Entry))
          (fun t => ⟨rfl, rfl⟩) (by simp)
          (by intro t ht; simp only [List.mem_singleton] at ht; subst ht; exact canAdd_facts s newNs newP (by simpa using hca)) hi
        simpa using this
  | setHidden ns p hd =>
    simp only [step] at h
    cases hf : s.find ns p with
    | none => simp [hf] at h
    | some e =>
      simp only [hf, Option.some.injEq] at h; subst h
      apply treeInv_map _ _ _ hi
      intro x
      split <;> simp
  | reopen =>
    simp only [step, Option.some.injEq] at h; subst h
    apply treeInv_congr s.entries _ _ hi
    simp [reopenState, reopen_shape]

/-- **C01 / C13 (specification side)**: after every history the specification accepts, each namespace is a forest: no
path twice, every entry below an existing directory. -/
theorem run_tree_inv (s s' : State) (ops : List Op) (hi : TreeInv s) (h : run s ops = some s') : TreeInv s' := by
  induction ops generalizing s with
  | nil => simp only [run, Option.some.injEq] at h; subst h; exact hi
  | cons op ops ih =>
    simp only [run, Option.bind_eq_some_iff] at h
    obtain ⟨s1, h1, h2⟩ := h
    exact ih s1 (step_tree_inv s s1 op hi h1) h2

theorem treeInv_init (rr : Bool) : TreeInv { rr := rr } := ⟨List.nodup_nil, fun e he => by cases he⟩

end Pycdlib.Spec
