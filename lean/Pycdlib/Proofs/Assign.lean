/-
Proofs/Assign — what `_assign_entries` (model `assign`, `rrNew`) records is exactly the name and the link target.
Every step of the entry chain either adds a fixed-size entry (no effect on names or link components), the NM pieces
(`addName`) or the SL records (`newSymlink`).
-/
import Pycdlib.Props.C08
namespace Pycdlib.Susp

/-- (NM bytes in the record, NM bytes in the continuation area, SL components in the record, in the continuation area) -/
def proj (a : Acc) : Bytes × Bytes × List Comp × List Comp := (nmName a.dr, nmName a.ce, allComps a.dr, allComps a.ce)

theorem nmName_append (l1 l2 : List Ent) : nmName (l1 ++ l2) = nmName l1 ++ nmName l2 := by simp [nmName]

theorem put_fixed_proj (hasCE : Bool) (a a' : Acc) (sig : String) (n : Nat) (h : put hasCE a (.fixed sig n) = some a') :
    proj a' = proj a := by
  unfold put at h
  split at h
  · split at h
    · cases h; simp [proj, nmName_append, allComps_append, nmName, allComps]
    · cases h
  · cases h; simp [proj, nmName_append, allComps_append, nmName, allComps]

theorem opt_put_fixed_proj (c hasCE : Bool) (a a' : Acc) (sig : String) (n : Nat)
    (h : optPut c hasCE a (.fixed sig n) = some a') : proj a' = proj a := by
  unfold optPut at h
  cases c
  · simp at h; rw [h]
  · simp only [if_true] at h; exact put_fixed_proj hasCE a a' sig n h

theorem allComps_markNm (ps : List Bytes) : allComps (markNm ps) = [] := by
  induction ps with
  | nil => simp [markNm, allComps]
  | cons p ps ih =>
    cases ps with
    | nil => simp [markNm, allComps]
    | cons q r => simp only [markNm, allComps, List.flatMap_cons, List.nil_append] at ih ⊢; exact ih

theorem allComps_sublist_nil (l : List Ent) (h : allComps l = []) (n : Nat) :
    allComps (l.take n) = [] ∧ allComps (l.drop n) = [] := by
  have := congrArg id h
  rw [← List.take_append_drop n l, allComps_append] at h
  exact ⟨List.append_eq_nil_iff.mp h |>.1, List.append_eq_nil_iff.mp h |>.2⟩

/-- `addName` adds NM pieces whose concatenation (record first, then continuation area) is the name, and no SL -/
theorem addName_proj (hasCE : Bool) (a a' : Acc) (name : Bytes) (h : addName hasCE a name = some a') :
    ∃ nd nc, nd ++ nc = name ∧ proj a' = ((proj a).1 ++ nd, (proj a).2.1 ++ nc, (proj a).2.2.1, (proj a).2.2.2) := by
  unfold addName at h
  simp only at h
  split at h
  · cases h
  · simp only [Option.some.injEq] at h
    subst h
    generalize hall : markNm ((if allowed - a.cur - 5 > 0 then [List.take (allowed - a.cur - 5) name] else []) ++
      chunks250 ((List.drop (allowed - a.cur - 5) name).length + 1) (List.drop (allowed - a.cur - 5) name)) = all
    generalize (if allowed - a.cur - 5 > 0 then 1 else 0) = nDr
    have hnil : allComps all = [] := by rw [← hall]; exact allComps_markNm _
    have hsub := allComps_sublist_nil all hnil nDr
    refine ⟨nmName (all.take nDr), nmName (all.drop nDr), ?_, ?_⟩
    · rw [← nmName_append, List.take_append_drop, ← hall, nmName_markNm]
      by_cases hpos : allowed - a.cur - 5 > 0
      · simp only [hpos, if_true, List.cons_append, List.nil_append, List.flatten_cons]
        rw [chunks_concat _ _ (by omega)]
        exact List.take_append_drop _ _
      · simp only [hpos, if_false, List.nil_append]
        rw [chunks_concat _ _ (by omega)]
        have : allowed - a.cur - 5 = 0 := by omega
        simp [this]
    · simp [proj, nmName_append, allComps_append, hsub.1, hsub.2]

theorem nmName_sl (es : List Ent) (h : ∀ e ∈ es, ∃ b cs, e = Ent.sl b cs) : nmName es = [] := by
  induction es with
  | nil => simp [nmName]
  | cons e es ih =>
    obtain ⟨b, cs, rfl⟩ := h _ List.mem_cons_self
    have := ih fun e he => h e (List.mem_cons_of_mem _ he)
    simpa [nmName] using this

end Pycdlib.Susp

namespace Pycdlib.Susp

/-! ### the symlink records are SL records only -/

def SlOnly (s : SlSt) : Prop := ∀ e ∈ s.doneDr ++ s.doneCe, ∃ b cs, e = Ent.sl b cs

theorem closeSl_slOnly (s : SlSt) (b : Bool) (h : SlOnly s) : SlOnly (closeSl s b) := by
  unfold closeSl SlOnly
  split
  · intro e he
    simp only [List.append_assoc, List.mem_append, List.mem_singleton] at he
    rcases he with he | he | he
    · exact h e (List.mem_append.mpr (Or.inl he))
    · exact ⟨_, _, he⟩
    · exact h e (List.mem_append.mpr (Or.inr he))
  · intro e he
    simp only [List.mem_append, List.mem_singleton] at he
    rcases he with he | he | he
    · exact h e (List.mem_append.mpr (Or.inl he))
    · exact h e (List.mem_append.mpr (Or.inr he))
    · exact ⟨_, _, he⟩

theorem reopen_slOnly (s : SlSt) (m : Bool) (h : SlOnly s) : SlOnly (s.reopen m) := by
  have h1 : SlOnly (if m = true then { s with open_ := setLastContinued s.open_ } else s) := by
    split
    · exact h
    · exact h
  have := closeSl_slOnly _ true h1
  simpa [SlSt.reopen, SlOnly] using this

theorem push_slOnly (s : SlSt) (c : Comp) (g u : Nat) (h : SlOnly s) : SlOnly (s.push c g u) := h

theorem slComp_slOnly (fuel : Nat) (s : SlSt) (comp : Bytes) (special : Bool) (flag offset : Nat) (h : SlOnly s) :
    SlOnly (slComp fuel s comp special flag offset) := by
  induction fuel generalizing s offset special flag with
  | zero => exact h
  | succ fuel ih =>
    simp only [slComp]
    generalize hs1 : (if (if (special || comp.isEmpty) = true then 2 else 3) > s.area then s.reopen (decide (offset ≠ 0)) else s) = s1
    have h1 : SlOnly s1 := by
      rw [← hs1]
      by_cases hc : (if (special || comp.isEmpty) = true then 2 else 3) > s.area
      · rw [if_pos hc]; exact reopen_slOnly _ _ h
      · rw [if_neg hc]; exact h
    cases special
    · simp only [Bool.false_eq_true, if_false]
      by_cases hf : offset + (if 2 + (List.drop offset comp).length > s1.area then s1.area - 2
          else 2 + (List.drop offset comp).length) ≥ comp.length
      · rw [if_pos hf]; exact push_slOnly _ _ _ _ h1
      · rw [if_neg hf]; exact ih _ _ _ _ (push_slOnly _ _ _ _ h1)
    · simp only [if_true]; exact push_slOnly _ _ _ _ h1

theorem compStep_slOnly (i : Nat) (c : Bytes) (s : SlSt) (h : SlOnly s) : SlOnly (compStep i c s) := by
  unfold compStep
  split
  · exact slComp_slOnly _ _ _ _ _ _ h
  · split
    · exact slComp_slOnly _ _ _ _ _ _ h
    · split <;> exact slComp_slOnly _ _ _ _ _ _ h

theorem go_slOnly (k : Nat) (cs : List Bytes) (s : SlSt) (h : SlOnly s) : SlOnly (go k cs s) := by
  induction cs generalizing k s with
  | nil => exact h
  | cons c cs ih => exact ih _ _ (compStep_slOnly k c s h)

theorem closed_go_slOnly (cs : List Bytes) (s0 : SlSt) (h : SlOnly s0) : SlOnly (closeSl (go 0 cs s0) false) :=
  closeSl_slOnly _ false (go_slOnly 0 cs s0 h)

theorem newSymlink_slOnly (hasCE : Bool) (a a' : Acc) (target : Bytes) (h : newSymlink hasCE a target = some a') :
    ∃ dr ce, a'.dr = a.dr ++ dr ∧ a'.ce = a.ce ++ ce ∧
      (∀ e ∈ dr, ∃ b cs, e = Ent.sl b cs) ∧ (∀ e ∈ ce, ∃ b cs, e = Ent.sl b cs) := by
  unfold newSymlink at h
  simp only at h
  split at h
  · cases h
  · simp only [Option.some.injEq] at h
    subst h
    have hfun : (fun (s : SlSt) (x : Nat × Bytes) =>
        match x with
        | (i, c) =>
          if i = 0 ∧ c = [] then slComp (c.length + 3) s [47] true 8 0
          else if c = [46] then slComp 3 s c true 2 0
          else if c = [46, 46] then slComp 3 s c true 4 0
          else slComp (c.length + 3) s c false 0 0) = fun s p => compStep p.1 p.2 s := by
      funext s p; cases p; rfl
    simp only [hfun, List.range_eq_range', foldl_zip_range']
    refine ⟨_, _, rfl, rfl, ?_, ?_⟩
    · intro e he
      exact closed_go_slOnly _ _ (by intro x hx; simp at hx) e (List.mem_append.mpr (Or.inl he))
    · intro e he
      exact closed_go_slOnly _ _ (by intro x hx; simp at hx) e (List.mem_append.mpr (Or.inr he))

/-- `newSymlink` adds SL records only, and they reassemble to the target -/
theorem newSymlink_proj (hasCE : Bool) (a a' : Acc) (target : Bytes) (ht : target ≠ [])
    (h : newSymlink hasCE a target = some a') :
    ∃ sd sc, slTarget (sd ++ sc) = target ∧
      proj a' = ((proj a).1, (proj a).2.1, (proj a).2.2.1 ++ sd, (proj a).2.2.2 ++ sc) := by
  obtain ⟨dr, ce, hdr, hce, hre⟩ := symlink_reassembles hasCE a a' target ht h
  -- the new records are SL records
  have hsl : (∀ e ∈ dr, ∃ b cs, e = Ent.sl b cs) ∧ (∀ e ∈ ce, ∃ b cs, e = Ent.sl b cs) := by
    obtain ⟨dr2, ce2, hdr2, hce2, hs1, hs2⟩ := newSymlink_slOnly hasCE a a' target h
    have e1 : dr2 = dr := List.append_cancel_left (hdr2.symm.trans hdr)
    have e2 : ce2 = ce := List.append_cancel_left (hce2.symm.trans hce)
    subst e1; subst e2
    exact ⟨hs1, hs2⟩
  refine ⟨allComps dr, allComps ce, by rw [← allComps_append]; exact hre, ?_⟩
  simp [proj, hdr, hce, nmName_append, allComps_append, nmName_sl dr hsl.1, nmName_sl ce hsl.2]

end Pycdlib.Susp

namespace Pycdlib.Susp

theorem proj_init (cur : Nat) : proj { cur := cur } = ([], [], [], []) := by simp [proj, nmName, allComps]

/-- what `_assign_entries` records: the NM pieces give the name, the SL records give the link target -/
theorem assign_records (hasCE first : Bool) (ver : Ver) (name : Bytes) (target : Option Bytes) (cl re pl : Bool)
    (cur : Nat) (a : Acc) (h : assign hasCE first ver name target cl re pl cur = some a) :
    nmName (a.dr ++ a.ce) = name ∧
    (∀ t, target = some t → t ≠ [] → slTarget (allComps (a.dr ++ a.ce)) = t) ∧
    ((target = none ∨ target = some []) → allComps (a.dr ++ a.ce) = []) := by
  unfold assign at h
  simp only [Option.bind_eq_some_iff] at h
  obtain ⟨a1, h1, a2, h2, a3, h3, a4, h4, a5, h5, a6, h6, a7, h7, a8, h8, a9, h9, h10⟩ := h
  have p1 := opt_put_fixed_proj first hasCE _ a1 _ _ h1
  have p2 := opt_put_fixed_proj _ hasCE _ a2 _ _ h2
  have p4 := put_fixed_proj _ _ _ _ _ h4
  have p6 := put_fixed_proj _ _ _ _ _ h6
  have p7 := opt_put_fixed_proj cl hasCE _ a7 _ _ h7
  have p8 := opt_put_fixed_proj re hasCE _ a8 _ _ h8
  have p9 := opt_put_fixed_proj pl hasCE _ a9 _ _ h9
  have p10 := opt_put_fixed_proj first hasCE _ a _ _ h10
  rw [proj_init] at p1
  -- the name
  have p3 : ∃ nd nc, nd ++ nc = name ∧ proj a3 = (nd, nc, [], []) := by
    by_cases hn : name.isEmpty = true
    · simp only [hn, if_true, Option.some.injEq] at h3
      refine ⟨[], [], ?_, by rw [← h3, p2, p1]⟩
      simpa using (List.isEmpty_iff.mp hn).symm
    · simp only [hn, if_false] at h3
      obtain ⟨nd, nc, e, hp⟩ := addName_proj _ _ _ _ h3
      exact ⟨nd, nc, e, by rw [hp, p2, p1]; simp⟩
  obtain ⟨nd, nc, hname, p3⟩ := p3
  -- the link
  have p5 : ∃ sd sc, proj a5 = (nd, nc, sd, sc) ∧ (∀ t, target = some t → t ≠ [] → slTarget (sd ++ sc) = t) ∧
      ((target = none ∨ target = some []) → sd = [] ∧ sc = []) := by
    cases target with
    | none =>
      simp only [Option.some.injEq] at h5
      exact ⟨[], [], (by rw [← h5, p4, p3]), (fun t ht => by cases ht), (fun _ => ⟨rfl, rfl⟩)⟩
    | some t =>
      by_cases hte : t.isEmpty = true
      · simp only [hte, if_true, Option.some.injEq] at h5
        refine ⟨[], [], by rw [← h5, p4, p3], ?_, fun _ => ⟨rfl, rfl⟩⟩
        intro t' ht' hne
        simp only [Option.some.injEq] at ht'
        subst ht'
        exact absurd (List.isEmpty_iff.mp hte) hne
      · simp only [hte, if_false] at h5
        have hne : t ≠ [] := fun h => hte (by simp [h])
        obtain ⟨sd, sc, hre, hp⟩ := newSymlink_proj _ _ _ _ hne h5
        refine ⟨sd, sc, by rw [hp, p4, p3]; simp, ?_, ?_⟩
        · intro t' ht' _
          simp only [Option.some.injEq] at ht'
          subst ht'; exact hre
        · intro hor
          rcases hor with h | h
          · cases h
          · simp only [Option.some.injEq] at h
            exact absurd h hne
  obtain ⟨sd, sc, p5, hlink, hnol⟩ := p5
  have pf : proj a = (nd, nc, sd, sc) := by rw [p10, p9, p8, p7, p6, p5]
  simp only [proj, Prod.mk.injEq] at pf
  obtain ⟨e1, e2, e3, e4⟩ := pf
  refine ⟨by rw [nmName_append, e1, e2, hname], ?_, ?_⟩
  · intro t ht hne
    rw [allComps_append, e3, e4]; exact hlink t ht hne
  · intro hor
    rw [allComps_append, e3, e4, (hnol hor).1, (hnol hor).2]; rfl

end Pycdlib.Susp

namespace Pycdlib.Susp

/-! ### the first layout pass (no continuation entry) puts nothing into the continuation area -/

theorem put_noCE (a a' : Acc) (e : Ent) (h : put false a e = some a') : a'.ce = a.ce := by
  unfold put at h
  split at h
  · simp at h
  · cases h; rfl

theorem optPut_noCE (c : Bool) (a a' : Acc) (e : Ent) (h : optPut c false a e = some a') : a'.ce = a.ce := by
  unfold optPut at h
  cases c
  · simp at h; rw [h]
  · simp only [if_true] at h; exact put_noCE a a' e h

theorem addName_noCE (a a' : Acc) (name : Bytes) (h : addName false a name = some a') : a'.ce = a.ce := by
  unfold addName at h
  simp only at h
  split at h
  · cases h
  · rename_i hfit
    simp only [Bool.not_false, and_true, Nat.not_lt] at hfit
    simp only [Option.some.injEq] at h
    subst h
    have hrest : List.drop (allowed - a.cur - 5) name = [] := List.drop_eq_nil_of_le hfit
    simp only [hrest, List.length_nil, Nat.zero_add, List.append_nil]
    have hch : chunks250 1 [] = [] := by simp [chunks250]
    rw [hch, List.append_nil]
    by_cases hpos : allowed - a.cur - 5 > 0
    · simp [hpos, markNm]
    · simp [hpos, markNm]

theorem assign_noCE (first : Bool) (ver : Ver) (name : Bytes) (target : Option Bytes) (cl re pl : Bool) (cur : Nat)
    (a : Acc) (h : assign false first ver name target cl re pl cur = some a) : a.ce = [] := by
  unfold assign at h
  simp only [Option.bind_eq_some_iff] at h
  obtain ⟨a1, h1, a2, h2, a3, h3, a4, h4, a5, h5, a6, h6, a7, h7, a8, h8, a9, h9, h10⟩ := h
  have e1 := optPut_noCE _ _ _ _ h1
  have e2 := optPut_noCE _ _ _ _ h2
  have e3 : a3.ce = a2.ce := by
    by_cases hn : name.isEmpty = true
    · simp only [hn, if_true, Option.some.injEq] at h3; rw [h3]
    · simp only [hn] at h3; exact addName_noCE _ _ _ h3
  have e4 := put_noCE _ _ _ h4
  have e5 : a5.ce = a4.ce := by
    cases target with
    | none => simp only [Option.some.injEq] at h5; rw [h5]
    | some t =>
      by_cases hte : t.isEmpty = true
      · simp only [hte, if_true, Option.some.injEq] at h5; rw [h5]
      · simp only [hte] at h5; exact newSymlink_noCE _ _ _ h5
  have e6 := put_noCE _ _ _ h6
  have e7 := optPut_noCE _ _ _ _ h7
  have e8 := optPut_noCE _ _ _ _ h8
  have e9 := optPut_noCE _ _ _ _ h9
  have e10 := optPut_noCE _ _ _ _ h10
  rw [e10, e9, e8, e7, e6, e5, e4, e3, e2, e1]

end Pycdlib.Susp

