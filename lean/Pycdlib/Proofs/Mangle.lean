/-
Proofs/Mangle — helper lemmas for C18.
-/
import Pycdlib.Model.Mangle
import Pycdlib.Proofs.Names
namespace Pycdlib

theorem isD1Char_toNat (c : Char) (h : isD1Char c = true) :
    (65 ≤ c.toNat ∧ c.toNat ≤ 90) ∨ (48 ≤ c.toNat ∧ c.toNat ≤ 57) ∨ c.toNat = 95 := by
  unfold isD1Char at h
  simp only [Bool.or_eq_true, Bool.and_eq_true, decide_eq_true_eq] at h
  rcases h with (⟨h1, h2⟩ | ⟨h1, h2⟩) | h
  · left; exact ⟨h1, h2⟩
  · right; left; exact ⟨h1, h2⟩
  · right; right; subst h; rfl

theorem isD1_of_isD1Char (c : Char) (h : isD1Char c = true) : isD1 (UInt8.ofNat c.toNat) = true := by
  have := isD1Char_toNat c h
  unfold isD1
  have hlt : c.toNat < 256 := by omega
  have : (UInt8.ofNat c.toNat).toNat = c.toNat := by
    simp [UInt8.toNat_ofNat']; omega
  rw [this]
  simp only [Bool.or_eq_true, Bool.and_eq_true, decide_eq_true_eq]
  omega

theorem subst_all (s : List Char) : ∀ c ∈ subst s, isD1Char c = true := by
  intro c hc
  unfold subst at hc
  simp only [List.mem_map] at hc
  obtain ⟨a, _, rfl⟩ := hc
  by_cases h : isD1Char a = true
  · simp [h]
  · simp [h]; rfl

theorem subst_length (s : List Char) : (subst s).length = s.length := by simp [subst]

theorem subst_id (s : List Char) (h : ∀ c ∈ s, isD1Char c = true) : subst s = s := by
  unfold subst
  induction s with
  | nil => rfl
  | cons x xs ih =>
    simp only [List.map_cons, List.cons.injEq]
    exact ⟨by simp [h x (by simp)], ih (fun c hc => h c (by simp [hc]))⟩

theorem upperStr_id (upper : Upper) (s : List Char) (h : ∀ c ∈ s, upper c = [c]) : upperStr upper s = s := by
  unfold upperStr
  induction s with
  | nil => rfl
  | cons x xs ih =>
    simp only [List.flatMap_cons, h x (by simp)]
    rw [ih (fun c hc => h c (by simp [hc]))]; rfl

theorem upperStr_ne_nil (upper : Upper) (hup : ∀ c, upper c ≠ []) (s : List Char) (hs : s ≠ []) :
    upperStr upper s ≠ [] := by
  cases s with
  | nil => exact absurd rfl hs
  | cons x xs =>
    unfold upperStr
    simp only [List.flatMap_cons, ne_eq, List.append_eq_nil_iff, not_and]
    intro h; exact absurd h (hup x)

theorem maxLen_pos (lvl : Nat) (d : Bool) : 0 < maxLen lvl d := by
  unfold maxLen; split
  · omega
  · split <;> omega

theorem truncate_chars (upper : Upper) (s : List Char) (lvl : Nat) (d : Bool) (h : lvl ≠ 4) :
    ∀ c ∈ truncateBasename upper s lvl d, isD1Char c = true := by
  intro c hc
  unfold truncateBasename at hc
  simp only [h, if_false] at hc
  exact subst_all _ c (List.mem_of_mem_take hc)

theorem truncate_length (upper : Upper) (s : List Char) (lvl : Nat) (d : Bool) (h : lvl ≠ 4) :
    (truncateBasename upper s lvl d).length ≤ maxLen lvl d := by
  unfold truncateBasename
  simp only [h, if_false, List.length_take]
  omega

theorem truncate_ne_nil (upper : Upper) (hup : ∀ c, upper c ≠ []) (s : List Char) (hs : s ≠ [])
    (lvl : Nat) (d : Bool) (h : lvl ≠ 4) : truncateBasename upper s lvl d ≠ [] := by
  unfold truncateBasename
  simp only [h, if_false]
  have hp := maxLen_pos lvl d
  have h1 : s.take (maxLen lvl d) ≠ [] := by
    cases s with
    | nil => exact absurd rfl hs
    | cons x xs =>
      cases hm : maxLen lvl d with
      | zero => omega
      | succ k => simp
  have h2 := upperStr_ne_nil upper hup _ h1
  have h3 : subst (upperStr upper (List.take (maxLen lvl d) s)) ≠ [] := by
    intro h'; apply h2
    have := congrArg List.length h'
    rw [subst_length] at this
    exact List.eq_nil_of_length_eq_zero this
  intro h'
  have := congrArg List.length h'
  simp only [List.length_take, List.length_nil] at this
  have : (subst (upperStr upper (List.take (maxLen lvl d) s))).length ≠ 0 := by
    intro h0; exact h3 (List.eq_nil_of_length_eq_zero h0)
  omega

theorem truncate_id (upper : Upper) (s : List Char) (lvl : Nat) (d : Bool)
    (hd : ∀ c ∈ s, isD1Char c = true) (hu : ∀ c, isD1Char c = true → upper c = [c])
    (hl : s.length ≤ maxLen lvl d) : truncateBasename upper s lvl d = s := by
  unfold truncateBasename
  split
  · rfl
  · rw [List.take_of_length_le hl, upperStr_id upper s (fun c hc => hu c (hd c hc)), subst_id s hd,
      List.take_of_length_le hl]

theorem asciiBytes_d1 (s : List Char) (h : ∀ c ∈ s, isD1Char c = true) :
    ∀ b ∈ asciiBytes s, isD1 b = true := by
  intro b hb
  unfold asciiBytes at hb
  simp only [List.mem_map] at hb
  obtain ⟨c, hc, rfl⟩ := hb
  exact isD1_of_isD1Char c (h c hc)

theorem d1_not_dot (l : Bytes) (h : ∀ b ∈ l, isD1 b = true) : cDot ∉ l := by
  intro hm; have := h _ hm; revert this; decide

theorem d1_not_semi (l : Bytes) (h : ∀ b ∈ l, isD1 b = true) : cSemi ∉ l := by
  intro hm; have := h _ hm; revert this; decide

theorem asciiBytes_length (s : List Char) : (asciiBytes s).length = s.length := by simp [asciiBytes]

theorem asciiBytes_append (a b : List Char) : asciiBytes (a ++ b) = asciiBytes a ++ asciiBytes b := by
  simp [asciiBytes]

end Pycdlib
