/-
Proofs/SpecBlobs — the specification's content store: every file entry has its content, every stored content is
referred to by a name or a boot entry, content ids are unique.  Preserved by every operation except `reopen`
(whose renumbering of zero-length contents is covered by Props/C02 `reopen_keeps_names`; the store invariant across
`reopen` is not proved — `blob_inv_partial`).
-/
import Pycdlib.Proofs.SpecInv
namespace Pycdlib.Spec

def BlobInv (s : State) : Prop :=
  (∀ e ∈ s.entries, ∀ b, e.node = Node.file b → ∃ bl ∈ s.blobs, bl.id = b) ∧
  (∀ bl ∈ s.blobs, s.refs bl.id > 0) ∧
  (∀ bl ∈ s.blobs, bl.id < s.next) ∧
  (s.blobs.map (·.id)).Nodup

def fileCount (es : List Entry) (b : Nat) : Nat := (es.filter fun e => e.node = Node.file b).length

theorem refs_eq (s : State) (b : Nat) : s.refs b = fileCount s.entries b + (s.bootBlobs.filter (· = b)).length := rfl

theorem fileCount_append (es es' : List Entry) (b : Nat) : fileCount (es ++ es') b = fileCount es b + fileCount es' b := by
  simp [fileCount, List.filter_append]

theorem fileCount_pos_of_mem (es : List Entry) (e : Entry) (b : Nat) (he : e ∈ es) (hb : e.node = Node.file b) :
    fileCount es b > 0 := by
  unfold fileCount
  apply List.length_pos_of_mem (a := e)
  exact List.mem_filter.mpr ⟨he, by simp [hb]⟩

/-- removing entries that do not refer to content `b` does not change how often `b` is referred to -/
theorem fileCount_filter (es : List Entry) (keep : Entry → Bool) (b : Nat)
    (h : ∀ e ∈ es, e.node = Node.file b → keep e = true) : fileCount (es.filter keep) b = fileCount es b := by
  unfold fileCount
  rw [List.filter_filter]
  congr 1
  apply List.filter_congr
  intro e he
  by_cases hb : e.node = Node.file b
  · simp [hb, h e he hb]
  · simp [hb]

theorem fileCount_map (es : List Entry) (f : Entry → Entry) (b : Nat) (hf : ∀ e, (f e).node = e.node) :
    fileCount (es.map f) b = fileCount es b := by
  unfold fileCount
  rw [List.filter_map, List.length_map]
  congr 1
  apply List.filter_congr
  intro e _
  simp [Function.comp, hf e]

/-- appended entries that are not files leave every count as it was -/
theorem fileCount_nonfile (es' : List Entry) (b : Nat) (h : ∀ e ∈ es', ∀ c, e.node ≠ Node.file c) : fileCount es' b = 0 := by
  unfold fileCount
  rw [List.length_eq_zero_iff, List.filter_eq_nil_iff]
  intro e he
  simp [h e he b]

theorem fileCount_map_pos {α : Type} (l : List α) (mk : α → Entry) (b : Nat) (hl : l ≠ [])
    (hmk : ∀ t, (mk t).node = Node.file b) : fileCount (l.map mk) b > 0 := by
  cases l with
  | nil => exact absurd rfl hl
  | cons t ts => exact fileCount_pos_of_mem _ (mk t) b (by simp) (hmk t)

theorem gc_inv (s : State)
    (h1 : ∀ e ∈ s.entries, ∀ b, e.node = Node.file b → ∃ bl ∈ s.blobs, bl.id = b)
    (h3 : ∀ bl ∈ s.blobs, bl.id < s.next) (h4 : (s.blobs.map (·.id)).Nodup) : BlobInv s.gc := by
  refine ⟨?_, gc_referenced s, ?_, ?_⟩
  · intro e he b hb
    obtain ⟨bl, hbl, hid⟩ := h1 e he b hb
    refine ⟨bl, ?_, hid⟩
    simp only [State.gc, List.mem_filter, decide_eq_true_eq]
    refine ⟨hbl, ?_⟩
    rw [hid, refs_eq]
    have := fileCount_pos_of_mem s.entries e b he hb
    omega
  · intro bl hbl
    simp only [State.gc, List.mem_filter] at hbl
    exact h3 bl hbl.1
  · simp only [State.gc]
    exact ((List.filter_sublist).map _).nodup h4

/-- appending entries and (optionally) one fresh content keeps the store invariant, provided every appended file entry
refers to a stored content -/
theorem blobInv_append (s : State) (es' : List Entry) (hi : BlobInv s)
    (hfile : ∀ e ∈ es', ∀ b, e.node = Node.file b → ∃ bl ∈ s.blobs, bl.id = b) :
    BlobInv { s with entries := s.entries ++ es' } := by
  obtain ⟨h1, h2, h3, h4⟩ := hi
  refine ⟨?_, ?_, h3, h4⟩
  · intro e he b hb
    rcases List.mem_append.mp he with he | he
    · exact h1 e he b hb
    · exact hfile e he b hb
  · intro bl hbl
    have := h2 bl hbl
    simp only [refs_eq, fileCount_append] at this ⊢
    omega

theorem step_blob_inv (s s' : State) (op : Op) (hop : op ≠ Op.reopen) (htree : TreeInv s) (hi : BlobInv s)
    (h : step s op = some s') :
    BlobInv s' := by
  cases op with
  | reopen => exact absurd rfl hop
  | addFp a =>
    simp only [step] at h
    split at h; · cases h
    rename_i hne
    split at h; · cases h
    simp only [Option.some.injEq] at h; subst h
    obtain ⟨h1, h2, h3, h4⟩ := hi
    generalize htg : optAll [a.iso.map (NS.iso, ·), a.joliet.map (NS.joliet, ·), a.udf.map (NS.udf, ·)] = targets at *
    refine ⟨?_, ?_, ?_, ?_⟩
    · intro e he b hb
      rcases List.mem_append.mp he with he | he
      · obtain ⟨bl, hbl, hid⟩ := h1 e he b hb
        exact ⟨bl, List.mem_append_left _ hbl, hid⟩
      · obtain ⟨t, _, rfl⟩ := List.mem_map.mp he
        simp only [mkEntry, Node.file.injEq] at hb
        exact ⟨_, List.mem_append_right _ (List.mem_singleton.mpr rfl), hb⟩
    · intro bl hbl
      simp only [refs_eq, fileCount_append]
      rcases List.mem_append.mp hbl with hbl | hbl
      · have := h2 bl hbl; rw [refs_eq] at this; omega
      · simp only [List.mem_singleton] at hbl; subst hbl
        have hne' : targets ≠ [] := by intro h0; simp [h0] at hne
        have := fileCount_map_pos targets (mkEntry s.rr (fun _ => Node.file s.next) a.rrName a.mode) s.next hne' (fun _ => rfl)
        show fileCount s.entries s.next + fileCount _ s.next + _ > 0
        omega
    · intro bl hbl
      rcases List.mem_append.mp hbl with hbl | hbl
      · have := h3 bl hbl; show bl.id < s.next + 1; omega
      · simp only [List.mem_singleton] at hbl; subst hbl; show s.next < s.next + 1; omega
    · rw [List.map_append, List.nodup_append]
      refine ⟨h4, by simp, ?_⟩
      intro x hx y hy hxy
      obtain ⟨bl, hbl, rfl⟩ := List.mem_map.mp hx
      simp only [List.map_cons, List.map_nil, List.mem_singleton] at hy
      have := h3 bl hbl
      omega
  | addDir iso rrName joliet udf mode =>
    simp only [step] at h
    split at h; · cases h
    split at h; · cases h
    simp only [Option.some.injEq] at h; subst h
    apply blobInv_append s _ hi
    intro e he b hb
    obtain ⟨t, _, rfl⟩ := List.mem_map.mp he
    cases hb
  | addSymlink iso rrName rrTarget joliet udf udfTarget =>
    simp only [step] at h
    split at h; · cases h
    split at h; · cases h
    simp only [Option.some.injEq] at h; subst h
    apply blobInv_append s _ hi
    intro e he b hb
    obtain ⟨t, _, rfl⟩ := List.mem_map.mp he
    cases hb
  | addLink oldNs oldP newNs newP rrName =>
    simp only [step] at h
    cases hf : s.find oldNs oldP with
    | none => simp [hf] at h
    | some e =>
      simp only [hf] at h
      obtain ⟨hm, _, _⟩ := find_some hf
      cases hn : e.node with
      | dir => simp [hn] at h
      | symlink t => simp [hn] at h
      | file b =>
        simp only [hn] at h
        split at h; · cases h
        simp only [Option.some.injEq] at h; subst h
        apply blobInv_append s _ hi
        intro x hx c hc
        simp only [List.mem_singleton] at hx; subst hx
        simp only [Node.file.injEq] at hc; subst hc
        exact hi.1 e hm b hn
  | rmFile ns p =>
    simp only [step] at h
    cases hf : s.find ns p with
    | none => simp [hf] at h
    | some e =>
      simp only [hf] at h
      cases hn : e.node with
      | dir => simp [hn] at h
      | file b =>
        simp only [hn, Option.some.injEq] at h; subst h
        obtain ⟨h1, _, h3, h4⟩ := hi
        apply gc_inv
        · intro x hx c hc
          exact h1 x (List.mem_filter.mp hx).1 c hc
        · exact h3
        · exact h4
      | symlink t =>
        simp only [hn, Option.some.injEq] at h; subst h
        obtain ⟨hm, h1', h2'⟩ := find_some hf
        obtain ⟨h1, h2, h3, h4⟩ := hi
        refine ⟨fun x hx c hc => h1 x (List.mem_filter.mp hx).1 c hc, ?_, h3, h4⟩
        intro bl hbl
        have := h2 bl hbl
        simp only [refs_eq] at this ⊢
        rw [fileCount_filter]
        · exact this
        · intro x hx hxb
          simp only [Bool.not_eq_true', decide_eq_false_iff_not]
          intro hk
          -- the removed key belongs to the symlink `e`; keys are unique, so `x` would be `e`
          have := key_unique s.entries htree.1 x e hx hm ⟨by rw [hk.1, h1'], by rw [hk.2, h2']⟩
          rw [this, hn] at hxb; cases hxb
  | rmLink ns p =>
    simp only [step] at h
    cases hf : s.find ns p with
    | none => simp [hf] at h
    | some e =>
      simp only [hf] at h
      cases hn : e.node with
      | dir => simp [hn] at h
      | file b =>
        simp only [hn, Option.some.injEq] at h; subst h
        obtain ⟨h1, _, h3, h4⟩ := hi
        exact gc_inv _ (fun x hx c hc => h1 x (List.mem_filter.mp hx).1 c hc) h3 h4
      | symlink t =>
        simp only [hn, Option.some.injEq] at h; subst h
        obtain ⟨h1, _, h3, h4⟩ := hi
        exact gc_inv _ (fun x hx c hc => h1 x (List.mem_filter.mp hx).1 c hc) h3 h4
  | rmDir iso joliet udf =>
    simp only [step] at h
    split at h; · cases h
    split at h; · cases h
    rename_i _ hall
    simp only [Option.some.injEq] at h; subst h
    obtain ⟨h1, h2, h3, h4⟩ := hi
    refine ⟨fun x hx c hc => h1 x (List.mem_filter.mp hx).1 c hc, ?_, h3, h4⟩
    intro bl hbl
    have := h2 bl hbl
    simp only [refs_eq] at this ⊢
    rw [fileCount_filter]
    · exact this
    · intro x hx hxb
      simp only [Bool.not_eq_true', List.any_eq_false, Bool.and_eq_true, decide_eq_true_eq, not_and]
      intro t ht hns hpath
      have hall' : ∀ (a : NS) (b : Path), (a, b) ∈ optAll [iso.map (NS.iso, ·), joliet.map (NS.joliet, ·), udf.map (NS.udf, ·)] →
          ¬ b = [] ∧ s.isDir a b = true ∧ s.hasChildren a b = false := by simpa using hall
      have hd := (hall' t.1 t.2 ht).2.1
      have hne := (hall' t.1 t.2 ht).1
      -- the target is a directory entry; keys are unique, so `x` would be that entry
      unfold State.isDir at hd
      simp only [Bool.or_eq_true, List.isEmpty_iff, hne, false_or] at hd
      cases hfd : s.find t.1 t.2 with
      | none => simp [hfd] at hd
      | some d =>
        simp only [hfd, decide_eq_true_eq] at hd
        obtain ⟨hdm, hd1, hd2⟩ := find_some hfd
        have := key_unique s.entries htree.1 x d hx hdm ⟨by rw [hns, hd1], by rw [hpath, hd2]⟩
        rw [this, hd] at hxb; cases hxb
  | setHidden ns p hd =>
    simp only [step] at h
    cases hf : s.find ns p with
    | none => simp [hf] at h
    | some e =>
      simp only [hf, Option.some.injEq] at h; subst h
      obtain ⟨h1, h2, h3, h4⟩ := hi
      refine ⟨?_, ?_, h3, h4⟩
      · intro x hx c hc
        obtain ⟨y, hy, rfl⟩ := List.mem_map.mp hx
        apply h1 y hy c
        split at hc <;> exact hc
      · intro bl hbl
        have := h2 bl hbl
        simp only [refs_eq] at this ⊢
        rw [fileCount_map]
        · exact this
        · intro y; split <;> rfl

end Pycdlib.Spec
