/-
Proofs/Pack — next-fit lemmas (used by C03, C04, C17).
-/
import Pycdlib.Model.Pack
namespace Pycdlib

theorem nfFold_append (bs : Nat) (st : NF) (a b : List Nat) :
    nfFold bs st (a ++ b) = nfFold bs (nfFold bs st a) b := by
  simp [nfFold, List.foldl_append]

theorem nfFold_cons (bs : Nat) (st : NF) (l : Nat) (ls : List Nat) :
    nfFold bs st (l :: ls) = nfFold bs (nfStep bs st l) ls := rfl

/-- the cache of the last child is the packing state of the whole list -/
theorem nfScan_getLast (bs : Nat) (st : NF) (ls : List Nat) (h : ls ≠ []) :
    (nfScan bs st ls).getLast? = some (nfFold bs st ls) := by
  induction ls generalizing st with
  | nil => exact absurd rfl h
  | cons l ls ih =>
    cases ls with
    | nil => simp [nfScan, nfFold]
    | cons m ms =>
      have := ih (nfStep bs st l) (by simp)
      simp only [nfScan] at this ⊢
      rw [List.getLast?_cons_cons]
      exact this

/-- recalculating from index `k` with a correct cache for the first `k` children gives the from-scratch cache -/
theorem nfScan_append (bs : Nat) (st : NF) (a b : List Nat) :
    nfScan bs st (a ++ b) = nfScan bs st a ++ nfScan bs (nfFold bs st a) b := by
  induction a generalizing st with
  | nil => rfl
  | cons l ls ih => simp [nfScan, nfFold_cons, ih]

/-- state invariant: the current block is never over-full -/
theorem nfStep_off_le (bs : Nat) (st : NF) (l : Nat) (hl : l ≤ bs) (hs : st.2 ≤ bs) :
    (nfStep bs st l).2 ≤ bs := by
  unfold nfStep; split <;> simp <;> omega

theorem nfFold_off_le (bs : Nat) (st : NF) (ls : List Nat) (hl : ∀ l ∈ ls, l ≤ bs) (hs : st.2 ≤ bs) :
    (nfFold bs st ls).2 ≤ bs := by
  induction ls generalizing st with
  | nil => exact hs
  | cons l ls ih =>
    rw [nfFold_cons]
    exact ih _ (fun x hx => hl x (by simp [hx])) (nfStep_off_le bs st l (hl l (by simp)) hs)

theorem nfStep_mono (bs : Nat) (st : NF) (l : Nat) : st.1 ≤ (nfStep bs st l).1 := by
  unfold nfStep; split <;> simp

theorem nfFold_mono (bs : Nat) (st : NF) (ls : List Nat) : st.1 ≤ (nfFold bs st ls).1 := by
  induction ls generalizing st with
  | nil => exact Nat.le_refl _
  | cons l ls ih => rw [nfFold_cons]; exact Nat.le_trans (nfStep_mono bs st l) (ih _)

/-- coupling relation between a packing run `a` and the same run with one extra record inserted earlier (`b`) -/
def Coupled (a b : NF) : Prop :=
  (b.1 = a.1 ∧ a.2 ≤ b.2) ∨ (b.1 = a.1 + 1 ∧ b.2 ≤ a.2)

theorem coupled_step (bs : Nat) (a b : NF) (l : Nat) (h : Coupled a b) :
    Coupled (nfStep bs a l) (nfStep bs b l) := by
  unfold Coupled nfStep at *
  rcases h with ⟨h1, h2⟩ | ⟨h1, h2⟩ <;> split <;> split <;> simp <;> omega

theorem coupled_fold (bs : Nat) (a b : NF) (ls : List Nat) (h : Coupled a b) :
    Coupled (nfFold bs a ls) (nfFold bs b ls) := by
  induction ls generalizing a b with
  | nil => exact h
  | cons l ls ih => rw [nfFold_cons, nfFold_cons]; exact ih _ _ (coupled_step bs a b l h)

/-- **insertion grows the packing by at most one block** (the inserted record is at most half a block) -/
theorem insert_grows_le_one (bs : Nat) (pre suf : List Nat) (x : Nat) (hx : 2 * x ≤ bs) :
    (nextFit bs (pre ++ x :: suf)).1 ≤ (nextFit bs (pre ++ suf)).1 + 1 ∧
    (nextFit bs (pre ++ suf)).1 ≤ (nextFit bs (pre ++ x :: suf)).1 := by
  unfold nextFit
  rw [nfFold_append, nfFold_append, nfFold_cons]
  generalize nfFold bs (1, 0) pre = st
  have hc : Coupled st (nfStep bs st x) := by
    unfold Coupled nfStep
    split
    · right; simp; omega
    · left; simp
  have := coupled_fold bs st (nfStep bs st x) suf hc
  unfold Coupled at this
  omega

/-- the statement is false without the size bound (this is why it is a hypothesis, not an assumption) -/
theorem insert_grows_counterexample :
    (nextFit 10 ([3] ++ 8 :: [5])).1 = (nextFit 10 ([3] ++ [5])).1 + 2 := by decide

/-- the writer's placement is exactly the cached (extents_to_here − 1, offset_to_here − len) -/
theorem writer_matches_cache (bs : Nat) (st : NF) (ls : List Nat) :
    writerPlace bs st.1 st.2 ls =
      (List.zip (nfScan bs st ls) ls).map fun (c, l) => (c.1, c.2 - l) := by
  induction ls generalizing st with
  | nil => rfl
  | cons l ls ih =>
    simp only [writerPlace, nfScan, List.zip_cons_cons, List.map_cons]
    unfold nfStep
    split
    · rename_i h
      simp only [List.cons.injEq, Prod.mk.injEq, true_and]
      refine ⟨by omega, ?_⟩
      have := ih (st.1 + 1, l)
      simpa [nfStep, h] using this
    · rename_i h
      simp only [List.cons.injEq, Prod.mk.injEq, true_and]
      refine ⟨by omega, ?_⟩
      have := ih (st.1, st.2 + l)
      simpa [nfStep, h] using this

/-- no record straddles a block boundary -/
theorem writer_no_straddle (bs : Nat) (blk off : Nat) (ls : List Nat) (hl : ∀ l ∈ ls, l ≤ bs) (ho : off ≤ bs) :
    ∀ p ∈ List.zip (writerPlace bs blk off ls) ls, p.1.2 + p.2 ≤ bs := by
  induction ls generalizing blk off with
  | nil => simp [writerPlace]
  | cons l ls ih =>
    have hl' := hl l (by simp)
    intro p hp
    simp only [writerPlace] at hp
    split at hp
    · simp only [List.zip_cons_cons, List.mem_cons] at hp
      rcases hp with rfl | hp
      · simp; exact hl'
      · exact ih (blk + 1) l (fun x hx => hl x (by simp [hx])) hl' p hp
    · rename_i h
      simp only [List.zip_cons_cons, List.mem_cons] at hp
      rcases hp with rfl | hp
      · simp; omega
      · exact ih blk (off + l) (fun x hx => hl x (by simp [hx])) (by omega) p hp

/-- directory length invariant is kept by `_add_child`'s growth rule -/
theorem grow_keeps_fit (bs dataLen old new : Nat) (hfit : old * bs ≤ dataLen) (hstep : new ≤ old + 1) :
    new * bs ≤ (growLen bs dataLen new).1 := by
  unfold growLen
  split
  · simp only
    have : new * bs ≤ (old + 1) * bs := Nat.mul_le_mul_right bs hstep
    rw [Nat.add_mul, Nat.one_mul] at this
    omega
  · simp only; omega

/-- … and by `remove_child`'s shrink rule -/
theorem shrink_keeps_fit (bs dataLen : Nat) (st : NF) (k : Nat) (hk : dataLen = k * bs) (hbs : 0 < bs)
    (hfit : st.1 * bs ≤ dataLen) (h1 : 1 ≤ st.1) :
    st.1 * bs ≤ (shrinkLen bs dataLen st).1 ∧ ∃ k', (shrinkLen bs dataLen st).1 = k' * bs := by
  unfold shrinkLen
  simp only
  split
  · rename_i h
    subst hk
    refine ⟨?_, k - 1, ?_⟩
    · -- k*bs - ((e-1)*bs + off) > bs  ⇒  k ≥ e + 1
      have hek : st.1 + 1 ≤ k := by
        apply Nat.le_of_not_lt
        intro hlt
        have hke : k ≤ st.1 := by omega
        have : k * bs ≤ st.1 * bs := Nat.mul_le_mul_right bs hke
        have e : (st.1 - 1) * bs + bs = st.1 * bs := by
          have : st.1 - 1 + 1 = st.1 := by omega
          calc (st.1 - 1) * bs + bs = (st.1 - 1 + 1) * bs := by rw [Nat.add_mul, Nat.one_mul]
            _ = st.1 * bs := by rw [this]
        omega
      have : (st.1 + 1) * bs ≤ k * bs := Nat.mul_le_mul_right bs hek
      rw [Nat.add_mul, Nat.one_mul] at this
      simp only; omega
    · simp only
      have hk1 : 1 ≤ k := by
        rcases k with _ | k
        · simp at h
        · omega
      have : (k - 1) * bs + bs = k * bs := by
        have : k - 1 + 1 = k := by omega
        calc (k - 1) * bs + bs = (k - 1 + 1) * bs := by rw [Nat.add_mul, Nat.one_mul]
          _ = k * bs := by rw [this]
      omega
  · exact ⟨hfit, k, hk⟩

end Pycdlib
