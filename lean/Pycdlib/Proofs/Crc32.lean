/-
Proofs/Crc32 — the reflected CRC-32 bit step is linear over XOR; hence the byte-at-a-time, table-driven
update equals eight bit steps, for ANY table that holds the bitwise CRC of each index.
-/
import Pycdlib.Model.Checksum
namespace Pycdlib

theorem xor_swap3 (x y p : Nat) : (x ^^^ y) ^^^ p = (x ^^^ p) ^^^ y := by
  apply Nat.eq_of_testBit_eq; intro i
  simp only [Nat.testBit_xor]
  cases x.testBit i <;> cases y.testBit i <;> cases p.testBit i <;> rfl

theorem xor_cancel4 (x y p : Nat) : (x ^^^ p) ^^^ (y ^^^ p) = x ^^^ y := by
  apply Nat.eq_of_testBit_eq; intro i
  simp only [Nat.testBit_xor]
  cases x.testBit i <;> cases y.testBit i <;> cases p.testBit i <;> rfl

theorem split_xor (n : Nat) : n = (n / 2 ^ 8 * 2 ^ 8) ^^^ (n % 2 ^ 8) := by
  apply Nat.eq_of_testBit_eq
  intro i
  rw [Nat.testBit_xor, Nat.testBit_mul_two_pow, Nat.testBit_mod_two_pow, Nat.testBit_div_two_pow]
  by_cases h : i < 8
  · have : ¬ (8 ≤ i) := by omega
    simp [h, this]
  · have h8 : 8 ≤ i := by omega
    have : i - 8 + 8 = i := by omega
    simp [h, h8, this]

/-- one bit step is linear -/
theorem crc32Shift_xor (a b : Nat) : crc32Shift (a ^^^ b) = crc32Shift a ^^^ crc32Shift b := by
  unfold crc32Shift
  have h1 : (a ^^^ b) / 2 = a / 2 ^^^ b / 2 := by
    have := @Nat.xor_div_two_pow a b 1; simpa using this
  have h2 : (a ^^^ b) % 2 = (a % 2 ^^^ b % 2) := by
    have := @Nat.xor_mod_two_pow a b 1; simpa using this
  rw [h1, h2]
  rcases Nat.mod_two_eq_zero_or_one a with ha | ha <;> rcases Nat.mod_two_eq_zero_or_one b with hb | hb
  · simp [ha, hb]
  · simp only [ha, hb, Nat.zero_xor, if_true, Nat.zero_ne_one, if_false]; rw [Nat.xor_assoc]
  · simp only [ha, hb, Nat.xor_zero, if_true, Nat.zero_ne_one, if_false]; exact xor_swap3 _ _ _
  · simp only [ha, hb, Nat.xor_self, if_true, Nat.zero_ne_one, if_false]; exact (xor_cancel4 _ _ _).symm

theorem iter8_crc32_xor (a b : Nat) : iter8 crc32Shift (a ^^^ b) = iter8 crc32Shift a ^^^ iter8 crc32Shift b := by
  unfold iter8
  simp only [crc32Shift_xor]

/-- eight steps on a multiple of 256 just shift it down: no feedback -/
theorem iter8_crc32_high (h : Nat) : iter8 crc32Shift (h * 2 ^ 8) = h := by
  have s : ∀ k m : Nat, crc32Shift (m * 2 ^ (k + 1)) = m * 2 ^ k := by
    intro k m
    unfold crc32Shift
    have : m * 2 ^ (k + 1) % 2 = 0 := by rw [Nat.pow_succ, ← Nat.mul_assoc]; exact Nat.mul_mod_left _ _
    have h2 : m * 2 ^ (k + 1) / 2 = m * 2 ^ k := by
      rw [Nat.pow_succ, ← Nat.mul_assoc]; exact Nat.mul_div_cancel _ (by decide)
    simp [this, h2]
  unfold iter8
  rw [s 7 h, s 6 h, s 5 h, s 4 h, s 3 h, s 2 h, s 1 h, s 0 h]
  simp

/-- **table-driven byte update = bit-by-bit update** -/
theorem crc32Byte_table (tbl : Nat → Nat) (htbl : ∀ b : Fin 256, tbl b.val = iter8 crc32Shift b.val)
    (crc x : Nat) (hx : x < 256) :
    crc32Byte crc x = (crc / 2 ^ 8) ^^^ tbl ((crc ^^^ x) % 2 ^ 8) := by
  unfold crc32Byte
  have hlow : (crc ^^^ x) % 2 ^ 8 < 256 := Nat.mod_lt _ (by decide)
  have hhigh : (crc ^^^ x) / 2 ^ 8 = crc / 2 ^ 8 := by
    have := @Nat.xor_div_two_pow crc x 8
    rw [this]
    have : x / 2 ^ 8 = 0 := Nat.div_eq_of_lt (by simpa using hx)
    rw [this, Nat.xor_zero]
  conv => lhs; rw [split_xor (crc ^^^ x)]
  rw [iter8_crc32_xor, iter8_crc32_high, hhigh, htbl ⟨(crc ^^^ x) % 2 ^ 8, hlow⟩]

end Pycdlib
