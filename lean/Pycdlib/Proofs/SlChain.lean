/-
Proofs/SlChain — the record-level CONTINUE flag of the SL entries emitted for one symbolic link (RRIP 4.1.3: bit 0 of
the SL flags, "this symbolic link continues in the next SL entry"): every SL entry but the last carries it, the last
does not.  A reader that stops at the first SL entry without the flag — as RRIP prescribes, and as the Lean reader of
the checks does — therefore sees all of them.
-/
import Pycdlib.Proofs.Symlink
namespace Pycdlib.Susp

def IsContSl (e : Ent) : Prop := ∃ cs, e = Ent.sl true cs

/-- everything closed so far is a continued SL entry; while the record in the directory record is still being filled
nothing has been closed -/
def Closed (s : SlSt) : Prop :=
  (∀ e ∈ s.doneDr, IsContSl e) ∧ (∀ e ∈ s.doneCe, IsContSl e) ∧ (s.inDr = true → s.doneDr = [] ∧ s.doneCe = [])

theorem reopen_closed (s : SlSt) (m : Bool) (h : Closed s) : Closed (s.reopen m) := by
  obtain ⟨h1, h2, h3⟩ := h
  unfold SlSt.reopen closeSl
  cases m <;> cases hd : s.inDr <;> simp only [hd, if_true, if_false, Bool.false_eq_true] <;>
    refine ⟨?_, ?_, by intro hc; cases hc⟩ <;> intro e he <;>
    simp only [List.mem_append, List.mem_singleton] at he
  all_goals first
    | exact h1 e he
    | exact h2 e he
    | (rcases he with he | he
       · first | exact h1 e he | exact h2 e he
       · exact ⟨_, he⟩)

theorem push_closed (s : SlSt) (c : Comp) (g u : Nat) (h : Closed s) : Closed (s.push c g u) := h

theorem closed_ite {c : Prop} [Decidable c] {a b : SlSt} (ha : Closed a) (hb : Closed b) :
    Closed (if c then a else b) := by
  split <;> assumption

theorem closed_init (cur : Nat) (inDr : Bool) (area : Nat) :
    Closed { cur := cur, inDr := inDr, area := area, open_ := [], doneDr := [], doneCe := [] } := by
  unfold Closed
  exact ⟨(by intro e he; cases he), (by intro e he; cases he), (by intro _; exact ⟨rfl, rfl⟩)⟩

theorem slComp_closed (fuel : Nat) : ∀ (s : SlSt) (comp : Bytes) (special : Bool) (flag offset : Nat),
    Closed s → Closed (slComp fuel s comp special flag offset) := by
  induction fuel with
  | zero => intro s _ _ _ _ h; exact h
  | succ fuel ih =>
    intro s comp special flag offset h
    unfold slComp
    simp only
    have hs : Closed (if (if (special || comp.isEmpty) = true then 2 else 3) > s.area then s.reopen (decide (offset ≠ 0)) else s) :=
      closed_ite (reopen_closed s _ h) h
    generalize (if (if (special || comp.isEmpty) = true then 2 else 3) > s.area then s.reopen (decide (offset ≠ 0)) else s) = s1 at hs
    cases special with
    | true => exact push_closed s1 _ _ _ hs
    | false =>
      simp only [Bool.false_eq_true, if_false]
      exact closed_ite (push_closed s1 _ _ _ hs) (ih _ _ _ _ _ (push_closed s1 _ _ _ hs))

theorem compStep_closed (i : Nat) (c : Bytes) (s : SlSt) (h : Closed s) : Closed (compStep i c s) := by
  unfold compStep
  split
  · exact slComp_closed _ _ _ _ _ _ h
  · split
    · exact slComp_closed _ _ _ _ _ _ h
    · split
      · exact slComp_closed _ _ _ _ _ _ h
      · exact slComp_closed _ _ _ _ _ _ h

theorem go_closed (k : Nat) (cs : List Bytes) (s : SlSt) (h : Closed s) : Closed (go k cs s) := by
  induction cs generalizing k s with
  | nil => exact h
  | cons c cs ih => exact ih (k + 1) _ (compStep_closed k c s h)

/-- closing the last record without the flag: continued entries, then exactly one final entry -/
theorem final_chain (s : SlSt) (h : Closed s) :
    ∃ pre cs, (closeSl s false).doneDr ++ (closeSl s false).doneCe = pre ++ [Ent.sl false cs] ∧ ∀ e ∈ pre, IsContSl e := by
  obtain ⟨h1, h2, h3⟩ := h
  unfold closeSl
  cases hd : s.inDr with
  | true =>
    obtain ⟨e1, e2⟩ := h3 hd
    refine ⟨[], s.open_, ?_, by intro e he; cases he⟩
    simp [e1, e2]
  | false =>
    refine ⟨s.doneDr ++ s.doneCe, s.open_, ?_, ?_⟩
    · simp [List.append_assoc]
    · intro e he
      rcases List.mem_append.mp he with he | he
      · exact h1 e he
      · exact h2 e he

/-- **the SL entries of one symbolic link form a chain**: all but the last say CONTINUE, the last does not -/
theorem symlink_chain (hasCE : Bool) (a a' : Acc) (target : Bytes) (h : newSymlink hasCE a target = some a') :
    ∃ dr ce pre cs, a'.dr = a.dr ++ dr ∧ a'.ce = a.ce ++ ce ∧ dr ++ ce = pre ++ [Ent.sl false cs] ∧ ∀ e ∈ pre, IsContSl e := by
  unfold newSymlink at h
  simp only at h
  split at h
  · cases h
  · simp only [Option.some.injEq] at h
    subst h
    have hfun : (fun (s : SlSt) (x : Nat × Bytes) =>
        match x with
        | (i, c) =>
          if i = 0 ∧ c = [] then slComp (c.length + 3) s [47] true 8 0
          else if c = [46] then slComp 3 s c true 2 0
          else if c = [46, 46] then slComp 3 s c true 4 0
          else slComp (c.length + 3) s c false 0 0) = fun s p => compStep p.1 p.2 s := by
      funext s p; cases p; rfl
    rw [hfun, List.range_eq_range', foldl_zip_range']
    have hc := go_closed 0 (splitSlash target) _
      (closed_init (if (!hasCE || decide (a.cur + 8 < allowed)) = true then a.cur + 5 else a.cur) (!hasCE || decide (a.cur + 8 < allowed))
        (if (!hasCE || decide (a.cur + 8 < allowed)) = true then allowed - a.cur - 5 else 250))
    obtain ⟨pre, cs, heq, hpre⟩ := final_chain _ hc
    exact ⟨_, _, pre, cs, rfl, rfl, heq, hpre⟩

end Pycdlib.Susp
