/-
Proofs/Bytes — round trips of the ECMA-119 section 7 integer encodings.
-/
import Pycdlib.Model.Bytes
namespace Pycdlib

theorem u8_toNat' (n : Nat) : (u8 n).toNat = n % 256 := by
  unfold u8; simp [UInt8.toNat_ofNat']

theorem leN_length (k n : Nat) : (leN k n).length = k := by
  induction k generalizing n with
  | zero => rfl
  | succ k ih => simp [leN, ih]

theorem beN_length (k n : Nat) : (beN k n).length = k := by simp [beN, leN_length]

theorem ofLE_leN (k n : Nat) (h : n < 256 ^ k) : ofLE (leN k n) = n := by
  induction k generalizing n with
  | zero => simp [leN, ofLE]; omega
  | succ k ih =>
    simp only [leN, ofLE, u8_toNat']
    rw [ih]
    · omega
    · rw [Nat.pow_succ] at h; omega

theorem ofBE_beN (k n : Nat) (h : n < 256 ^ k) : ofBE (beN k n) = n := by
  unfold ofBE beN; rw [List.reverse_reverse]; exact ofLE_leN k n h

theorem decBoth16_both16 (n : Nat) (h : n < 65536) : decBoth16 (both16 n) = some n := by
  unfold decBoth16 both16 le16 be16
  have h' : n < 256 ^ 2 := by simpa using h
  have l1 : (leN 2 n ++ beN 2 n).take 2 = leN 2 n := by
    rw [List.take_append_of_le_length (by simp [leN_length])]
    exact List.take_of_length_le (by simp [leN_length])
  have l2 : (leN 2 n ++ beN 2 n).drop 2 = beN 2 n := by
    rw [List.drop_append_of_le_length (by simp [leN_length])]
    simp [List.drop_of_length_le, leN_length]
  simp only [l1, l2, ofLE_leN 2 n h', ofBE_beN 2 n h', List.length_append, leN_length, beN_length]
  simp

theorem decBoth32_both32 (n : Nat) (h : n < 2 ^ 32) : decBoth32 (both32 n) = some n := by
  unfold decBoth32 both32 le32 be32
  have h' : n < 256 ^ 4 := by simpa using h
  have l1 : (leN 4 n ++ beN 4 n).take 4 = leN 4 n := by
    rw [List.take_append_of_le_length (by simp [leN_length])]
    exact List.take_of_length_le (by simp [leN_length])
  have l2 : (leN 4 n ++ beN 4 n).drop 4 = beN 4 n := by
    rw [List.drop_append_of_le_length (by simp [leN_length])]
    simp [List.drop_of_length_le, leN_length]
  simp only [l1, l2, ofLE_leN 4 n h', ofBE_beN 4 n h', List.length_append, leN_length, beN_length]
  simp

theorem both16_length (n : Nat) : (both16 n).length = 4 := by simp [both16, le16, be16, leN_length, beN_length]
theorem both32_length (n : Nat) : (both32 n).length = 8 := by simp [both32, le32, be32, leN_length, beN_length]

/-- a reader that insists on agreement rejects a both-endian field whose halves differ -/
theorem decBoth32_rejects (a b : Nat) (ha : a < 2 ^ 32) (hb : b < 2 ^ 32) (hne : a ≠ b) :
    decBoth32 (le32 a ++ be32 b) = none := by
  unfold decBoth32 le32 be32
  have ha' : a < 256 ^ 4 := by simpa using ha
  have hb' : b < 256 ^ 4 := by simpa using hb
  have l1 : (leN 4 a ++ beN 4 b).take 4 = leN 4 a := by
    rw [List.take_append_of_le_length (by simp [leN_length])]
    exact List.take_of_length_le (by simp [leN_length])
  have l2 : (leN 4 a ++ beN 4 b).drop 4 = beN 4 b := by
    rw [List.drop_append_of_le_length (by simp [leN_length])]
    simp [List.drop_of_length_le, leN_length]
  simp only [l1, l2, ofLE_leN 4 a ha', ofBE_beN 4 b hb']
  simp [hne]

end Pycdlib
