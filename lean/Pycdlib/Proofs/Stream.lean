/-
Proofs/Stream — lemmas for the C16 refinement.
-/
import Pycdlib.Model.Stream
namespace Pycdlib

theorem content_read (img : Bytes) (start len off k : Nat) (h : start + len ≤ img.length) :
    (((img.drop start).take len).drop off).take k = fpRead img (start + off) (min (len - off) k) ∧
    ((((img.drop start).take len).drop off).take k).length = min (len - off) k := by
  unfold fpRead
  constructor
  · rw [List.drop_take, List.drop_drop, List.take_take]
    congr 1
    omega
  · simp only [List.length_take, List.length_drop]
    omega

theorem content_readall (img : Bytes) (start len off : Nat) (h : start + len ≤ img.length) :
    ((img.drop start).take len).drop off = fpRead img (start + off) (len - off) ∧
    (((img.drop start).take len).drop off).length = len - off := by
  unfold fpRead
  constructor
  · rw [List.drop_take, List.drop_drop]
  · simp only [List.length_take, List.length_drop]
    omega

theorem content_length (img : Bytes) (start len : Nat) (h : start + len ≤ img.length) :
    ((img.drop start).take len).length = len := by
  simp only [List.length_take, List.length_drop]; omega

/-- one call on one stream refines the in-memory stream of that file's bytes -/
theorem call_refines (img : Bytes) (pos : Nat) (s : StreamSt) (c : StreamCall)
    (h : s.start + s.len ≤ img.length) :
    (streamCall img pos s c).2.2 = (specCall (absStream img s) c).2 ∧
    absStream img (streamCall img pos s c).1 = (specCall (absStream img s) c).1 ∧
    (streamCall img pos s c).1.start = s.start ∧ (streamCall img pos s c).1.len = s.len := by
  obtain ⟨st, ln, of, op⟩ := s
  simp only at h
  have hlen := content_length img st ln h
  cases op
  · -- closed stream: everything but close is refused
    cases c <;> simp [streamCall, specCall, absStream]
  · cases c with
    | close => simp [streamCall, specCall, absStream]
    | tell => simp [streamCall, specCall, absStream]
    | read n =>
      by_cases hge : of ≥ ln
      · have hnil : ((img.drop st).take ln).drop of = [] := List.drop_eq_nil_of_le (by omega)
        cases n <;> simp [streamCall, specCall, absStream, hge, hnil]
      · cases n with
        | none =>
          obtain ⟨e1, e2⟩ := content_readall img st ln of h
          simp [streamCall, specCall, absStream, hge, e1, e2]
          rw [← e1, e2]
        | some k =>
          obtain ⟨e1, e2⟩ := content_read img st ln of k h
          simp only [streamCall, specCall, absStream, hge, Bool.not_true, Bool.false_eq_true, if_false]
          rw [e2, e1]; simp
    | readall =>
      obtain ⟨e1, e2⟩ := content_readall img st ln of h
      by_cases hpos : ln - of > 0
      · simp only [streamCall, specCall, absStream, hpos, Bool.not_true, Bool.false_eq_true, if_false, if_true]
        rw [e2, e1]; simp
      · have hz : ln - of = 0 := by omega
        have hnil : ((img.drop st).take ln).drop of = [] := by
          apply List.eq_nil_of_length_eq_zero; rw [e2]; exact hz
        simp [streamCall, specCall, absStream, hpos, hnil]
    | readinto k =>
      obtain ⟨e1, e2⟩ := content_read img st ln of k h
      by_cases hpos : ln - of > 0
      · simp only [streamCall, specCall, absStream, hpos, Bool.not_true, Bool.false_eq_true, if_false, if_true]
        rw [e2, e1]; simp
      · have hz : ln - of = 0 := by omega
        have hnil : (((img.drop st).take ln).drop of).take k = [] := by
          apply List.eq_nil_of_length_eq_zero; rw [e2]; omega
        simp [streamCall, specCall, absStream, hpos, hnil]
    | seek off whence =>
      simp only [streamCall, specCall, absStream, hlen, Bool.not_true, Bool.false_eq_true, if_false]
      cases seekTarget of ln off whence <;> simp

theorem absW_get (w : World) (id : Nat) :
    (absW w)[id]? = (w.streams[id]?).map (absStream w.img) := by
  unfold absW; simp

end Pycdlib
