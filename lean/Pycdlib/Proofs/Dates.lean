/-
Proofs/Dates — calendar lemmas behind C19.
-/
import Pycdlib.Model.Dates
namespace Pycdlib

theorem yearDoy_round (d : Int) : daysOfYear (yearDoy d).1 + (yearDoy d).2 = d := by
  unfold daysOfYear yearDoy
  simp only
  split <;> simp only <;> split <;> omega

theorem yearDoy_range (d : Int) :
    0 ≤ (yearDoy d).2 ∧ (yearDoy d).2 < (if isLeap (yearDoy d).1 then 366 else 365) := by
  unfold yearDoy isLeap
  simp only
  split <;> simp only [decide_eq_true_eq] <;> split <;> omega

/-- consecutive days: same year and next day-of-year, or the first day of the next year -/
theorem yearDoy_step (d : Int) :
    ((yearDoy (d + 1)).1 = (yearDoy d).1 ∧ (yearDoy (d + 1)).2 = (yearDoy d).2 + 1) ∨
    ((yearDoy (d + 1)).1 = (yearDoy d).1 + 1) := by
  unfold yearDoy
  simp only
  split <;> split <;> simp only <;> omega

def MonthOk (leap : Bool) (doy : Int) : Prop :=
  1 ≤ monthOfDoy leap doy ∧ monthOfDoy leap doy ≤ 12 ∧ cumDays leap (monthOfDoy leap doy) ≤ doy ∧
      doy - cumDays leap (monthOfDoy leap doy) < 31

instance (leap : Bool) (doy : Int) : Decidable (MonthOk leap doy) := by unfold MonthOk; infer_instance

theorem month_round_fin :
    ∀ (leap : Bool) (k : Fin 366), k.val < (if leap then 366 else 365) → MonthOk leap (k.val : Int) := by
  decide +kernel

theorem month_round (leap : Bool) (doy : Int) (h0 : 0 ≤ doy) (h1 : doy < (if leap then 366 else 365)) :
    MonthOk leap doy := by
  have hk : doy.toNat < 366 := by cases leap <;> simp at h1 <;> omega
  have := month_round_fin leap ⟨doy.toNat, hk⟩ (by cases leap <;> simp at h1 ⊢ <;> omega)
  simp only at this
  have e : ((doy.toNat : Nat) : Int) = doy := by omega
  rw [e] at this; exact this

/-- the date fields of `civil t` denote the day number of `t` -/
theorem civil_days (t : Int) :
    daysOfYmd (civil t).year (civil t).mon (civil t).mday = t / 86400 := by
  unfold civil daysOfYmd
  simp only
  have h := yearDoy_round (t / 86400)
  omega

theorem civil_fields (t : Int) :
    let c := civil t
    1 ≤ c.mon ∧ c.mon ≤ 12 ∧ 1 ≤ c.mday ∧ c.mday ≤ 31 ∧ 0 ≤ c.hour ∧ c.hour < 24 ∧
    0 ≤ c.min ∧ c.min < 60 ∧ 0 ≤ c.sec ∧ c.sec < 60 ∧
    c.hour * 3600 + c.min * 60 + c.sec = t % 86400 := by
  have hr := yearDoy_range (t / 86400)
  have hm := month_round (isLeap (yearDoy (t / 86400)).1) (yearDoy (t / 86400)).2 hr.1 hr.2
  unfold MonthOk at hm
  unfold civil
  simp only
  refine ⟨hm.1, hm.2.1, by omega, by omega, by omega, by omega, by omega, by omega, by omega, by omega, by omega⟩

/-- year range: instants in 1970..2099 have years 1970..2099 -/
theorem civil_year_range (t : Int) (h0 : 0 ≤ t) (h1 : t < 4102444800) :
    1970 ≤ (civil t).year ∧ (civil t).year ≤ 2099 := by
  unfold civil yearDoy
  simp only
  split <;> simp only <;> omega

end Pycdlib
