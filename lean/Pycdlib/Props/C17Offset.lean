/-
Props/C17Offset — `offset_is_record` at byte level: the byte offset that `modify_file_in_place` derives for a directory
record from the cached packing state (`extents_to_here`, `offset_to_here`, `dr_len` — `writerPlace` / `nfScan` of
Model/Pack, theorem `writer_matches_cache`) is exactly where the writer of the directory extent (Model/DirBytes.render) put
that record: the bytes found there are the record, for every directory and every record in it.
-/
import Pycdlib.Model.DirBytes
import Pycdlib.Proofs.Pack
import Pycdlib.Props.C03
namespace Pycdlib.DirBytes
open Pycdlib

/-- offset of every record from the start of what `render bs off` emits -/
def positions (bs : Nat) (off : Nat) : List Bytes → List Nat
  | [] => []
  | r :: rs =>
    if off + r.length > bs then (bs - off) :: (positions bs r.length rs).map (· + ((bs - off) + r.length))
    else 0 :: (positions bs (off + r.length) rs).map (· + r.length)

theorem positions_length (bs off : Nat) (recs : List Bytes) : (positions bs off recs).length = recs.length := by
  induction recs generalizing off with
  | nil => rfl
  | cons r rs ih => simp only [positions]; split <;> simp [ih]

/-- **the bytes at a record's position are the record** -/
theorem render_at_position (bs : Nat) (recs : List Bytes) :
    ∀ (off k : Nat) (hk : k < recs.length),
      ((render bs off recs).drop ((positions bs off recs)[k]'(by rw [positions_length]; exact hk))).take (recs[k]).length
        = recs[k] := by
  induction recs with
  | nil => intro off k hk; simp at hk
  | cons r rs ih =>
    intro off k hk
    cases k with
    | zero =>
      simp only [positions, render]
      split
      · simp only [List.getElem_cons_zero]
        rw [List.append_assoc, drop_append_exact _ _ _ (zeros_length _)]
        exact take_append_exact _ _ _ rfl
      · simp only [List.getElem_cons_zero, List.drop_zero]
        exact take_append_exact _ _ _ rfl
    | succ j =>
      have hj : j < rs.length := by simpa using hk
      simp only [positions, render]
      split
      · simp only [List.getElem_cons_succ, List.getElem_map]
        have hA : (zeros (bs - off) ++ r).length = (bs - off) + r.length := by simp [zeros_length]
        rw [Nat.add_comm, ← List.drop_drop, drop_append_exact _ _ _ hA]
        exact ih r.length j hj
      · simp only [List.getElem_cons_succ, List.getElem_map]
        rw [Nat.add_comm, ← List.drop_drop, drop_append_exact _ _ _ rfl]
        exact ih (off + r.length) j hj

/-- the positions are the writer's placement of Model/Pack (block, offset in block), counted in bytes from the position
the writer starts at -/
theorem positions_eq_place (bs : Nat) (recs : List Bytes) (hl : ∀ r ∈ recs, r.length ≤ bs) :
    ∀ (blk off : Nat), off ≤ bs →
      (positions bs off recs).map (· + (blk * bs + off))
        = (writerPlace bs blk off (recs.map List.length)).map fun p => p.1 * bs + p.2 := by
  induction recs with
  | nil => intro blk off _; rfl
  | cons r rs ih =>
    intro blk off hoff
    have hr := hl r (by simp)
    simp only [positions, List.map_cons, writerPlace]
    split
    · rename_i h
      simp only [List.map_cons, List.map_map]
      have := ih (fun x hx => hl x (by simp [hx])) (blk + 1) r.length hr
      refine List.cons_eq_cons.mpr ⟨?_, ?_⟩
      · simp only [Nat.add_mul, Nat.one_mul]; omega
      · rw [← this]
        apply List.map_congr_left
        intro a _
        simp only [Function.comp, Nat.add_mul, Nat.one_mul]; omega
    · rename_i h
      simp only [List.map_cons, List.map_map]
      have := ih (fun x hx => hl x (by simp [hx])) blk (off + r.length) (by omega)
      refine List.cons_eq_cons.mpr ⟨by omega, ?_⟩
      rw [← this]
      apply List.map_congr_left
      intro a _
      simp only [Function.comp]; omega

/-- **offset_is_record**: in the bytes of a directory extent, at `block * 2048 + offset` as the cached packing state of the
k-th child gives them (`writer_matches_cache`: block = extents_to_here - 1, offset = offset_to_here - dr_len), there is the
k-th child's record — the place `modify_file_in_place` patches is the record it means to patch -/
theorem offset_is_record (recs : List Bytes) (extra : Nat) (hl : ∀ r ∈ recs, 1 ≤ r.length ∧ r.length ≤ 2048)
    (k : Nat) (hk : k < recs.length) :
    let place := writerPlace 2048 0 0 (recs.map List.length)
    ∀ (hp : k < place.length),
      ((renderDir 2048 recs extra).drop ((place[k]).1 * 2048 + (place[k]).2)).take (recs[k]).length = recs[k] := by
  intro place hp
  have hpos := positions_eq_place 2048 recs (fun r hr => (hl r hr).2) 0 0 (by omega)
  have h1len : 1 ≤ (recs[k]).length := (hl _ (List.getElem_mem hk)).1
  have hlen : k < (positions 2048 0 recs).length := by rw [positions_length]; exact hk
  have e : (place[k]).1 * 2048 + (place[k]).2 = (positions 2048 0 recs)[k] := by
    have h1 : ((positions 2048 0 recs).map (· + (0 * 2048 + 0)))[k]'(by simpa using hlen)
        = ((writerPlace 2048 0 0 (recs.map List.length)).map fun p => p.1 * 2048 + p.2)[k]'(by simpa using hp) := by
      simp only [hpos]
    simpa using h1.symm
  rw [e]
  unfold renderDir
  have hr := render_at_position 2048 recs 0 k hk
  -- the record lies inside `render`, so appending the reserved blocks changes nothing
  have hin : (positions 2048 0 recs)[k] + (recs[k]).length ≤ (render 2048 0 recs).length := by
    have : ((render 2048 0 recs).drop (positions 2048 0 recs)[k]).take (recs[k]).length = recs[k] := hr
    have hlen2 := congrArg List.length this
    simp only [List.length_take, List.length_drop] at hlen2
    omega
  rw [List.drop_append_of_le_length (by omega)]
  rw [List.take_append_of_le_length (by simp only [List.length_drop]; omega)]
  exact hr

end Pycdlib.DirBytes
