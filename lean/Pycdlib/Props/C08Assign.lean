/-
Props/C08Assign — Rock Ridge fidelity of one record, for every name and every link target.
`rrNew` is the model of `RockRidge.new` (tied to rockridge.py by the S-fn grid of harness/props/c08.py).  Whatever the
version, the room left in the directory record, the flags (first record, CL/RE/PL) and whether a continuation entry is
needed: the NM entries read in order give back the name, the SL entries give back the link target, and a record
without a link carries no SL component.  The first layout pass (no continuation entry) puts nothing into the
continuation area (`assign_noCE`, `newSymlink_noCE`), so what is recorded is all there is.
-/
import Pycdlib.Proofs.Assign
namespace Pycdlib.Susp

/-- **C08 (one record, all names and targets)** -/
theorem rrNew_records (first : Bool) (ver : Ver) (name : Bytes) (target : Option Bytes) (cl re pl : Bool) (cur : Nat)
    (r : RRLayout) (h : rrNew first ver name target cl re pl cur = some r) :
    nmName (r.dr ++ r.ce) = name ∧
    (∀ t, target = some t → t ≠ [] → slTarget (allComps (r.dr ++ r.ce)) = t) ∧
    ((target = none ∨ target = some []) → allComps (r.dr ++ r.ce) = []) := by
  unfold rrNew at h
  cases h1 : assign false first ver name target cl re pl cur with
  | some a =>
    simp only [h1, Option.some.injEq] at h
    subst h
    have hce := assign_noCE _ _ _ _ _ _ _ _ _ h1
    have := assign_records _ _ _ _ _ _ _ _ _ _ h1
    simp only [hce] at this
    exact this
  | none =>
    simp only [h1] at h
    cases h2 : assign true first ver name target cl re pl (cur + 28) with
    | none => simp [h2] at h
    | some a =>
      simp only [h2] at h
      split at h
      · cases h
      · simp only [Option.some.injEq] at h
        subst h
        exact assign_records _ _ _ _ _ _ _ _ _ _ h2

/-- non-vacuity: a 300-byte name and a link whose component is cut twice, with continuation entry -/
example : (rrNew false .v112 (List.replicate 300 97) (some (List.replicate 400 120 ++ [47, 46, 46])) false false false 48).isSome = true := by
  decide +kernel

end Pycdlib.Susp
