/-
Props/C19 — recorded timestamps denote the instant they were made from.
`t` is the instant (seconds since the epoch), `off` the zone's UTC offset in seconds at `t`
(`time.localtime t = civil (t + off)`, checked by the harness for every sampled (instant, zone)).
The theorems quantify over **every** `t` with `t` and `t + off` inside 1970..2099 and every `off` that is a
multiple of 15 minutes with |off| < 24 h (this includes -12h..+14h, half-hour and 45-minute zones and
whatever offset is in force around a DST transition).
-/
import Pycdlib.Proofs.Dates
namespace Pycdlib

/-- **the shared mechanism**: `gmtoffset_from_tm` returns exactly the zone offset in 15-minute units —
across day, year and leap-day boundaries in both directions. -/
theorem gmtoffset_exact (t off : Int) (h15 : off % 900 = 0) (hlo : -86400 < off) (hhi : off < 86400) :
    gmtoffset (civil (t + off)) (civil t) = off / 900 := by
  have hD : (t + off) / 86400 = t / 86400 ∨ (t + off) / 86400 = t / 86400 + 1 ∨
      (t + off) / 86400 + 1 = t / 86400 := by omega
  unfold gmtoffset civil
  simp only
  rcases hD with h | h | h
  · rw [h]; simp only [Int.sub_self, ne_eq, not_true_eq_false, if_false]; omega
  · rw [h]
    rcases yearDoy_step (t / 86400) with ⟨hy, hd⟩ | hy
    · rw [hy, hd]; simp only [Int.sub_self, ne_eq, not_true_eq_false, if_false]; omega
    · rw [hy]
      have : (yearDoy (t / 86400)).1 + 1 - (yearDoy (t / 86400)).1 ≠ 0 := by omega
      simp only [ne_eq, this, not_false_eq_true, if_true]; omega
  · have h' : t / 86400 = (t + off) / 86400 + 1 := by omega
    rw [h']
    rcases yearDoy_step ((t + off) / 86400) with ⟨hy, hd⟩ | hy
    · rw [hy, hd]; simp only [Int.sub_self, ne_eq, not_true_eq_false, if_false]; omega
    · rw [hy]
      have : (yearDoy ((t + off) / 86400)).1 - ((yearDoy ((t + off) / 86400)).1 + 1) ≠ 0 := by omega
      simp only [ne_eq, this, not_false_eq_true, if_true]; omega

/-- local fields + offset denote the instant -/
theorem civil_instant (t off : Int) :
    let c := civil (t + off)
    instantOf c.year c.mon c.mday c.hour c.min c.sec off = t := by
  have hd := civil_days (t + off)
  have hf := civil_fields (t + off)
  simp only at hf ⊢
  unfold instantOf
  rw [hd]; omega

theorem u8_toNat (n : Nat) (h : n < 256) : (u8 n).toNat = n := by
  unfold u8; simp [UInt8.toNat_ofNat']; omega

theorem s8_round (g : Int) (h0 : -128 ≤ g) (h1 : g < 128) : unS8 (s8 g) = g := by
  unfold unS8 s8
  have hn : ((g % 256).toNat) < 256 := by omega
  have : (UInt8.ofNat (g % 256).toNat).toNat = (g % 256).toNat := by
    simp [UInt8.toNat_ofNat']; omega
  rw [this]
  split <;> omega

/-- **C19 (directory-record dates, also Rock Ridge TF short form)**: decoding the 7 recorded bytes gives back `t`. -/
theorem dr_date_denotes (t off : Int) (h15 : off % 900 = 0) (hlo : -86400 < off) (hhi : off < 86400)
    (h0 : 0 ≤ t + off) (h1 : t + off < 4102444800) :
    decDrDate (drDate t off) = some t := by
  have hg := gmtoffset_exact t off h15 hlo hhi
  have hy := civil_year_range (t + off) h0 h1
  have hf := civil_fields (t + off)
  have hi := civil_instant t off
  simp only at hf hi
  unfold drDate decDrDate
  simp only [hg]
  generalize civil (t + off) = c at *
  have e1 : (u8 (c.year - 1900).toNat).toNat = (c.year - 1900).toNat := u8_toNat _ (by omega)
  have e2 : (u8 c.mon.toNat).toNat = c.mon.toNat := u8_toNat _ (by omega)
  have e3 : (u8 c.mday.toNat).toNat = c.mday.toNat := u8_toNat _ (by omega)
  have e4 : (u8 c.hour.toNat).toNat = c.hour.toNat := u8_toNat _ (by omega)
  have e5 : (u8 c.min.toNat).toNat = c.min.toNat := u8_toNat _ (by omega)
  have e6 : (u8 c.sec.toNat).toNat = c.sec.toNat := u8_toNat _ (by omega)
  have e7 : unS8 (s8 (off / 900)) = off / 900 := s8_round _ (by omega) (by omega)
  rw [e1, e2, e3, e4, e5, e6, e7]
  have a1 : (((c.year - 1900).toNat : Nat) : Int) + 1900 = c.year := by omega
  have a2 : ((c.mon.toNat : Nat) : Int) = c.mon := by omega
  have a3 : ((c.mday.toNat : Nat) : Int) = c.mday := by omega
  have a4 : ((c.hour.toNat : Nat) : Int) = c.hour := by omega
  have a5 : ((c.min.toNat : Nat) : Int) = c.min := by omega
  have a6 : ((c.sec.toNat : Nat) : Int) = c.sec := by omega
  rw [a1, a2, a3, a4, a5, a6]
  have : 900 * (off / 900) = off := by omega
  rw [this, hi]

theorem digit_val (n i : Nat) : dv (digit n i) = ((n / 10 ^ i % 10 : Nat) : Int) := by
  unfold dv digit
  have : 48 + n / 10 ^ i % 10 < 256 := by omega
  rw [u8_toNat _ this]; omega

theorem digits2_val (n : Nat) (h : n < 100) : 10 * dv (digit n 1) + dv (digit n 0) = (n : Int) := by
  rw [digit_val, digit_val]; simp only [Nat.pow_one, Nat.pow_zero, Nat.div_one]; omega

theorem digits4_val (n : Nat) (h : n < 10000) :
    1000 * dv (digit n 3) + 100 * dv (digit n 2) + 10 * dv (digit n 1) + dv (digit n 0) = (n : Int) := by
  rw [digit_val, digit_val, digit_val, digit_val]
  simp only [Nat.pow_one, Nat.pow_zero, Nat.div_one]
  have : (10 : Nat) ^ 3 = 1000 := by decide
  have : (10 : Nat) ^ 2 = 100 := by decide
  simp only [*]; omega

/-- **C19 (volume-descriptor dates, also Rock Ridge TF long form)**. -/
theorem vd_date_denotes (t off : Int) (h15 : off % 900 = 0) (hlo : -86400 < off) (hhi : off < 86400)
    (h0 : 0 ≤ t + off) (h1 : t + off < 4102444800) :
    decVdDate (vdDate t off) = some t := by
  have hg := gmtoffset_exact t off h15 hlo hhi
  have hy := civil_year_range (t + off) h0 h1
  have hf := civil_fields (t + off)
  have hi := civil_instant t off
  simp only at hf hi
  unfold vdDate decVdDate digits4 digits2
  simp only [hg, List.cons_append, List.nil_append]
  generalize civil (t + off) = c at *
  rw [digits4_val _ (by omega), digits2_val _ (by omega), digits2_val _ (by omega), digits2_val _ (by omega),
    digits2_val _ (by omega), digits2_val _ (by omega), s8_round _ (by omega) (by omega)]
  have a1 : ((c.year.toNat : Nat) : Int) = c.year := by omega
  have a2 : ((c.mon.toNat : Nat) : Int) = c.mon := by omega
  have a3 : ((c.mday.toNat : Nat) : Int) = c.mday := by omega
  have a4 : ((c.hour.toNat : Nat) : Int) = c.hour := by omega
  have a5 : ((c.min.toNat : Nat) : Int) = c.min := by omega
  have a6 : ((c.sec.toNat : Nat) : Int) = c.sec := by omega
  rw [a1, a2, a3, a4, a5, a6]
  have : 900 * (off / 900) = off := by omega
  rw [this, hi]

/-- **C19 (UDF timestamps)**: the 12-bit zone field counts minutes. -/
theorem udf_date_denotes (t off : Int) (h15 : off % 900 = 0) (hlo : -86400 < off) (hhi : off < 86400)
    (h0 : 0 ≤ t + off) (h1 : t + off < 4102444800) :
    decUdfDate (udfDate t off) = some t := by
  have hg := gmtoffset_exact t off h15 hlo hhi
  have hy := civil_year_range (t + off) h0 h1
  have hf := civil_fields (t + off)
  have hi := civil_instant t off
  simp only at hf hi
  unfold udfDate decUdfDate
  simp only [le16, leN, hg, List.cons_append, List.nil_append]
  generalize civil (t + off) = c at *
  have hm : off / 900 * 15 * 60 = off := by omega
  have htz : -1440 < off / 900 * 15 ∧ off / 900 * 15 < 1440 := by omega
  generalize off / 900 * 15 = tz at *
  have hn : ((tz % 65536).toNat) < 65536 := by omega
  have b1 : (u8 ((tz % 65536).toNat % 256)).toNat = (tz % 65536).toNat % 256 := u8_toNat _ (by omega)
  have b2 : (u8 ((tz % 65536).toNat / 256 % 16 + 16)).toNat = (tz % 65536).toNat / 256 % 16 + 16 :=
    u8_toNat _ (by omega)
  have b3 : (u8 c.year.toNat).toNat = c.year.toNat % 256 := by unfold u8; simp [UInt8.toNat_ofNat']
  have b4 : (u8 (c.year.toNat / 256)).toNat = c.year.toNat / 256 := u8_toNat _ (by omega)
  rw [b1, b2, b3, b4, u8_toNat _ (by omega : c.mon.toNat < 256), u8_toNat _ (by omega : c.mday.toNat < 256),
    u8_toNat _ (by omega : c.hour.toNat < 256), u8_toNat _ (by omega : c.min.toNat < 256),
    u8_toNat _ (by omega : c.sec.toNat < 256)]
  simp only [Option.some.injEq]
  rw [← hi]
  unfold instantOf
  have y : ((c.year.toNat % 256 : Nat) : Int) + 256 * ((c.year.toNat / 256 : Nat) : Int) = c.year := by omega
  rw [y]
  have a2 : ((c.mon.toNat : Nat) : Int) = c.mon := by omega
  have a3 : ((c.mday.toNat : Nat) : Int) = c.mday := by omega
  have a4 : ((c.hour.toNat : Nat) : Int) = c.hour := by omega
  have a5 : ((c.min.toNat : Nat) : Int) = c.min := by omega
  have a6 : ((c.sec.toNat : Nat) : Int) = c.sec := by omega
  rw [a2, a3, a4, a5, a6]
  split <;> omega

/-- **C19 (Rock Ridge TF)**: every stamp of a TF entry, in either form, denotes `t`. -/
theorem tf_denotes (flags : Nat) (t off : Int) (h15 : off % 900 = 0) (hlo : -86400 < off) (hhi : off < 86400)
    (h0 : 0 ≤ t + off) (h1 : t + off < 4102444800) :
    ∀ st ∈ tfStamps flags t off,
      (if flags / 128 % 2 = 1 then decVdDate st else decDrDate st) = some t := by
  intro st hst
  unfold tfStamps at hst
  have := List.eq_of_mem_replicate hst
  subst this
  by_cases hl : flags / 128 % 2 = 1
  · simp only [hl, if_true]; exact vd_date_denotes t off h15 hlo hhi h0 h1
  · simp only [hl, if_false]; exact dr_date_denotes t off h15 hlo hhi h0 h1

/-- parse-then-record is the identity on the 7-byte form (the class stores the seven fields verbatim) -/
theorem dr_date_parse_record (b : Bytes) :
    (b.map fun x => u8 x.toNat) = b := by
  have : ∀ x : UInt8, u8 x.toNat = x := by
    intro x; unfold u8
    have : x.toNat % 256 = x.toNat := Nat.mod_eq_of_lt x.toNat_lt
    rw [this]; simp
  simp [this]

/-- non-vacuity: Asia/Kolkata (+05:30) at 2023-11-14T22:13:20Z; Newfoundland (-03:30) on New Year's eve. -/
example : decDrDate (drDate 1700000000 19800) = some 1700000000 := by decide +kernel
example : decUdfDate (udfDate 1700000000 19800) = some 1700000000 := by decide +kernel
example : gmtoffset (civil (1704067200 - 12600)) (civil 1704067200) = -14 := by decide +kernel

end Pycdlib
