/-
Props/C02 — editing an existing image: what a write→open generation may change in the specification.
`reopen_keeps_names`: a generation changes no name, kind, hidden flag, Rock Ridge name or mode, in any
namespace; only zero-length content is re-identified (see Model/Spec `reopenState`).  Together with the step
lemmas of Props/C01/C07 this makes `Spec.run` over several generations the statement the check compares
pycdlib with: original content plus exactly the edits.
-/
import Pycdlib.Props.C07
namespace Pycdlib.Spec

/-- the part of an entry a generation must not touch -/
def Entry.face (e : Entry) : NS × Path × Bool × Bytes × Nat × Bool × Bool :=
  (e.ns, e.path, e.hidden, e.rrName, e.mode, e.node = .dir, match e.node with | .symlink _ => true | _ => false)

theorem reopenStep_face (s : State) (acc : List Entry × List Blob × Nat × List (Nat × Nat)) (e : Entry) :
    (reopenStep s acc e).1.map Entry.face = acc.1.map Entry.face ++ [e.face] := by
  unfold reopenStep
  cases hn : e.node with
  | dir => simp
  | symlink t => simp
  | file b =>
    simp only
    cases hb : s.blobs.find? (·.id = b) with
    | none => simp
    | some bl =>
      simp only
      by_cases hz : bl.len = 0
      · simp only [hz, if_true]
        by_cases hu : e.ns = .udf
        · simp only [hu, if_true]
          cases hm : acc.2.2.2.find? (·.1 = b) with
          | none => simp [Entry.face, hn, hu]
          | some p => simp [Entry.face, hn, hu]
        · simp [hu, Entry.face, hn]
      · simp [hz]

theorem reopen_fold_faces (s : State) (l : List Entry) (acc : List Entry × List Blob × Nat × List (Nat × Nat)) :
    (l.foldl (reopenStep s) acc).1.map Entry.face = acc.1.map Entry.face ++ l.map Entry.face := by
  induction l generalizing acc with
  | nil => simp
  | cons e es ih => simp only [List.foldl_cons, List.map_cons]; rw [ih, reopenStep_face]; simp

/-- **a generation changes no name**: every namespace keeps exactly its paths, kinds, hidden flags, Rock Ridge
names and modes -/
theorem reopen_keeps_names (s : State) :
    (reopenState s).entries.map Entry.face = s.entries.map Entry.face := by
  unfold reopenState
  simpa using reopen_fold_faces s s.entries ([], [], s.next, [])

/-- non-vacuity: two empty files linked in ISO and Joliet, reopened: names stay, contents become independent -/
example :
    ((run { rr := false } [.addFp { cid := 1, len := 0, iso := some [[65]], joliet := some [[97]] }, .reopen,
                           .rmFile .joliet [[97]]]).map fun s => s.entries.map (·.path)) = some [[[65]]] := by
  decide +kernel

end Pycdlib.Spec
