/-
Props/C18 — derived names are always legal.
`upper` (Python `str.upper`, applied per code point) is a parameter: every theorem holds for *every*
function `upper : Char → List Char` that never returns the empty string; the identity theorems additionally
assume it fixes the d-characters.  Both assumptions are checked by the harness for each string it sends.
-/
import Pycdlib.Proofs.Mangle
import Pycdlib.Props.C13
namespace Pycdlib

/-- every character the helpers emit at levels 1-3 is a d-character, whatever the input and case mapping -/
theorem mangle_chars (upper : Upper) (s : List Char) (lvl : Nat) (d : Bool) (h : lvl ≠ 4) :
    (∀ c ∈ truncateBasename upper s lvl d, isD1Char c = true) ∧
    (truncateBasename upper s lvl d).length ≤ maxLen lvl d :=
  ⟨truncate_chars upper s lvl d h, truncate_length upper s lvl d h⟩

/-- **C18 (directories)**: the derived directory identifier is accepted by the library at that level. -/
theorem mangle_dir_legal (upper : Upper) (hup : ∀ c, upper c ≠ []) (s : List Char) (hs : s ≠ [])
    (lvl : Nat) (hl : 1 ≤ lvl ∧ lvl ≤ 3) :
    checkIsoDirectory lvl (asciiBytes (mangleDir upper s lvl)) = .ok () := by
  apply (check_dir_iff _ _).mpr
  have h4 : lvl ≠ 4 := by omega
  unfold mangleDir
  have hc := truncate_chars upper s lvl true h4
  have hlen := truncate_length upper s lvl true h4
  have hne := truncate_ne_nil upper hup s hs lvl true h4
  refine ⟨?_, ?_, ?_, fun _ => asciiBytes_d1 _ hc⟩
  · intro h; apply hne
    have := congrArg List.length h
    rw [asciiBytes_length] at this
    exact List.eq_nil_of_length_eq_zero this
  · intro h1; rw [asciiBytes_length]; subst h1; simpa [maxLen] using hlen
  · intro _; rw [asciiBytes_length]
    have : maxLen lvl true ≤ 31 := by unfold maxLen; split <;> simp
    omega

/-- shape of what `mangle_file_for_iso9660` returns at levels 1-3 -/
theorem mangleFile_shape (upper : Upper) (hup : ∀ c, upper c ≠ []) (s : List Char) (hs : s ≠ [])
    (lvl : Nat) (h4 : lvl ≠ 4) :
    ∃ b e : List Char, mangleFile upper s lvl = (b, e ++ [';', '1']) ∧
      (∀ c ∈ b, isD1Char c = true) ∧ (∀ c ∈ e, isD1Char c = true) ∧
      b.length ≤ maxLen lvl false ∧ e.length ≤ 3 ∧ (b ≠ [] ∨ e ≠ []) := by
  unfold mangleFile
  cases hsp : splitLast '.' s with
  | none =>
    simp only [h4, if_false]
    exact ⟨_, [], rfl, truncate_chars upper s lvl false h4, by simp, truncate_length upper s lvl false h4,
      by simp, Or.inl (truncate_ne_nil upper hup s hs lvl false h4)⟩
  | some p =>
    obtain ⟨base, ext⟩ := p
    simp only [h4, if_false]
    split
    · exact ⟨_, [], rfl, truncate_chars upper s lvl false h4, by simp, truncate_length upper s lvl false h4,
        by simp, Or.inl (truncate_ne_nil upper hup s hs lvl false h4)⟩
    · rename_i hcond
      simp only [Bool.or_eq_true, decide_eq_true_eq, Bool.not_eq_true', not_or, Bool.not_eq_false,
        List.all_eq_true] at hcond
      obtain ⟨⟨⟨h0, _⟩, h3⟩, hall⟩ := hcond
      refine ⟨_, upperStr upper ext, rfl, truncate_chars upper base lvl false h4, hall,
        truncate_length upper base lvl false h4, by omega, Or.inr ?_⟩
      apply upperStr_ne_nil upper hup
      intro he; apply h0; simp [he]

/-- any `BASE.EXT;1` with d-character parts of legal lengths is accepted by the library -/
theorem file_ident_legal (lvl : Nat) (b e : List Char)
    (hb : ∀ c ∈ b, isD1Char c = true) (he : ∀ c ∈ e, isD1Char c = true)
    (hbl : b.length ≤ maxLen lvl false) (hel : e.length ≤ 3) (hne : b ≠ [] ∨ e ≠ []) :
    checkIsoFilename lvl (asciiBytes (b ++ '.' :: (e ++ [';', '1']))) = .ok () := by
  apply (check_file_iff _ _).mpr
  have hbb := asciiBytes_d1 b hb
  have heb := asciiBytes_d1 e he
  refine ⟨asciiBytes b, asciiBytes e, [49], true, true, ?_, by simp, by simp, d1_not_dot _ heb,
    d1_not_semi _ heb, d1_not_semi _ hbb, by decide, ?_, ?_, ?_, fun _ => ⟨hbb, heb⟩⟩
  · simp only [asciiBytes, List.map_append, List.map_cons, List.map_nil, if_true, List.append_assoc,
      List.cons_append, List.nil_append]
    rfl
  · rcases hne with h | h
    · left; intro h'; apply h
      have := congrArg List.length h'
      rw [asciiBytes_length] at this
      exact List.eq_nil_of_length_eq_zero this
    · right; intro h'; apply h
      have := congrArg List.length h'
      rw [asciiBytes_length] at this
      exact List.eq_nil_of_length_eq_zero this
  · intro _; decide
  · intro h1
    rw [asciiBytes_length, asciiBytes_length]
    subst h1
    exact ⟨by simpa [maxLen] using hbl, hel⟩

/-- **C18 (files)**: the identifier `'.'.join(mangle_file_for_iso9660(s, lvl))` that the facades and
pycdlib-genisoimage build is accepted by the library at that level, for every non-empty source name. -/
theorem mangle_file_legal (upper : Upper) (hup : ∀ c, upper c ≠ []) (s : List Char) (hs : s ≠ [])
    (lvl : Nat) (hl : 1 ≤ lvl ∧ lvl ≤ 3) :
    checkIsoFilename lvl (asciiBytes (mangledFileIdent upper s lvl)) = .ok () := by
  have h4 : lvl ≠ 4 := by omega
  obtain ⟨b, e, hm, hb, he, hbl, hel, hne⟩ := mangleFile_shape upper hup s hs lvl h4
  unfold mangledFileIdent
  rw [hm]
  exact file_ident_legal lvl b e hb he hbl hel hne

/-- **C18 (identity, directories)**: an already legal directory name is returned unchanged. -/
theorem mangle_dir_identity (upper : Upper) (hu : ∀ c, isD1Char c = true → upper c = [c])
    (s : List Char) (lvl : Nat) (hd : ∀ c ∈ s, isD1Char c = true) (hl : s.length ≤ maxLen lvl true) :
    mangleDir upper s lvl = s :=
  truncate_id upper s lvl true hd hu hl

/-- **C18 (identity, files)** — `_partial`: proved for `NAME.EXT` with a 1..3 character extension and for
`NAME` without a dot.  Not true of the code for legal names with an empty extension (`NAME.`) or, at
levels 2-3, an extension longer than 3: those are folded into the base name (utils.py:399-404) —
recorded as a known finding, see `mangle_identity_counterexample`. -/
theorem mangle_file_identity_partial (upper : Upper) (hu : ∀ c, isD1Char c = true → upper c = [c])
    (name ext : List Char) (lvl : Nat)
    (hn : ∀ c ∈ name, isD1Char c = true) (he : ∀ c ∈ ext, isD1Char c = true)
    (hnl : name.length ≤ maxLen lvl false) (hel : 1 ≤ ext.length ∧ ext.length ≤ 3) (h4 : lvl ≠ 4) :
    mangleFile upper (name ++ '.' :: ext) lvl = (name, ext ++ [';', '1']) ∧
    mangleFile upper name lvl = (name, [';', '1']) := by
  have hdot : ∀ l : List Char, (∀ c ∈ l, isD1Char c = true) → '.' ∉ l := by
    intro l hl hm; have := hl _ hm; revert this; decide
  constructor
  · have hsp := (splitLast_eq_some '.' (name ++ '.' :: ext) name ext).mpr ⟨rfl, hdot ext he⟩
    unfold mangleFile
    rw [hsp]
    have hup : upperStr upper ext = ext := upperStr_id upper ext (fun c hc => hu c (he c hc))
    have hall : (ext.all isD1Char) = true := by simpa using he
    have c1 : ¬ ext.length = 0 := by omega
    have c2 : ¬ ext.length > 3 := by omega
    simp only [h4, if_false, hup, hall, c1, c2, decide_false, Bool.not_true, Bool.or_false,
      Bool.false_eq_true]
    rw [truncate_id upper name lvl false hn hu hnl]
  · have hsp := (splitLast_eq_none '.' name).mpr (hdot name hn)
    unfold mangleFile
    rw [hsp]
    simp only [h4, if_false]
    rw [truncate_id upper name lvl false hn hu hnl]

/-- the identity clause fails for a legal name with an empty extension (Lean witness of the known finding) -/
theorem mangle_identity_counterexample :
    checkIsoFilename 1 (asciiBytes ['A', '.']) = .ok () ∧
    mangleFile (fun c => [c]) ['A', '.'] 1 = (['A', '_'], [';', '1']) := by
  constructor <;> rfl

/-- non-vacuity: 'ß' upper-cases to two characters; the result still fits level 1. -/
example : mangleFile (fun c => if c = 'ß' then ['S', 'S'] else if c = 'a' then ['A'] else [c])
    ['a', 'a', 'a', 'a', 'a', 'a', 'a', 'ß', '.', 'ß', 'ß'] 1
    = (['A', 'A', 'A', 'A', 'A', 'A', 'A', 'S'], [';', '1']) := by rfl

end Pycdlib
