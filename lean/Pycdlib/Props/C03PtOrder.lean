/-
Props/C03PtOrder — ECMA-119 6.9.1 for the path table pycdlib writes: the records are ordered by parent directory number
(`parents_sorted`), and no record names a parent that comes after it (`parent_not_later`) — for every directory
hierarchy, whatever the children function.
-/
import Pycdlib.Model.PtOrder
namespace Pycdlib.PtOrder

/-- every parent number that is still to be emitted is at least `m` -/
theorem bfs_lower (children : Nat → List Nat) (fuel : Nat) : ∀ (q : List (Nat × Nat)) (n m : Nat),
    (∀ x ∈ q, m ≤ x.2) → m ≤ n → ∀ y ∈ bfs children fuel q n, m ≤ y.2 := by
  induction fuel with
  | zero => intro q n m _ _ y hy; simp [bfs] at hy
  | succ f ih =>
    intro q n m hq hn y hy
    cases q with
    | nil => simp [bfs] at hy
    | cons h t =>
      obtain ⟨d, p⟩ := h
      simp only [bfs, List.mem_cons] at hy
      rcases hy with rfl | hy
      · exact hq _ (by simp)
      · refine ih (t ++ (children d).map (·, n)) (n + 1) m ?_ (by omega) y hy
        intro x hx
        simp only [List.mem_append, List.mem_map] at hx
        rcases hx with hx | ⟨c, _, rfl⟩
        · exact hq x (by simp [hx])
        · exact hn

theorem const_pairwise (l : List Nat) (n : Nat) : ((l.map (·, n)).map (·.2)).Pairwise (· ≤ ·) := by
  induction l with
  | nil => simp
  | cons a l ih =>
    simp only [List.map_cons, List.pairwise_cons]
    refine ⟨?_, ih⟩
    intro b hb
    simp only [List.mem_map] at hb
    obtain ⟨y, ⟨c, _, rfl⟩, rfl⟩ := hb
    exact Nat.le_refl _

/-- **the path table is ordered by parent directory number** -/
theorem bfs_sorted (children : Nat → List Nat) (fuel : Nat) : ∀ (q : List (Nat × Nat)) (n : Nat),
    (q.map (·.2)).Pairwise (· ≤ ·) → (∀ x ∈ q, x.2 ≤ n) →
    ((bfs children fuel q n).map (·.2)).Pairwise (· ≤ ·) := by
  induction fuel with
  | zero => intro q n _ _; simp [bfs]
  | succ f ih =>
    intro q n hp hn
    cases q with
    | nil => simp [bfs]
    | cons h t =>
      obtain ⟨d, p⟩ := h
      simp only [List.map_cons, List.pairwise_cons] at hp
      have hpn : p ≤ n := hn (d, p) (by simp)
      have hq' : ∀ x ∈ t ++ (children d).map (·, n), p ≤ x.2 := by
        intro x hx
        simp only [List.mem_append, List.mem_map] at hx
        rcases hx with hx | ⟨c, _, rfl⟩
        · exact hp.1 x.2 (by simp only [List.mem_map]; exact ⟨x, hx, rfl⟩)
        · exact hpn
      simp only [bfs, List.map_cons, List.pairwise_cons]
      refine ⟨?_, ?_⟩
      · intro b hb
        simp only [List.mem_map] at hb
        obtain ⟨y, hy, rfl⟩ := hb
        exact bfs_lower children f _ (n + 1) p hq' (by omega) y hy
      · apply ih
        · rw [List.map_append, List.pairwise_append]
          refine ⟨hp.2, ?_, ?_⟩
          · exact const_pairwise (children d) n
          · intro a ha b hb
            simp only [List.mem_map] at ha hb
            obtain ⟨x, hx, rfl⟩ := ha
            obtain ⟨y, ⟨c, _, rfl⟩, rfl⟩ := hb
            exact hn x (by simp [hx])
        · intro x hx
          simp only [List.mem_append, List.mem_map] at hx
          rcases hx with hx | ⟨c, _, rfl⟩
          · have := hn x (by simp [hx]); omega
          · simp

theorem parents_sorted (children : Nat → List Nat) (fuel root : Nat) :
    ((table children fuel root).map (·.2)).Pairwise (· ≤ ·) := by
  unfold table
  exact bfs_sorted children fuel [(root, 1)] 1 (by simp) (by simp)

/-- **no record names a parent that comes after it**: the k-th record emitted from a state whose head gets number `n`
carries a parent number of at most `n + k` (its own number) -/
theorem bfs_parent_le (children : Nat → List Nat) (fuel : Nat) : ∀ (q : List (Nat × Nat)) (n : Nat),
    (∀ x ∈ q, x.2 ≤ n) → ∀ (k : Nat) (hk : k < (bfs children fuel q n).length), ((bfs children fuel q n)[k]).2 ≤ n + k := by
  induction fuel with
  | zero => intro q n _ k hk; simp [bfs] at hk
  | succ f ih =>
    intro q n hn k hk
    cases q with
    | nil => simp [bfs] at hk
    | cons h t =>
      obtain ⟨d, p⟩ := h
      cases k with
      | zero => simp only [bfs, List.getElem_cons_zero]; exact hn (d, p) (by simp)
      | succ j =>
        simp only [bfs, List.getElem_cons_succ]
        have := ih (t ++ (children d).map (·, n)) (n + 1) (by
          intro x hx
          simp only [List.mem_append, List.mem_map] at hx
          rcases hx with hx | ⟨c, _, rfl⟩
          · have := hn x (by simp [hx]); omega
          · simp) j (by simpa [bfs] using hk)
        omega

theorem parent_not_later (children : Nat → List Nat) (fuel root : Nat) (k : Nat)
    (hk : k < (table children fuel root).length) : ((table children fuel root)[k]).2 ≤ k + 1 := by
  have := bfs_parent_le children fuel [(root, 1)] 1 (by simp) k hk
  unfold table; omega

/-- a hierarchy: 0 -> [1, 2], 1 -> [3], 2 -> [4, 5] -/
example : table (fun d => if d = 0 then [1, 2] else if d = 1 then [3] else if d = 2 then [4, 5] else []) 10 0
    = [(0, 1), (1, 1), (2, 1), (3, 2), (4, 3), (5, 3)] := by decide

end Pycdlib.PtOrder
