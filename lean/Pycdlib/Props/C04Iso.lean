/-
Props/C04Iso — `space_exact`: over EVERY history of edits of the bookkeeping machine `Model/Iso`, the declared volume
size that the edit calls maintain by deltas equals what the from-scratch layout needs, every directory's reservation
covers its records, and the sequential layout is pairwise disjoint and ends exactly at the declared size.

This is the composition that Props/C04 left to the per-history oracle ("space_exact_partial"): the per-object lemmas
(`insert_grows_le_one`, `grow_keeps_fit`, `shrink_keeps_fit`, `PathTable.add/remove`, `sectorsOf`) put together over
the edit calls with their ONE ceiling division per call.
-/
import Pycdlib.Model.Iso
import Pycdlib.Proofs.Pack
import Pycdlib.Props.C04
import Pycdlib.Props.C04PathTable
namespace Pycdlib.Iso
open Pycdlib

/-! ### arithmetic -/

theorem sectorsOf_blocks (k len : Nat) : sectorsOf (k * BS + len) = k + sectorsOf len := by
  unfold sectorsOf BS; omega

theorem sectorsOf_blocks' (k : Nat) : sectorsOf (k * BS) = k := by
  unfold sectorsOf BS; omega

/-! ### directories -/

theorem dirSectors_cons (d : Dir) (ds : List Dir) : dirSectors (d :: ds) = d.dataLen / BS + dirSectors ds := by
  simp [dirSectors]

theorem dirSectors_append (a b : List Dir) : dirSectors (a ++ b) = dirSectors a + dirSectors b := by
  simp [dirSectors]

/-- an update that adds `b` bytes (whole blocks) to one directory adds `b / BS` sectors to the sum -/
theorem updDir_add (id : Nat) (f : Dir → Option (Dir × Nat))
    (hf : ∀ d r, f d = some r → r.1.dataLen / BS = d.dataLen / BS + r.2 / BS)
    (ds : List Dir) (r : List Dir × Nat) (h : updDir id f ds = some r) :
    dirSectors r.1 = dirSectors ds + r.2 / BS := by
  induction ds generalizing r with
  | nil => simp [updDir] at h
  | cons d ds ih =>
    simp only [updDir] at h
    split at h
    · cases hfd : f d with
      | none => simp [hfd] at h
      | some x =>
        simp [hfd] at h; subst h
        have := hf d x hfd
        simp only [dirSectors_cons]; omega
    · cases hu : updDir id f ds with
      | none => simp [hu] at h
      | some x =>
        simp [hu] at h; subst h
        have := ih x hu
        simp only [dirSectors_cons]; omega

/-- an update that takes `b` bytes from one directory takes `b / BS` sectors from the sum -/
theorem updDir_sub (id : Nat) (f : Dir → Option (Dir × Nat))
    (hf : ∀ d r, f d = some r → r.1.dataLen / BS + r.2 / BS = d.dataLen / BS)
    (ds : List Dir) (r : List Dir × Nat) (h : updDir id f ds = some r) :
    dirSectors r.1 + r.2 / BS = dirSectors ds := by
  induction ds generalizing r with
  | nil => simp [updDir] at h
  | cons d ds ih =>
    simp only [updDir] at h
    split at h
    · cases hfd : f d with
      | none => simp [hfd] at h
      | some x =>
        simp [hfd] at h; subst h
        have := hf d x hfd
        simp only [dirSectors_cons]; omega
    · cases hu : updDir id f ds with
      | none => simp [hu] at h
      | some x =>
        simp [hu] at h; subst h
        have := ih x hu
        simp only [dirSectors_cons]; omega

theorem updDir_blocks (id : Nat) (f : Dir → Option (Dir × Nat))
    (hf : ∀ d r, f d = some r → r.2 = 0 ∨ r.2 = BS)
    (ds : List Dir) (r : List Dir × Nat) (h : updDir id f ds = some r) : r.2 = 0 ∨ r.2 = BS := by
  induction ds generalizing r with
  | nil => simp [updDir] at h
  | cons d ds ih =>
    simp only [updDir] at h
    split at h
    · cases hfd : f d with
      | none => simp [hfd] at h
      | some x => simp [hfd] at h; subst h; exact hf d x hfd
    · cases hu : updDir id f ds with
      | none => simp [hu] at h
      | some x => simp [hu] at h; subst h; exact ih x hu

theorem updDir_ok (id : Nat) (f : Dir → Option (Dir × Nat))
    (hf : ∀ d r, DirOk d → f d = some r → DirOk r.1)
    (ds : List Dir) (r : List Dir × Nat) (hok : ∀ d ∈ ds, DirOk d) (h : updDir id f ds = some r) :
    ∀ d ∈ r.1, DirOk d := by
  induction ds generalizing r with
  | nil => simp [updDir] at h
  | cons d ds ih =>
    simp only [updDir] at h
    split at h
    · cases hfd : f d with
      | none => simp [hfd] at h
      | some x =>
        simp [hfd] at h; subst h
        intro e he
        simp only [List.mem_cons] at he
        rcases he with rfl | he
        · exact hf d x (hok d (by simp)) hfd
        · exact hok e (by simp [he])
    · cases hu : updDir id f ds with
      | none => simp [hu] at h
      | some x =>
        simp [hu] at h; subst h
        intro e he
        simp only [List.mem_cons] at he
        rcases he with rfl | he
        · exact hok _ (by simp)
        · exact ih x (fun d hd => hok d (by simp [hd])) hu e he

/-- `dr.add_child`: the bytes reported are the growth of the reservation -/
theorem insertRec_sectors (idx len : Nat) (d : Dir) (r : Dir × Nat) (h : insertRec idx len d = some r) :
    r.1.dataLen / BS = d.dataLen / BS + r.2 / BS ∧ (r.2 = 0 ∨ r.2 = BS) := by
  unfold insertRec at h
  split at h
  · simp only [Option.some.injEq] at h; subst h
    unfold growLen
    split <;> simp [BS] <;> omega
  · simp at h

/-- … and the reservation still covers the records (insertion grows the packing by at most one block) -/
theorem insertRec_ok (idx len : Nat) (d : Dir) (r : Dir × Nat) (hok : DirOk d) (h : insertRec idx len d = some r) :
    DirOk r.1 := by
  unfold insertRec at h
  split at h
  · rename_i hc
    simp only [Option.some.injEq] at h; subst h
    obtain ⟨⟨k, hk⟩, hfit, hl⟩ := hok
    have hsplit : d.lens = d.lens.take idx ++ d.lens.drop idx := (List.take_append_drop idx d.lens).symm
    have hgrow := insert_grows_le_one BS (d.lens.take idx) (d.lens.drop idx) len (by unfold BS; omega)
    rw [← hsplit] at hgrow
    refine ⟨?_, ?_, ?_⟩
    · simp only; unfold growLen; split
      · exact ⟨k + 1, by simp only; rw [hk, Nat.add_mul, Nat.one_mul]⟩
      · exact ⟨k, hk⟩
    · simp only [insertAt]
      -- old packing fits; the new one needs at most one more block
      have hold : (nextFit BS d.lens).1 * BS ≤ d.dataLen := hfit
      have h1 : 1 ≤ (nextFit BS d.lens).1 := by
        have := nfFold_mono BS (1, 0) d.lens; simpa [nextFit] using this
      -- k blocks reserved, at least the old count
      have hko : (nextFit BS d.lens).1 ≤ k := by
        rw [hk] at hold
        exact Nat.le_of_mul_le_mul_right hold (by unfold BS; omega)
      exact grow_keeps_fit BS d.dataLen k _ (by rw [hk]; exact Nat.le_refl _) (by omega)
    · intro l hlm
      simp only [insertAt, List.mem_append, List.mem_cons] at hlm
      rcases hlm with hm | rfl | hm
      · exact hl l (List.mem_of_mem_take hm)
      · exact hc.2.2
      · exact hl l (List.mem_of_mem_drop hm)
  · simp at h

theorem removeRec_sectors (idx : Nat) (d : Dir) (r : Dir × Nat) (h : removeRec idx d = some r) :
    r.1.dataLen / BS + r.2 / BS = d.dataLen / BS ∧ (r.2 = 0 ∨ r.2 = BS) := by
  unfold removeRec at h
  split at h
  · simp only [Option.some.injEq] at h; subst h
    unfold shrinkLen BS
    simp only
    split <;> simp <;> omega
  · simp at h

theorem removeRec_ok (idx : Nat) (d : Dir) (r : Dir × Nat) (hok : DirOk d) (h : removeRec idx d = some r) :
    DirOk r.1 := by
  unfold removeRec at h
  split at h
  · rename_i hc
    simp only [Option.some.injEq] at h; subst h
    obtain ⟨⟨k, hk⟩, hfit, hl⟩ := hok
    have hsplit : d.lens = d.lens.take idx ++ d.lens[idx] :: d.lens.drop (idx + 1) := by
      rw [← List.drop_eq_getElem_cons hc]; exact (List.take_append_drop idx d.lens).symm
    have hx : d.lens[idx] ≤ 255 := hl _ (List.getElem_mem hc)
    have hgrow := insert_grows_le_one BS (d.lens.take idx) (d.lens.drop (idx + 1)) d.lens[idx] (by unfold BS; omega)
    rw [← hsplit] at hgrow
    have h1 : 1 ≤ (nextFit BS (removeAt d.lens idx)).1 := by
      have := nfFold_mono BS (1, 0) (removeAt d.lens idx); simpa [nextFit] using this
    have hfit' : (nextFit BS (removeAt d.lens idx)).1 * BS ≤ d.dataLen :=
      Nat.le_trans (Nat.mul_le_mul_right BS hgrow.2) hfit
    have := shrink_keeps_fit BS d.dataLen (nextFit BS (removeAt d.lens idx)) k hk (by unfold BS; omega) hfit' h1
    refine ⟨?_, ?_, ?_⟩
    · simp only; exact this.2
    · simp only; exact this.1
    · intro l hlm
      simp only [removeAt, List.mem_append] at hlm
      rcases hlm with hm | hm
      · exact hl l (List.mem_of_mem_take hm)
      · exact hl l (List.mem_of_mem_drop hm)
  · simp at h

theorem dropDir_sectors (id : Nat) (ds : List Dir) (r : List Dir × Nat) (hok : ∀ d ∈ ds, DirOk d)
    (h : dropDir id ds = some r) :
    dirSectors r.1 + r.2 / BS = dirSectors ds ∧ (∃ k, r.2 = k * BS) ∧ ∀ d ∈ r.1, DirOk d := by
  induction ds generalizing r with
  | nil => simp [dropDir] at h
  | cons d ds ih =>
    simp only [dropDir] at h
    split at h
    · simp only [Option.some.injEq] at h; subst h
      refine ⟨by simp only [dirSectors_cons]; omega, (hok d (by simp)).1, fun e he => hok e (by simp [he])⟩
    · cases hu : dropDir id ds with
      | none => simp [hu] at h
      | some x =>
        simp [hu] at h; subst h
        obtain ⟨h1, h2, h3⟩ := ih x (fun d hd => hok d (by simp [hd])) hu
        refine ⟨by simp only [dirSectors_cons]; omega, h2, ?_⟩
        intro e he
        simp only [List.mem_cons] at he
        rcases he with rfl | he
        · exact hok _ (by simp)
        · exact h3 e he

/-! ### UDF directories -/

theorem udirSectors_cons (u : UDir) (us : List UDir) : udirSectors (u :: us) = 1 + fidBlocks u.info + udirSectors us := by
  simp [udirSectors]

theorem updUDir_add (id : Nat) (f : UDir → Option (UDir × Nat))
    (hf : ∀ u r, f u = some r → fidBlocks r.1.info = fidBlocks u.info + r.2 / BS ∧ ∃ k, r.2 = k * BS)
    (us : List UDir) (r : List UDir × Nat) (h : updUDir id f us = some r) :
    udirSectors r.1 = udirSectors us + r.2 / BS ∧ ∃ k, r.2 = k * BS := by
  induction us generalizing r with
  | nil => simp [updUDir] at h
  | cons u us ih =>
    simp only [updUDir] at h
    split at h
    · cases hfu : f u with
      | none => simp [hfu] at h
      | some x =>
        simp [hfu] at h; subst h
        obtain ⟨h1, h2⟩ := hf u x hfu
        exact ⟨by simp only [udirSectors_cons]; omega, h2⟩
    · cases hu : updUDir id f us with
      | none => simp [hu] at h
      | some x =>
        simp [hu] at h; subst h
        obtain ⟨h1, h2⟩ := ih x hu
        exact ⟨by simp only [udirSectors_cons]; omega, h2⟩

theorem updUDir_sub (id : Nat) (f : UDir → Option (UDir × Nat))
    (hf : ∀ u r, f u = some r → fidBlocks r.1.info + r.2 / BS = fidBlocks u.info ∧ ∃ k, r.2 = k * BS)
    (us : List UDir) (r : List UDir × Nat) (h : updUDir id f us = some r) :
    udirSectors r.1 + r.2 / BS = udirSectors us ∧ ∃ k, r.2 = k * BS := by
  induction us generalizing r with
  | nil => simp [updUDir] at h
  | cons u us ih =>
    simp only [updUDir] at h
    split at h
    · cases hfu : f u with
      | none => simp [hfu] at h
      | some x =>
        simp [hfu] at h; subst h
        obtain ⟨h1, h2⟩ := hf u x hfu
        exact ⟨by simp only [udirSectors_cons]; omega, h2⟩
    · cases hu : updUDir id f us with
      | none => simp [hu] at h
      | some x =>
        simp [hu] at h; subst h
        obtain ⟨h1, h2⟩ := ih x hu
        exact ⟨by simp only [udirSectors_cons]; omega, h2⟩

theorem fidBlocks_mono (a b : Nat) (h : a ≤ b) : fidBlocks a ≤ fidBlocks b := by
  unfold fidBlocks BS; omega

theorem addFid_blocks (len : Nat) (u : UDir) (r : UDir × Nat) (h : addFid len u = some r) :
    fidBlocks r.1.info = fidBlocks u.info + r.2 / BS ∧ ∃ k, r.2 = k * BS := by
  simp only [addFid, Option.some.injEq] at h; subst h
  have := fidBlocks_mono u.info (u.info + len) (by omega)
  refine ⟨?_, _, rfl⟩
  simp only [BS, Nat.mul_div_cancel _ (by decide : 0 < 2048)]; omega

theorem rmFid_blocks (len : Nat) (u : UDir) (r : UDir × Nat) (h : rmFid len u = some r) :
    fidBlocks r.1.info + r.2 / BS = fidBlocks u.info ∧ ∃ k, r.2 = k * BS := by
  unfold rmFid at h
  split at h
  · simp only [Option.some.injEq] at h; subst h
    have := fidBlocks_mono (u.info - len) u.info (by omega)
    refine ⟨?_, _, rfl⟩
    simp only [BS, Nat.mul_div_cancel _ (by decide : 0 < 2048)]; omega
  · simp at h

theorem dropUDir_sectors (id : Nat) (us : List UDir) (r : List UDir × Nat) (h : dropUDir id us = some r) :
    udirSectors r.1 + 2 = udirSectors us ∧ r.2 = 2 * BS := by
  induction us generalizing r with
  | nil => simp [dropUDir] at h
  | cons u us ih =>
    simp only [dropUDir] at h
    split at h
    · split at h
      · rename_i h1
        simp only [Option.some.injEq] at h; subst h
        exact ⟨by simp only [udirSectors_cons]; omega, rfl⟩
      · simp at h
    · cases hu : dropUDir id us with
      | none => simp [hu] at h
      | some x =>
        simp [hu] at h; subst h
        obtain ⟨h1, h2⟩ := ih x hu
        exact ⟨by simp only [udirSectors_cons]; omega, h2⟩

theorem udirSectors_append_new (us : List UDir) (id : Nat) :
    udirSectors (us ++ [{ id := id, info := 0 }]) = udirSectors us + 1 := by
  simp [udirSectors, fidBlocks, BS]

/-! ### continuation blocks -/

theorem ceAdd_length (len : Nat) (bs : List Susp.Block) :
    ((ceAdd len bs).1.length = bs.length ∧ (ceAdd len bs).2 = 0) ∨ ((ceAdd len bs).1.length = bs.length + 1 ∧ (ceAdd len bs).2 = BS) := by
  induction bs with
  | nil => right; simp [ceAdd]
  | cons b rest ih =>
    simp only [ceAdd]
    cases h : Susp.addEntry BS b len with
    | some r => left; simp
    | none =>
      simp only [List.length_cons]
      rcases ih with ⟨h1, h2⟩ | ⟨h1, h2⟩
      · left; exact ⟨by omega, h2⟩
      · right; exact ⟨by omega, h2⟩

theorem ceFree_length (idx off len : Nat) (bs : List Susp.Block) (r : List Susp.Block × Nat) (h : ceFree idx off len bs = some r) :
    (r.1.length = bs.length ∧ r.2 = 0) ∨ (r.1.length + 1 = bs.length ∧ r.2 = BS) := by
  induction bs generalizing idx r with
  | nil => simp [ceFree] at h
  | cons b rest ih =>
    simp only [ceFree] at h
    by_cases hi : idx = 0
    · rw [if_pos hi] at h
      by_cases hc : b.contains (off, len) = true
      · rw [if_pos hc] at h
        by_cases he : (Susp.removeEntry b off len).isEmpty = true
        · rw [if_pos he] at h; simp only [Option.some.injEq] at h; subst h; right; simp
        · rw [if_neg he] at h; simp only [Option.some.injEq] at h; subst h; left; simp
      · rw [if_neg hc] at h; simp at h
    · rw [if_neg hi] at h
      cases hx : ceFree (idx - 1) off len rest with
      | none => simp [hx] at h
      | some x =>
        simp [hx] at h; subst h
        rcases ih (idx - 1) x hx with ⟨h1, h2⟩ | ⟨h1, h2⟩
        · left; exact ⟨by simp [h1], h2⟩
        · right; exact ⟨by simp only [List.length_cons]; omega, h2⟩

/-! ### path tables inside the state -/

theorem layoutEnd_setPt (s : State) (tree : Nat) (p : PathTable.PT) :
    layoutEnd (setPt s tree p) + 2 * (ptOf s tree).extents = layoutEnd s + 2 * p.extents := by
  unfold setPt ptOf; split <;> simp [layoutEnd] <;> omega

theorem setPt_fields (s : State) (tree : Nat) (p : PathTable.PT) :
    (setPt s tree p).space = s.space ∧ (setPt s tree p).inos = s.inos ∧ (setPt s tree p).dirs = s.dirs := by
  unfold setPt; split <;> simp

theorem setPt_inv (s : State) (tree : Nat) (p : PathTable.PT) (h0 : PathTable.Inv s.pt0) (h1 : PathTable.Inv s.pt1)
    (hp : PathTable.Inv p) : PathTable.Inv (setPt s tree p).pt0 ∧ PathTable.Inv (setPt s tree p).pt1 := by
  unfold setPt; split <;> simp [*]

theorem ptOf_inv (s : State) (tree : Nat) (h0 : PathTable.Inv s.pt0) (h1 : PathTable.Inv s.pt1) :
    PathTable.Inv (ptOf s tree) := by
  unfold ptOf; split <;> assumption

/-- everything but the directories: unchanged by replacing the directory list -/
def baseDirs (s : State) : Nat := s.fixed + 2 * s.pt0.extents + 2 * s.pt1.extents + s.ceb.length + inoSectors s.inos + udirSectors s.udirs + s.ufree

theorem layoutEnd_eq_dirs (s : State) : layoutEnd s = baseDirs s + dirSectors s.dirs := by
  simp [layoutEnd, baseDirs]; omega

/-! ### parts -/

/-- an adding part reports whole blocks, and exactly as many as the from-scratch layout grows by -/
theorem addPart_exact (s s' : State) (p : AddPart) (b : Nat) (hok : Ok s)
    (h : addPart s p = some (s', b)) :
    ∃ k, b = k * BS ∧ layoutEnd s' = layoutEnd s + k ∧ s'.space = s.space ∧ s'.inos = s.inos ∧ Ok s' := by
  obtain ⟨hd, h0, h1⟩ := hok
  cases p with
  | insert dir idx len =>
    simp only [addPart] at h
    cases hu : updDir dir (insertRec idx len) s.dirs with
    | none => simp [hu] at h
    | some r =>
      simp [hu] at h
      obtain ⟨rfl, rfl⟩ := h
      have hs := updDir_add dir (insertRec idx len) (fun d r hr => (insertRec_sectors idx len d r hr).1) s.dirs r hu
      have hb := updDir_blocks dir (insertRec idx len) (fun d r hr => (insertRec_sectors idx len d r hr).2) s.dirs r hu
      have hk := updDir_ok dir (insertRec idx len) (fun d r hd hr => insertRec_ok idx len d r hd hr) s.dirs r hd hu
      rcases hb with hb | hb
      · exact ⟨0, by simp [hb], by simp [layoutEnd, hs, hb, BS], rfl, rfl, hk, h0, h1⟩
      · exact ⟨1, by simp [hb], by simp [layoutEnd, hs, hb, BS]; omega, rfl, rfl, hk, h0, h1⟩
  | mkdir tree id ptlen lens =>
    simp only [addPart] at h
    split at h
    · rename_i hc
      simp only [Option.some.injEq, Prod.mk.injEq] at h
      obtain ⟨rfl, rfl⟩ := h
      have hnew : DirOk { id := id, lens := lens, dataLen := BS } :=
        ⟨⟨1, by simp⟩, by simp [hc.1], hc.2.1⟩
      have hpi := PathTable.add_inv (ptOf s tree) ptlen (ptOf_inv s tree h0 h1) hc.2.2
      have hpt := layoutEnd_setPt s tree (PathTable.add (ptOf s tree) ptlen).1
      have hex := PathTable.add_grows_iff (ptOf s tree) ptlen
      obtain ⟨hf1, hf2, hf3⟩ := setPt_fields s tree (PathTable.add (ptOf s tree) ptlen).1
      obtain ⟨hi0, hi1⟩ := setPt_inv s tree _ h0 h1 hpi
      have hdirs : ∀ d ∈ (setPt s tree (PathTable.add (ptOf s tree) ptlen).1).dirs ++ [{ id := id, lens := lens, dataLen := BS }], DirOk d := by
        intro d hd'; simp only [List.mem_append, List.mem_singleton] at hd'
        rcases hd' with hd' | rfl
        · rw [hf3] at hd'; exact hd d hd'
        · exact hnew
      have hle : layoutEnd { setPt s tree (PathTable.add (ptOf s tree) ptlen).1 with
            dirs := (setPt s tree (PathTable.add (ptOf s tree) ptlen).1).dirs ++ [{ id := id, lens := lens, dataLen := BS }] }
          = layoutEnd (setPt s tree (PathTable.add (ptOf s tree) ptlen).1) + 1 := by
        rw [layoutEnd_eq_dirs, layoutEnd_eq_dirs (setPt s tree _)]
        simp [baseDirs, dirSectors, BS]; omega
      cases hg : (PathTable.add (ptOf s tree) ptlen).2 with
      | true =>
        rw [hg] at hex; simp only [if_true] at hex
        exact ⟨5, by simp [BS], by rw [hle]; omega, hf1, hf2, hdirs, hi0, hi1⟩
      | false =>
        rw [hg] at hex; simp at hex
        exact ⟨1, by simp [BS], by rw [hle]; omega, hf1, hf2, hdirs, hi0, hi1⟩
    · simp at h
  | ceEntry len =>
    simp only [addPart, Option.some.injEq, Prod.mk.injEq] at h
    obtain ⟨rfl, rfl⟩ := h
    rcases ceAdd_length len s.ceb with ⟨hl, hb⟩ | ⟨hl, hb⟩
    · exact ⟨0, by simp [hb], by simp [layoutEnd, hl], rfl, rfl, hd, h0, h1⟩
    · exact ⟨1, by simp [hb], by simp [layoutEnd, hl]; omega, rfl, rfl, hd, h0, h1⟩
  | vd =>
    simp only [addPart, Option.some.injEq, Prod.mk.injEq] at h
    obtain ⟨rfl, rfl⟩ := h
    exact ⟨1, by simp, by simp [layoutEnd]; omega, rfl, rfl, hd, h0, h1⟩
  | ufid dir len =>
    simp only [addPart] at h
    cases hu : updUDir dir (addFid len) s.udirs with
    | none => simp [hu] at h
    | some r =>
      simp [hu] at h
      obtain ⟨rfl, rfl⟩ := h
      obtain ⟨hs, k, hk⟩ := updUDir_add dir (addFid len) (addFid_blocks len) s.udirs r hu
      have hk' : r.2 / BS = k := by rw [hk]; simp [BS]
      exact ⟨k, hk, by simp [layoutEnd, hs, hk']; omega, rfl, rfl, hd, h0, h1⟩
  | umkdir id =>
    simp only [addPart, Option.some.injEq, Prod.mk.injEq] at h
    obtain ⟨rfl, rfl⟩ := h
    exact ⟨1, by simp, by simp [layoutEnd, udirSectors_append_new]; omega, rfl, rfl, hd, h0, h1⟩
  | ufe =>
    simp only [addPart, Option.some.injEq, Prod.mk.injEq] at h
    obtain ⟨rfl, rfl⟩ := h
    exact ⟨1, by simp, by simp [layoutEnd]; omega, rfl, rfl, hd, h0, h1⟩

theorem rmPart_exact (s s' : State) (p : RmPart) (b : Nat) (hok : Ok s)
    (h : rmPart s p = some (s', b)) :
    ∃ k, b = k * BS ∧ layoutEnd s' + k = layoutEnd s ∧ s'.space = s.space ∧ s'.inos = s.inos ∧ Ok s' := by
  obtain ⟨hd, h0, h1⟩ := hok
  cases p with
  | remove dir idx =>
    simp only [rmPart] at h
    cases hu : updDir dir (removeRec idx) s.dirs with
    | none => simp [hu] at h
    | some r =>
      simp [hu] at h
      obtain ⟨rfl, rfl⟩ := h
      have hs := updDir_sub dir (removeRec idx) (fun d r hr => (removeRec_sectors idx d r hr).1) s.dirs r hu
      have hb := updDir_blocks dir (removeRec idx) (fun d r hr => (removeRec_sectors idx d r hr).2) s.dirs r hu
      have hk := updDir_ok dir (removeRec idx) (fun d r hd hr => removeRec_ok idx d r hd hr) s.dirs r hd hu
      rcases hb with hb | hb
      · exact ⟨0, by simp [hb], by simp [hb] at hs; simp [layoutEnd, hs], rfl, rfl, hk, h0, h1⟩
      · exact ⟨1, by simp [hb], by simp [hb, BS] at hs; simp [layoutEnd]; omega, rfl, rfl, hk, h0, h1⟩
  | rmdir tree id ptlen =>
    simp only [rmPart] at h
    split at h
    · rename_i hlen
      cases hdr : dropDir id s.dirs with
      | none => simp [hdr] at h
      | some r =>
        obtain ⟨⟨q1, sh⟩, hq, hqi, hex⟩ :=
          PathTable.remove_inv (ptOf s tree) ptlen (ptOf_inv s tree h0 h1) hlen
        simp only at hqi hex
        simp [hdr, hq] at h
        obtain ⟨rfl, rfl⟩ := h
        obtain ⟨hs, ⟨k, hk⟩, hok'⟩ := dropDir_sectors id s.dirs r hd hdr
        have hk' : r.2 / BS = k := by rw [hk]; simp [BS]
        have hpt := layoutEnd_setPt s tree q1
        obtain ⟨hf1, hf2, hf3⟩ := setPt_fields s tree q1
        obtain ⟨hi0, hi1⟩ := setPt_inv s tree q1 h0 h1 hqi
        have hle : layoutEnd { setPt s tree q1 with dirs := r.1 } + k = layoutEnd (setPt s tree q1) := by
          rw [layoutEnd_eq_dirs, layoutEnd_eq_dirs (setPt s tree q1), hf3]
          simp only [baseDirs]; omega
        dsimp only at hle
        cases sh with
        | true =>
          simp only [if_true] at hex
          exact ⟨k + 4, by simp [hk, BS]; omega, by omega, hf1, hf2, hok', hi0, hi1⟩
        | false =>
          simp at hex
          exact ⟨k, by simp [hk], by omega, hf1, hf2, hok', hi0, hi1⟩
    · simp at h
  | ceFree idx off len =>
    simp only [rmPart] at h
    cases hu : Iso.ceFree idx off len s.ceb with
    | none => simp [hu] at h
    | some r =>
      simp [hu] at h
      obtain ⟨rfl, rfl⟩ := h
      rcases ceFree_length idx off len s.ceb r hu with ⟨hl, hb⟩ | ⟨hl, hb⟩
      · exact ⟨0, by simp [hb], by simp [layoutEnd, hl], rfl, rfl, hd, h0, h1⟩
      · exact ⟨1, by simp [hb], by simp [layoutEnd]; omega, rfl, rfl, hd, h0, h1⟩
  | ufid dir len =>
    simp only [rmPart] at h
    cases hu : updUDir dir (rmFid len) s.udirs with
    | none => simp [hu] at h
    | some r =>
      simp [hu] at h
      obtain ⟨rfl, rfl⟩ := h
      obtain ⟨hs, k, hk⟩ := updUDir_sub dir (rmFid len) (rmFid_blocks len) s.udirs r hu
      have hk' : r.2 / BS = k := by rw [hk]; simp [BS]
      exact ⟨k, hk, by simp [layoutEnd]; omega, rfl, rfl, hd, h0, h1⟩
  | urmdir id =>
    simp only [rmPart] at h
    cases hu : dropUDir id s.udirs with
    | none => simp [hu] at h
    | some r =>
      simp [hu] at h
      obtain ⟨rfl, rfl⟩ := h
      obtain ⟨hs, hb⟩ := dropUDir_sectors id s.udirs r hu
      exact ⟨2, hb, by simp [layoutEnd]; omega, rfl, rfl, hd, h0, h1⟩
  | ufe =>
    simp only [rmPart] at h
    split at h
    · simp only [Option.some.injEq, Prod.mk.injEq] at h
      obtain ⟨rfl, rfl⟩ := h
      exact ⟨1, by simp, by simp [layoutEnd]; omega, rfl, rfl, hd, h0, h1⟩
    · simp at h

theorem addParts_exact (s s' : State) (ps : List AddPart) (b : Nat) (hok : Ok s)
    (h : addParts s ps = some (s', b)) :
    ∃ k, b = k * BS ∧ layoutEnd s' = layoutEnd s + k ∧ s'.space = s.space ∧ s'.inos = s.inos ∧ Ok s' := by
  induction ps generalizing s b with
  | nil =>
    simp only [addParts, Option.some.injEq, Prod.mk.injEq] at h
    obtain ⟨rfl, rfl⟩ := h
    exact ⟨0, by simp, by simp, rfl, rfl, hok⟩
  | cons p ps ih =>
    simp only [addParts] at h
    cases hp : addPart s p with
    | none => simp [hp] at h
    | some x =>
      obtain ⟨s1, b1⟩ := x
      simp only [hp] at h
      cases hr : addParts s1 ps with
      | none => simp [hr] at h
      | some y =>
        obtain ⟨s2, b2⟩ := y
        simp [hr] at h
        obtain ⟨rfl, rfl⟩ := h
        obtain ⟨k1, hb1, hl1, hsp1, hi1, hok1⟩ := addPart_exact s s1 p b1 hok hp
        obtain ⟨k2, hb2, hl2, hsp2, hi2, hok2⟩ := ih s1 b2 hok1 hr
        exact ⟨k1 + k2, by rw [hb1, hb2, Nat.add_mul], by omega, by rw [hsp2, hsp1], by rw [hi2, hi1], hok2⟩

theorem rmParts_exact (s s' : State) (ps : List RmPart) (b : Nat) (hok : Ok s)
    (h : rmParts s ps = some (s', b)) :
    ∃ k, b = k * BS ∧ layoutEnd s' + k = layoutEnd s ∧ s'.space = s.space ∧ s'.inos = s.inos ∧ Ok s' := by
  induction ps generalizing s b with
  | nil =>
    simp only [rmParts, Option.some.injEq, Prod.mk.injEq] at h
    obtain ⟨rfl, rfl⟩ := h
    exact ⟨0, by simp, by simp, rfl, rfl, hok⟩
  | cons p ps ih =>
    simp only [rmParts] at h
    cases hp : rmPart s p with
    | none => simp [hp] at h
    | some x =>
      obtain ⟨s1, b1⟩ := x
      simp only [hp] at h
      cases hr : rmParts s1 ps with
      | none => simp [hr] at h
      | some y =>
        obtain ⟨s2, b2⟩ := y
        simp [hr] at h
        obtain ⟨rfl, rfl⟩ := h
        obtain ⟨k1, hb1, hl1, hsp1, hi1, hok1⟩ := rmPart_exact s s1 p b1 hok hp
        obtain ⟨k2, hb2, hl2, hsp2, hi2, hok2⟩ := ih s1 b2 hok1 hr
        exact ⟨k1 + k2, by rw [hb1, hb2, Nat.add_mul], by omega, by rw [hsp2, hsp1], by rw [hi2, hi1], hok2⟩

/-! ### file contents -/

theorem inoSectors_cons (i : Ino) (is : List Ino) : inoSectors (i :: is) = sectorsOf i.len + feOf i + inoSectors is := by
  simp [inoSectors]

theorem sectorsOf_add_block (len : Nat) : sectorsOf (len + BS) = sectorsOf len + 1 := by
  unfold sectorsOf BS; omega

theorem feAdd_sectors (nu nudf : Nat) :
    (if 0 < nudf + nu then 1 else 0) = (if 0 < nudf then 1 else 0) + sectorsOf (feAdd nu nudf) := by
  cases nudf <;> cases nu <;> simp [feAdd, sectorsOf, BS]

theorem feRel_sectors (nu nudf : Nat) (h : nu ≤ nudf) :
    (if 0 < nudf - nu then 1 else 0) + sectorsOf (feRel nu nudf) = (if 0 < nudf then 1 else 0) := by
  by_cases he : nu = nudf
  · subst he
    cases nu <;> simp [feRel, sectorsOf, BS]
  · have h1 : 0 < nudf - nu := by omega
    have h2 : 0 < nudf := by omega
    simp [feRel, he, h1, h2, sectorsOf]

theorem sectorsOf_len_fe (len nu nudf : Nat) (f : Nat) (hf : f = 0 ∨ f = BS) :
    sectorsOf (len + f) = sectorsOf len + sectorsOf f := by
  rcases hf with rfl | rfl
  · unfold sectorsOf; omega
  · unfold sectorsOf BS; omega

theorem feAdd_cases (nu nudf : Nat) : feAdd nu nudf = 0 ∨ feAdd nu nudf = BS := by
  unfold feAdd; split <;> simp

theorem feRel_cases (nu nudf : Nat) : feRel nu nudf = 0 ∨ feRel nu nudf = BS := by
  unfold feRel; split <;> simp

theorem linkIno_sectors (id len n nu : Nat) (is : List Ino) :
    inoSectors (linkIno id len n nu is).1 = inoSectors is + sectorsOf (linkIno id len n nu is).2 := by
  induction is with
  | nil =>
    simp only [linkIno, inoSectors, List.map_cons, List.map_nil, List.sum_cons, List.sum_nil, feOf]
    rw [sectorsOf_len_fe len nu 0 _ (feAdd_cases nu 0)]
    have := feAdd_sectors nu 0
    simp only [Nat.zero_add, Nat.lt_irrefl, if_false] at this
    omega
  | cons i is ih =>
    simp only [linkIno]
    by_cases hid : i.id = id
    · rw [if_pos hid]
      simp only [inoSectors_cons, feOf]
      have := feAdd_sectors nu i.nudf
      omega
    · rw [if_neg hid]
      simp only [inoSectors_cons]; omega

theorem unlinkIno_sectors (id n nu : Nat) (is : List Ino) (r : List Ino × Nat) (h : unlinkIno id n nu is = some r) :
    inoSectors r.1 + sectorsOf r.2 = inoSectors is := by
  induction is generalizing r with
  | nil => simp [unlinkIno] at h
  | cons i is ih =>
    simp only [unlinkIno] at h
    by_cases hid : i.id = id
    · rw [if_pos hid] at h
      by_cases hc : nu ≤ i.nudf ∧ nu ≤ n
      · rw [if_pos hc] at h
        by_cases hl : n < i.links
        · rw [if_pos hl] at h
          simp only [Option.some.injEq] at h; subst h
          simp only [inoSectors_cons, feOf]
          have := feRel_sectors nu i.nudf hc.1
          omega
        · rw [if_neg hl] at h
          by_cases he : n = i.links ∧ nu = i.nudf
          · rw [if_pos he] at h
            simp only [Option.some.injEq] at h; subst h
            simp only [inoSectors_cons, feOf]
            rw [sectorsOf_len_fe i.len nu i.nudf _ (feRel_cases nu i.nudf)]
            have := feRel_sectors nu i.nudf hc.1
            have hz : i.nudf - nu = 0 := by omega
            simp only [hz, Nat.lt_irrefl, if_false] at this
            omega
          · rw [if_neg he] at h; simp at h
      · rw [if_neg hc] at h; simp at h
    · rw [if_neg hid] at h
      cases hu : unlinkIno id n nu is with
      | none => simp [hu] at h
      | some x =>
        simp [hu] at h; subst h
        have := ih x hu
        simp only [inoSectors_cons]; omega

/-! ### the invariant -/

/-- everything but the file contents -/
def baseInos (s : State) : Nat := s.fixed + 2 * s.pt0.extents + 2 * s.pt1.extents + dirSectors s.dirs + s.ceb.length + udirSectors s.udirs + s.ufree

theorem layoutEnd_eq_inos (s : State) : layoutEnd s = baseInos s + inoSectors s.inos := by
  simp [layoutEnd, baseInos]; omega

theorem Ok_of_fields (s t : State) (h : Ok s) (hd : t.dirs = s.dirs) (h0 : t.pt0 = s.pt0) (h1 : t.pt1 = s.pt1) : Ok t := by
  unfold Ok at *; rw [hd, h0, h1]; exact h

/-- **one public edit keeps the declared size exact and every directory covered** -/
theorem step_inv (s s' : State) (op : Op) (hinv : Inv s) (h : step s op = some s') : Inv s' := by
  obtain ⟨hsp, hok⟩ := hinv
  cases op with
  | add parts ino =>
    simp only [step] at h
    cases hp : addParts s parts with
    | none => simp [hp] at h
    | some x =>
      obtain ⟨s1, b⟩ := x
      simp only [hp] at h
      obtain ⟨k, hb, hl, hs1, hi1, hok1⟩ := addParts_exact s s1 parts b hok hp
      cases ino with
      | none =>
        simp only [Option.some.injEq] at h; subst h
        refine ⟨?_, Ok_of_fields s1 _ hok1 rfl rfl rfl⟩
        rw [layoutEnd_eq_inos]
        rw [layoutEnd_eq_inos] at hl
        simp only [baseInos, addSpace, hb, sectorsOf_blocks'] at *; omega
      | some t =>
        obtain ⟨id, len, n, nu⟩ := t
        simp only at h
        split at h
        case isFalse => simp at h
        simp only [Option.some.injEq] at h; subst h
        refine ⟨?_, Ok_of_fields s1 _ hok1 rfl rfl rfl⟩
        have hli := linkIno_sectors id len n nu s1.inos
        rw [layoutEnd_eq_inos]
        rw [layoutEnd_eq_inos s1] at hl
        simp only [baseInos, addSpace, hb, sectorsOf_blocks] at *
        omega
  | rm parts ino =>
    simp only [step] at h
    cases hp : rmParts s parts with
    | none => simp [hp] at h
    | some x =>
      obtain ⟨s1, b⟩ := x
      simp only [hp] at h
      obtain ⟨k, hb, hl, hs1, hi1, hok1⟩ := rmParts_exact s s1 parts b hok hp
      cases ino with
      | none =>
        simp only [Option.some.injEq] at h; subst h
        refine ⟨?_, Ok_of_fields s1 _ hok1 rfl rfl rfl⟩
        rw [layoutEnd_eq_inos]
        rw [layoutEnd_eq_inos s1] at hl
        simp only [baseInos, removeSpace, hb, sectorsOf_blocks'] at *; omega
      | some t =>
        obtain ⟨id, n, nu⟩ := t
        simp only at h
        cases hu : unlinkIno id n nu s1.inos with
        | none => simp [hu] at h
        | some r =>
          obtain ⟨is, lb⟩ := r
          simp only [hu, Option.some.injEq] at h; subst h
          refine ⟨?_, Ok_of_fields s1 _ hok1 rfl rfl rfl⟩
          have hui := unlinkIno_sectors id n nu s1.inos (is, lb) hu
          simp only at hui
          rw [layoutEnd_eq_inos]
          rw [layoutEnd_eq_inos s1] at hl
          simp only [baseInos, removeSpace, hb, sectorsOf_blocks] at *
          omega

theorem run_inv (s s' : State) (ops : List Op) (hinv : Inv s) (h : run s ops = some s') : Inv s' := by
  induction ops generalizing s with
  | nil => simp only [run, Option.some.injEq] at h; subst h; exact hinv
  | cons op ops ih =>
    simp only [run] at h
    cases hs : step s op with
    | none => simp [hs] at h
    | some s1 => simp only [hs] at h; exact ih s1 (step_inv s s1 op hinv hs) h

/-- **space_exact**: after ANY history of edits the declared volume size is what the from-scratch layout needs -/
theorem space_exact (s s' : State) (ops : List Op) (hinv : Inv s) (h : run s ops = some s') :
    s'.space = layoutEnd s' := (run_inv s s' ops hinv h).1

/-- … and every directory's reservation covers its records, in whole blocks (`content_fits` for directories) -/
theorem dirs_covered (s s' : State) (ops : List Op) (hinv : Inv s) (h : run s ops = some s') :
    ∀ d ∈ s'.dirs, (nextFit BS d.lens).1 * BS ≤ d.dataLen ∧ ∃ k, d.dataLen = k * BS :=
  fun d hd => ⟨((run_inv s s' ops hinv h).2.1 d hd).2.1, ((run_inv s s' ops hinv h).2.1 d hd).1⟩

/-- … and both path-table reservations are exactly two extents per started 4096 bytes of records -/
theorem path_tables_exact (s s' : State) (ops : List Op) (hinv : Inv s) (h : run s ops = some s') :
    PathTable.Inv s'.pt0 ∧ PathTable.Inv s'.pt1 := (run_inv s s' ops hinv h).2.2

/-! ### contents exist exactly as long as they are named (C07) -/

theorem linkIno_named (id len n nu : Nat) (is : List Ino) (hn : 0 < n) (h : ∀ i ∈ is, 0 < i.links) :
    ∀ i ∈ (linkIno id len n nu is).1, 0 < i.links := by
  induction is with
  | nil => intro i hi; simp [linkIno] at hi; subst hi; exact hn
  | cons j js ih =>
    simp only [linkIno]
    by_cases hid : j.id = id
    · rw [if_pos hid]
      intro i hi
      simp only [List.mem_cons] at hi
      rcases hi with rfl | hi
      · simp; have := h j (by simp); omega
      · exact h i (by simp [hi])
    · rw [if_neg hid]
      intro i hi
      simp only [List.mem_cons] at hi
      rcases hi with rfl | hi
      · exact h _ (by simp)
      · exact ih (fun x hx => h x (by simp [hx])) i hi

theorem unlinkIno_named (id n nu : Nat) (is : List Ino) (r : List Ino × Nat) (hu : unlinkIno id n nu is = some r)
    (h : ∀ i ∈ is, 0 < i.links) : ∀ i ∈ r.1, 0 < i.links := by
  induction is generalizing r with
  | nil => simp [unlinkIno] at hu
  | cons j js ih =>
    simp only [unlinkIno] at hu
    by_cases hid : j.id = id
    · rw [if_pos hid] at hu
      by_cases hc : nu ≤ j.nudf ∧ nu ≤ n
      · rw [if_pos hc] at hu
        by_cases hl : n < j.links
        · rw [if_pos hl] at hu
          simp only [Option.some.injEq] at hu; subst hu
          intro i hi
          simp only [List.mem_cons] at hi
          rcases hi with rfl | hi
          · simp; omega
          · exact h i (by simp [hi])
        · rw [if_neg hl] at hu
          by_cases he : n = j.links ∧ nu = j.nudf
          · rw [if_pos he] at hu
            simp only [Option.some.injEq] at hu; subst hu
            exact fun i hi => h i (by simp [hi])
          · rw [if_neg he] at hu; simp at hu
      · rw [if_neg hc] at hu; simp at hu
    · rw [if_neg hid] at hu
      cases hx : unlinkIno id n nu js with
      | none => simp [hx] at hu
      | some x =>
        simp [hx] at hu; subst hu
        intro i hi
        simp only [List.mem_cons] at hi
        rcases hi with rfl | hi
        · exact h _ (by simp)
        · exact ih x hx (fun y hy => h y (by simp [hy])) i hi

theorem step_named (s s' : State) (op : Op) (hok : Ok s) (hn : Named s) (h : step s op = some s') : Named s' := by
  cases op with
  | add parts ino =>
    simp only [step] at h
    cases hp : addParts s parts with
    | none => simp [hp] at h
    | some x =>
      obtain ⟨s1, b⟩ := x
      simp only [hp] at h
      obtain ⟨k, _, _, _, hi1, _⟩ := addParts_exact s s1 parts b hok hp
      cases ino with
      | none => simp only [Option.some.injEq] at h; subst h; unfold Named; simp only; rw [hi1]; exact hn
      | some t =>
        obtain ⟨id, len, n, nu⟩ := t
        simp only at h
        split at h
        case isFalse => simp at h
        rename_i hpos
        simp only [Option.some.injEq] at h; subst h
        unfold Named; simp only
        exact linkIno_named id len n nu s1.inos hpos.1 (by rw [hi1]; exact hn)
  | rm parts ino =>
    simp only [step] at h
    cases hp : rmParts s parts with
    | none => simp [hp] at h
    | some x =>
      obtain ⟨s1, b⟩ := x
      simp only [hp] at h
      obtain ⟨k, _, _, _, hi1, _⟩ := rmParts_exact s s1 parts b hok hp
      cases ino with
      | none => simp only [Option.some.injEq] at h; subst h; unfold Named; simp only; rw [hi1]; exact hn
      | some t =>
        obtain ⟨id, n, nu⟩ := t
        simp only at h
        cases hu : unlinkIno id n nu s1.inos with
        | none => simp [hu] at h
        | some r =>
          obtain ⟨is, lb⟩ := r
          simp only [hu, Option.some.injEq] at h; subst h
          unfold Named; simp only
          exact unlinkIno_named id n nu s1.inos (is, lb) hu (by rw [hi1]; exact hn)

/-- **released at zero**: after any history every stored content still has a name — the last `unlink` removed it from the
store and gave its sectors back (`space_exact` counts exactly the stored contents) -/
theorem contents_named (s s' : State) (ops : List Op) (hinv : Inv s) (hn : Named s) (h : run s ops = some s') :
    Named s' := by
  induction ops generalizing s with
  | nil => simp only [run, Option.some.injEq] at h; subst h; exact hn
  | cons op ops ih =>
    simp only [run] at h
    cases hs : step s op with
    | none => simp [hs] at h
    | some s1 =>
      simp only [hs] at h
      exact ih s1 (step_inv s s1 op hinv hs) (step_named s s1 op hinv.2 hn hs) h

/-- removing the last name of a content releases exactly its bytes (and its File Entry sector with the last UDF name);
removing one of several names releases at most the File Entry sector -/
theorem unlink_releases_iff (id n nu : Nat) (i : Ino) (is : List Ino) (hid : i.id = id) (hc : nu ≤ i.nudf ∧ nu ≤ n) :
    unlinkIno id n nu (i :: is) =
      (if n < i.links then some ({ i with links := i.links - n, nudf := i.nudf - nu } :: is, feRel nu i.nudf)
       else if n = i.links ∧ nu = i.nudf then some (is, i.len + feRel nu i.nudf) else none) := by
  simp only [unlinkIno, if_pos hid, if_pos hc]

/-! ### the sequential layout of a reachable state -/

theorem layoutCounts_sum (s : State) : (layoutCounts s).sum = layoutEnd s := by
  simp [layoutCounts, layoutEnd, dirSectors, inoSectors, udirSectors]; omega

/-- **the objects of a reachable state, placed one after the other from sector 0, are pairwise disjoint, lie inside the
declared size, and the last one ends exactly there** -/
theorem layout_sound (s s' : State) (ops : List Op) (hinv : Inv s) (h : run s ops = some s') :
    (place 0 (layoutCounts s')).Pairwise (fun a b => a.1 + a.2 ≤ b.1) ∧
    (∀ p ∈ place 0 (layoutCounts s'), p.1 + p.2 ≤ s'.space) ∧
    placeEnd 0 (layoutCounts s') = s'.space := by
  have hsp := space_exact s s' ops hinv h
  have hend : placeEnd 0 (layoutCounts s') = s'.space := by
    simp [placeEnd, layoutCounts_sum, hsp]
  exact ⟨place_disjoint 0 _, fun p hp => by rw [← hend]; exact (place_in_bounds 0 _ p hp).2, hend⟩

/-! ### the executable checker is the invariant -/

theorem dirOkB_iff (d : Dir) : dirOkB d = true ↔ DirOk d := by
  unfold dirOkB DirOk
  simp only [Bool.and_eq_true, beq_iff_eq, decide_eq_true_eq, List.all_eq_true]
  constructor
  · rintro ⟨⟨h1, h2⟩, h3⟩
    exact ⟨⟨d.dataLen / BS, by unfold BS at *; omega⟩, h2, h3⟩
  · rintro ⟨⟨k, hk⟩, h2, h3⟩
    exact ⟨⟨by rw [hk]; simp, h2⟩, h3⟩

theorem invB_iff (s : State) : invB s = true ↔ Inv s := by
  unfold invB Inv Ok ptInvB PathTable.Inv
  simp only [Bool.and_eq_true, beq_iff_eq, List.all_eq_true, dirOkB_iff]
  constructor
  · rintro ⟨⟨⟨h1, h2⟩, h3⟩, h4⟩; exact ⟨h1, h2, h3, h4⟩
  · rintro ⟨h1, h2, h3, h4⟩; exact ⟨⟨⟨h1, h2⟩, h3⟩, h4⟩

/-! ### non-vacuity -/

/-- the state of `PyCdlib.new()` satisfies the invariant: 24 sectors -/
theorem init0_inv : Inv init0 := by
  refine ⟨by decide, ?_, by unfold PathTable.Inv; decide, by unfold PathTable.Inv; decide⟩
  intro d hd
  simp only [init0, List.mem_singleton] at hd
  subst hd
  exact ⟨⟨1, by decide⟩, by decide, by decide⟩

/-- a concrete history: a directory, a file of 5000 bytes named twice, one name removed, the file removed, the directory
removed — the size goes 24 → 25 → 28 → 28 → 25 → 24 -/
example : (run init0 [.add [.insert 0 2 38, .mkdir 0 1 10 [34, 34]] none,
                      .add [.insert 0 2 44, .insert 1 2 44] (some (7, 5000, 2, 0)),
                      .rm [.remove 1 2] (some (7, 1, 0)),
                      .rm [.remove 0 2] (some (7, 1, 0)),
                      .rm [.remove 0 2, .rmdir 0 1 10] none]).map (·.space) = some 24 := by decide

/-- without the single ceiling division per call the sizes would drift: two contents of 1 byte in one call would be
charged one sector (this is why `Op.add` carries at most one content, as every public call does) -/
example : sectorsOf (1 + 1) = 1 ∧ sectorsOf 1 + sectorsOf 1 = 2 := by decide

end Pycdlib.Iso
