/-
Props/Tie — the definitions REGENERATED from /repo on every run (Pycdlib/Generated/*.lean, written by
harness/py2lean.py) are proved equal to the hand-written model definitions the property theorems use.
A changed table entry, constant, comparison or rounding direction in /repo makes one of these fail.
-/
import Pycdlib.Generated.Checksum
import Pycdlib.Generated.Kernel
import Pycdlib.Model.Checksum
import Pycdlib.Model.Layout
import Pycdlib.Model.Dates
import Pycdlib.Proofs.Crc
import Pycdlib.Proofs.Crc32
namespace Pycdlib
open Pycdlib.PyOps

/-- every entry of the CRC-CCITT table in udf.py is the bitwise CRC of its index -/
theorem crc16_table_spec :
    ∀ b : Fin 256, Generated.crc_ccitt_table.getD b.val 0 = iter8 crc16Shift (b.val * 256) := by
  decide +kernel

/-- every entry of the CRC-32 table in isohybrid.py is the bitwise reflected CRC of its index -/
theorem crc32_table_spec :
    ∀ b : Fin 256, Generated.crc32_table.getD b.val 0 = iter8 crc32Shift b.val := by
  decide +kernel

/-- `utils.ceiling_div(n, 2048)` is the sector count used by the layout model -/
theorem ceiling_div_tie (n : Nat) : Generated.ceiling_div n 2048 = (sectorsOf n : Int) := by
  unfold Generated.ceiling_div pyFloorDiv sectorsOf
  rw [Int.fdiv_eq_ediv_of_nonneg _ (by decide)]
  omega

theorem ceiling_div_tie_4096 (n : Nat) : Generated.ceiling_div n 4096 = ((n + 4095) / 4096 : Nat) := by
  unfold Generated.ceiling_div pyFloorDiv
  rw [Int.fdiv_eq_ediv_of_nonneg _ (by decide)]
  omega

/-- `PathTableRecord.record_length` -/
theorem ptr_record_length_tie (n : Nat) : Generated.ptr_record_length n = ((8 + n + n % 2 : Nat) : Int) := by
  unfold Generated.ptr_record_length pyMod
  rw [Int.fmod_eq_emod_of_nonneg _ (by decide)]
  omega

/-- `UDFFileIdentifierDescriptor.length`: 38 + (name + compression id) rounded up to a multiple of 4 -/
theorem fid_length_tie (n : Nat) :
    Generated.fid_length n = (((38 + (if n > 0 then n + 1 else 0) + 3) / 4 * 4 : Nat) : Int) := by
  unfold Generated.fid_length Generated.fid_pad pyFloorDiv
  simp only [Int.fdiv_eq_ediv_of_nonneg _ (by decide : (0 : Int) ≤ 4)]
  by_cases h : n > 0
  · have : ((n : Int) > 0) := by omega
    simp only [this, decide_true, if_true, h]
    omega
  · have : ¬ ((n : Int) > 0) := by omega
    simp only [this, decide_false, h, if_false, Bool.false_eq_true]
    omega

/-- `utils.gmtoffset_from_tm` is the model's `gmtoffset` -/
theorem gmtoffset_tie (loc gm : Tm) :
    Generated.gmtoffset_from_tm loc.min gm.min loc.hour gm.hour loc.yday gm.yday loc.year gm.year
      = gmtoffset loc gm := by
  unfold Generated.gmtoffset_from_tm gmtoffset pyFloorDiv
  simp only [Int.fdiv_eq_ediv_of_nonneg _ (by decide : (0 : Int) ≤ 15)]
  by_cases h : loc.year - gm.year ≠ 0 <;> simp [h]

/-! ### CRC-CCITT: the function in udf.py equals the bit-by-bit CRC, for every byte string -/

theorem pyXor_cast (a b : Nat) : pyXor (a : Int) (b : Int) = ((a ^^^ b : Nat) : Int) := by simp [pyXor]
theorem pyIndex_cast (t : List Nat) (i : Nat) : pyIndex t (i : Int) = ((t.getD i 0 : Nat) : Int) := by simp [pyIndex]
theorem pyShr8_cast (a : Nat) : pyShr (a : Int) 8 = ((a / 256 : Nat) : Int) := by
  unfold pyShr
  rw [Int.fdiv_eq_ediv_of_nonneg _ (by decide)]
  simp
theorem pyShl8_cast (a : Nat) : pyShl (a : Int) 8 = ((a * 256 : Nat) : Int) := by
  unfold pyShl; simp
theorem pyAnd_cast (a b : Nat) : pyAnd (a : Int) (b : Int) = ((a &&& b : Nat) : Int) := by
  unfold pyAnd; simp

theorem mask_ff00 : ∀ h l : Fin 256, ((h.val * 256 + l.val) * 256) &&& 65280 = l.val * 256 := by
  decide +kernel

theorem mask_arith_a (crc : Nat) : crc * 256 % 65536 = crc % 256 * 256 := by omega
theorem mask_arith_b (y : Nat) : y * 256 = y * 256 / 256 * 256 := by omega
theorem mask_arith (crc : Nat) :
    (crc / 256 * 256 + crc % 256) * 256 = crc * 256 ∧ crc % 256 * 256 = crc * 256 % 65536 / 256 * 256 :=
  ⟨by omega, (mask_arith_b _).trans (congrArg (fun t => t / 256 * 256) (mask_arith_a crc).symm)⟩

theorem crc_ccitt_step_tie (crc x : Nat) (hc : crc < 65536) (hx : x < 256) :
    pyXor (pyIndex Generated.crc_ccitt_table (pyXor (x : Int) (pyAnd (pyShr (crc : Int) 8) 255)))
          (pyAnd (pyShl (crc : Int) 8) 65280) = ((crc16Byte crc x : Nat) : Int) := by
  rw [pyShr8_cast, pyShl8_cast]
  have e255 : (255 : Int) = ((255 : Nat) : Int) := rfl
  have e65280 : (65280 : Int) = ((65280 : Nat) : Int) := rfl
  rw [e255, e65280, pyAnd_cast, pyAnd_cast, pyXor_cast, pyIndex_cast, pyXor_cast]
  clear e255 e65280
  congr 1
  obtain ⟨h3, h4⟩ := mask_arith crc
  have hq : crc / 256 < 256 := by omega
  have hr : crc % 256 < 256 := by omega
  have h1 : crc / 256 &&& 255 = crc / 256 % 256 := Nat.and_two_pow_sub_one_eq_mod (crc / 256) 8
  have h2 := mask_ff00 ⟨crc / 256, hq⟩ ⟨crc % 256, hr⟩
  simp only at h2
  rw [h3, h4] at h2
  rw [h1, h2]
  exact (crc16Byte_table (fun i => Generated.crc_ccitt_table.getD i 0) crc16_table_spec crc x hc hx).symm

/-- **tie**: `udf.crc_ccitt` (table regenerated from the source on every run) = bit-by-bit CRC-16/CCITT -/
theorem crc_ccitt_tie (data : List Nat) (hd : ∀ x ∈ data, x < 256) :
    Generated.crc_ccitt (data.map fun (x : Nat) => (x : Int)) = ((crc16 data : Nat) : Int) := by
  unfold Generated.crc_ccitt crc16
  simp only
  have key : ∀ (l : List Nat) (c : Nat), c < 65536 → (∀ x ∈ l, x < 256) →
      List.foldl (fun crc x => pyXor (pyIndex Generated.crc_ccitt_table (pyXor x (pyAnd (pyShr crc 8) 255)))
        (pyAnd (pyShl crc 8) 65280)) (c : Int) (l.map fun (x : Nat) => (x : Int)) = ((l.foldl crc16Byte c : Nat) : Int) := by
    intro l
    induction l with
    | nil => intro c _ _; rfl
    | cons x xs ih =>
      intro c hc hl
      simp only [List.map_cons, List.foldl_cons]
      rw [crc_ccitt_step_tie c x hc (hl x (by simp))]
      exact ih _ (crc16Byte_lt c x hc (hl x (by simp))) (fun y hy => hl y (by simp [hy]))
  exact key data 0 (by decide) hd

/-! ### CRC-32: the function in isohybrid.py equals the bit-by-bit reflected CRC-32, for every byte string -/

theorem crc32Shift_lt (c : Nat) (h : c < 2 ^ 32) : crc32Shift c < 2 ^ 32 := by
  unfold crc32Shift
  split
  · exact Nat.xor_lt_two_pow (by omega) (by decide)
  · omega

theorem crc32Byte_lt (crc x : Nat) (hc : crc < 2 ^ 32) (hx : x < 256) : crc32Byte crc x < 2 ^ 32 := by
  unfold crc32Byte iter8
  have h0 : crc ^^^ x < 2 ^ 32 := Nat.xor_lt_two_pow hc (by omega)
  exact crc32Shift_lt _ (crc32Shift_lt _ (crc32Shift_lt _ (crc32Shift_lt _ (crc32Shift_lt _ (crc32Shift_lt _
    (crc32Shift_lt _ (crc32Shift_lt _ h0)))))))

theorem crc32_step_tie (crc x : Nat) (hc : crc < 2 ^ 32) (hx : x < 256) :
    pyXor (pyAnd (pyShr (crc : Int) 8) 16777215) (pyIndex Generated.crc32_table (pyAnd (pyXor (crc : Int) (x : Int)) 255))
      = ((crc32Byte crc x : Nat) : Int) := by
  rw [pyShr8_cast, pyXor_cast]
  have e1 : (16777215 : Int) = ((16777215 : Nat) : Int) := rfl
  have e2 : (255 : Int) = ((255 : Nat) : Int) := rfl
  rw [e1, e2, pyAnd_cast, pyAnd_cast, pyIndex_cast, pyXor_cast]
  clear e1 e2
  congr 1
  have h1 : crc / 256 &&& 16777215 = crc / 256 := by
    have := Nat.and_two_pow_sub_one_eq_mod (crc / 256) 24
    have hlt : crc / 256 < 2 ^ 24 := by omega
    simpa [Nat.mod_eq_of_lt hlt] using this
  have h2 : (crc ^^^ x) &&& 255 = (crc ^^^ x) % 2 ^ 8 := Nat.and_two_pow_sub_one_eq_mod (crc ^^^ x) 8
  rw [h1, h2]
  have := crc32Byte_table (fun i => Generated.crc32_table.getD i 0) crc32_table_spec crc x hx
  simpa using this.symm

/-- **tie**: `isohybrid.crc32` (table regenerated from the source on every run) = bit-by-bit CRC-32 -/
theorem crc32_tie (data : List Nat) (hd : ∀ x ∈ data, x < 256) :
    Generated.crc32 (data.map fun (x : Nat) => (x : Int)) = ((crc32 data : Nat) : Int) := by
  unfold Generated.crc32 crc32
  simp only
  have key : ∀ (l : List Nat) (c : Nat), c < 2 ^ 32 → (∀ x ∈ l, x < 256) →
      List.foldl (fun crc x => pyXor (pyAnd (pyShr crc 8) 16777215) (pyIndex Generated.crc32_table (pyAnd (pyXor crc x) 255)))
        (c : Int) (l.map fun (x : Nat) => (x : Int)) = ((l.foldl crc32Byte c : Nat) : Int) := by
    intro l
    induction l with
    | nil => intro c _ _; rfl
    | cons x xs ih =>
      intro c hc hl
      simp only [List.map_cons, List.foldl_cons]
      rw [crc32_step_tie c x hc (hl x (by simp))]
      exact ih _ (crc32Byte_lt c x hc (hl x (by simp))) (fun y hy => hl y (by simp [hy]))
  have e : (4294967295 : Int) = ((4294967295 : Nat) : Int) := rfl
  rw [e, key data 4294967295 (by decide) hd, pyXor_cast]

end Pycdlib
