/-
Props/C13Reloc — relocated directories get distinct identifiers in the relocation directory (C13: a directory never
holds two entries with the same identifier).

  * `relocName_fresh`: whatever the loop returns is not among the children.
  * `relocName_shape`: it is the identifier itself or the identifier followed by a three-digit number.
  * `relocMany_nodup`: relocating any number of directories with one identifier, one after the other, into a relocation
    directory without duplicates leaves it without duplicates.
-/
import Pycdlib.Model.Reloc
namespace Pycdlib.Reloc
open Pycdlib.Tools

theorem relocName_fresh (ch : List (List Char)) (name : List Char) (fuel idx : Nat) (cur c : List Char)
    (h : relocName ch name fuel idx cur = some c) : c ∉ ch := by
  induction fuel generalizing idx cur with
  | zero => simp [relocName] at h
  | succ fuel ih =>
    simp only [relocName] at h
    split at h
    · exact ih _ _ h
    · cases h; assumption

theorem relocName_shape (ch : List (List Char)) (name : List Char) (fuel idx : Nat) (cur c : List Char)
    (hc : cur = name ∨ ∃ i, cur = name ++ fmt3 i) (h : relocName ch name fuel idx cur = some c) :
    c = name ∨ ∃ i, c = name ++ fmt3 i := by
  induction fuel generalizing idx cur with
  | zero => simp [relocName] at h
  | succ fuel ih =>
    simp only [relocName] at h
    split at h
    · exact ih _ _ (Or.inr ⟨idx, rfl⟩) h
    · cases h; exact hc

theorem relocMany_nodup (name : List Char) (k : Nat) : ∀ (ch ch' : List (List Char)), ch.Nodup →
    relocMany name k ch = some ch' → ch'.Nodup := by
  induction k with
  | zero => intro ch ch' hn h; simp only [relocMany, Option.some.injEq] at h; subst h; exact hn
  | succ k ih =>
    intro ch ch' hn h
    simp only [relocMany] at h
    cases hr : relocName ch name (ch.length + 2) 0 name with
    | none => simp [hr] at h
    | some c =>
      simp only [hr] at h
      have hf := relocName_fresh ch name _ _ _ c hr
      apply ih (ch ++ [c]) ch' _ h
      rw [List.nodup_append]
      refine ⟨hn, by simp, ?_⟩
      intro a ha b hb
      simp only [List.mem_singleton] at hb
      subst hb
      intro hab; subst hab; exact hf ha

/-- non-vacuity: four directories named DATA next to an unrelated one -/
example : relocMany "DATA".toList 4 ["OTHER".toList] =
    some ["OTHER".toList, "DATA".toList, "DATA000".toList, "DATA001".toList, "DATA002".toList] := by decide +kernel

end Pycdlib.Reloc
