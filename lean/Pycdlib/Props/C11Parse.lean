/-
Props/C11Parse — a boot catalog written by the library is read back as written, whatever follows it on the image.

  * `catalog_parse_roundtrip`: for every platform the library accepts, every initial entry, every list of at most 31
    one-entry sections (the library's limit) with field values in range, and EVERY byte string after the catalog
    sector, reading the catalog gives the platform, the initial entry and the sections that were recorded — in
    particular when the catalog fills its 2048 bytes exactly (31 sections) and has no terminating empty entry.
  * `full_catalog_old_rule_data_dependent`: without the end-of-sector rule (the parser as it was) the same full
    catalog is read differently depending on the first byte of the next sector — a concrete witness of the defect
    that was repaired ("fix: a boot catalog that fills its sector ends with the sector").
-/
import Pycdlib.Model.BootParse
import Pycdlib.Props.C11
namespace Pycdlib.Boot

/-- field ranges of an entry the library can have recorded -/
def EntryOk (e : Entry) : Prop :=
  e.media ≤ 4 ∧ e.loadSeg < 65536 ∧ e.count < 65536 ∧ e.rba < 2 ^ 32

theorem parseEntry_entryBytes (e : Entry) (h : EntryOk e) : parseEntry (entryBytes e) = some e := by
  obtain ⟨h1, h2, h3, h4⟩ := h
  obtain ⟨b, m, sg, sy, c, r⟩ := e
  cases b <;>
  · simp only [parseEntry, entryBytes, le16n, le32n, rd16, rd32, List.cons_append, List.nil_append,
      List.getD_cons_zero, List.getD_cons_succ]
    simp only [] at h1 h2 h3 h4
    have e1 : sg % 256 + 256 * (sg / 256 % 256) = sg := by omega
    have e2 : c % 256 + 256 * (c / 256 % 256) = c := by omega
    have e3 : r % 256 + 256 * (r / 256 % 256) + 65536 * (r / 65536 % 256) + 16777216 * (r / 16777216 % 256) = r := by omega
    simp [e1, e2, e3]
    omega

theorem entryBytes_first (e : Entry) : (entryBytes e).getD 0 0 = (if e.bootable then 0x88 else 0) := by
  simp [entryBytes]

theorem parseValidation_validationBytes (p : Nat) (hp : p = 0 ∨ p = 1 ∨ p = 2 ∨ p = 0xef) :
    parseValidation (validationBytes p) = some p := by
  rcases hp with rfl | rfl | rfl | rfl <;> decide +kernel

theorem waiting_open (acc : List Sec) (ind p : Nat) : waiting (acc ++ [⟨ind, p, 1, []⟩]) = true := by
  simp [waiting]

theorem waiting_closed (acc : List Sec) (ind p : Nat) (e : Entry) : waiting (acc ++ [⟨ind, p, 1, [e]⟩]) = false := by
  simp [waiting]

theorem step_header (acc : List Sec) (last : Bool) (p : Nat) :
    stepEntry acc [] (headerBytes last p) = .more (acc ++ [⟨if last then 0x91 else 0x90, p, 1, []⟩]) [] := by
  cases last <;> simp [stepEntry, headerBytes, le16n, rd16]

theorem step_header_last (acc : List Sec) (p : Nat) :
    stepEntry acc [] (headerBytes true p) = .more (acc ++ [⟨0x91, p, 1, []⟩]) [] := by
  simpa using step_header acc true p

theorem step_header_mid (acc : List Sec) (p : Nat) :
    stepEntry acc [] (headerBytes false p) = .more (acc ++ [⟨0x90, p, 1, []⟩]) [] := by
  simpa using step_header acc false p

theorem step_entry (acc : List Sec) (ind p : Nat) (e : Entry) (h : EntryOk e) :
    stepEntry (acc ++ [⟨ind, p, 1, []⟩]) [] (entryBytes e) = .more (acc ++ [⟨ind, p, 1, [e]⟩]) [] := by
  have hw := waiting_open acc ind p
  have hp := parseEntry_entryBytes e h
  have hf := entryBytes_first e
  unfold stepEntry
  simp only [hw, hp, hf]
  cases e.bootable <;> simp [addToLast]

def zero32 : List Nat := List.replicate 32 0

theorem step_zero (acc : List Sec) (h : waiting acc = false) : ∃ u, stepEntry acc [] zero32 = u ∧ (match u with | .done => True | _ => False) := by
  refine ⟨.done, ?_, trivial⟩
  simp [stepEntry, zero32, h]

/-- the 32-byte entries of the sections -/
def secChunks : List (Nat × Entry) → List (List Nat)
  | [] => []
  | [(p, e)] => [headerBytes true p, entryBytes e]
  | (p, e) :: rest => headerBytes false p :: entryBytes e :: secChunks rest

theorem secChunks_length (s : List (Nat × Entry)) : (secChunks s).length = 2 * s.length := by
  induction s with
  | nil => rfl
  | cons x xs ih =>
    obtain ⟨p, e⟩ := x
    cases xs with
    | nil => rfl
    | cons y ys => simp only [secChunks, List.length_cons] at ih ⊢; omega

theorem secChunks_flatten (s : List (Nat × Entry)) : (secChunks s).flatten = sectionsBytes s := by
  induction s with
  | nil => rfl
  | cons x xs ih =>
    obtain ⟨p, e⟩ := x
    cases xs with
    | nil => simp [secChunks, sectionsBytes]
    | cons y ys => simp only [secChunks, sectionsBytes, List.flatten_cons, ih, List.append_assoc]

theorem secChunks_len32 (s : List (Nat × Entry)) : ∀ c ∈ secChunks s, c.length = 32 := by
  induction s with
  | nil => intro c hc; cases hc
  | cons x xs ih =>
    obtain ⟨p, e⟩ := x
    cases xs with
    | nil =>
      intro c hc
      simp only [secChunks, List.mem_cons, List.not_mem_nil, or_false] at hc
      rcases hc with rfl | rfl
      · simp [headerBytes, le16n]
      · simp [entryBytes, le16n, le32n]
    | cons y ys =>
      intro c hc
      simp only [secChunks, List.mem_cons] at hc
      rcases hc with rfl | rfl | hc
      · simp [headerBytes, le16n]
      · simp [entryBytes, le16n, le32n]
      · exact ih c (by simpa [secChunks] using hc)

/-- complete sections with intermediate headers: what has been read before the current position -/
def AccOk (acc : List Sec) : Prop := ∀ x ∈ acc, x.declared = x.entries.length ∧ x.indicator = 0x90

theorem finishOk_cons (x : Sec) (l : List Sec) (h1 : x.declared = x.entries.length) (h2 : x.indicator = 0x90) :
    finishOk (x :: l) = finishOk l := by
  cases l with
  | nil => simp [finishOk, h1]
  | cons y ys => simp [finishOk, h1, h2]

theorem finishOk_append (acc l : List Sec) (h : AccOk acc) : finishOk (acc ++ l) = finishOk l := by
  induction acc with
  | nil => rfl
  | cons x xs ih =>
    have hx := h x (by simp)
    rw [List.cons_append, finishOk_cons x _ hx.1 hx.2]
    exact ih (fun y hy => h y (by simp [hy]))

theorem finishOk_secsOf (s : List (Nat × Entry)) : finishOk (secsOf s) = true := by
  induction s with
  | nil => rfl
  | cons x xs ih =>
    obtain ⟨p, e⟩ := x
    cases xs with
    | nil => simp [secsOf, finishOk]
    | cons y ys =>
      simp only [secsOf] at ih ⊢
      rw [finishOk_cons _ _ (by rfl) (by rfl)]
      exact ih

theorem waiting_acc_secsOf (acc : List Sec) (s : List (Nat × Entry)) (h : waiting acc = false) :
    waiting (acc ++ secsOf s) = false := by
  induction s generalizing acc with
  | nil => simpa [secsOf] using h
  | cons x xs ih =>
    obtain ⟨p, e⟩ := x
    cases xs with
    | nil => exact waiting_closed acc _ p e
    | cons y ys =>
      have := ih (acc ++ [⟨0x90, p, 1, [e]⟩]) (waiting_closed acc _ p e)
      simpa [secsOf, List.append_assoc] using this

/-- **the sections are read one after the other**: `n` entries read so far, the remaining sections fit the sector -/
theorem parseRest_sections (pl : Nat) (ini : Entry) (s : List (Nat × Entry)) :
    ∀ (acc : List Sec) (n : Nat) (tail : List (List Nat)),
      (∀ pe ∈ s, EntryOk pe.2) → waiting acc = false → n + 2 * s.length ≤ 64 →
      parseRest pl ini (secChunks s ++ tail) n acc [] = parseRest pl ini tail (n + 2 * s.length) (acc ++ secsOf s) [] := by
  induction s with
  | nil => intro acc n tail _ _ _; simp [secChunks, secsOf]
  | cons x xs ih =>
    obtain ⟨p, e⟩ := x
    intro acc n tail hok hw hn
    have he : EntryOk e := hok (p, e) (by simp)
    have hxs : ∀ pe ∈ xs, EntryOk pe.2 := fun pe hpe => hok pe (by simp [hpe])
    simp only [List.length_cons] at hn
    have hn1 : ¬ (n = 64 ∧ waiting acc = false) := by omega
    cases xs with
    | nil =>
      have hn2 : ¬ (n + 1 = 64 ∧ waiting (acc ++ [⟨0x91, p, 1, []⟩]) = false) := by
        rw [waiting_open]; simp
      simp only [secChunks, secsOf, List.cons_append, List.nil_append, List.length_cons, List.length_nil]
      rw [parseRest, if_neg hn1, step_header_last]
      dsimp only
      rw [parseRest, if_neg hn2, step_entry _ _ _ _ he]
    | cons y ys =>
      have hn2 : ¬ (n + 1 = 64 ∧ waiting (acc ++ [⟨0x90, p, 1, []⟩]) = false) := by
        rw [waiting_open]; simp
      have := ih (acc ++ [⟨0x90, p, 1, [e]⟩]) (n + 2) tail hxs (waiting_closed acc _ p e)
        (by simp only [List.length_cons] at hn ⊢; omega)
      simp only [secChunks, secsOf, List.cons_append, List.length_cons]
      rw [parseRest, if_neg hn1, step_header_mid]
      dsimp only
      rw [parseRest, if_neg hn2, step_entry _ _ _ _ he]
      show parseRest pl ini (secChunks (y :: ys) ++ tail) (n + 2) (acc ++ [⟨0x90, p, 1, [e]⟩]) [] = _
      rw [this]
      have e1 : n + 2 + 2 * (y :: ys).length = n + 2 * ((y :: ys).length + 1) := by omega
      rw [e1, List.append_assoc]
      rfl

/-- cutting a string that starts with whole entries -/
theorem toChunks_flatten (cs : List (List Nat)) (h : ∀ c ∈ cs, c.length = 32) (rest : List Nat) (fuel : Nat) :
    toChunks (cs.length + fuel) (cs.flatten ++ rest) = cs ++ toChunks fuel rest := by
  induction cs with
  | nil => simp
  | cons c cs ih =>
    have hc : c.length = 32 := h c (by simp)
    have h' : ∀ d ∈ cs, d.length = 32 := fun d hd => h d (by simp [hd])
    have : (c :: cs).length + fuel = (cs.length + fuel) + 1 := by simp; omega
    rw [this, toChunks]
    simp only [List.flatten_cons, List.append_assoc, List.length_append, hc]
    rw [if_neg (by omega)]
    have ht : List.take 32 (c ++ (cs.flatten ++ rest)) = c := by
      rw [List.take_append_of_le_length (by omega)]; exact List.take_of_length_le (by omega)
    have hd : List.drop 32 (c ++ (cs.flatten ++ rest)) = cs.flatten ++ rest := by
      rw [← hc]; exact List.drop_left
    rw [ht, hd, ih h']
    rfl

theorem flatten_zero32 (k : Nat) : (List.replicate k zero32).flatten = List.replicate (32 * k) 0 := by
  induction k with
  | zero => rfl
  | succ k ih =>
    rw [List.replicate_succ, List.flatten_cons, ih, zero32, List.replicate_append_replicate]
    congr 1
    omega

/-- the 64 entries of a catalog sector -/
def catalogChunks (p : Nat) (i : Entry) (s : List (Nat × Entry)) : List (List Nat) :=
  validationBytes p :: entryBytes i :: (secChunks s ++ List.replicate (62 - 2 * s.length) zero32)

theorem catalogChunks_flatten (p : Nat) (hp : p < 256) (i : Entry) (s : List (Nat × Entry)) (hs : s.length ≤ 31) :
    (catalogChunks p i s).flatten = catalogSector p i s := by
  unfold catalogChunks catalogSector
  simp only [List.flatten_cons, List.flatten_append, secChunks_flatten, flatten_zero32]
  rw [catalog_length p hp]
  have : 32 * (62 - 2 * s.length) = 2048 - (64 + 64 * s.length) := by omega
  rw [this]
  simp [catalogBytes, List.append_assoc]

theorem catalogChunks_len32 (p : Nat) (hp : p < 256) (i : Entry) (s : List (Nat × Entry)) :
    ∀ c ∈ catalogChunks p i s, c.length = 32 := by
  intro c hc
  simp only [catalogChunks, List.mem_cons, List.mem_append, List.mem_replicate] at hc
  rcases hc with rfl | rfl | hc | hc
  · exact (validation_sum p hp).2.2.2
  · exact entryBytes_length i
  · exact secChunks_len32 s c hc
  · rw [hc.2]; simp [zero32]

theorem catalogChunks_length (p : Nat) (i : Entry) (s : List (Nat × Entry)) (hs : s.length ≤ 31) :
    (catalogChunks p i s).length = 64 := by
  simp only [catalogChunks, List.length_cons, List.length_append, secChunks_length, List.length_replicate]
  omega

/-- at the end of the sector the catalog is complete, whatever is left to read -/
theorem parseRest_at_end (pl : Nat) (ini : Entry) (l : List (List Nat)) (secs : List Sec) (alone : List Entry)
    (h : waiting secs = false) :
    parseRest pl ini l 64 secs alone = if finishOk secs then some ⟨pl, ini, secs, alone⟩ else none := by
  cases l <;> simp [parseRest, h]

/-- **C11 / C02 — a recorded catalog is read back as recorded, whatever follows its sector.**  `rest` is arbitrary:
the bytes of the next sector (a boot file, usually) have no influence, also when the catalog has no room for a
terminating empty entry (31 sections). -/
theorem catalog_parse_roundtrip (p : Nat) (hp : p = 0 ∨ p = 1 ∨ p = 2 ∨ p = 0xef) (i : Entry) (hi : EntryOk i)
    (s : List (Nat × Entry)) (hs : s.length ≤ 31) (hok : ∀ pe ∈ s, EntryOk pe.2) (rest : List Nat) :
    parseCatalog (catalogSector p i s ++ rest) = some (expectedCat p i s) := by
  have hp256 : p < 256 := by rcases hp with rfl | rfl | rfl | rfl <;> decide
  have hlen : (catalogSector p i s ++ rest).length = (catalogChunks p i s).length + (1984 + rest.length) := by
    rw [catalogChunks_length p i s hs, ← catalogChunks_flatten p hp256 i s hs]
    have : ((catalogChunks p i s).flatten).length = 2048 := by
      rw [catalogChunks_flatten p hp256 i s hs]
      unfold catalogSector
      simp only [List.length_append, List.length_replicate, catalog_length p hp256]
      omega
    simp only [List.length_append, this]
    omega
  unfold parseCatalog
  rw [hlen, ← catalogChunks_flatten p hp256 i s hs,
    toChunks_flatten _ (catalogChunks_len32 p hp256 i s) rest]
  simp only [catalogChunks, List.cons_append]
  rw [parseValidation_validationBytes p hp, parseEntry_entryBytes i hi]
  simp only []
  rw [List.append_assoc, parseRest_sections p i s [] 2 _ hok rfl (by omega)]
  simp only [List.nil_append]
  have hw : waiting (secsOf s) = false := by simpa using waiting_acc_secsOf [] s rfl
  by_cases hfull : s.length = 31
  · have e : 2 + 2 * s.length = 64 := by omega
    rw [e, parseRest_at_end _ _ _ _ _ hw, finishOk_secsOf]
    rfl
  · have hk : 62 - 2 * s.length = (61 - 2 * s.length) + 1 := by omega
    rw [hk, List.replicate_succ, List.cons_append, parseRest]
    have hn : ¬ (2 + 2 * s.length = 64 ∧ waiting (secsOf s) = false) := by omega
    rw [if_neg hn]
    have hz : stepEntry (secsOf s) [] zero32 = .done := by simp [stepEntry, zero32, hw]
    rw [hz]
    simp only [finishOk_secsOf]
    rfl

/-- **why the end-of-sector rule is needed**: after a full catalog the next 32 bytes belong to whatever is stored in
the next sector; read as one more catalog entry they end the catalog (zeros), make the image unreadable (a byte that
starts no kind of entry), or add a boot entry nobody recorded (0x88 ...). -/
theorem without_rule_next_sector_decides (secs : List Sec) (h : waiting secs = false) :
    stepEntry secs [] zero32 = .done ∧
    stepEntry secs [] (0x42 :: List.replicate 31 0) = .bad ∧
    stepEntry secs [] (0x88 :: List.replicate 31 0) =
      .more secs [{ bootable := true, media := 0, loadSeg := 0, sysType := 0, count := 0, rba := 0 }] := by
  refine ⟨by simp [stepEntry, zero32, h], by simp [stepEntry, h], ?_⟩
  simp [stepEntry, h, parseEntry, rd16, rd32]

/-- non-vacuity: a full catalog (31 sections, alternating platforms, a non-bootable entry among them) followed by a
sector that starts with 0x88 -/
example :
    let s : List (Nat × Entry) := (List.range 31).map fun k =>
      (if k % 2 = 0 then 0xef else 0, { bootable := k ≠ 3, media := 0, loadSeg := 0, sysType := 0, count := 4, rba := 30 + k })
    parseCatalog (catalogSector 0 ⟨true, 0, 0, 0, 4, 29⟩ s ++ (0x88 :: List.replicate 2047 7)) =
      some (expectedCat 0 ⟨true, 0, 0, 0, 4, 29⟩ s) := by
  decide +kernel

end Pycdlib.Boot
