/-
Props/C10 — UDF descriptor tags and File Identifier packing.
  * `tag_valid`: the tag the library computes for any descriptor body passes the checks of an ECMA-167 reader
    (identifier, checksum over the tag, CRC-CCITT over the body, CRC length, location), for every body < 64 KiB;
  * `crc_ccitt_tie` (Props/Tie): the CRC function in udf.py — table regenerated from the source on every run — is the
    bit-by-bit CRC-16/CCITT for every byte string;
  * `fid_spill_is_floor`: the block recorded in each FID's tag is the block its first byte lands in when the FIDs are
    written back to back (they may straddle blocks), for every list of FID lengths ≤ 2048;
  * `fid_len_mul4`: FID lengths are multiples of 4 and hold the name.
-/
import Pycdlib.Model.Udf
import Pycdlib.Props.Tie
namespace Pycdlib.Udf

theorem crc16Byte_lt' (crc x : Nat) : crc16Byte crc x < 65536 := by
  have hs : ∀ c, crc16Shift c < 65536 := by intro c; unfold crc16Shift; split <;> omega
  unfold crc16Byte iter8; exact hs _

theorem crc16_lt (data : List Nat) : crc16 data < 65536 := by
  unfold crc16
  have key : ∀ (l : List Nat) (c : Nat), c < 65536 → l.foldl crc16Byte c < 65536 := by
    intro l
    induction l with
    | nil => intro c hc; exact hc
    | cons x xs ih => intro c _; exact ih _ (crc16Byte_lt' c x)
  exact key data 0 (by decide)

/-- **every tag the library computes is valid** -/
theorem tag_valid (ident ver serial loc : Nat) (body : List Nat)
    (hi : ident < 65536) (hl : loc < 2 ^ 32) (hb : body.length < 65536) :
    tagValid (tagBytes ident ver serial loc body) body ident loc = true := by
  have hc := crc16_lt body
  unfold tagValid tagBytes tagChecksum
  simp only [List.cons_append, List.nil_append, List.length_cons, List.length_nil, List.getD_cons_zero,
    List.getD_cons_succ, List.sum_cons, List.sum_nil, Bool.and_eq_true, decide_eq_true_eq]
  refine ⟨⟨⟨⟨⟨trivial, by omega⟩, ?_⟩, by omega⟩, by omega⟩, by omega⟩
  -- the checksum clause only needs the sixteen byte values as opaque numbers
  generalize ident % 256 = a0
  generalize ident / 256 % 256 = a1
  generalize ver % 256 = a2
  generalize ver / 256 % 256 = a3
  generalize serial % 256 = b1
  generalize serial / 256 % 256 = b2
  generalize crc16 body % 256 = b3
  generalize crc16 body / 256 % 256 = b4
  generalize body.length % 256 = b5
  generalize body.length / 256 % 256 = b6
  generalize loc % 256 = b7
  generalize loc / 256 % 256 = b8
  generalize loc / 65536 % 256 = b9
  generalize loc / 16777216 % 256 = b10
  omega

/-- the running-offset loop assigns each FID the block its first byte falls into (absolute position
`blk * bs + off`), for any FID lengths not exceeding a block -/
theorem fid_spill_invariant (bs : Nat) (hbs : 0 < bs) (lens : List Nat) (hl : ∀ l ∈ lens, l ≤ bs)
    (blk off : Nat) (ho : off < 2 * bs) :
    fidAssign bs blk off lens = fidStartBlocks bs (blk * bs + off) lens := by
  induction lens generalizing blk off with
  | nil => rfl
  | cons l ls ih =>
    have hl' := hl l (by simp)
    simp only [fidAssign, fidStartBlocks]
    by_cases h : off ≥ bs
    · simp only [h, if_true]
      have hd : (blk * bs + off) / bs = blk + 1 := by
        have e : blk * bs + off = (off - bs) + (blk + 1) * bs := by
          rw [Nat.add_mul, Nat.one_mul]; omega
        rw [e, Nat.add_mul_div_right _ _ hbs, Nat.div_eq_of_lt (by omega)]; omega
      rw [hd, ih (fun x hx => hl x (by simp [hx])) (blk + 1) (off - bs + l) (by omega)]
      have e2 : (blk + 1) * bs + (off - bs + l) = blk * bs + off + l := by
        rw [Nat.add_mul, Nat.one_mul]; omega
      rw [e2]
    · simp only [h, if_false]
      have hd : (blk * bs + off) / bs = blk := by
        rw [Nat.add_comm, Nat.add_mul_div_right _ _ hbs, Nat.div_eq_of_lt (by omega)]; omega
      rw [hd, ih (fun x hx => hl x (by simp [hx])) blk (off + l) (by omega)]
      have e2 : blk * bs + (off + l) = blk * bs + off + l := by omega
      rw [e2]

/-- **FID tag locations**: starting at block 0, the block recorded for each FID is the block in which its
first byte lands when the FIDs are written back to back -/
theorem fid_spill_is_floor (lens : List Nat) (hl : ∀ l ∈ lens, l ≤ 2048) :
    fidAssign 2048 0 0 lens = fidStartBlocks 2048 0 lens := by
  have := fid_spill_invariant 2048 (by decide) lens hl 0 0 (by decide)
  simpa using this

theorem fid_len_mul4 (n : Nat) : fidLen n % 4 = 0 ∧ 38 + (if n > 0 then n + 1 else 0) ≤ fidLen n ∧
    fidLen n < 38 + (if n > 0 then n + 1 else 0) + 4 := by
  unfold fidLen; split <;> omega

/-- tie: `UDFFileIdentifierDescriptor.length` regenerated from udf.py -/
theorem fid_len_tie (n : Nat) : Generated.fid_length n = (fidLen n : Int) := by
  rw [fid_length_tie]; unfold fidLen; rfl

/-- non-vacuity -/
example : tagValid (tagBytes 257 3 0 5 [1, 2, 3]) [1, 2, 3] 257 5 = true := by decide +kernel
example : fidAssign 2048 0 0 [1000, 1000, 1000, 40] = [0, 0, 0, 1] := by decide

end Pycdlib.Udf
