/-
Props/C07 — hard-link semantics of the specification's blob store.
  * `addLink_shares`: a new link refers to the same blob as the old name (same bytes, stored once) and changes
    no existing entry;
  * `rmLink_keeps_blob_iff`: after removing one link the blob is still there iff another name or an El Torito
    entry refers to it — released exactly at the last reference;
  * `rmFile_exact`, `rmFile_releases`, `rmLink_local`, `gc_referenced` (Props/C01).
-/
import Pycdlib.Props.C01
namespace Pycdlib.Spec

theorem addLink_shares (s s' : State) (ons nns : NS) (o n : Path) (rr : Bytes)
    (h : step s (.addLink ons o nns n rr) = some s') :
    ∃ e b, s.find ons o = some e ∧ e.node = .file b ∧
      (∀ x ∈ s.entries, x ∈ s'.entries) ∧
      (∃ e' ∈ s'.entries, e'.ns = nns ∧ e'.path = n ∧ e'.node = .file b) ∧
      s'.blobs = s.blobs := by
  simp only [step] at h
  cases hf : s.find ons o with
  | none => simp [hf] at h
  | some e =>
    simp only [hf] at h
    cases hn : e.node with
    | dir => simp [hn] at h
    | symlink t => simp [hn] at h
    | file b =>
      simp only [hn] at h
      split at h
      · cases h
      · simp only [Option.some.injEq] at h
        subst h
        refine ⟨e, b, rfl, hn, fun x hx => by simp [hx], ?_, rfl⟩
        exact ⟨{ ns := nns, path := n, node := Node.file b, rrName := if nns = NS.iso then rr else [],
                 mode := if nns = NS.iso ∧ s.rr = true then if ons = NS.iso then e.mode else 0 else 0 },
               by simp, rfl, rfl, rfl⟩

/-- the blob of a removed link survives iff something still refers to it -/
theorem rmLink_keeps_blob_iff (s s' : State) (ns : NS) (p : Path) (e : Entry) (b : Nat) (bl : Blob)
    (hf : s.find ns p = some e) (hb : e.node = .file b) (hbl : bl ∈ s.blobs) (hid : bl.id = b)
    (h : step s (.rmLink ns p) = some s') :
    bl ∈ s'.blobs ↔ s'.refs b > 0 := by
  simp only [step, hf, hb, Option.some.injEq] at h
  subst h
  simp only [State.gc, List.mem_filter, decide_eq_true_eq, hbl, true_and, hid]
  simp [State.refs]

/-- non-vacuity: two names, remove one: content stays; remove the other: content goes -/
example :
    ((run { rr := false } [.addFp { cid := 1, len := 3, iso := some [[65]] }, .addLink .iso [[65]] .joliet [[97]] [],
                           .rmLink .iso [[65]]]).map (·.blobs.length),
     (run { rr := false } [.addFp { cid := 1, len := 3, iso := some [[65]] }, .addLink .iso [[65]] .joliet [[97]] [],
                           .rmLink .iso [[65]], .rmLink .joliet [[97]]]).map (·.blobs.length)) = (some 1, some 0) := by
  decide +kernel

end Pycdlib.Spec
