/-
Props/C20 — the pure logic of pycdlib-genisoimage that the round trip rests on.
 * collision numbering (`build_iso_path`): every identifier handed out in a directory is new, so the identifiers of
   one directory are pairwise distinct for ANY list of source names; the tool gives up only when all 1000 numbered
   candidates are taken; numbered identifiers are legal at levels 1-3.
 * Joliet path components never exceed 64 characters.
 * duplicate detection by (size, 32-bit murmur3) is not injective: a kernel-checked collision (`mm3_collision`),
   which is the replay of recorded finding C20.dedup/hash-collision.
The tree walk, option handling and extraction are decided by running the real scripts (harness/props/c20.py).
-/
import Pycdlib.Model.Tools
import Pycdlib.Props.C18
namespace Pycdlib.Tools
open Pycdlib

theorem digit_inj : ∀ a b : Fin 10, digit a.val = digit b.val → a = b := by decide

theorem digit_mod (d : Nat) : digit d = digit (d % 10) := by simp [digit]

theorem digit_eq {a b : Nat} (h : digit a = digit b) : a % 10 = b % 10 := by
  have := digit_inj ⟨a % 10, Nat.mod_lt _ (by decide)⟩ ⟨b % 10, Nat.mod_lt _ (by decide)⟩
    (by simpa [← digit_mod] using h)
  simpa using congrArg Fin.val this

/-- `'%.03d'` is injective below 1000 -/
theorem fmt3_injective (a b : Nat) (ha : a < 1000) (hb : b < 1000) (h : fmt3 a = fmt3 b) : a = b := by
  simp only [fmt3, ha, hb, if_true, List.cons.injEq, and_true] at h
  obtain ⟨h1, h2, h3⟩ := h
  have := digit_eq h1; have := digit_eq h2; have := digit_eq h3
  omega

theorem fmt3_length (a : Nat) (ha : a < 1000) : (fmt3 a).length = 3 := by simp [fmt3, ha]

theorem digit_d1 (d : Nat) : isD1Char (digit d) = true := by
  rw [digit_mod]
  have : ∀ x : Fin 10, isD1Char (digit x.val) = true := by decide
  exact this ⟨d % 10, Nat.mod_lt _ (by decide)⟩

theorem fmt3_d1 (a : Nat) (ha : a < 1000) : ∀ c ∈ fmt3 a, isD1Char c = true := by
  simp only [fmt3, ha, if_true, List.mem_cons, List.not_mem_nil, or_false]
  rintro c (h | h | h) <;> subst h <;> exact digit_d1 _

/-- distinct numbers give distinct candidates -/
theorem candidate_injective (d : Bool) (pre ext : List Char) (a b : Nat) (ha : a < 1000) (hb : b < 1000)
    (h : candidate d pre ext a = candidate d pre ext b) : a = b := by
  unfold candidate at h
  cases d
  · simp only [Bool.false_eq_true, if_false, List.append_assoc] at h
    have h' := List.append_cancel_left h
    have := (List.append_inj h' (by rw [fmt3_length a ha, fmt3_length b hb])).1
    exact fmt3_injective a b ha hb this
  · simp only [if_true] at h
    exact fmt3_injective a b ha hb (List.append_cancel_left h)

/-- the search returns only identifiers that are not yet used in the directory -/
theorem firstFree_fresh (ch : List (List Char)) (d : Bool) (pre ext : List Char) (fuel n : Nat) (t : List Char)
    (h : firstFree ch d pre ext fuel n = some t) : t ∉ ch := by
  induction fuel generalizing n with
  | zero => simp [firstFree] at h
  | succ f ih =>
    unfold firstFree at h
    split at h
    · exact ih _ h
    · cases h; assumption

/-- the search fails only when every one of the `fuel` candidates is taken -/
theorem firstFree_none (ch : List (List Char)) (d : Bool) (pre ext : List Char) (fuel n : Nat)
    (h : firstFree ch d pre ext fuel n = none) : ∀ k, n ≤ k → k < n + fuel → candidate d pre ext k ∈ ch := by
  induction fuel generalizing n with
  | zero => intro k h1 h2; omega
  | succ f ih =>
    unfold firstFree at h
    split at h
    · rename_i hin
      intro k h1 h2
      by_cases hk : k = n
      · subst hk; exact hin
      · exact ih (n + 1) h k (by omega) (by omega)
    · cases h

/-- **C20 (collision numbering, one step)**: `build_iso_path` either hands out an identifier that no sibling has,
and records it, or (only when the name and all 1000 numbered candidates are taken) returns None and changes nothing. -/
theorem isoChild_fresh (upper : Upper) (ch : List (List Char)) (name : List Char) (lvl : Nat) (d : Bool) :
    (∃ t, isoChild upper ch name lvl d = (some t, t :: ch) ∧ t ∉ ch) ∨
    (isoChild upper ch name lvl d = (none, ch) ∧ 1000 ≤ ch.length) := by
  unfold isoChild
  generalize (if d = true then (mangleDir upper name lvl, ([] : List Char)) else mangleFile upper name lvl) = p
  obtain ⟨base, ext⟩ := p
  simp only
  generalize (if (d || decide (ext = [])) = true then base else base ++ '.' :: ext) = mangled
  by_cases hin : mangled ∈ ch
  · simp only [hin, if_true]
    cases hff : firstFree ch d (List.take 5 base) ext 1000 0 with
    | some t => exact Or.inl ⟨t, rfl, firstFree_fresh _ _ _ _ _ _ _ hff⟩
    | none =>
      refine Or.inr ⟨rfl, ?_⟩
      have hall := firstFree_none _ _ _ _ _ _ hff
      -- 1000 pairwise distinct candidates are members of `ch`
      let cands := (List.range 1000).map (candidate d (List.take 5 base) ext)
      have hnd : cands.Nodup := by
        show List.Pairwise (· ≠ ·) _
        rw [List.pairwise_map]
        refine List.Pairwise.imp_of_mem ?_ (List.nodup_range (n := 1000))
        intro a b ha hb hne heq
        exact hne (candidate_injective d _ ext a b (List.mem_range.mp ha) (List.mem_range.mp hb) heq)
      have hsub : cands ⊆ ch := by
        intro x hx
        obtain ⟨k, hk, rfl⟩ := List.mem_map.mp hx
        exact hall k (Nat.zero_le _) (by simpa using List.mem_range.mp hk)
      have := hnd.length_le_of_subset hsub
      simpa [cands] using this
  · simp only [hin, if_false]
    exact Or.inl ⟨_, rfl, hin⟩

/-- **C20 (collision numbering, whole directory)**: for every list of source names, level and kind, the identifiers
handed out in one directory are pairwise distinct and distinct from those already there. -/
theorem isoChildren_nodup (upper : Upper) (lvl : Nat) (d : Bool) (names : List (List Char)) (ch : List (List Char))
    (hch : ch.Nodup) :
    let r := isoChildren upper lvl d ch names
    r.2.Nodup ∧ (r.1.filterMap id).Nodup ∧ (∀ t ∈ r.1.filterMap id, t ∉ ch ∧ t ∈ r.2) ∧ (∀ t ∈ ch, t ∈ r.2) := by
  induction names generalizing ch with
  | nil => simp [isoChildren, hch]
  | cons n ns ih =>
    simp only [isoChildren]
    rcases isoChild_fresh upper ch n lvl d with ⟨t, ht, hfresh⟩ | ⟨hnone, _⟩
    · rw [ht]
      have hch' : (t :: ch).Nodup := List.nodup_cons.mpr ⟨hfresh, hch⟩
      obtain ⟨h1, h2, h3, h4⟩ := ih (t :: ch) hch'
      simp only at h1 h2 h3 h4 ⊢
      refine ⟨h1, ?_, ?_, ?_⟩
      · simp only [List.filterMap_cons, id]
        refine List.nodup_cons.mpr ⟨?_, h2⟩
        intro hin
        exact (h3 t hin).1 (List.mem_cons_self)
      · intro x hx
        simp only [List.filterMap_cons, id, List.mem_cons] at hx
        rcases hx with rfl | hx
        · exact ⟨hfresh, h4 _ List.mem_cons_self⟩
        · exact ⟨fun hc => (h3 x hx).1 (List.mem_cons_of_mem _ hc), (h3 x hx).2⟩
      · intro x hx; exact h4 x (List.mem_cons_of_mem _ hx)
    · rw [hnone]
      obtain ⟨h1, h2, h3, h4⟩ := ih ch hch
      simp only at h1 h2 h3 h4 ⊢
      exact ⟨h1, by simpa [List.filterMap_cons] using h2, by simpa [List.filterMap_cons] using h3, h4⟩

/-- corollary in the form the property uses: starting from an empty directory -/
theorem collision_names_distinct (upper : Upper) (lvl : Nat) (d : Bool) (names : List (List Char)) :
    ((isoChildren upper lvl d [] names).1.filterMap id).Nodup :=
  (isoChildren_nodup upper lvl d names [] List.nodup_nil).2.1

/-- a numbered file identifier `PREFIX%.03d.EXT;1` is accepted by the library at levels 1-3 -/
theorem collision_file_legal (upper : Upper) (hup : ∀ c, upper c ≠ []) (s : List Char) (hs : s ≠ [])
    (lvl : Nat) (hl : 1 ≤ lvl ∧ lvl ≤ 3) (n : Nat) (hn : n < 1000) :
    checkIsoFilename lvl (asciiBytes (candidate false ((mangleFile upper s lvl).1.take 5) (mangleFile upper s lvl).2 n))
      = .ok () := by
  have h4 : lvl ≠ 4 := by omega
  obtain ⟨b, e, hm, hb, he, _, hel, _⟩ := mangleFile_shape upper hup s hs lvl h4
  rw [hm]
  simp only [candidate, Bool.false_eq_true, if_false]
  apply file_ident_legal lvl (b.take 5 ++ fmt3 n) e
  · intro c hc
    rcases List.mem_append.mp hc with h | h
    · exact hb c (List.mem_of_mem_take h)
    · exact fmt3_d1 n hn c h
  · exact he
  · rw [List.length_append, fmt3_length n hn, List.length_take]
    have : 8 ≤ maxLen lvl false := by unfold maxLen; split <;> simp
    omega
  · exact hel
  · left; intro h
    have := congrArg List.length h
    rw [List.length_append, fmt3_length n hn, List.length_nil] at this
    omega

/-- a numbered directory identifier is accepted by the library at levels 1-3 -/
theorem collision_dir_legal (upper : Upper) (s : List Char) (lvl : Nat) (hl : 1 ≤ lvl ∧ lvl ≤ 3) (n : Nat)
    (hn : n < 1000) :
    checkIsoDirectory lvl (asciiBytes (candidate true ((mangleDir upper s lvl).take 5) [] n)) = .ok () := by
  have h4 : lvl ≠ 4 := by omega
  apply (check_dir_iff _ _).mpr
  simp only [candidate, if_true]
  have hc : ∀ c ∈ (mangleDir upper s lvl).take 5 ++ fmt3 n, isD1Char c = true := by
    intro c hc
    rcases List.mem_append.mp hc with h | h
    · exact truncate_chars upper s lvl true h4 c (List.mem_of_mem_take h)
    · exact fmt3_d1 n hn c h
  have hlen : ((mangleDir upper s lvl).take 5 ++ fmt3 n).length ≤ 8 := by
    rw [List.length_append, fmt3_length n hn, List.length_take]; omega
  have hpos : 3 ≤ ((mangleDir upper s lvl).take 5 ++ fmt3 n).length := by
    rw [List.length_append, fmt3_length n hn]; omega
  refine ⟨?_, ?_, ?_, fun _ => asciiBytes_d1 _ hc⟩
  · intro h
    have := congrArg List.length h
    rw [asciiBytes_length] at this
    simp only [List.length_nil] at this
    omega
  · intro _; rw [asciiBytes_length]; exact hlen
  · intro _; rw [asciiBytes_length]; omega

/-- **C20 (Joliet)**: every component of a path built by `build_joliet_path` has at most 64 characters -/
theorem joliet_component_le (root : List (List Char)) (name : List Char) :
    ∀ c ∈ jolietComponents root name, c.length ≤ 64 := by
  intro c hc
  simp only [jolietComponents, List.mem_append, List.mem_map, List.mem_singleton] at hc
  rcases hc with ⟨x, _, rfl⟩ | rfl <;> simp [List.length_take, Nat.min_le_left]

def witnessA : List Nat := [0x2d, 0xd1, 0x28, 0x2a, 0xaf, 0x76, 0x29, 0x50]
def witnessB : List Nat := [0xd5, 0x28, 0x2d, 0x64, 0x3f, 0x26, 0x41, 0xca]

/-- **C20 (duplicate detection is unsound)**: two different byte strings of equal length and equal murmur3-32;
`-duplicates-once` treats them as one file. Kernel-evaluated, no axioms beyond the kernel's Nat arithmetic. -/
theorem mm3_collision : witnessA ≠ witnessB ∧ dedupKey witnessA = dedupKey witnessB := by decide +kernel

theorem dedup_key_not_injective : ¬ Function.Injective dedupKey := fun h => mm3_collision.1 (h mm3_collision.2)

example : mm3 0 [] = 0 := by decide +kernel
example : (isoChildren asciiUpper 1 false [] ["ab.txt".toList, "AB.TXT".toList]).1 =
    [some "AB.TXT;1".toList, some "AB000.TXT;1".toList] := by decide +kernel

end Pycdlib.Tools

namespace Pycdlib.Tools
open Pycdlib

theorem firstFree_is_candidate (ch : List (List Char)) (d : Bool) (pre ext : List Char) (fuel n : Nat) (t : List Char)
    (h : firstFree ch d pre ext fuel n = some t) : ∃ k, n ≤ k ∧ k < n + fuel ∧ t = candidate d pre ext k := by
  induction fuel generalizing n with
  | zero => simp [firstFree] at h
  | succ f ih =>
    unfold firstFree at h
    split at h
    · obtain ⟨k, h1, h2, h3⟩ := ih _ h
      exact ⟨k, by omega, by omega, h3⟩
    · cases h; exact ⟨n, Nat.le_refl _, by omega, rfl⟩

/-- **C20 (every identifier the tool hands out is legal)**: at interchange levels 1-3, whatever the source name (non-empty),
whatever the siblings already present and whether or not the name collides, the identifier `build_iso_path` returns is
accepted by the library — as a directory identifier for directories, as a file identifier for files. -/
theorem isoChild_legal (upper : Upper) (hup : ∀ c, upper c ≠ []) (ch : List (List Char)) (name : List Char)
    (hn : name ≠ []) (lvl : Nat) (hl : 1 ≤ lvl ∧ lvl ≤ 3) (d : Bool) (t : List Char) (ch' : List (List Char))
    (h : isoChild upper ch name lvl d = (some t, ch')) :
    (if d then checkIsoDirectory lvl (asciiBytes t) else checkIsoFilename lvl (asciiBytes t)) = .ok () := by
  have h4 : lvl ≠ 4 := by omega
  unfold isoChild at h
  cases d with
  | true =>
    simp only [if_true, Bool.true_or] at h ⊢
    split at h
    · cases hff : firstFree ch true (List.take 5 (mangleDir upper name lvl)) [] 1000 0 with
      | none => simp [hff] at h
      | some t' =>
        simp only [hff, Prod.mk.injEq, Option.some.injEq] at h
        obtain ⟨k, _, hk, rfl⟩ := firstFree_is_candidate _ _ _ _ _ _ _ hff
        rw [← h.1]
        exact collision_dir_legal upper name lvl hl k (by omega)
    · simp only [Prod.mk.injEq, Option.some.injEq] at h
      rw [← h.1]
      exact mangle_dir_legal upper hup name hn lvl hl
  | false =>
    obtain ⟨b, e, hm, _, _, _, _, _⟩ := mangleFile_shape upper hup name hn lvl h4
    have hext : (mangleFile upper name lvl).2 ≠ [] := by rw [hm]; simp
    simp only [Bool.false_eq_true, if_false, Bool.false_or, decide_eq_true_eq, hext] at h ⊢
    split at h
    · cases hff : firstFree ch false (List.take 5 (mangleFile upper name lvl).1) (mangleFile upper name lvl).2 1000 0 with
      | none => simp [hff] at h
      | some t' =>
        simp only [hff, Prod.mk.injEq, Option.some.injEq] at h
        obtain ⟨k, _, hk, rfl⟩ := firstFree_is_candidate _ _ _ _ _ _ _ hff
        rw [← h.1]
        exact collision_file_legal upper hup name hn lvl hl k (by omega)
    · simp only [Prod.mk.injEq, Option.some.injEq] at h
      rw [← h.1]
      have := mangle_file_legal upper hup name hn lvl hl
      unfold mangledFileIdent at this
      exact this

end Pycdlib.Tools

namespace Pycdlib.Tools
open Pycdlib

/-- the whole directory: every identifier handed out is legal (and, by `isoChildren_nodup`, they are pairwise distinct) -/
theorem isoChildren_legal (upper : Upper) (hup : ∀ c, upper c ≠ []) (lvl : Nat) (hl : 1 ≤ lvl ∧ lvl ≤ 3) (d : Bool)
    (names : List (List Char)) (hn : ∀ n ∈ names, n ≠ []) (ch : List (List Char)) :
    ∀ t ∈ (isoChildren upper lvl d ch names).1.filterMap id,
      (if d then checkIsoDirectory lvl (asciiBytes t) else checkIsoFilename lvl (asciiBytes t)) = .ok () := by
  induction names generalizing ch with
  | nil => intro t ht; simp [isoChildren] at ht
  | cons n ns ih =>
    intro t ht
    simp only [isoChildren] at ht
    cases hc : isoChild upper ch n lvl d with
    | mk r ch1 =>
      rw [hc] at ht
      simp only at ht
      cases r with
      | none =>
        simp only [List.filterMap_cons, id] at ht
        exact ih (fun m hm => hn m (List.mem_cons_of_mem _ hm)) ch1 t ht
      | some t0 =>
        simp only [List.filterMap_cons, id, List.mem_cons] at ht
        rcases ht with rfl | ht
        · exact isoChild_legal upper hup ch n (hn n List.mem_cons_self) lvl hl d _ ch1 hc
        · exact ih (fun m hm => hn m (List.mem_cons_of_mem _ hm)) ch1 t ht

end Pycdlib.Tools
