/-
Props/C08Alloc — the continuation-block allocator keeps its invariant over EVERY history: entries sorted by offset,
pairwise disjoint, inside their block.  `addEntry_ok` (the first gap that fits, then sorted insertion) and
`removeEntry_ok` are the steps; `Iso.ceb_ok` lifts them over every history of the bookkeeping machine (Model/Iso), where
the allocator decides which block an entry lands in and when a block is opened or given back.
-/
import Pycdlib.Props.C08
import Pycdlib.Props.C04Iso
namespace Pycdlib.Susp

theorem BlockOk_mono (bs lo lo' : Nat) (b : Block) (h : lo' ≤ lo) (hb : BlockOk bs lo b) : BlockOk bs lo' b := by
  cases b with
  | nil => simp only [BlockOk] at hb ⊢; omega
  | cons e rest => obtain ⟨o, l⟩ := e; simp only [BlockOk] at hb ⊢; exact ⟨by omega, hb.2⟩

/-- **the entry found by `findGap` and inserted in offset order keeps the block invariant** -/
theorem findGap_insert_ok (bs len : Nat) (hlen : 1 ≤ len) (b : Block) :
    ∀ (prevEnd off : Nat), BlockOk bs prevEnd b → findGap bs len prevEnd b = some off →
      BlockOk bs prevEnd (insertSorted (off, len) b) := by
  induction b with
  | nil =>
    intro prevEnd off hb hg
    simp only [findGap] at hg
    split at hg
    · simp only [Option.some.injEq] at hg; subst hg
      simp only [insertSorted, BlockOk]; omega
    · simp at hg
  | cons e rest ih =>
    obtain ⟨o, l⟩ := e
    intro prevEnd off hb hg
    have hb' := hb
    simp only [BlockOk] at hb
    simp only [findGap] at hg
    split at hg
    · rename_i hfit
      simp only [Option.some.injEq] at hg; subst hg
      have : prevEnd < o := by omega
      simp only [insertSorted, this, if_true, BlockOk]
      exact ⟨Nat.le_refl _, hfit, hb.2⟩
    · have hs := findGap_sound bs len (o + l) rest off hb.2 hg
      have : ¬ (off < o) := by omega
      simp only [insertSorted, this, if_false, BlockOk]
      exact ⟨hb.1, ih (o + l) off hb.2 hg⟩

theorem addEntry_ok (bs len : Nat) (hlen : 1 ≤ len) (b : Block) (r : Nat × Block) (hb : BlockOk bs 0 b)
    (h : addEntry bs b len = some r) : BlockOk bs 0 r.2 := by
  unfold addEntry at h
  cases hg : findGap bs len 0 b with
  | none => simp [hg] at h
  | some off =>
    simp [hg] at h; subst h
    exact findGap_insert_ok bs len hlen b 0 off hb hg

theorem filter_ok (bs : Nat) (p : Nat × Nat → Bool) (b : Block) : ∀ lo, BlockOk bs lo b → BlockOk bs lo (b.filter p) := by
  induction b with
  | nil => intro lo h; simpa using h
  | cons e rest ih =>
    obtain ⟨o, l⟩ := e
    intro lo h
    simp only [BlockOk] at h
    simp only [List.filter_cons]
    split
    · simp only [BlockOk]; exact ⟨h.1, ih _ h.2⟩
    · exact BlockOk_mono bs (o + l) lo _ (by omega) (ih _ h.2)

theorem removeEntry_ok (bs : Nat) (b : Block) (off len : Nat) (hb : BlockOk bs 0 b) : BlockOk bs 0 (removeEntry b off len) :=
  filter_ok bs _ b 0 hb

end Pycdlib.Susp

namespace Pycdlib.Iso
open Pycdlib Pycdlib.Susp

/-- every continuation block is sound: sorted, pairwise disjoint entries inside the block -/
def CebOk (s : State) : Prop := ∀ b ∈ s.ceb, BlockOk BS 0 b

theorem ceAdd_ok (len : Nat) (hlen : 1 ≤ len) (bs : List Block) (h : ∀ b ∈ bs, BlockOk BS 0 b) :
    ∀ b ∈ (ceAdd len bs).1, BlockOk BS 0 b := by
  induction bs with
  | nil =>
    intro b hb
    simp only [ceAdd, List.mem_singleton] at hb
    subst hb
    cases ha : addEntry BS [] len with
    | none => simp [BlockOk]
    | some r => simp only; exact addEntry_ok BS len hlen [] r (by simp [BlockOk]) ha
  | cons b0 rest ih =>
    simp only [ceAdd]
    cases ha : addEntry BS b0 len with
    | some r =>
      intro b hb
      simp only [List.mem_cons] at hb
      rcases hb with rfl | hb
      · exact addEntry_ok BS len hlen b0 r (h b0 (by simp)) ha
      · exact h b (by simp [hb])
    | none =>
      intro b hb
      simp only [List.mem_cons] at hb
      rcases hb with rfl | hb
      · exact h _ (by simp)
      · exact ih (fun x hx => h x (by simp [hx])) b hb

theorem ceFree_ok (idx off len : Nat) (bs : List Block) (r : List Block × Nat) (h : ∀ b ∈ bs, BlockOk BS 0 b)
    (hf : ceFree idx off len bs = some r) : ∀ b ∈ r.1, BlockOk BS 0 b := by
  induction bs generalizing idx r with
  | nil => simp [ceFree] at hf
  | cons b0 rest ih =>
    simp only [ceFree] at hf
    by_cases hi : idx = 0
    · rw [if_pos hi] at hf
      by_cases hc : b0.contains (off, len) = true
      · rw [if_pos hc] at hf
        by_cases he : (removeEntry b0 off len).isEmpty = true
        · rw [if_pos he] at hf; simp only [Option.some.injEq] at hf; subst hf
          exact fun b hb => h b (by simp [hb])
        · rw [if_neg he] at hf; simp only [Option.some.injEq] at hf; subst hf
          intro b hb
          simp only [List.mem_cons] at hb
          rcases hb with rfl | hb
          · exact removeEntry_ok BS b0 off len (h b0 (by simp))
          · exact h b (by simp [hb])
      · rw [if_neg hc] at hf; simp at hf
    · rw [if_neg hi] at hf
      cases hx : ceFree (idx - 1) off len rest with
      | none => simp [hx] at hf
      | some x =>
        simp [hx] at hf; subst hf
        intro b hb
        simp only [List.mem_cons] at hb
        rcases hb with rfl | hb
        · exact h _ (by simp)
        · exact ih (idx - 1) x (fun y hy => h y (by simp [hy])) hx b hb

theorem blockOkB_iff (bs : Nat) (b : Block) : ∀ lo, blockOkB bs lo b = true ↔ BlockOk bs lo b := by
  induction b with
  | nil => intro lo; simp [blockOkB, BlockOk]
  | cons e rest ih => obtain ⟨o, l⟩ := e; intro lo; simp [blockOkB, BlockOk, ih]

theorem cebOkB_iff (s : State) : cebOkB s = true ↔ CebOk s := by
  simp [cebOkB, CebOk, List.all_eq_true, blockOkB_iff]

/-- the continuation areas asked for have at least one byte (the machine's precondition on histories) -/
def ceLensPos : Op → Prop
  | .add parts _ => ∀ p ∈ parts, ∀ len, p = AddPart.ceEntry len → 1 ≤ len
  | .rm _ _ => True

theorem addPart_ceb (s s' : State) (p : AddPart) (b : Nat) (hp : ∀ len, p = AddPart.ceEntry len → 1 ≤ len)
    (hc : CebOk s) (h : addPart s p = some (s', b)) : CebOk s' := by
  cases p with
  | ceEntry len =>
    simp only [addPart, Option.some.injEq, Prod.mk.injEq] at h
    obtain ⟨rfl, _⟩ := h
    exact ceAdd_ok len (hp len rfl) s.ceb hc
  | insert dir idx len =>
    simp only [addPart] at h
    cases hu : updDir dir (insertRec idx len) s.dirs with
    | none => simp [hu] at h
    | some r => simp [hu] at h; obtain ⟨rfl, _⟩ := h; exact hc
  | mkdir tree id ptlen lens =>
    simp only [addPart] at h
    split at h
    · simp only [Option.some.injEq, Prod.mk.injEq] at h
      obtain ⟨rfl, _⟩ := h
      unfold CebOk setPt at *; split <;> exact hc
    · simp at h
  | vd => simp only [addPart, Option.some.injEq, Prod.mk.injEq] at h; obtain ⟨rfl, _⟩ := h; exact hc
  | ufid dir len =>
    simp only [addPart] at h
    cases hu : updUDir dir (addFid len) s.udirs with
    | none => simp [hu] at h
    | some r => simp [hu] at h; obtain ⟨rfl, _⟩ := h; exact hc
  | umkdir id => simp only [addPart, Option.some.injEq, Prod.mk.injEq] at h; obtain ⟨rfl, _⟩ := h; exact hc
  | ufe => simp only [addPart, Option.some.injEq, Prod.mk.injEq] at h; obtain ⟨rfl, _⟩ := h; exact hc

theorem rmPart_ceb (s s' : State) (p : RmPart) (b : Nat) (hc : CebOk s) (h : rmPart s p = some (s', b)) : CebOk s' := by
  cases p with
  | ceFree idx off len =>
    simp only [rmPart] at h
    cases hu : Iso.ceFree idx off len s.ceb with
    | none => simp [hu] at h
    | some r => simp [hu] at h; obtain ⟨rfl, _⟩ := h; exact ceFree_ok idx off len s.ceb r hc hu
  | remove dir idx =>
    simp only [rmPart] at h
    cases hu : updDir dir (removeRec idx) s.dirs with
    | none => simp [hu] at h
    | some r => simp [hu] at h; obtain ⟨rfl, _⟩ := h; exact hc
  | rmdir tree id ptlen =>
    simp only [rmPart] at h
    split at h
    · cases hd : dropDir id s.dirs with
      | none => simp [hd] at h
      | some r =>
        cases hq : PathTable.remove (ptOf s tree) ptlen with
        | none => simp [hd, hq] at h
        | some q =>
          simp [hd, hq] at h
          obtain ⟨rfl, _⟩ := h
          unfold CebOk setPt at *; split <;> exact hc
    · simp at h
  | ufid dir len =>
    simp only [rmPart] at h
    cases hu : updUDir dir (rmFid len) s.udirs with
    | none => simp [hu] at h
    | some r => simp [hu] at h; obtain ⟨rfl, _⟩ := h; exact hc
  | urmdir id =>
    simp only [rmPart] at h
    cases hu : dropUDir id s.udirs with
    | none => simp [hu] at h
    | some r => simp [hu] at h; obtain ⟨rfl, _⟩ := h; exact hc
  | ufe =>
    simp only [rmPart] at h
    split at h
    · simp only [Option.some.injEq, Prod.mk.injEq] at h; obtain ⟨rfl, _⟩ := h; exact hc
    · simp at h

theorem addParts_ceb (s s' : State) (ps : List AddPart) (b : Nat)
    (hp : ∀ p ∈ ps, ∀ len, p = AddPart.ceEntry len → 1 ≤ len) (hc : CebOk s)
    (h : addParts s ps = some (s', b)) : CebOk s' := by
  induction ps generalizing s b with
  | nil => simp only [addParts, Option.some.injEq, Prod.mk.injEq] at h; obtain ⟨rfl, _⟩ := h; exact hc
  | cons p ps ih =>
    simp only [addParts] at h
    cases hq : addPart s p with
    | none => simp [hq] at h
    | some x =>
      obtain ⟨s1, b1⟩ := x
      simp only [hq] at h
      cases hr : addParts s1 ps with
      | none => simp [hr] at h
      | some y =>
        obtain ⟨s2, b2⟩ := y
        simp [hr] at h
        obtain ⟨rfl, _⟩ := h
        exact ih s1 b2 (fun q hq' => hp q (by simp [hq'])) (addPart_ceb s s1 p b1 (hp p (by simp)) hc hq) hr

theorem rmParts_ceb (s s' : State) (ps : List RmPart) (b : Nat) (hc : CebOk s)
    (h : rmParts s ps = some (s', b)) : CebOk s' := by
  induction ps generalizing s b with
  | nil => simp only [rmParts, Option.some.injEq, Prod.mk.injEq] at h; obtain ⟨rfl, _⟩ := h; exact hc
  | cons p ps ih =>
    simp only [rmParts] at h
    cases hq : rmPart s p with
    | none => simp [hq] at h
    | some x =>
      obtain ⟨s1, b1⟩ := x
      simp only [hq] at h
      cases hr : rmParts s1 ps with
      | none => simp [hr] at h
      | some y =>
        obtain ⟨s2, b2⟩ := y
        simp [hr] at h
        obtain ⟨rfl, _⟩ := h
        exact ih s1 b2 (rmPart_ceb s s1 p b1 hc hq) hr

theorem step_ceb (s s' : State) (op : Op) (hp : ceLensPos op) (hc : CebOk s) (h : step s op = some s') : CebOk s' := by
  cases op with
  | add parts ino =>
    simp only [step] at h
    cases hq : addParts s parts with
    | none => simp [hq] at h
    | some x =>
      obtain ⟨s1, b⟩ := x
      simp only [hq] at h
      have h1 := addParts_ceb s s1 parts b hp hc hq
      cases ino with
      | none => simp only [Option.some.injEq] at h; subst h; exact h1
      | some t =>
        obtain ⟨id, len, n, nu⟩ := t
        simp only at h
        split at h
        · simp only [Option.some.injEq] at h; subst h; exact h1
        · simp at h
  | rm parts ino =>
    simp only [step] at h
    cases hq : rmParts s parts with
    | none => simp [hq] at h
    | some x =>
      obtain ⟨s1, b⟩ := x
      simp only [hq] at h
      have h1 := rmParts_ceb s s1 parts b hc hq
      cases ino with
      | none => simp only [Option.some.injEq] at h; subst h; exact h1
      | some t =>
        obtain ⟨id, n, nu⟩ := t
        simp only at h
        cases hu : unlinkIno id n nu s1.inos with
        | none => simp [hu] at h
        | some r => simp only [hu, Option.some.injEq] at h; subst h; exact h1

/-- **continuation areas never overlap and never leave their block, after any history** (C08 / C04 `ce_ptrs`) -/
theorem ceb_ok (s s' : State) (ops : List Op) (hp : ∀ op ∈ ops, ceLensPos op) (hc : CebOk s)
    (h : run s ops = some s') : CebOk s' := by
  induction ops generalizing s with
  | nil => simp only [run, Option.some.injEq] at h; subst h; exact hc
  | cons op ops ih =>
    simp only [run] at h
    cases hs : step s op with
    | none => simp [hs] at h
    | some s1 =>
      simp only [hs] at h
      exact ih s1 (fun o ho => hp o (by simp [ho])) (step_ceb s s1 op (hp op (by simp)) hc hs) h

end Pycdlib.Iso
