/-
Props/C03Dir — a directory extent reads back as exactly the records that were written, for EVERY list of records:
`parse (renderDir recs extra) = recs`, and composed with the record codec (`decDR_encDR`) the fields come back too.
This is the directory-level step of `Reader ∘ Master = abs` (C01 / C03 / C05): nothing is lost at a block boundary, the
zero gap is never taken for a record, trailing reserved blocks add nothing.
-/
import Pycdlib.Model.DirBytes
import Pycdlib.Props.C03
namespace Pycdlib.DirBytes
open Pycdlib

theorem zeros_succ (n : Nat) : zeros (n + 1) = 0 :: zeros n := by simp [zeros, List.replicate_succ]

theorem drop_zeros (n k : Nat) : (zeros n).drop k = zeros (n - k) := by simp [zeros]

/-- nothing but zeros: no record, whatever the fuel and the position -/
theorem parse_zeros (bs fuel off n : Nat) : parse bs fuel off (zeros n) = [] := by
  induction fuel generalizing off n with
  | zero => simp [parse]
  | succ f ih =>
    cases n with
    | zero => simp [zeros, parse]
    | succ m =>
      rw [zeros_succ]
      simp only [parse, if_true]
      rw [← zeros_succ, drop_zeros]
      exact ih _ _

theorem render_length_pos (bs off : Nat) (recs : List Bytes) (h : recs ≠ []) (hr : ∀ r ∈ recs, 1 ≤ r.length) :
    1 ≤ (render bs off recs).length := by
  cases recs with
  | nil => exact absurd rfl h
  | cons r rs =>
    have := hr r (by simp)
    simp only [render]
    split <;> simp only [List.length_append] <;> omega

/-- the reader's position that corresponds to the writer's -/
def rpos (bs off : Nat) : Nat := if off ≥ bs then 0 else off

/-- **round trip of one directory extent** (any starting position inside the block, any trailing zeros) -/
theorem parse_render (bs : Nat) (hbs : 1 ≤ bs) (recs : List Bytes) (hok : ∀ r ∈ recs, RecOk bs r) :
    ∀ (off : Nat) (tail : Nat) (fuel : Nat), off ≤ bs → (render bs off recs ++ zeros tail).length ≤ fuel →
      parse bs fuel (rpos bs off) (render bs off recs ++ zeros tail) = recs := by
  induction recs with
  | nil =>
    intro off tail fuel _ _
    simp only [render]
    have : zeros (bs - off) ++ zeros tail = zeros (bs - off + tail) := by simp [zeros]
    rw [this]; exact parse_zeros _ _ _ _
  | cons r rs ih =>
    intro off tail fuel hoff hfuel
    obtain ⟨l, t, hr, hl, hlen⟩ := hok r (by simp)
    have hl0 : l ≠ 0 := by
      intro h0; rw [h0] at hl; rw [hr] at hl; simp at hl
    have hrpos : 1 ≤ r.length := by rw [hr]; simp
    have ih' := ih (fun x hx => hok x (by simp [hx]))
    simp only [render] at hfuel ⊢
    by_cases hfit : off + r.length > bs
    · -- the record starts the next block: the reader first skips the zero gap
      simp only [hfit, if_true] at hfuel ⊢
      have hoffbs : off < bs ∨ off = bs := by omega
      rcases hoffbs with hlt | heq
      · -- a real gap of bs - off ≥ 1 zeros
        have hgap : bs - off = (bs - off - 1) + 1 := by omega
        have hrp : rpos bs off = off := by unfold rpos; simp; omega
        rw [hrp]
        cases fuel with
        | zero =>
          simp only [List.length_append, zeros_length] at hfuel; omega
        | succ f =>
          have hz : zeros (bs - off) ++ r ++ render bs r.length rs ++ zeros tail
              = 0 :: (zeros (bs - off - 1) ++ (r ++ render bs r.length rs ++ zeros tail)) := by
            rw [hgap, zeros_succ]; simp
          rw [hz]
          simp only [parse, if_true]
          rw [← List.cons_append, ← zeros_succ, ← hgap, drop_append_exact _ _ _ (zeros_length _)]
          -- now at position 0 of a fresh block, with the record in front
          cases f with
          | zero =>
            simp only [List.length_append, zeros_length] at hfuel; omega
          | succ g =>
            rw [hr]
            simp only [List.cons_append, parse, hl0, if_false]
            have htake : (l :: (t ++ (render bs (l :: t).length rs ++ zeros tail))).take l.toNat = l :: t := by
              rw [hl, hr, ← List.cons_append]; exact take_append_exact _ _ _ rfl
            have hdrop : (l :: (t ++ (render bs (l :: t).length rs ++ zeros tail))).drop l.toNat
                = render bs (l :: t).length rs ++ zeros tail := by
              rw [hl, hr, ← List.cons_append]; exact drop_append_exact _ _ _ rfl
            rw [List.append_assoc] at *
            rw [htake, hdrop]
            congr 1
            have hpos : (if 0 + l.toNat ≥ bs then 0 else 0 + l.toNat) = rpos bs (l :: t).length := by
              unfold rpos; rw [hl, hr]; simp
            rw [hpos]
            apply ih' (l :: t).length tail g (by rw [← hr]; exact hlen)
            rw [hr] at hfuel
            simp only [List.length_append, List.length_cons, zeros_length] at hfuel ⊢
            omega
      · -- the block is exactly full: no gap, the record is the next thing
        have hrp : rpos bs off = 0 := by unfold rpos; simp [heq]
        rw [hrp]
        have hz0 : zeros (bs - off) = [] := by simp [zeros, heq]
        rw [hz0, List.nil_append]
        cases fuel with
        | zero =>
          simp only [List.length_append, zeros_length] at hfuel; omega
        | succ g =>
          rw [hr]
          simp only [List.cons_append, parse, hl0, if_false]
          have htake : (l :: (t ++ (render bs (l :: t).length rs ++ zeros tail))).take l.toNat = l :: t := by
            rw [hl, hr, ← List.cons_append]; exact take_append_exact _ _ _ rfl
          have hdrop : (l :: (t ++ (render bs (l :: t).length rs ++ zeros tail))).drop l.toNat
              = render bs (l :: t).length rs ++ zeros tail := by
            rw [hl, hr, ← List.cons_append]; exact drop_append_exact _ _ _ rfl
          rw [List.append_assoc] at *
          rw [htake, hdrop]
          congr 1
          have hpos : (if 0 + l.toNat ≥ bs then 0 else 0 + l.toNat) = rpos bs (l :: t).length := by
            unfold rpos; rw [hl, hr]; simp
          rw [hpos]
          apply ih' (l :: t).length tail g (by rw [← hr]; exact hlen)
          rw [hr, hz0] at hfuel
          simp only [List.length_append, List.length_cons, zeros_length, List.length_nil] at hfuel ⊢
          omega
    · -- the record fits into the current block
      simp only [hfit, if_false] at hfuel ⊢
      have hlt : off < bs := by omega
      have hrp : rpos bs off = off := by unfold rpos; simp; omega
      rw [hrp]
      cases fuel with
      | zero =>
        simp only [List.length_append, zeros_length] at hfuel; omega
      | succ g =>
        rw [hr]
        simp only [List.cons_append, parse, hl0, if_false]
        have htake : (l :: (t ++ (render bs (off + (l :: t).length) rs ++ zeros tail))).take l.toNat = l :: t := by
          rw [hl, hr, ← List.cons_append]; exact take_append_exact _ _ _ rfl
        have hdrop : (l :: (t ++ (render bs (off + (l :: t).length) rs ++ zeros tail))).drop l.toNat
            = render bs (off + (l :: t).length) rs ++ zeros tail := by
          rw [hl, hr, ← List.cons_append]; exact drop_append_exact _ _ _ rfl
        rw [List.append_assoc] at *
        rw [htake, hdrop]
        congr 1
        have hpos : (if off + l.toNat ≥ bs then 0 else off + l.toNat) = rpos bs (off + (l :: t).length) := by
          unfold rpos; rw [hl, hr]
        rw [hpos]
        apply ih' (off + (l :: t).length) tail g (by rw [← hr]; omega)
        rw [hr] at hfuel
        simp only [List.length_append, List.length_cons, zeros_length] at hfuel ⊢
        omega

/-- **a directory extent reads back as the records written**, whatever the number of reserved blocks behind them -/
theorem parse_renderDir (bs : Nat) (hbs : 1 ≤ bs) (recs : List Bytes) (extra : Nat) (hok : ∀ r ∈ recs, RecOk bs r) :
    parse bs (renderDir bs recs extra).length 0 (renderDir bs recs extra) = recs := by
  have := parse_render bs hbs recs hok 0 (extra * bs) (renderDir bs recs extra).length (by omega)
    (by unfold renderDir; exact Nat.le_refl _)
  simpa [rpos, renderDir, show ¬ (0 ≥ bs) by omega] using this

/-- an encoded directory record is what the reader relies on -/
theorem encDR_recOk (r : DRF) (h : r.wf) : RecOk 2048 (encDR r) := by
  obtain ⟨he, hd, hdate, hf, hu, hg, hs, hid, hlen⟩ := h
  have htotal : (encDR r).length = r.len := by
    simp only [encDR, List.length_append, List.length_cons, List.length_nil, both32_length, both16_length,
      zeros_length, hdate, DRF.len, DRF.bodyLen]
    try omega
  refine ⟨u8 r.len, _, rfl, ?_, by rw [htotal]; omega⟩
  rw [u8_toNat', htotal]; omega

/-- **directory contents round trip**: the records pycdlib writes for a directory, read back by the ECMA-119 reader and
decoded, are the fields that were encoded (the system use area with its pad byte), in order, nothing else -/
theorem dir_roundtrip (recs : List DRF) (extra : Nat) (h : ∀ r ∈ recs, r.wf) :
    (parse 2048 (renderDir 2048 (recs.map encDR) extra).length 0 (renderDir 2048 (recs.map encDR) extra)).mapM decDR
      = some (recs.map fun r => { r with su := r.su ++ zeros (r.bodyLen % 2) }) := by
  rw [parse_renderDir 2048 (by omega) (recs.map encDR) extra]
  · induction recs with
    | nil => rfl
    | cons r rs ih =>
      simp only [List.map_cons, List.mapM_cons, decDR_encDR r (h r (by simp))]
      rw [ih (fun x hx => h x (by simp [hx]))]
      rfl
  · intro b hb
    simp only [List.mem_map] at hb
    obtain ⟨r, hr, rfl⟩ := hb
    exact encDR_recOk r (h r hr)

/-- non-vacuity: three records of 6 bytes in blocks of 16 (the third starts the second block), one spare block -/
example : parse 16 64 0 (renderDir 16 [[6,1,1,1,1,1], [6,2,2,2,2,2], [6,3,3,3,3,3]] 1)
    = [[6,1,1,1,1,1], [6,2,2,2,2,2], [6,3,3,3,3,3]] := by decide

/-- a reader that ignored the zero-gap rule would lose the record behind the gap -/
example : (renderDir 16 [[6,1,1,1,1,1], [6,2,2,2,2,2], [6,3,3,3,3,3]] 0).length = 32 := by decide

end Pycdlib.DirBytes
