/-
Props/C15Ranges — the work of the directory walk is bounded by the size of the image: the ranges the walk accepts stay
sorted and pairwise disjoint, so the sectors it reads for directories add up to at most the sectors there are — for ANY
sequence of (hostile) directory records.  This is the bound the overlapping-directories defect violated (quadratic
memory and time on a crafted image without a cycle and without a shared extent).
-/
import Pycdlib.Model.Ranges
namespace Pycdlib.Ranges

theorem claim_mem (rs rs' : List (Nat × Nat)) (s e : Nat) (h : claim rs s e = some rs') :
    ∀ x, x ∈ rs' ↔ x = (s, e) ∨ x ∈ rs := by
  induction rs generalizing rs' with
  | nil => simp [claim] at h; subst h; simp
  | cons r rs ih =>
    simp only [claim] at h
    split at h
    · simp only [Option.some.injEq] at h; subst h; intro x; simp
    · split at h
      · cases hc : claim rs s e with
        | none => simp [hc] at h
        | some t =>
          simp [hc] at h; subst h
          intro x
          have := ih t hc x
          simp only [List.mem_cons, this]
          constructor
          · rintro (h | h | h) <;> simp [h]
          · rintro (h | h | h) <;> simp [h]
      · simp at h

/-- **an accepted claim keeps the ranges sorted and pairwise disjoint** -/
theorem claim_sorted (rs rs' : List (Nat × Nat)) (s e : Nat) (hse : s < e) (hs : Sorted rs)
    (h : claim rs s e = some rs') : Sorted rs' := by
  induction rs generalizing rs' with
  | nil => simp [claim] at h; subst h; exact ⟨by simp, by simp [hse]⟩
  | cons r rs ih =>
    obtain ⟨hp, hn⟩ := hs
    simp only [List.pairwise_cons] at hp
    simp only [claim] at h
    split at h
    · rename_i hle
      simp only [Option.some.injEq] at h; subst h
      refine ⟨?_, ?_⟩
      · simp only [List.pairwise_cons]
        refine ⟨?_, hp.1, hp.2⟩
        intro b hb
        simp only [List.mem_cons] at hb
        rcases hb with rfl | hb
        · exact hle
        · have h1 := hp.1 b hb
          have h2 := hn r (by simp)
          show e ≤ b.1
          omega
      · intro x hx
        simp only [List.mem_cons] at hx
        rcases hx with rfl | rfl | hx
        · exact hse
        · exact hn _ (by simp)
        · exact hn x (by simp [hx])
    · split at h
      · rename_i hge
        cases hc : claim rs s e with
        | none => simp [hc] at h
        | some t =>
          simp [hc] at h; subst h
          have hst := ih t ⟨hp.2, fun x hx => hn x (by simp [hx])⟩ hc
          have hmem := claim_mem rs t s e hc
          refine ⟨?_, ?_⟩
          · simp only [List.pairwise_cons]
            refine ⟨?_, hst.1⟩
            intro b hb
            rcases (hmem b).1 hb with rfl | hb
            · exact hge
            · exact hp.1 b hb
          · intro x hx
            simp only [List.mem_cons] at hx
            rcases hx with rfl | hx
            · exact hn _ (by simp)
            · exact hst.2 x hx
      · simp at h

/-- **a claim that meets a range already claimed is refused** -/
theorem claim_refuses_overlap (rs : List (Nat × Nat)) (s e : Nat) (r : Nat × Nat) (hs : Sorted rs) (hr : r ∈ rs)
    (hov : r.1 < e ∧ s < r.2) : claim rs s e = none := by
  induction rs with
  | nil => simp at hr
  | cons q qs ih =>
    obtain ⟨hp, hn⟩ := hs
    simp only [List.pairwise_cons] at hp
    simp only [List.mem_cons] at hr
    simp only [claim]
    rcases hr with rfl | hr
    · have h1 : ¬ e ≤ r.1 := by omega
      have h2 : ¬ r.2 ≤ s := by omega
      simp [h1, h2]
    · have hq := hn q (by simp)
      have hqr := hp.1 r hr
      have h1 : ¬ e ≤ q.1 := by omega
      simp only [h1, if_false]
      split
      · simp [ih ⟨hp.2, fun x hx => hn x (by simp [hx])⟩ hr]
      · rfl

/-- disjoint ranges inside [lo, n) add up to at most n - lo -/
theorem total_le (rs : List (Nat × Nat)) (lo n : Nat) (hs : Sorted rs) (hb : ∀ r ∈ rs, lo ≤ r.1 ∧ r.2 ≤ n) :
    total rs ≤ n - lo := by
  induction rs generalizing lo with
  | nil => simp [total]
  | cons r rs ih =>
    obtain ⟨hp, hn⟩ := hs
    simp only [List.pairwise_cons] at hp
    have hr := hb r (by simp)
    have hrn := hn r (by simp)
    have := ih r.2 ⟨hp.2, fun x hx => hn x (by simp [hx])⟩
      (fun x hx => ⟨hp.1 x hx, (hb x (by simp [hx])).2⟩)
    simp only [total, List.map_cons, List.sum_cons] at this ⊢
    omega

theorem claimAll_sorted (rs rs' : List (Nat × Nat)) (ds : List (Nat × Nat)) (hs : Sorted rs)
    (hd : ∀ d ∈ ds, 1 ≤ d.2) (h : claimAll rs ds = some rs') : Sorted rs' := by
  induction ds generalizing rs with
  | nil => simp only [claimAll, Option.some.injEq] at h; subst h; exact hs
  | cons d ds ih =>
    obtain ⟨s, n⟩ := d
    simp only [claimAll] at h
    cases hc : claim rs s (s + n) with
    | none => simp [hc] at h
    | some t =>
      simp only [hc] at h
      have hn := hd (s, n) (by simp)
      exact ih t (claim_sorted rs t s (s + n) (by simp only at hn; omega) hs hc) (fun x hx => hd x (by simp [hx])) h

theorem claimAll_bounds (rs rs' : List (Nat × Nat)) (ds : List (Nat × Nat)) (n : Nat)
    (hb : ∀ r ∈ rs, r.2 ≤ n) (hd : ∀ d ∈ ds, d.1 + d.2 ≤ n) (h : claimAll rs ds = some rs') : ∀ r ∈ rs', r.2 ≤ n := by
  induction ds generalizing rs with
  | nil => simp only [claimAll, Option.some.injEq] at h; subst h; exact hb
  | cons d ds ih =>
    obtain ⟨s, k⟩ := d
    simp only [claimAll] at h
    cases hc : claim rs s (s + k) with
    | none => simp [hc] at h
    | some t =>
      simp only [hc] at h
      refine ih t ?_ (fun x hx => hd x (by simp [hx])) h
      intro r hr
      rcases (claim_mem rs t s (s + k) hc r).1 hr with rfl | hr
      · exact hd (s, k) (by simp)
      · exact hb r hr

/-- **work bound of the walk**: whatever directory records a (hostile) image of `n` sectors presents — any order, any
lengths, any targets inside the image — the directories the walk accepts occupy at most `n` sectors in total; a
directory that would make it read a sector twice is refused -/
theorem walk_reads_each_sector_once (ds : List (Nat × Nat)) (n : Nat) (rs' : List (Nat × Nat))
    (hd : ∀ d ∈ ds, 1 ≤ d.2 ∧ d.1 + d.2 ≤ n) (h : claimAll [] ds = some rs') : total rs' ≤ n := by
  have hs := claimAll_sorted [] rs' ds ⟨by simp, by simp⟩ (fun d hd' => (hd d hd').1) h
  have hb := claimAll_bounds [] rs' ds n (by simp) (fun d hd' => (hd d hd').2) h
  have := total_le rs' 0 n hs (fun r hr => ⟨Nat.zero_le _, hb r hr⟩)
  simpa using this

/-- the crafted image of the defect: sub-directories at root+i with k-i blocks each; the second one is refused -/
example : claimAll [] [(22, 10), (23, 9)] = none := by decide
example : claimAll [] [(22, 1), (30, 4), (23, 2)] = some [(22, 23), (23, 25), (30, 34)] := by decide

end Pycdlib.Ranges
