/-
Props/C04PathTable — the space reserved for the path tables is exact after every history (part of C04 "the declared
size is the end of the last object" and of C03 "path tables as recorded").

  * `add_to_ptr_size_tie`, `remove_from_ptr_size_tie`, `space_size_tie`: the four methods of headervd.py, translated
    from the current source on every run (Generated/Kernel), are the model's `add` / `remove` / ceiling division.
  * `add_inv`, `remove_inv`: with the reservation exact before (two extents per started 4096 bytes of records) it is
    exact after adding / removing one record of at most 4096 bytes (a path table record is at most 264 bytes), and
    `remove` never takes the "should never happen" branch.
  * `run_exact`: over ANY history of adds and removes (each removed record having been counted before), the run never
    fails, the reservation stays exact, and the bytes added to the volume space size for path tables (four extents
    per step that returned True) are exactly 2 tables × 2048 × (extents now − extents at the start).
-/
import Pycdlib.Model.PathTable
import Pycdlib.Generated.Kernel
import Pycdlib.Props.Tie
namespace Pycdlib.PathTable
open Pycdlib.PyOps

theorem cdiv_4096 (a : Nat) : cdiv a 4096 = (a + 4095) / 4096 := by unfold cdiv; rfl

/-- `add_to_ptr_size` as translated from headervd.py -/
theorem add_to_ptr_size_tie (s : PT) (n : Nat) :
    Generated.vd_add_to_ptr_size s.size s.extents n =
      (((add s n).1.size : Int), ((add s n).1.extents : Int), if (add s n).2 then 1 else 0) := by
  unfold Generated.vd_add_to_ptr_size add
  have h := ceiling_div_tie_4096 (s.size + n)
  have hadd : (s.size : Int) + (n : Int) = ((s.size + n : Nat) : Int) := by omega
  simp only [hadd, h, cdiv_4096]
  generalize (s.size + n + 4095) / 4096 = c
  generalize s.size + n = m
  obtain ⟨sz, e⟩ := s
  simp only
  by_cases hc : c * 2 > e
  · have : ((c : Int) * 2 > (e : Int)) := by omega
    simp only [this, hc, decide_true, if_true]
    have e2 : ((e + 2 : Nat) : Int) = (e : Int) + 2 := by omega
    rw [e2]
  · have : ¬ ((c : Int) * 2 > (e : Int)) := by omega
    simp only [this, hc, decide_false, if_false, Bool.false_eq_true]

/-- `remove_from_ptr_size` as translated from headervd.py (result -1 = the exception) -/
theorem remove_from_ptr_size_tie (s : PT) (n : Nat) (hn : n ≤ s.size) (he : 2 ≤ s.extents) :
    Generated.vd_remove_from_ptr_size s.size s.extents n =
      match remove s n with
      | none => (((s.size - n : Nat) : Int), (s.extents : Int), -1)
      | some (s', b) => ((s'.size : Int), (s'.extents : Int), if b then 1 else 0) := by
  unfold Generated.vd_remove_from_ptr_size remove
  have hsub : (s.size : Int) - (n : Int) = ((s.size - n : Nat) : Int) := by omega
  have h := ceiling_div_tie_4096 (s.size - n)
  simp only [hsub, h, cdiv_4096]
  generalize (s.size - n + 4095) / 4096 = c
  generalize s.size - n = m
  obtain ⟨sz, e⟩ := s
  simp only at he ⊢
  by_cases h1 : c * 2 > e
  · have : ((c : Int) * 2 > (e : Int)) := by omega
    simp only [this, h1, decide_true, if_true]
  · have n1 : ¬ ((c : Int) * 2 > (e : Int)) := by omega
    by_cases h2 : c * 2 < e
    · have : ((c : Int) * 2 < (e : Int)) := by omega
      have h3 : ((e - 2 : Nat) : Int) = (e : Int) - 2 := by omega
      simp only [n1, h1, this, h2, decide_true, decide_false, if_true, if_false, Bool.false_eq_true, h3]
    · have : ¬ ((c : Int) * 2 < (e : Int)) := by omega
      simp only [n1, h1, this, h2, decide_false, if_false, Bool.false_eq_true]

/-- `add_to_space_size` / `remove_from_space_size`: the space size moves by whole sectors, rounded up -/
theorem space_size_tie (space bytes : Nat) :
    Generated.vd_add_to_space_size space bytes 2048 = (((space + (bytes + 2047) / 2048 : Nat) : Int), 0) ∧
    Generated.vd_remove_from_space_size space bytes 2048 = ((space : Int) - (((bytes + 2047) / 2048 : Nat) : Int), 0) := by
  unfold Generated.vd_add_to_space_size Generated.vd_remove_from_space_size
  have h := ceiling_div_tie bytes
  unfold sectorsOf at h
  simp only [h]
  constructor <;> simp <;> omega

theorem add_inv (s : PT) (n : Nat) (h : Inv s) (hn : n ≤ 4096) : Inv (add s n).1 := by
  unfold Inv add at *
  simp only [cdiv_4096] at *
  split <;> simp only <;> omega

theorem add_grows_iff (s : PT) (n : Nat) :
    (add s n).1.extents = s.extents + (if (add s n).2 then 2 else 0) := by
  unfold add
  by_cases hc : cdiv (s.size + n) 4096 * 2 > s.extents
  · simp [hc]
  · simp [hc]

theorem remove_inv (s : PT) (n : Nat) (h : Inv s) (hn : n ≤ 4096) :
    ∃ r, remove s n = some r ∧ Inv r.1 ∧ r.1.extents + (if r.2 then 2 else 0) = s.extents := by
  unfold Inv remove at *
  simp only [cdiv_4096] at *
  by_cases h1 : (s.size - n + 4095) / 4096 * 2 > s.extents
  · omega
  · by_cases h2 : (s.size - n + 4095) / 4096 * 2 < s.extents
    · refine ⟨({ size := s.size - n, extents := s.extents - 2 }, true), by simp only [if_neg h1, if_pos h2], ?_, ?_⟩
      · simp only; omega
      · simp only [if_true]; omega
    · refine ⟨({ size := s.size - n, extents := s.extents }, false), by simp only [if_neg h1, if_neg h2], ?_, ?_⟩
      · simp only; omega
      · simp

def small : Op → Prop
  | .add n => n ≤ 4096
  | .remove n => n ≤ 4096

/-- **the path table reservation is exact after every history** -/
theorem run_exact (ops : List Op) : ∀ (s : PT) (space : Nat), Inv s → (∀ op ∈ ops, small op) →
    4096 * s.extents ≤ space →
    ∃ s' space', run s space ops = some (s', space') ∧ Inv s' ∧
      space' + 4096 * s.extents = space + 4096 * s'.extents := by
  induction ops with
  | nil => intro s space h _ _; exact ⟨s, space, rfl, h, rfl⟩
  | cons op ops ih =>
    intro s space h hs hsp
    have hop : small op := hs op (by simp)
    have hrest : ∀ o ∈ ops, small o := fun o ho => hs o (by simp [ho])
    cases op with
    | add n =>
      have hi := add_inv s n h hop
      have hg := add_grows_iff s n
      simp only [run]
      cases hb : (add s n).2 with
      | true =>
        simp only [hb, if_true] at hg
        obtain ⟨s', sp', hr, hinv, hsp'⟩ := ih (add s n).1 (space + 4 * 2048) hi hrest (by omega)
        refine ⟨s', sp', ?_, hinv, by omega⟩
        have : add s n = ((add s n).1, true) := by rw [← hb]
        rw [this]; simpa using hr
      | false =>
        simp only [hb, Bool.false_eq_true, if_false] at hg
        obtain ⟨s', sp', hr, hinv, hsp'⟩ := ih (add s n).1 space hi hrest (by omega)
        refine ⟨s', sp', ?_, hinv, by omega⟩
        have : add s n = ((add s n).1, false) := by rw [← hb]
        rw [this]; simpa using hr
    | remove n =>
      obtain ⟨r, hr, hinv, hext⟩ := remove_inv s n h hop
      obtain ⟨r1, r2⟩ := r
      simp only [run, hr]
      cases r2 with
      | true =>
        simp only [if_true] at hext
        obtain ⟨s', sp', hrun, hinv', hsp'⟩ := ih r1 (space - 4 * 2048) hinv hrest (by omega)
        exact ⟨s', sp', by simpa using hrun, hinv', by omega⟩
      | false =>
        simp only [Bool.false_eq_true, if_false] at hext
        obtain ⟨s', sp', hrun, hinv', hsp'⟩ := ih r1 space hinv hrest (by omega)
        exact ⟨s', sp', by simpa using hrun, hinv', by omega⟩

/-- a new image: the root record (10 bytes), two extents per table; non-vacuity of `run_exact` with a history that
crosses 4096 bytes and comes back -/
example : Inv ⟨10, 2⟩ := by simp [Inv, cdiv]

example :
    run ⟨10, 2⟩ 8192 ((List.replicate 16 (.add 264)) ++ (List.replicate 16 (.remove 264))) = some (⟨10, 2⟩, 8192) := by
  decide +kernel

/-- **copies of the PVD do not change what the path tables cost**: with `k ≥ 1` identical copies, the bytes charged for a
new record are those charged for a single descriptor -/
theorem addAll_independent_of_copies (s : PT) (k n : Nat) (hk : 1 ≤ k) :
    (addAll (List.replicate k s) n).2 = (if (add s n).2 then 4 * 2048 else 0) ∧
    (addAll (List.replicate k s) n).1 = List.replicate k (add s n).1 := by
  obtain ⟨k', rfl⟩ : ∃ k', k = k' + 1 := ⟨k - 1, by omega⟩
  simp only [addAll, List.map_replicate, List.any_replicate]
  constructor
  · cases (add s n).2 <;> simp
  · trivial

/-- the witness of the repaired defect: with two copies the old accounting charged eight extents for one growth step -/
theorem old_accounting_charges_per_copy :
    (addAllOld (List.replicate 2 ⟨4090, 2⟩) 10).2 = 2 * (4 * 2048) ∧ (addAll (List.replicate 2 ⟨4090, 2⟩) 10).2 = 4 * 2048 := by
  decide

end Pycdlib.PathTable
