/-
Props/C17Plan — `modify_file_in_place` touches only what it must.

  * `refused_iff`: the call is refused exactly when the number of sectors would change (then nothing is written).
  * `plan_touches_only`: every write of an accepted call lies inside one volume descriptor sector (a PVD copy, the
    Joliet or the enhanced descriptor), inside the file's own sectors, or inside the one sector that holds a directory
    record / File Entry of the file — given that the cached packing state of each record is sound (which
    `writer_matches_cache` / `writer_no_straddle` of Props/C04 establish for what mastering and parsing produce).
  * `pvd_copies_identical`: every copy of the PVD receives a write of the same extent-sized record (the defect repaired
    in "fix: modify_file_in_place keeps all copies of the PVD identical" wrote only the first).
-/
import Pycdlib.Model.InPlace
namespace Pycdlib.InPlace

theorem refused_iff (i : In) : plan i = none ↔ sectors i.oldLen ≠ sectors i.newLen := by
  unfold plan
  split <;> simp_all

/-- where a write is allowed to land -/
def Allowed (i : In) (w : Write) : Prop :=
  (∃ x ∈ i.pvds, within w x 1) ∨ (∃ x, i.joliet = some x ∧ within w x 1) ∨ (∃ x, i.enhanced = some x ∧ within w x 1) ∨
  within w i.fileExtent (sectors i.oldLen) ∨ (∃ r ∈ i.recs, ∃ s, recSector r = some s ∧ within w s 1)

theorem recWrite_within (r : Rec) (h : RecOk r) (w : Write) (hw : w ∈ recWrite r) :
    ∃ s, recSector r = some s ∧ within w s 1 := by
  cases r with
  | dir p e o l =>
    simp only [recWrite, List.mem_singleton] at hw
    subst hw
    obtain ⟨h1, h2, h3⟩ := h
    refine ⟨p + e - 1, rfl, ?_, ?_⟩ <;> simp only <;> omega
  | udf x n =>
    simp only [recWrite, List.mem_singleton] at hw
    subst hw
    refine ⟨x, rfl, ?_, ?_⟩ <;> simp only [RecOk] at h ⊢ <;> omega
  | boot => simp [recWrite] at hw

/-- **C17 — only the file's sectors, its records and the volume descriptors are touched** -/
theorem plan_touches_only (i : In) (ws : List Write) (h : plan i = some ws) (hr : ∀ r ∈ i.recs, RecOk r)
    (hb : i.bootInfo = true → 64 ≤ i.newLen) : ∀ w ∈ ws, Allowed i w := by
  unfold plan at h
  split at h
  · cases h
  · rename_i hs
    have hs' : sectors i.oldLen = sectors i.newLen := by simpa using hs
    simp only [Option.some.injEq] at h
    subst h
    intro w hw
    simp only [List.mem_append, List.mem_map, List.mem_flatMap] at hw
    rcases hw with ((((( ⟨x, hx, rfl⟩ | hw) | hw) | hw) | hw) | hw) | ⟨r, hr', hw⟩
    · exact Or.inl ⟨x, hx, by simp [within]; omega⟩
    · cases hj : i.joliet with
      | none => simp [hj, optVd] at hw
      | some x =>
        simp only [hj, optVd, List.mem_singleton] at hw
        subst hw
        exact Or.inr (Or.inl ⟨x, hj, by simp [within]; omega⟩)
    · cases he : i.enhanced with
      | none => simp [he, optVd] at hw
      | some x =>
        simp only [he, optVd, List.mem_singleton] at hw
        subst hw
        exact Or.inr (Or.inr (Or.inl ⟨x, he, by simp [within]; omega⟩))
    · split at hw
      · simp only [List.mem_singleton] at hw
        subst hw
        refine Or.inr (Or.inr (Or.inr (Or.inl ?_)))
        rw [hs']
        unfold within sectors
        constructor <;> simp only <;> omega
      · cases hw
    · split at hw
      · simp only [List.mem_singleton] at hw
        subst hw
        refine Or.inr (Or.inr (Or.inr (Or.inl ?_)))
        rw [hs']
        unfold within sectors at *
        constructor <;> simp only <;> omega
      · cases hw
    · split at hw
      · rename_i hbi
        have := hb hbi
        simp only [List.mem_singleton] at hw
        subst hw
        refine Or.inr (Or.inr (Or.inr (Or.inl ?_)))
        rw [hs']
        unfold within sectors
        constructor <;> simp only <;> omega
      · cases hw
    · obtain ⟨s, hs1, hs2⟩ := recWrite_within r (hr r hr') w hw
      exact Or.inr (Or.inr (Or.inr (Or.inr ⟨r, hr', s, hs1, hs2⟩)))

/-- **every copy of the PVD is rewritten** (with one whole sector each) -/
theorem pvd_copies_identical (i : In) (ws : List Write) (h : plan i = some ws) :
    ∀ x ∈ i.pvds, (x * 2048, 2048) ∈ ws := by
  unfold plan at h
  split at h
  · cases h
  · simp only [Option.some.injEq] at h
    subst h
    intro x hx
    simp only [List.mem_append, List.mem_map]
    exact Or.inl (Or.inl (Or.inl (Or.inl (Or.inl (Or.inl ⟨x, hx, rfl⟩)))))

/-- non-vacuity: three PVD copies, a Joliet descriptor, a 3000-byte file replaced by 2049 bytes, one directory record
in the second sector of its parent, a File Entry and a boot catalog entry -/
example :
    plan { pvds := [16, 17, 18], joliet := some 19, enhanced := none, fileExtent := 40, oldLen := 3000, newLen := 2049,
           recs := [.dir 30 2 120 44, .udf 300 200, .boot], bootInfo := true } =
      some [(32768, 2048), (34816, 2048), (36864, 2048), (38912, 2048), (81920, 2049), (86015, 1), (81928, 56),
            (63564, 44), (614400, 200)] := by decide +kernel

end Pycdlib.InPlace
