/-
Props/C03Pt — a path table reads back as exactly the records written, in either byte order, for every list of records.
-/
import Pycdlib.Model.PtBytes
import Pycdlib.Props.C03
namespace Pycdlib.PtBytes
open Pycdlib

theorem encPTR_length (be : Bool) (r : PTRF) :
    (encPTR be r).length = 8 + r.ident.length + r.ident.length % 2 := by
  cases be <;> simp [encPTR, le32, be32, le16, be16, leN_length, beN_length, zeros_length] <;> omega

theorem encPTR_head (be : Bool) (r : PTRF) : ∃ t, encPTR be r = u8 r.ident.length :: t := by
  exact ⟨_, rfl⟩

/-- **path table round trip** -/
theorem parse_render (be : Bool) (recs : List PTRF) (h : ∀ r ∈ recs, r.wf) :
    ∀ fuel, recs.length ≤ fuel → parse be fuel (render be recs) = some recs := by
  induction recs with
  | nil => intro fuel _; cases fuel <;> simp [render, parse]
  | cons r rs ih =>
    intro fuel hf
    cases fuel with
    | zero => simp at hf
    | succ f =>
      have hwf := h r (by simp)
      obtain ⟨_, _, h1, h256⟩ := hwf
      have hn : (u8 r.ident.length).toNat = r.ident.length := by rw [u8_toNat']; omega
      obtain ⟨t, ht⟩ := encPTR_head be r
      have hlen := encPTR_length be r
      simp only [render]
      rw [ht] at hlen ⊢
      simp only [List.cons_append, parse, hn]
      have hnot : ¬ ((u8 r.ident.length :: (t ++ render be rs)).length < 8 + r.ident.length + r.ident.length % 2) := by
        simp only [List.length_cons, List.length_append] at hlen ⊢; omega
      simp only [hnot, if_false]
      rw [← List.cons_append, take_append_exact _ _ _ hlen, drop_append_exact _ _ _ hlen, ← ht,
        decPTR_encPTR be r (h r (by simp))]
      simp only
      rw [ih (fun x hx => h x (by simp [hx])) f (by simp at hf; omega)]
      rfl

/-- both tables carry the same records: what a reader gets from the L table equals what it gets from the M table -/
theorem le_be_agree (recs : List PTRF) (h : ∀ r ∈ recs, r.wf) :
    parse false recs.length (render false recs) = parse true recs.length (render true recs) := by
  rw [parse_render false recs h _ (Nat.le_refl _), parse_render true recs h _ (Nat.le_refl _)]

/-- the size the volume descriptor must declare: 8 + identifier (padded to even) per directory -/
theorem render_length (be : Bool) (recs : List PTRF) :
    (render be recs).length = (recs.map fun r => 8 + r.ident.length + r.ident.length % 2).sum := by
  induction recs with
  | nil => rfl
  | cons r rs ih => simp only [render, List.length_append, encPTR_length, ih, List.map_cons, List.sum_cons]

example : parse false 2 (render false [{ extent := 23, parent := 1, ident := [0] }, { extent := 24, parent := 1, ident := [65, 66, 67] }])
    = some [{ extent := 23, parent := 1, ident := [0] }, { extent := 24, parent := 1, ident := [65, 66, 67] }] := by decide

end Pycdlib.PtBytes
