/-
Props/C15 — the directory walk of the parser terminates on every image.
For an arbitrary child relation (any image, however hostile): the walk that rejects repeated extents
  * never visits an extent twice (`walk_nodup`),
  * visits at most one directory per sector of the image (`walk_bounded`),
  * needs at most (queue length + number of unvisited sectors) dequeues: with that much fuel it never runs
    out — i.e. the real loop, which has no fuel, terminates (`walk_terminates`).
Without the visited set the walk does not terminate on a cycle (`cycle_example` shows the repaired walk
answering `repeated` on a 2-cycle).
-/
import Pycdlib.Model.Walk
namespace Pycdlib.Walk

/-- pigeonhole: a duplicate-free list of numbers below `n` has at most `n` elements -/
theorem nodup_bounded_length (n : Nat) (l : List Nat) (hn : l.Nodup) (hb : ∀ x ∈ l, x < n) : l.length ≤ n := by
  induction n generalizing l with
  | zero =>
    cases l with
    | nil => simp
    | cons x xs => exact absurd (hb x (by simp)) (by omega)
  | succ n ih =>
    have h1 : (l.erase n).length ≤ n := by
      apply ih
      · exact hn.erase n
      · intro x hx
        have hxl : x ∈ l := List.mem_of_mem_erase hx
        have hne : x ≠ n := by
          intro h; subst h
          exact (List.Nodup.not_mem_erase hn) hx
        have := hb x hxl
        omega
    have h2 : l.length ≤ (l.erase n).length + 1 := by
      by_cases hm : n ∈ l
      · rw [List.length_erase_of_mem hm]; omega
      · rw [List.erase_of_not_mem hm]; omega
    omega

theorem addChildren_spec (cs q v q' v' : List Nat) (h : addChildren cs q v = some (q', v')) :
    q' = q ++ cs ∧ v' = v ++ cs ∧ (v.Nodup → v'.Nodup) := by
  induction cs generalizing q v with
  | nil => simp [addChildren] at h; obtain ⟨rfl, rfl⟩ := h; simp
  | cons c cs ih =>
    simp only [addChildren] at h
    split at h
    · cases h
    · rename_i hc
      obtain ⟨h1, h2, h3⟩ := ih _ _ h
      refine ⟨by simp [h1], by simp [h2], ?_⟩
      intro hv
      apply h3
      rw [List.nodup_append]
      refine ⟨hv, by simp, ?_⟩
      intro a ha b hb
      simp only [List.mem_singleton] at hb
      subst hb
      intro hab; subst hab
      simp only [List.contains_iff_mem, Bool.not_eq_true] at hc
      exact absurd ha (by simpa using hc)

/-- **no extent is parsed twice** -/
theorem walk_nodup (children : Nat → List Nat) (fuel : Nat) (q v r : List Nat)
    (hv : v.Nodup) (h : walk children fuel q v = .done r) : r.Nodup := by
  induction fuel generalizing q v with
  | zero =>
    cases q with
    | nil => simp [walk] at h; subst h; exact hv
    | cons d q => simp [walk] at h
  | succ f ih =>
    cases q with
    | nil => simp [walk] at h; subst h; exact hv
    | cons d q =>
      simp only [walk] at h
      cases ha : addChildren (children d) q v with
      | none => simp [ha] at h
      | some p =>
        obtain ⟨q', v'⟩ := p
        simp only [ha] at h
        exact ih q' v' ((addChildren_spec _ _ _ _ _ ha).2.2 hv) h

theorem walk_subset (children : Nat → List Nat) (n fuel : Nat) (q v r : List Nat)
    (hc : ∀ d, ∀ c ∈ children d, c < n) (hb : ∀ x ∈ v, x < n) (h : walk children fuel q v = .done r) :
    ∀ x ∈ r, x < n := by
  induction fuel generalizing q v with
  | zero =>
    cases q with
    | nil => simp [walk] at h; subst h; exact hb
    | cons d q => simp [walk] at h
  | succ f ih =>
    cases q with
    | nil => simp [walk] at h; subst h; exact hb
    | cons d q =>
      simp only [walk] at h
      cases ha : addChildren (children d) q v with
      | none => simp [ha] at h
      | some p =>
        obtain ⟨q', v'⟩ := p
        simp only [ha] at h
        have hs := (addChildren_spec _ _ _ _ _ ha).2.1
        apply ih q' v' _ h
        intro x hx
        rw [hs] at hx
        rcases List.mem_append.mp hx with hx | hx
        · exact hb x hx
        · exact hc d x hx

/-- **work bound**: at most one directory per sector of the image -/
theorem walk_bounded (children : Nat → List Nat) (n fuel : Nat) (q v r : List Nat)
    (hc : ∀ d, ∀ c ∈ children d, c < n) (hv : v.Nodup) (hb : ∀ x ∈ v, x < n)
    (h : walk children fuel q v = .done r) : r.length ≤ n :=
  nodup_bounded_length n r (walk_nodup children fuel q v r hv h) (walk_subset children n fuel q v r hc hb h)

/-- **termination**: the number of dequeues is bounded by |queue| + (sectors not yet visited); with that much fuel the
walk never runs out, whatever the child relation -/
theorem walk_terminates (children : Nat → List Nat) (n fuel : Nat) (q v : List Nat)
    (hc : ∀ d, ∀ c ∈ children d, c < n) (hv : v.Nodup) (hb : ∀ x ∈ v, x < n)
    (hf : q.length + (n - v.length) ≤ fuel) : walk children fuel q v ≠ .outOfFuel := by
  induction fuel generalizing q v with
  | zero =>
    cases q with
    | nil => simp [walk]
    | cons d q => simp at hf
  | succ f ih =>
    cases q with
    | nil => simp [walk]
    | cons d q =>
      simp only [walk]
      cases ha : addChildren (children d) q v with
      | none => simp
      | some p =>
        obtain ⟨q', v'⟩ := p
        simp only
        obtain ⟨hq, hs, hnd⟩ := addChildren_spec _ _ _ _ _ ha
        have hv' := hnd hv
        have hb' : ∀ x ∈ v', x < n := by
          intro x hx; rw [hs] at hx
          rcases List.mem_append.mp hx with hx | hx
          · exact hb x hx
          · exact hc d x hx
        have hlen := nodup_bounded_length n v' hv' hb'
        apply ih q' v' hv' hb'
        rw [hq, hs] at *
        simp only [List.length_append, List.length_cons] at hf hlen ⊢
        omega

/-- the fuel a real image needs: one unit per sector -/
theorem walk_fuel_irrelevant (children : Nat → List Nat) (n root : Nat) (hr : root < n)
    (hc : ∀ d, ∀ c ∈ children d, c < n) : walk children n [root] [root] ≠ .outOfFuel := by
  apply walk_terminates children n n [root] [root] hc (by simp) (by simpa using hr)
  simp; omega

/-- a two-directory cycle (20 → 21 → 20): the repaired walk answers `repeated` instead of looping -/
theorem cycle_example :
    walk (fun d => if d = 20 then [21] else if d = 21 then [20] else []) 100 [20] [20] = .repeated := by
  decide

end Pycdlib.Walk
