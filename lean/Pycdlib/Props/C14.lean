/-
Props/C14 — failure atomicity.
For every edit made of per-namespace parts (any state type, any preconditions, any effects):
  * run validate-all-then-mutate (`checked`), a refused edit returns exactly the state it was given;
  * when the parts are independent (each precondition looks at a namespace no earlier part changes), `checked` refuses
    exactly the edits `interleaved` refuses, for the same reason, and does the same thing to the accepted ones — the
    repair changes no accepted behaviour;
  * `interleaved` is NOT atomic: a concrete refused edit that leaves the first namespace changed (the old defect);
  * a history with refused edits ends in the same state as the history with them deleted.
Instantiated for the three-namespace tree (`St`, add / rmdir): independence holds for every edit and every identifier
rule, so the statements hold for `stepChecked` unconditionally.
Which public calls have the `checked` shape is decided against the implementation by refusal injection (harness/props/c14.py).
-/
import Pycdlib.Model.Atomic
namespace Pycdlib.Atomic
open Pycdlib

variable {σ : Type}

/-- **C14**: a refused validate-then-mutate edit changes nothing. -/
theorem refused_unchanged (ps : List (Part σ)) (s : σ) (h : (checked ps s).2 ≠ none) : (checked ps s).1 = s := by
  unfold checked at *
  cases hf : firstRefusal ps s with
  | some c => simp
  | none => simp [hf] at h

theorem firstRefusal_apply (p : Part σ) (ps : List (Part σ))
    (h : ∀ q ∈ ps, ∀ s, q.check (p.apply s) = q.check s) (s : σ) :
    firstRefusal ps (p.apply s) = firstRefusal ps s := by
  induction ps with
  | nil => rfl
  | cons q qs ih =>
    simp only [firstRefusal]
    rw [h q List.mem_cons_self s]
    cases q.check s with
    | some c => rfl
    | none => exact ih fun r hr => h r (List.mem_cons_of_mem _ hr)

/-- with independent parts both disciplines give the same verdict ... -/
theorem interleaved_verdict (ps : List (Part σ)) (hi : Indep ps) (s : σ) :
    (interleaved ps s).2 = firstRefusal ps s := by
  induction ps generalizing s with
  | nil => rfl
  | cons p ps ih =>
    have hp := List.pairwise_cons.mp hi
    simp only [interleaved, firstRefusal]
    cases p.check s with
    | some c => rfl
    | none =>
      simp only
      rw [ih hp.2, firstRefusal_apply p ps hp.1]

/-- ... and the same state for every accepted edit -/
theorem interleaved_accepts (ps : List (Part σ)) (hi : Indep ps) (s : σ) (h : firstRefusal ps s = none) :
    interleaved ps s = (applyAll ps s, none) := by
  induction ps generalizing s with
  | nil => rfl
  | cons p ps ih =>
    have hp := List.pairwise_cons.mp hi
    simp only [firstRefusal] at h
    simp only [interleaved, applyAll, List.foldl_cons]
    cases hc : p.check s with
    | some c => simp [hc] at h
    | none =>
      simp only [hc] at h
      simp only
      have := ih hp.2 (p.apply s) (by rw [firstRefusal_apply p ps hp.1]; exact h)
      simpa [applyAll] using this

/-- **the repair preserves accepted behaviour**: same verdict always, same result when accepted -/
theorem checked_agrees (ps : List (Part σ)) (hi : Indep ps) (s : σ) :
    (checked ps s).2 = (interleaved ps s).2 ∧ ((checked ps s).2 = none → checked ps s = interleaved ps s) := by
  rw [interleaved_verdict ps hi s]
  unfold checked
  cases hf : firstRefusal ps s with
  | some c => simp
  | none => simp [interleaved_accepts ps hi s hf]

/-! ### the three-namespace instance -/

theorem get_set_ne (s : St) (w v : Which) (n : Ns) (h : w ≠ v) : (s.set w n).get v = s.get v := by
  cases w <;> cases v <;> simp_all [St.get, St.set]

theorem onNs_indep (w v : Which) (h : w ≠ v) (c1 c2 : Ns → Option Cause) (f1 f2 : Ns → Ns) (s : St) :
    (onNs v c2 f2).check ((onNs w c1 f1).apply s) = (onNs v c2 f2).check s := by
  simp only [onNs]
  cases hw : s.get w with
  | none => rfl
  | some ns => simp only [get_set_ne s w v _ h]

theorem partFor_indep (L : Legal) (k : Kind) (w v : Which) (h : w ≠ v) (p q : Path) (s : St) :
    (partFor L k v q).check ((partFor L k w p).apply s) = (partFor L k v q).check s := by
  cases k <;> exact onNs_indep w v h _ _ _ _ s

/-- the parts of every edit are independent, whatever the identifier rules -/
theorem parts_indep (L : Legal) (o : Op) : Indep (parts L o) := by
  unfold Indep parts
  have h1 := partFor_indep L o.kind .iso .joliet (by decide)
  have h2 := partFor_indep L o.kind .iso .udf (by decide)
  have h3 := partFor_indep L o.kind .joliet .udf (by decide)
  cases o.iso <;> cases o.joliet <;> cases o.udf <;>
    simp [List.pairwise_cons, h1, h2, h3]

/-- **C14 (tree instance)**: a refused add / rmdir leaves all three namespaces exactly as they were. -/
theorem step_refused_unchanged (L : Legal) (s : St) (o : Op) (h : (stepChecked L s o).2 ≠ none) :
    (stepChecked L s o).1 = s := refused_unchanged _ s h

/-- validating up front refuses exactly what the interleaved code refused and accepts identically -/
theorem step_agrees (L : Legal) (s : St) (o : Op) :
    (stepChecked L s o).2 = (stepInterleaved L s o).2 ∧
    ((stepChecked L s o).2 = none → stepChecked L s o = stepInterleaved L s o) :=
  checked_agrees _ (parts_indep L o) s

def accepted (L : Legal) (s : St) (o : Op) : Bool := (stepChecked L s o).2.isNone

/-- **C14 (histories)**: a history ends in the state of its accepted sub-history, and replaying that sub-history
accepts every edit (later edits behave as if the refused calls had never been made). -/
theorem run_skips_refused (L : Legal) (s : St) (os : List Op) :
    (runLog L s (runLog L s os).2) = runLog L s os := by
  induction os generalizing s with
  | nil => rfl
  | cons o os ih =>
    simp only [runLog]
    cases hstep : stepChecked L s o with
    | mk s' v =>
      cases v with
      | none =>
        simp only [runLog, hstep]
        rw [ih s']
      | some c =>
        simp only
        have hs : s' = s := by
          have := step_refused_unchanged L s o (by rw [hstep]; simp)
          rw [hstep] at this; exact this
        rw [hs]; exact ih s

theorem run_log_all_accepted (L : Legal) (s : St) (os : List Op) :
    (runLog L s (runLog L s os).2).2 = (runLog L s os).2 := by rw [run_skips_refused]

/-! ### the interleaved discipline is not atomic (the defect that was repaired) -/

def anyLegal : Legal := { iso := fun _ _ => true, joliet := fun _ _ => true, udf := fun _ _ => true, isoMaxDepth := none }
def emptySt : St := { iso := some [], joliet := some [], udf := none }
/-- add_fp(iso_path='/A', joliet_path='/NOSUCHDIR/X') -/
def badOp : Op := { kind := .add false, iso := some [[65]], joliet := some [[78], [88]], udf := none }

theorem partial_witness :
    (stepInterleaved anyLegal emptySt badOp).2 = some .missingParent ∧
    (stepInterleaved anyLegal emptySt badOp).1.iso = some [⟨[[65]], false⟩] ∧
    (stepChecked anyLegal emptySt badOp).2 = some .missingParent ∧
    (stepChecked anyLegal emptySt badOp).1.iso = some [] := by decide

/-- non-vacuity: an accepted multi-namespace edit -/
example : (stepChecked anyLegal emptySt { kind := .add true, iso := some [[65]], joliet := some [[97]], udf := none }).2 = none := by
  decide

end Pycdlib.Atomic

namespace Pycdlib.Atomic

/-! ### tree well-formedness is an invariant of every accepted edit -/

/-- no path occurs twice, no entry is the root, and every entry's parent is a directory of the same namespace -/
def WfNs (ns : Ns) : Prop :=
  (ns.map (·.path)).Nodup ∧ ∀ e ∈ ns, e.path ≠ [] ∧ isDirAt ns e.path.dropLast = true

def Wf (s : St) : Prop := ∀ w ns, s.get w = some ns → WfNs ns

theorem hasPath_iff (ns : Ns) (p : Path) : hasPath ns p = true ↔ p ∈ ns.map (·.path) := by
  simp only [hasPath, List.any_eq_true, List.mem_map, decide_eq_true_eq]

theorem isDirAt_mono (ns : Ns) (e : Entry) (p : Path) (h : isDirAt ns p = true) : isDirAt (e :: ns) p = true := by
  simp only [isDirAt, Bool.or_eq_true, decide_eq_true_eq, List.any_cons] at *
  rcases h with h | h
  · exact Or.inl h
  · exact Or.inr (Or.inr h)

theorem add_wf (legal : Bool → Name → Bool) (md : Option Nat) (d : Bool) (p : Path) (ns : Ns) (h : WfNs ns)
    (hc : checkAdd legal md d p ns = none) : WfNs (⟨p, d⟩ :: ns) := by
  unfold checkAdd at hc
  cases hl : p.getLast? with
  | none => simp [hl] at hc
  | some name =>
    simp only [hl] at hc
    by_cases hdepth : tooDeep md p = true
    · rw [if_pos hdepth] at hc; cases hc
    rw [if_neg hdepth] at hc
    split at hc
    · split at hc <;> cases hc
    · rename_i hpar
      split at hc
      · cases hc
      · split at hc
        · cases hc
        · rename_i hdup
          have hne : p ≠ [] := by intro h0; subst h0; simp at hl
          refine ⟨?_, ?_⟩
          · simp only [List.map_cons, List.nodup_cons]
            refine ⟨?_, h.1⟩
            intro hin
            exact hdup ((hasPath_iff ns p).mpr hin)
          · intro e he
            rcases List.mem_cons.mp he with rfl | he
            · refine ⟨hne, isDirAt_mono ns _ _ ?_⟩
              simpa using hpar
            · exact ⟨(h.2 e he).1, isDirAt_mono ns _ _ (h.2 e he).2⟩

theorem rmdir_wf (p : Path) (ns : Ns) (h : WfNs ns) (hc : checkRmdir p ns = none) :
    WfNs (ns.filter fun e => e.path ≠ p) := by
  unfold checkRmdir at hc
  split at hc; · cases hc
  split at hc; · cases hc
  split at hc; · cases hc
  split at hc; · cases hc
  rename_i hroot _ _ hchild
  refine ⟨?_, ?_⟩
  · have : ((ns.filter fun e => e.path ≠ p).map (·.path)).Sublist (ns.map (·.path)) :=
      (List.filter_sublist).map _
    exact this.nodup h.1
  · intro e he
    have hmem := (List.mem_filter.mp he).1
    have hkeep := (List.mem_filter.mp he).2
    refine ⟨(h.2 e hmem).1, ?_⟩
    have hpar := (h.2 e hmem).2
    simp only [isDirAt, Bool.or_eq_true, decide_eq_true_eq, List.any_eq_true, Bool.and_eq_true] at hpar ⊢
    rcases hpar with h0 | ⟨x, hx, hxp, hxd⟩
    · exact Or.inl h0
    · right
      refine ⟨x, List.mem_filter.mpr ⟨hx, ?_⟩, hxp, hxd⟩
      -- the parent of a surviving entry is not the removed directory, because that one had no children
      simp only [decide_eq_true_eq]
      intro hxeq
      apply hchild
      simp only [hasChild, List.any_eq_true, Bool.and_eq_true, decide_eq_true_eq]
      exact ⟨e, hmem, by rw [← hxeq, hxp], (h.2 e hmem).1⟩

end Pycdlib.Atomic

namespace Pycdlib.Atomic

/-- an invariant that every accepted part preserves is preserved by the whole accepted edit -/
theorem interleaved_preserves {σ : Type} (P : σ → Prop) (ps : List (Part σ))
    (hp : ∀ p ∈ ps, ∀ s, P s → p.check s = none → P (p.apply s)) (s : σ) (h : P s)
    (ha : (interleaved ps s).2 = none) : P (interleaved ps s).1 := by
  induction ps generalizing s with
  | nil => exact h
  | cons p ps ih =>
    simp only [interleaved] at ha ⊢
    cases hc : p.check s with
    | some c => simp [hc] at ha
    | none =>
      simp only [hc] at ha ⊢
      exact ih (fun q hq => hp q (List.mem_cons_of_mem _ hq)) _ (hp p List.mem_cons_self s h hc) ha

theorem get_set_self (s : St) (w : Which) (n : Ns) : (s.set w n).get w = some n := by
  cases w <;> rfl

theorem onNs_preserves_wf (w : Which) (chk : Ns → Option Cause) (f : Ns → Ns)
    (hf : ∀ ns, WfNs ns → chk ns = none → WfNs (f ns)) (s : St) (h : Wf s) (hc : (onNs w chk f).check s = none) :
    Wf ((onNs w chk f).apply s) := by
  simp only [onNs] at hc ⊢
  cases hw : s.get w with
  | none => simp [hw] at hc
  | some ns =>
    simp only [hw] at hc ⊢
    intro v m hv
    by_cases hvw : w = v
    · subst hvw
      rw [get_set_self] at hv
      cases hv
      exact hf ns (h w ns hw) hc
    · rw [get_set_ne s w v _ hvw] at hv
      exact h v m hv

theorem partFor_preserves_wf (L : Legal) (k : Kind) (w : Which) (p : Path) (s : St) (h : Wf s)
    (hc : (partFor L k w p).check s = none) : Wf ((partFor L k w p).apply s) := by
  cases k with
  | add d => exact onNs_preserves_wf w _ _ (fun ns hns hchk => add_wf (L.get w) _ d p ns hns hchk) s h hc
  | rmdir => exact onNs_preserves_wf w _ _ (fun ns hns hchk => rmdir_wf p ns hns hchk) s h hc

/-- **C13 / C14 (tree invariant)**: every accepted add / rmdir keeps all three namespaces well formed — no path twice,
every entry below an existing directory — and every refused one trivially does (it changes nothing). -/
theorem step_preserves_wf (L : Legal) (s : St) (o : Op) (h : Wf s) : Wf (stepChecked L s o).1 := by
  cases hv : (stepChecked L s o).2 with
  | some c => rw [step_refused_unchanged L s o (by rw [hv]; simp)]; exact h
  | none =>
    have hag := (step_agrees L s o).2 hv
    rw [hag]
    apply interleaved_preserves Wf (parts L o) ?_ s h (by have := (step_agrees L s o).1; rw [hv] at this; exact this.symm)
    intro p hp s' hs' hc
    unfold parts at hp
    simp only [List.mem_append] at hp
    rcases hp with (hp | hp) | hp
    · cases hi : o.iso with
      | none => simp [hi] at hp
      | some q => simp only [hi, List.mem_singleton] at hp; subst hp; exact partFor_preserves_wf L _ _ _ s' hs' hc
    · cases hi : o.joliet with
      | none => simp [hi] at hp
      | some q => simp only [hi, List.mem_singleton] at hp; subst hp; exact partFor_preserves_wf L _ _ _ s' hs' hc
    · cases hi : o.udf with
      | none => simp [hi] at hp
      | some q => simp only [hi, List.mem_singleton] at hp; subst hp; exact partFor_preserves_wf L _ _ _ s' hs' hc

/-- the invariant holds along every history from a well-formed state -/
theorem run_preserves_wf (L : Legal) (s : St) (os : List Op) (h : Wf s) : Wf (runLog L s os).1 := by
  induction os generalizing s with
  | nil => exact h
  | cons o os ih =>
    simp only [runLog]
    have := step_preserves_wf L s o h
    cases hstep : stepChecked L s o with
    | mk s' v =>
      rw [hstep] at this
      cases v with
      | none => exact ih s' this
      | some c => exact ih s' this

example : Wf emptySt := by
  intro w ns h
  cases w <;> simp [emptySt, St.get] at h <;> subst h <;> exact ⟨List.nodup_nil, fun e he => by cases he⟩

end Pycdlib.Atomic
