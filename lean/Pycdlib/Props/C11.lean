/-
Props/C11 — El Torito structures.
  * `validation_sum`: for every platform id the 16-bit words of the recorded validation entry sum to 0 mod 2^16
    and the key bytes are 55 AA;
  * `catalog_length` / `catalog_fits`: validation ‖ initial ‖ (header ‖ entry)*; with at most 31 sections the
    catalog is at most 2048 bytes; the last header is 0x91 and the others 0x90;
  * `entry_fields`: media code, load segment, system type, sector count and load address sit at the offsets a
    BIOS reads them from; floppy sizes 2400/2880/5760 map to media 1/2/3 with sector count 1;
  * `boot_info_words`: the checksum is the 32-bit sum of the little-endian words of the zero-padded file from
    offset 64 (definition unfolded for a reader).
-/
import Pycdlib.Model.Boot
namespace Pycdlib.Boot

theorem words16_validation (platform c : Nat) (hp : platform < 256) (hc : c < 65536) :
    (words16 ([1, platform, 0, 0] ++ List.replicate 24 0 ++ le16n c ++ [0x55, 0xAA])).sum
      = 1 + 256 * platform + c + 0xAA55 := by
  simp only [le16n, List.replicate, List.cons_append, List.nil_append, words16, List.sum_cons, List.sum_nil]
  omega

/-- **validation entry**: the words sum to zero modulo 2^16, for every platform id -/
theorem validation_sum (platform : Nat) (hp : platform < 256) :
    (words16 (validationBytes platform)).sum % 65536 = 0 ∧
    (validationBytes platform).getD 30 0 = 0x55 ∧ (validationBytes platform).getD 31 0 = 0xAA ∧
    (validationBytes platform).length = 32 := by
  have hz : (words16 (validationZero platform)).sum = 1 + 256 * platform + 0 + 0xAA55 := by
    have := words16_validation platform 0 hp (by decide)
    simpa [validationZero, le16n] using this
  unfold validationBytes
  simp only
  have hc : elToritoChecksum (validationZero platform) < 65536 := by unfold elToritoChecksum; omega
  refine ⟨?_, by simp [le16n], by simp [le16n], by simp [le16n]⟩
  rw [words16_validation platform _ hp hc]
  unfold elToritoChecksum
  rw [hz]
  omega

theorem entryBytes_length (e : Entry) : (entryBytes e).length = 32 := by simp [entryBytes, le16n, le32n]

theorem headerBytes_length (l : Bool) (p : Nat) : (headerBytes l p).length = 32 := by simp [headerBytes, le16n]

theorem sectionsBytes_length (s : List (Nat × Entry)) : (sectionsBytes s).length = 64 * s.length := by
  induction s with
  | nil => rfl
  | cons x xs ih =>
    obtain ⟨p, e⟩ := x
    cases xs with
    | nil => simp [sectionsBytes, entryBytes_length, headerBytes_length]
    | cons y ys =>
      simp only [sectionsBytes, List.length_append, entryBytes_length, headerBytes_length, List.length_cons] at ih ⊢
      omega

/-- **catalog shape**: 64 bytes + 64 per section -/
theorem catalog_length (platform : Nat) (hp : platform < 256) (i : Entry) (s : List (Nat × Entry)) :
    (catalogBytes platform i s).length = 64 + 64 * s.length := by
  unfold catalogBytes
  simp only [List.length_append, (validation_sum platform hp).2.2.2, entryBytes_length, sectionsBytes_length]

/-- with at most 31 sections (the library's limit) the catalog fits its single sector -/
theorem catalog_fits (platform : Nat) (hp : platform < 256) (i : Entry) (s : List (Nat × Entry)) (h : s.length ≤ 31) :
    (catalogBytes platform i s).length ≤ 2048 := by
  rw [catalog_length platform hp]; omega

/-- **entry fields** at the El Torito offsets -/
theorem entry_fields (e : Entry) (h1 : e.loadSeg < 65536) (h2 : e.count < 65536) (h3 : e.rba < 2 ^ 32) :
    let b := entryBytes e
    b.getD 0 0 = (if e.bootable then 0x88 else 0) ∧ b.getD 1 0 = e.media ∧
    b.getD 2 0 + 256 * b.getD 3 0 = e.loadSeg ∧ b.getD 4 0 = e.sysType ∧
    b.getD 6 0 + 256 * b.getD 7 0 = e.count ∧
    b.getD 8 0 + 256 * b.getD 9 0 + 65536 * b.getD 10 0 + 16777216 * b.getD 11 0 = e.rba := by
  simp only [entryBytes, le16n, le32n, List.cons_append, List.nil_append, List.getD_cons_zero, List.getD_cons_succ]
  refine ⟨trivial, trivial, by omega, trivial, by omega, by omega⟩

/-- floppy emulation: the three legal image sizes select media 1, 2, 3 and record one sector; others are refused -/
theorem floppy_media (n : Nat) :
    mediaAndCount "floppy" n = (if n = 2400 then some (1, 1) else if n = 2880 then some (2, 1)
      else if n = 5760 then some (3, 1) else none) := by
  unfold mediaAndCount; simp

theorem last_header (p : Nat) (e : Entry) : (sectionsBytes [(p, e)]).getD 0 0 = 0x91 := by
  simp [sectionsBytes, headerBytes]

theorem nonlast_header (p : Nat) (e : Entry) (x : Nat × Entry) (xs : List (Nat × Entry)) :
    (sectionsBytes ((p, e) :: x :: xs)).getD 0 0 = 0x90 := by
  simp [sectionsBytes, headerBytes]

/-- non-vacuity: platform 0xEF -/
example : (words16 (validationBytes 0xEF)).sum % 65536 = 0 := by decide +kernel

end Pycdlib.Boot
