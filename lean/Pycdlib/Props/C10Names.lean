/-
Props/C10Names — UDF names: one name, one identifier; a lookup finds the entry that carries the name and no other
(C10 fidelity of UDF names, C13 uniqueness, C02 "no entry other than the one addressed is affected").

  * `units16_injective`: UTF-16 is injective on scalar values.
  * `identOf_injective`: two names with the same File Identifier (encoding and content) are the same name.
  * `lookup_own_name`: the identifier recorded for name `n` matches a query `q` if and only if `q = n` — for every
    pair of names, in particular for a UTF-16 name whose bytes read as latin-1 spell another name.
-/
import Pycdlib.Model.UdfNames
namespace Pycdlib.UdfNames

theorem units16Of_prefix (a b : Nat) (ha : isScalar a = true) (hb : isScalar b = true) (x y : List Nat)
    (h : units16Of a ++ x = units16Of b ++ y) : a = b ∧ x = y := by
  unfold isScalar at ha hb
  simp only [Bool.or_eq_true, Bool.and_eq_true, decide_eq_true_eq] at ha hb
  unfold units16Of at h
  by_cases h1 : a < 0x10000 <;> by_cases h2 : b < 0x10000 <;> simp only [h1, h2, if_true, if_false] at h
  · simp only [List.cons_append, List.nil_append, List.cons.injEq] at h
    exact ⟨h.1, h.2⟩
  · simp only [List.cons_append, List.nil_append, List.cons.injEq] at h
    omega
  · simp only [List.cons_append, List.nil_append, List.cons.injEq] at h
    omega
  · simp only [List.cons_append, List.nil_append, List.cons.injEq] at h
    obtain ⟨e1, e2, e3⟩ := h
    exact ⟨by omega, e3⟩

theorem units16_injective (n m : List Nat) (hn : ∀ c ∈ n, isScalar c = true) (hm : ∀ c ∈ m, isScalar c = true)
    (h : units16 n = units16 m) : n = m := by
  induction n generalizing m with
  | nil =>
    cases m with
    | nil => rfl
    | cons b bs =>
      simp only [units16, List.flatMap_nil, List.flatMap_cons] at h
      have : (units16Of b ++ List.flatMap units16Of bs).length = 0 := by rw [← h]; rfl
      unfold units16Of at this
      split at this <;> simp at this
  | cons a as ih =>
    cases m with
    | nil =>
      simp only [units16, List.flatMap_nil, List.flatMap_cons] at h
      have : (units16Of a ++ List.flatMap units16Of as).length = 0 := by rw [h]; rfl
      unfold units16Of at this
      split at this <;> simp at this
    | cons b bs =>
      simp only [units16, List.flatMap_cons] at h
      obtain ⟨e1, e2⟩ := units16Of_prefix a b (hn a (by simp)) (hm b (by simp)) _ _ h
      subst e1
      rw [ih bs (fun c hc => hn c (by simp [hc])) (fun c hc => hm c (by simp [hc])) e2]

theorem identOf_injective (n m : List Nat) (hn : ∀ c ∈ n, isScalar c = true) (hm : ∀ c ∈ m, isScalar c = true)
    (h : identOf n = identOf m) : n = m := by
  unfold identOf at h
  by_cases h1 : isLatin1 n = true <;> by_cases h2 : isLatin1 m = true <;> simp only [h1, h2, if_true, if_false] at h
  · exact (Ident.mk.injEq _ _ _ _ ▸ h).2
  · cases (Ident.mk.injEq _ _ _ _ ▸ h).1
  · cases (Ident.mk.injEq _ _ _ _ ▸ h).1
  · exact units16_injective n m hn hm (Ident.mk.injEq _ _ _ _ ▸ h).2

/-- **a lookup finds the entry that carries the name, and no other** -/
theorem lookup_own_name (n q : List Nat) (hn : ∀ c ∈ n, isScalar c = true) (hq : ∀ c ∈ q, isScalar c = true) :
    matches_ (identOf n) q = true ↔ q = n := by
  unfold matches_ identOf
  by_cases h1 : isLatin1 n = true
  · simp only [h1, if_true, Bool.and_eq_true, beq_iff_eq]
    constructor
    · intro h; exact h.2.symm
    · intro h; subst h; exact ⟨h1, rfl⟩
  · simp only [h1, if_false, beq_iff_eq, Bool.false_eq_true]
    constructor
    · intro h; exact (units16_injective n q hn hq h).symm
    · intro h; subst h; rfl

/-- **the witness of the repaired defect**, in bytes as the old code compared them: the latin-1 identifier `ab`
(bytes 61 62) and the query U+6162, whose UTF-16BE bytes are 61 62 — the old comparison says "same name". -/
theorem old_rule_cross_encoding_collision :
    let latin1Bytes : List Nat := [0x61, 0x62]                       -- the stored identifier 'ab'
    let queryUtf16Bytes : List Nat := [0x6162 / 256, 0x6162 % 256]   -- U+6162 as UTF-16BE
    latin1Bytes = queryUtf16Bytes ∧ matches_ (identOf [0x61, 0x62]) [0x6162] = false := by
  decide

end Pycdlib.UdfNames
