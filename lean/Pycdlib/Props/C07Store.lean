/-
Props/C07Store — the content store of the specification along whole histories.
Full statement (C07): for EVERY accepted history, a content is stored exactly as long as some name (or boot entry) refers
to it, every name's content is stored, and content ids are unique.
Proved (`store_inv_partial`): for every accepted history that contains no `reopen`.  Not proved: across `reopen`, which
renumbers zero-length contents (its effect on names is `reopen_keeps_names`, Props/C02); decided there per history by the
reader/specification comparison over generations.
-/
import Pycdlib.Proofs.SpecBlobs
namespace Pycdlib.Spec

theorem run_inv_partial (s s' : State) (ops : List Op) (hno : Op.reopen ∉ ops) (ht : TreeInv s) (hb : BlobInv s)
    (h : run s ops = some s') : TreeInv s' ∧ BlobInv s' := by
  induction ops generalizing s with
  | nil => simp only [run, Option.some.injEq] at h; subst h; exact ⟨ht, hb⟩
  | cons op ops ih =>
    simp only [run, Option.bind_eq_some_iff] at h
    obtain ⟨s1, h1, h2⟩ := h
    have hop : op ≠ Op.reopen := fun heq => hno (heq ▸ List.mem_cons_self)
    exact ih s1 (fun hm => hno (List.mem_cons_of_mem _ hm)) (step_tree_inv s s1 op ht h1)
      (step_blob_inv s s1 op hop ht hb h1) h2

theorem blobInv_init (rr : Bool) : BlobInv { rr := rr } :=
  ⟨(fun e he => by cases he), (fun bl hbl => by cases hbl), (fun bl hbl => by cases hbl), List.nodup_nil⟩

/-- **C07 (content store, histories without reopen)** -/
theorem store_inv_partial (rr : Bool) (ops : List Op) (s' : State) (hno : Op.reopen ∉ ops)
    (h : run { rr := rr } ops = some s') : BlobInv s' :=
  (run_inv_partial _ _ ops hno (treeInv_init rr) (blobInv_init rr) h).2

theorem step_bootBlobs (s s' : State) (op : Op) (h : step s op = some s') : s'.bootBlobs = s.bootBlobs := by
  cases op with
  | addFp a =>
    simp only [step] at h
    split at h; · cases h
    split at h; · cases h
    simp only [Option.some.injEq] at h; subst h; rfl
  | addDir iso rrName joliet udf mode =>
    simp only [step] at h
    split at h; · cases h
    split at h; · cases h
    simp only [Option.some.injEq] at h; subst h; rfl
  | addSymlink iso rrName rrTarget joliet udf udfTarget =>
    simp only [step] at h
    split at h; · cases h
    split at h; · cases h
    simp only [Option.some.injEq] at h; subst h; rfl
  | rmDir iso joliet udf =>
    simp only [step] at h
    split at h; · cases h
    split at h; · cases h
    simp only [Option.some.injEq] at h; subst h; rfl
  | rmFile ns p =>
    simp only [step] at h
    cases hf : s.find ns p with
    | none => simp [hf] at h
    | some e =>
      simp only [hf] at h
      cases hn : e.node with
      | dir => simp [hn] at h
      | file b => simp only [hn, Option.some.injEq] at h; subst h; rfl
      | symlink t => simp only [hn, Option.some.injEq] at h; subst h; rfl
  | rmLink ns p =>
    simp only [step] at h
    cases hf : s.find ns p with
    | none => simp [hf] at h
    | some e =>
      simp only [hf] at h
      cases hn : e.node with
      | dir => simp [hn] at h
      | file b => simp only [hn, Option.some.injEq] at h; subst h; rfl
      | symlink t => simp only [hn, Option.some.injEq] at h; subst h; rfl
  | addLink oldNs oldP newNs newP rrName =>
    simp only [step] at h
    cases hf : s.find oldNs oldP with
    | none => simp [hf] at h
    | some e =>
      simp only [hf] at h
      cases hn : e.node with
      | dir => simp [hn] at h
      | symlink t => simp [hn] at h
      | file b =>
        simp only [hn] at h
        split at h; · cases h
        simp only [Option.some.injEq] at h; subst h; rfl
  | setHidden ns p hd =>
    simp only [step] at h
    cases hf : s.find ns p with
    | none => simp [hf] at h
    | some e => simp only [hf, Option.some.injEq] at h; subst h; rfl
  | reopen => simp only [step, Option.some.injEq] at h; subst h; rfl

/-- in the form C07 states it: (no boot references in these histories) a content is stored iff some name refers to it -/
theorem stored_iff_named_partial (rr : Bool) (ops : List Op) (s' : State) (hno : Op.reopen ∉ ops)
    (h : run { rr := rr } ops = some s') (b : Nat) :
    (∃ bl ∈ s'.blobs, bl.id = b) ↔ ∃ e ∈ s'.entries, e.node = Node.file b := by
  have hinv := store_inv_partial rr ops s' hno h
  have hboot : s'.bootBlobs = [] := by
    have : ∀ (s s' : State) (ops : List Op), run s ops = some s' → s'.bootBlobs = s.bootBlobs := by
      intro s s' ops
      induction ops generalizing s with
      | nil => intro h; simp only [run, Option.some.injEq] at h; subst h; rfl
      | cons op ops ih =>
        intro h
        simp only [run, Option.bind_eq_some_iff] at h
        obtain ⟨s1, h1, h2⟩ := h
        rw [ih s1 h2, step_bootBlobs s s1 op h1]
    exact this _ _ ops h
  constructor
  · rintro ⟨bl, hbl, rfl⟩
    have := hinv.2.1 bl hbl
    rw [refs_eq, hboot] at this
    simp only [List.filter_nil, List.length_nil, Nat.add_zero] at this
    unfold fileCount at this
    obtain ⟨e, he⟩ := List.exists_mem_of_length_pos this
    obtain ⟨hm, hn⟩ := List.mem_filter.mp he
    exact ⟨e, hm, by simpa using hn⟩
  · rintro ⟨e, he, hn⟩
    exact hinv.1 e he b hn

end Pycdlib.Spec
