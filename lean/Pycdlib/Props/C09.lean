/-
Props/C09 — Joliet names.
  * `joliet_decode_encode`: what the independent reader recovers from the UTF-16BE identifier (as UTF-8) is the
    UTF-8 of the Unicode name that was given, for every sequence of scalar values (BMP and beyond);
  * `joliet_fits`: a name the library accepts (at most 64 UTF-8 bytes) needs at most 64 UTF-16 code units, so it
    always fits the 128-byte Joliet identifier — nothing is ever truncated; over-refusal (e.g. 30 CJK characters =
    90 UTF-8 bytes) is allowed by the property and not reported.
-/
import Pycdlib.Model.Unicode
namespace Pycdlib
open Reader

theorem toUInt8_toNat (n : Nat) (h : n < 256) : n.toUInt8.toNat = n := by
  simp [Nat.toUInt8, UInt8.toNat_ofNat']; omega

/-- an encoded tail is empty or starts with a full 16-bit unit -/
def EvenStart (rest : Bytes) : Prop := rest = [] ∨ ∃ x y r, rest = x :: y :: r

theorem utf16be_evenStart (cs : List Nat) : EvenStart (utf16be cs) := by
  cases cs with
  | nil => left; rfl
  | cons d ds =>
    right
    unfold utf16be utf16beOf
    simp only [List.flatMap_cons]
    split
    · exact ⟨_, _, _, rfl⟩
    · exact ⟨_, _, _, rfl⟩

set_option maxRecDepth 8000 in
theorem utf16_one (c : Nat) (hs : isScalar c = true) (rest : Bytes) (hr : EvenStart rest) :
    utf16beToUtf8 (utf16beOf c ++ rest) = utf8 c ++ utf16beToUtf8 rest := by
  unfold isScalar at hs
  simp only [Bool.or_eq_true, Bool.and_eq_true, decide_eq_true_eq] at hs
  unfold utf16beOf
  by_cases hb : c < 0x10000
  · simp only [hb, if_true, List.cons_append, List.nil_append]
    have h1 : (c / 256).toUInt8.toNat = c / 256 := toUInt8_toNat _ (by omega)
    have h2 : (c % 256).toUInt8.toNat = c % 256 := toUInt8_toNat _ (by omega)
    have hu : c / 256 * 256 + c % 256 = c := by omega
    rcases hr with rfl | ⟨x, y, r, rfl⟩
    · simp [utf16beToUtf8, h1, h2, hu]
    · rw [utf16beToUtf8]
      simp only [h1, h2, hu]
      have : ¬ (0xD800 ≤ c ∧ c < 0xDC00 ∧ 0xDC00 ≤ x.toNat * 256 + y.toNat ∧ x.toNat * 256 + y.toNat < 0xE000) := by
        omega
      simp only [this, if_false]
  · simp only [hb, if_false, List.cons_append, List.nil_append]
    have hc : c < 0x110000 := by omega
    have hv : (c - 0x10000) / 1024 < 1024 := by omega
    have a1 : ((0xD800 + (c - 0x10000) / 1024) / 256).toUInt8.toNat = (0xD800 + (c - 0x10000) / 1024) / 256 :=
      toUInt8_toNat _ (by omega)
    have a2 : ((0xD800 + (c - 0x10000) / 1024) % 256).toUInt8.toNat = (0xD800 + (c - 0x10000) / 1024) % 256 :=
      toUInt8_toNat _ (by omega)
    have a3 : ((0xDC00 + (c - 0x10000) % 1024) / 256).toUInt8.toNat = (0xDC00 + (c - 0x10000) % 1024) / 256 :=
      toUInt8_toNat _ (by omega)
    have a4 : ((0xDC00 + (c - 0x10000) % 1024) % 256).toUInt8.toNat = (0xDC00 + (c - 0x10000) % 1024) % 256 :=
      toUInt8_toNat _ (by omega)
    rw [utf16beToUtf8]
    simp only [a1, a2, a3, a4]
    have e1 : (0xD800 + (c - 0x10000) / 1024) / 256 * 256 + (0xD800 + (c - 0x10000) / 1024) % 256
        = 0xD800 + (c - 0x10000) / 1024 := by omega
    have e2 : (0xDC00 + (c - 0x10000) % 1024) / 256 * 256 + (0xDC00 + (c - 0x10000) % 1024) % 256
        = 0xDC00 + (c - 0x10000) % 1024 := by omega
    rw [e1, e2]
    have cond : 0xD800 ≤ 0xD800 + (c - 0x10000) / 1024 ∧ 0xD800 + (c - 0x10000) / 1024 < 0xDC00 ∧
        0xDC00 ≤ 0xDC00 + (c - 0x10000) % 1024 ∧ 0xDC00 + (c - 0x10000) % 1024 < 0xE000 := by omega
    simp only [cond, and_self, if_true]
    have : 0x10000 + (0xD800 + (c - 0x10000) / 1024 - 0xD800) * 1024 + (0xDC00 + (c - 0x10000) % 1024 - 0xDC00) = c := by
      omega
    rw [this]

/-- **Joliet names**: the reader's decoding of the recorded UTF-16BE identifier is the UTF-8 of the given name -/
theorem joliet_decode_encode (cps : List Nat) (h : ∀ c ∈ cps, isScalar c = true) :
    utf16beToUtf8 (utf16be cps) = utf8s cps := by
  induction cps with
  | nil => simp [utf16be, utf8s, utf16beToUtf8]
  | cons c cs ih =>
    have := utf16_one c (h c (by simp)) (utf16be cs) (utf16be_evenStart cs)
    simp only [utf16be, utf8s, List.flatMap_cons] at this ih ⊢
    rw [this, ih (fun x hx => h x (by simp [hx]))]

theorem utf8_len (c : Nat) : (utf8 c).length = if c < 0x80 then 1 else if c < 0x800 then 2 else if c < 0x10000 then 3 else 4 := by
  unfold utf8
  by_cases h1 : c < 0x80
  · simp [h1]
  · by_cases h2 : c < 0x800
    · simp [h1, h2]
    · by_cases h3 : c < 0x10000
      · simp [h1, h2, h3]
      · simp [h1, h2, h3]

/-- a scalar never needs more UTF-16 units than UTF-8 bytes -/
theorem units16_le_utf8 (c : Nat) : units16 c ≤ (utf8 c).length := by
  rw [utf8_len]; unfold units16
  by_cases h1 : c < 0x80 <;> by_cases h2 : c < 0x800 <;> by_cases h3 : c < 0x10000 <;> simp [h1, h2, h3] <;> omega

theorem utf16be_len (c : Nat) : (utf16beOf c).length = 2 * units16 c := by
  unfold utf16beOf units16; split <;> simp

/-- **nothing is truncated**: a name of at most 64 UTF-8 bytes (the library's acceptance test) occupies at most
128 bytes as a Joliet identifier -/
theorem joliet_fits (cps : List Nat) (h : (utf8s cps).length ≤ 64) : (utf16be cps).length ≤ 128 := by
  have key : ∀ l : List Nat, (utf16be l).length ≤ 2 * (utf8s l).length := by
    intro l
    induction l with
    | nil => simp [utf16be, utf8s]
    | cons c cs ih =>
      simp only [utf16be, utf8s, List.flatMap_cons, List.length_append] at ih ⊢
      have := units16_le_utf8 c
      rw [utf16be_len]
      omega
  have := key cps
  omega

/-- non-vacuity: "é中😀" -/
example : utf16beToUtf8 (utf16be [0xE9, 0x4E2D, 0x1F600]) = utf8s [0xE9, 0x4E2D, 0x1F600] := by decide +kernel

end Pycdlib
