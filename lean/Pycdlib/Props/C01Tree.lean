/-
Props/C01Tree — the specification's state after ANY accepted history is a forest in every namespace
(C01 "nothing else appears, nothing is missing" presupposes it; C13 "names are unique within a directory, parents exist").
Proof: Proofs/SpecInv.lean (one preservation lemma per operation, `reopen` included).
-/
import Pycdlib.Proofs.SpecInv
namespace Pycdlib.Spec

/-- **C01 / C13 (specification side)**: starting from the empty image, whatever sequence of add / remove / link /
symlink / hide / reopen operations the specification accepts, no (namespace, path) occurs twice and every entry hangs
below a directory entry of its own namespace. -/
theorem history_is_forest (rr : Bool) (ops : List Op) (s' : State) (h : run { rr := rr } ops = some s') : TreeInv s' :=
  run_tree_inv _ _ ops (treeInv_init rr) h

/-- consequence in the form the checks use: a path resolves to at most one entry -/
theorem entry_unique (rr : Bool) (ops : List Op) (s' : State) (h : run { rr := rr } ops = some s') (a b : Entry)
    (ha : a ∈ s'.entries) (hb : b ∈ s'.entries) (hk : a.ns = b.ns ∧ a.path = b.path) : a = b :=
  key_unique _ (history_is_forest rr ops s' h).1 a b ha hb hk

/-- non-vacuity: a history with a directory, a file below it, a link and a reopen is accepted -/
example : (run { rr := true } [.addDir (some [[68]]) [100] (some [[100]]) none 0o040555,
    .addFp { cid := 1, len := 0, iso := some [[68], [70]], rrName := [102], joliet := some [[100], [102]] },
    .addLink .iso [[68], [70]] .joliet [[108]] [], .reopen, .rmDir none (some [[100]]) none]).isSome = false ∧
    (run { rr := true } [.addDir (some [[68]]) [100] (some [[100]]) none 0o040555,
    .addFp { cid := 1, len := 0, iso := some [[68], [70]], rrName := [102], joliet := some [[100], [102]] },
    .addLink .iso [[68], [70]] .joliet [[108]] [], .reopen]).isSome = true := by decide +kernel

end Pycdlib.Spec
