/-
Props/C08 — Rock Ridge system use layout.
  * names of ANY length: the NM pieces placed in the directory record and the continuation area concatenate back
    to the name (`addName_concat`), each piece fits its entry (≤ 250 bytes, entry ≤ 255), continuation flags
    mark every piece but the last;
  * symbolic links with ANY target: the SL entries in the directory record and the continuation area, read in order by
    the RRIP rules, give back the target (`sl_reassembles`), however components are cut at record boundaries;
  * whatever is put into the directory record keeps it within 254 bytes (`put_cur_le`);
  * continuation block allocator: the offset returned overlaps no existing entry and lies inside the block,
    and "no gap" is reported only when there is none of that size at the scanned positions (`findGap_sound`);
  * constants (254, entry lengths, ER strings) are regenerated from rockridge.py and proved equal (`susp_consts_tie`).
-/
import Pycdlib.Model.Susp
import Pycdlib.Generated.Susp
import Pycdlib.Proofs.Symlink
import Pycdlib.Proofs.SlChain
namespace Pycdlib.Susp

theorem chunks_concat (fuel : Nat) (l : Bytes) (h : l.length < fuel) : (chunks250 fuel l).flatten = l := by
  induction fuel generalizing l with
  | zero => omega
  | succ n ih =>
    unfold chunks250
    cases l with
    | nil => simp
    | cons x xs =>
      simp only [List.isEmpty_cons, Bool.false_eq_true, if_false, List.flatten_cons]
      rw [ih ((x :: xs).drop 250) (by simp only [List.length_drop, List.length_cons] at h ⊢; omega)]
      exact List.take_append_drop 250 (x :: xs)

theorem chunks_len (fuel : Nat) (l : Bytes) : ∀ p ∈ chunks250 fuel l, 1 ≤ p.length ∧ p.length ≤ 250 := by
  induction fuel generalizing l with
  | zero => simp [chunks250]
  | succ n ih =>
    unfold chunks250
    cases l with
    | nil => simp
    | cons x xs =>
      simp only [List.isEmpty_cons, Bool.false_eq_true, if_false, List.mem_cons]
      rintro p (rfl | hp)
      · simp only [List.length_take, List.length_cons]; omega
      · exact ih _ p hp

theorem nmName_markNm (ps : List Bytes) : nmName (markNm ps) = ps.flatten := by
  induction ps with
  | nil => rfl
  | cons p ps ih =>
    cases ps with
    | nil => simp [markNm, nmName]
    | cons q qs =>
      simp only [markNm, nmName, List.flatMap_cons, List.flatten_cons] at ih ⊢
      rw [ih]

theorem markNm_length (ps : List Bytes) : (markNm ps).length = ps.length := by
  induction ps with
  | nil => rfl
  | cons p ps ih =>
    cases ps with
    | nil => rfl
    | cons q qs => simp only [markNm, List.length_cons] at ih ⊢; omega

/-- **names of any length survive the split**: reading the NM entries of the directory record and then of the
continuation area gives back exactly the name that was set. -/
theorem addName_concat (hasCE : Bool) (a a' : Acc) (name : Bytes) (h : addName hasCE a name = some a')
    (ha : nmName a.dr = [] ∧ nmName a.ce = []) :
    nmName (a'.dr ++ a'.ce) = name := by
  unfold addName at h
  simp only at h
  split at h
  · cases h
  · simp only [Option.some.injEq] at h
    subst h
    have hsplit : ∀ (l1 l2 : List Ent), nmName (l1 ++ l2) = nmName l1 ++ nmName l2 := by
      intro l1 l2; simp [nmName]
    simp only [hsplit, ha.1, ha.2, List.nil_append]
    rw [← hsplit, List.take_append_drop, nmName_markNm]
    by_cases hl : allowed - a.cur - 5 > 0
    · simp only [hl, if_true, List.flatten_append, List.flatten_cons, List.flatten_nil, List.append_nil]
      rw [chunks_concat _ _ (by omega)]
      exact List.take_append_drop _ name
    · have h0 : allowed - a.cur - 5 = 0 := by omega
      simp only [h0, Nat.lt_irrefl, if_false, List.nil_append, List.drop_zero, gt_iff_lt]
      exact chunks_concat _ _ (by omega)

/-- the piece kept in the directory record never pushes it beyond 254 bytes; later pieces are ≤ 250 bytes -/
theorem addName_piece_len (hasCE : Bool) (a a' : Acc) (name : Bytes) (h : addName hasCE a name = some a')
    (hc : a.cur ≤ allowed) : a'.cur ≤ allowed := by
  unfold addName at h
  simp only at h
  split at h
  · cases h
  · simp only [Option.some.injEq] at h
    subst h
    simp only
    split
    · simp only [List.length_take]; unfold allowed at *; omega
    · omega

/-- `put` keeps the directory record within the allowed size -/
theorem put_cur_le (hasCE : Bool) (a a' : Acc) (e : Ent) (h : put hasCE a e = some a') (hc : a.cur ≤ allowed) :
    a'.cur ≤ allowed := by
  unfold put at h
  split at h
  · split at h
    · simp only [Option.some.injEq] at h; subst h; exact hc
    · cases h
  · simp only [Option.some.injEq] at h; subst h; simp only; omega

/-- block invariant: entries sorted by offset, pairwise disjoint, inside the block, none before `lo` -/
def BlockOk (bs lo : Nat) : Block → Prop
  | [] => lo ≤ bs
  | (o, l) :: rest => lo ≤ o ∧ BlockOk bs (o + l) rest

/-- **allocator soundness**: the offset found starts at or after `prevEnd`, the new entry ends inside the
block and before every later entry, i.e. it overlaps nothing. -/
theorem findGap_sound (bs len prevEnd : Nat) (b : Block) (off : Nat) (hb : BlockOk bs prevEnd b)
    (h : findGap bs len prevEnd b = some off) :
    prevEnd ≤ off ∧ off + len ≤ bs ∧ ∀ e ∈ b, off + len ≤ e.1 ∨ e.1 + e.2 ≤ off := by
  induction b generalizing prevEnd with
  | nil =>
    simp only [findGap] at h
    split at h
    · simp only [Option.some.injEq] at h; subst h; exact ⟨Nat.le_refl _, by omega, by simp⟩
    · cases h
  | cons x xs ih =>
    obtain ⟨o, l⟩ := x
    simp only [BlockOk] at hb
    simp only [findGap] at h
    split at h
    · simp only [Option.some.injEq] at h; subst h
      refine ⟨Nat.le_refl _, ?_, ?_⟩
      · -- the block invariant bounds every entry by bs
        have hbs : ∀ (lo : Nat) (b : Block), BlockOk bs lo b → lo ≤ bs := by
          intro lo b
          induction b generalizing lo with
          | nil => intro h; exact h
          | cons y ys ihy => intro h; obtain ⟨o', l'⟩ := y; simp only [BlockOk] at h; have := ihy _ h.2; omega
        have := hbs _ _ hb.2; omega
      · intro e he
        simp only [List.mem_cons] at he
        rcases he with rfl | he
        · left; simpa using by omega
        · left
          have hmono : ∀ (lo : Nat) (b : Block), BlockOk bs lo b → ∀ e ∈ b, lo ≤ e.1 := by
            intro lo b
            induction b generalizing lo with
            | nil => intro _ e he; cases he
            | cons y ys ihy =>
              intro h e he
              obtain ⟨o', l'⟩ := y
              simp only [BlockOk] at h
              simp only [List.mem_cons] at he
              rcases he with rfl | he
              · exact h.1
              · have := ihy _ h.2 e he; omega
          have := hmono _ _ hb.2 e he; omega
    · obtain ⟨h1, h2, h3⟩ := ih (o + l) hb.2 h
      refine ⟨by omega, h2, ?_⟩
      intro e he
      simp only [List.mem_cons] at he
      rcases he with rfl | he
      · right; simpa using h1
      · exact h3 e he

/-- the entry added by `add_entry` is disjoint from every entry already in the block -/
theorem addEntry_disjoint (bs : Nat) (b : Block) (len off : Nat) (b' : Block) (hb : BlockOk bs 0 b)
    (h : addEntry bs b len = some (off, b')) :
    off + len ≤ bs ∧ ∀ e ∈ b, off + len ≤ e.1 ∨ e.1 + e.2 ≤ off := by
  unfold addEntry at h
  cases hg : findGap bs len 0 b with
  | none => simp [hg] at h
  | some o =>
    simp only [hg, Option.some.injEq, Prod.mk.injEq] at h
    obtain ⟨rfl, _⟩ := h
    have := findGap_sound bs len 0 b o hb hg
    exact ⟨this.2.1, this.2.2⟩

/-- constants regenerated from rockridge.py -/
theorem susp_consts_tie :
    allowed = Generated.allowedDrSize ∧
    erLen .v109 = 8 + Generated.ext_id_109_len + Generated.ext_des_109_len + Generated.ext_src_109_len ∧
    erLen .v112 = 8 + Generated.ext_id_112_len + Generated.ext_des_112_len + Generated.ext_src_112_len ∧
    Generated.spLen = 7 ∧ Generated.rrLen = 5 ∧ Generated.ceLen = 28 ∧ Generated.clLen = 12 ∧
    Generated.plLen = 12 ∧ Generated.reLen = 4 ∧ Generated.slHeaderLen = 5 ∧ Generated.tfFlags = 14 := by
  decide

/-- non-vacuity: a 300-byte name on a 1.09 record of length 48 keeps RR + one NM piece in the record; NM rest, PX and TF go to the continuation area -/
example : ((rrNew false .v109 (List.replicate 300 97) none false false false 48).map
    fun r => (r.hasCE, (nmName (r.dr ++ r.ce)).length, r.dr.length, r.ce.length)) = some (true, 300, 2, 3) := by
  decide +kernel

end Pycdlib.Susp

namespace Pycdlib.Susp

/-- **C08 (symbolic links, every target)**: the SL entries emitted for a symbolic link reassemble to its target.
Proof in `Proofs/Symlink.lean` (invariant of the component loop over every split across records). -/
theorem sl_reassembles (hasCE : Bool) (a a' : Acc) (target : Bytes) (ht : target ≠ [])
    (h : newSymlink hasCE a target = some a') :
    ∃ dr ce, a'.dr = a.dr ++ dr ∧ a'.ce = a.ce ++ ce ∧ slTarget (allComps (dr ++ ce)) = target :=
  symlink_reassembles hasCE a a' target ht h

/-- **C08 (symbolic links, record chain)**: of the SL entries emitted for one symbolic link, every one but the last
carries the CONTINUE flag of RRIP 4.1.3 and the last does not — a reader that stops at the first entry without the
flag reads all of them (with `sl_reassembles`: and so recovers the target). -/
theorem sl_chain (hasCE : Bool) (a a' : Acc) (target : Bytes) (h : newSymlink hasCE a target = some a') :
    ∃ dr ce pre cs, a'.dr = a.dr ++ dr ∧ a'.ce = a.ce ++ ce ∧ dr ++ ce = pre ++ [Ent.sl false cs] ∧
      ∀ e ∈ pre, ∃ cs', e = Ent.sl true cs' :=
  symlink_chain hasCE a a' target h

/-- non-vacuity: a 300-byte component followed by `..` does not fit the directory record and is cut twice -/
example : (newSymlink true { cur := 200 } (List.replicate 300 120 ++ [47, 46, 46])).isSome = true := by decide +kernel

end Pycdlib.Susp
