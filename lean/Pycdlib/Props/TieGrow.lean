/-
Props/TieGrow — the rules by which `DirectoryRecord._add_child` grows and `remove_child` shrinks a directory's
`data_length`, as translated from dr.py on every run (Generated/Grow), are the `growLen` / `shrinkLen` of Model/Pack that
the bookkeeping machine (Model/Iso) and its theorems (`space_exact`, `dirs_covered`) are built on.  A changed comparison
(`>` into `>=`), amount or `total_size` formula in dr.py breaks these lemmas.
-/
import Pycdlib.Generated.Grow
import Pycdlib.Model.Pack
namespace Pycdlib

/-- **tie**: the growth rule of `_add_child` -/
theorem dr_grow_tie (bs dataLen ext : Nat) :
    Generated.dr_grow ext bs dataLen = (((growLen bs dataLen ext).1 : Int), (growLen bs dataLen ext).2) := by
  unfold Generated.dr_grow growLen
  by_cases h : ext * bs > dataLen
  · have : ((ext : Int) * (bs : Int) > (dataLen : Int)) := by exact_mod_cast h
    simp [h, this]
  · have : ¬ ((ext : Int) * (bs : Int) > (dataLen : Int)) := by
      intro hc; exact h (by exact_mod_cast hc)
    simp [h, this]

/-- **tie**: the shrink rule of `remove_child` (the packing state always has at least one block) -/
theorem dr_shrink_tie (bs dataLen : Nat) (st : NF) (h1 : 1 ≤ st.1) :
    Generated.dr_shrink st.1 st.2 bs dataLen = (((shrinkLen bs dataLen st).1 : Int), (shrinkLen bs dataLen st).2) := by
  unfold Generated.dr_shrink shrinkLen
  simp only
  have hcast : (((st.1 - 1 : Nat) : Int)) = (st.1 : Int) - 1 := by omega
  have hp : ((st.1 : Int) - 1) * (bs : Int) = (((st.1 - 1) * bs : Nat) : Int) := by
    rw [Int.natCast_mul, hcast]
  rw [hp]
  generalize (st.1 - 1) * bs = p
  by_cases h : dataLen - (p + st.2) > bs
  · have hi : ((dataLen : Int) - ((p : Int) + (st.2 : Int)) > (bs : Int)) := by omega
    have e : ((dataLen : Int) - (bs : Int)) = ((dataLen - bs : Nat) : Int) := by omega
    simp [h, hi, e]
  · have hi : ¬ ((dataLen : Int) - ((p : Int) + (st.2 : Int)) > (bs : Int)) := by omega
    simp [h, hi]

end Pycdlib
