/-
Props/C16 — reading files: the file-like object over the shared image file behaves, for EVERY sequence of
read / readall / readinto / seek / tell / close calls on any number of open files and EVERY interleaving with
other uses of the shared file object (`clobber`), exactly like independent in-memory streams of each file's
own bytes.  In particular no read returns bytes outside the file, and interference is impossible.
-/
import Pycdlib.Proofs.Stream
namespace Pycdlib

/-- one step: same output, abstraction commutes, well-formedness is kept -/
theorem step_refines (w : World) (hw : WFWorld w) (op : SOp) :
    (stepW w op).2 = (stepSpec (absW w) op).2 ∧
    absW (stepW w op).1 = (stepSpec (absW w) op).1 ∧
    WFWorld (stepW w op).1 := by
  cases op with
  | clobber p => exact ⟨rfl, by simp [stepW, stepSpec, absW], fun s hs => hw s hs⟩
  | call id c =>
    simp only [stepW, stepSpec, absW_get]
    cases hs : w.streams[id]? with
    | none => exact ⟨rfl, rfl, hw⟩
    | some s =>
      have hin : s.start + s.len ≤ w.img.length := hw s (List.mem_of_getElem? hs)
      obtain ⟨h1, h2, h3, h4⟩ := call_refines w.img w.pos s c hin
      simp only [Option.map_some]
      refine ⟨h1, ?_, ?_⟩
      · unfold absW; simp only [List.map_set]; rw [h2]
      · intro x hx
        simp only at hx ⊢
        rcases List.mem_or_eq_of_mem_set hx with h | h
        · exact hw x h
        · subst h; rw [h3, h4]; exact hin

/-- **C16**: every history of stream operations, interleaved arbitrarily with other uses of the shared
file object, produces exactly the outputs of independent in-memory streams. -/
theorem stream_refines (w : World) (hw : WFWorld w) (ops : List SOp) :
    runW w ops = runSpec (absW w) ops := by
  induction ops generalizing w with
  | nil => rfl
  | cons op ops ih =>
    obtain ⟨h1, h2, h3⟩ := step_refines w hw op
    simp only [runW, runSpec]
    rw [h1, ih _ h3, h2]

/-- the specification never returns bytes beyond the end of the file -/
theorem spec_read_within (s : SpecSt) (k : Nat) :
    s.pos + ((s.content.drop s.pos).take k).length ≤ max s.pos s.content.length := by
  simp only [List.length_take, List.length_drop]; omega

/-- **C16 (extraction)**: copying with any positive block size delivers exactly the first `left` bytes -/
theorem copy_exact (left bs : Nat) (src : Bytes) (hbs : 0 < bs) (hlen : left ≤ src.length) (fuel : Nat)
    (hf : left ≤ fuel) : copyData fuel left bs src = src.take left := by
  induction fuel generalizing left src with
  | zero =>
    have : left = 0 := by omega
    subst this; simp [copyData]
  | succ n ih =>
    unfold copyData
    by_cases h0 : left = 0
    · subst h0; simp
    · simp only [h0, if_false]
      have hl : (src.take (min bs left)).length = min bs left := by
        simp only [List.length_take]; omega
      simp only [hl, ne_eq, not_true_eq_false, if_false]
      rw [ih (left - min bs left) (src.drop (min bs left)) (by simp only [List.length_drop]; omega) (by omega)]
      rw [← List.take_add]
      congr 1; omega

/-- a refused call changes nothing (in the model of the implementation) -/
theorem refused_unchanged (img : Bytes) (pos : Nat) (s : StreamSt) (c : StreamCall)
    (h : (streamCall img pos s c).2.2 = .refused) :
    (streamCall img pos s c).1 = s ∧ (streamCall img pos s c).2.1 = pos := by
  obtain ⟨st, ln, of, op⟩ := s
  cases c <;> cases op <;> simp_all [streamCall] <;> (try split at h) <;> simp_all

/-- non-vacuity: two streams on one image; an interfering seek between two reads of stream 0 changes nothing -/
example :
    runW { img := [1, 2, 3, 4, 5, 6, 7, 8], pos := 0,
           streams := [⟨1, 3, 0, true⟩, ⟨4, 4, 0, true⟩] }
      [.call 0 (.read (some 2)), .clobber 6, .call 1 (.read (some 1)), .call 0 (.readinto 5), .call 0 .tell,
       .call 1 (.seek (-1) 2), .call 1 .readall]
    = [.bytes [2, 3], .unit, .bytes [5], .bytes [4], .num 3, .num 3, .bytes [8]] := by decide +kernel

end Pycdlib
