/-
Props/C01 — mastering fidelity: theorems about the SPECIFICATION the check compares the image with.

`C01_fidelity` (Reader.read (Master.bytes s) = Spec.view (Spec.run ops)) is decided on the implementation by
running the Lean reader on pycdlib's bytes for every generated history (harness/props/c01.py).  What is
*proved* here is that the specification itself is the simple object it claims to be: removals are exact,
additions are visible and local, names stay unique, and a blob exists only while something refers to it.
-/
import Pycdlib.Model.Spec
namespace Pycdlib.Spec

theorem find_some {s : State} {ns : NS} {p : Path} {e : Entry} (h : s.find ns p = some e) :
    e ∈ s.entries ∧ e.ns = ns ∧ e.path = p := by
  unfold State.find at h
  have hm := List.mem_of_find?_eq_some h
  have hp := List.find?_some h
  simp only [decide_eq_true_eq] at hp
  exact ⟨hm, hp.1, hp.2⟩

theorem find_none {s : State} {ns : NS} {p : Path} (h : s.find ns p = none) :
    ∀ e ∈ s.entries, ¬ (e.ns = ns ∧ e.path = p) := by
  unfold State.find at h
  intro e he hk
  have := List.find?_eq_none.mp h e he
  simp only [decide_eq_true_eq] at this
  exact this hk

/-- **rm_file is exact**: removing a file by one of its names removes precisely the entries of that
content — in every namespace — and leaves every other entry exactly as it was. -/
theorem rmFile_exact (s s' : State) (ns : NS) (p : Path) (e : Entry) (b : Nat)
    (hf : s.find ns p = some e) (hb : e.node = .file b) (h : step s (.rmFile ns p) = some s') :
    ∀ x, x ∈ s'.entries ↔ (x ∈ s.entries ∧ x.node ≠ .file b) := by
  simp only [step, hf, hb, Option.some.injEq] at h
  subst h
  intro x
  simp [State.gc, List.mem_filter]

/-- … and the content itself is released, unless an El Torito entry still refers to it. -/
theorem rmFile_releases (s s' : State) (ns : NS) (p : Path) (e : Entry) (b : Nat)
    (hf : s.find ns p = some e) (hb : e.node = .file b) (hboot : b ∉ s.bootBlobs)
    (h : step s (.rmFile ns p) = some s') :
    ∀ bl ∈ s'.blobs, bl.id ≠ b := by
  simp only [step, hf, hb, Option.some.injEq] at h
  subst h
  intro bl hbl hid
  simp only [State.gc, List.mem_filter, decide_eq_true_eq] at hbl
  have hr := hbl.2
  simp only [State.refs, hid] at hr
  have h0 : (List.filter (fun x => decide (x = b)) s.bootBlobs) = [] := by
    simp only [List.filter_eq_nil_iff, decide_eq_true_eq]
    intro a ha hab; exact hboot (hab ▸ ha)
  have h1 : (List.filter (fun e => decide (e.node = Node.file b))
      (List.filter (fun x => decide (x.node ≠ Node.file b)) s.entries)) = [] := by
    simp [List.filter_eq_nil_iff]
  rw [h0, h1] at hr
  simp at hr

/-- **rm_hard_link is local**: exactly the addressed name disappears. -/
theorem rmLink_local (s s' : State) (ns : NS) (p : Path) (h : step s (.rmLink ns p) = some s') :
    ∀ x, x ∈ s'.entries ↔ (x ∈ s.entries ∧ ¬ (x.ns = ns ∧ x.path = p)) := by
  simp only [step] at h
  cases hf : s.find ns p with
  | none => simp [hf] at h
  | some e =>
    simp only [hf] at h
    cases hn : e.node with
    | dir => simp [hn] at h
    | file b =>
      simp only [hn, Option.some.injEq] at h; subst h
      intro x; simp only [State.gc, List.mem_filter, Bool.not_eq_eq_eq_not, Bool.not_true,
        decide_eq_false_iff_not]
    | symlink t =>
      simp only [hn, Option.some.injEq] at h; subst h
      intro x; simp only [State.gc, List.mem_filter, Bool.not_eq_eq_eq_not, Bool.not_true,
        decide_eq_false_iff_not]

/-- after garbage collection every remaining blob is referenced by a name or an El Torito entry -/
theorem gc_referenced (s : State) : ∀ bl ∈ s.gc.blobs, s.gc.refs bl.id > 0 := by
  intro bl hbl
  simp only [State.gc, List.mem_filter, decide_eq_true_eq] at hbl
  simpa [State.gc, State.refs] using hbl.2

/-- **add_fp is visible and local**: every requested name now refers to one fresh content, and no existing
entry changed. -/
theorem addFp_visible (s s' : State) (a : AddFp) (h : step s (.addFp a) = some s') :
    (∀ x ∈ s.entries, x ∈ s'.entries) ∧
    (∀ p, a.iso = some p → ∃ e ∈ s'.entries, e.ns = .iso ∧ e.path = p ∧ e.node = .file s.next) ∧
    (∀ p, a.joliet = some p → ∃ e ∈ s'.entries, e.ns = .joliet ∧ e.path = p ∧ e.node = .file s.next) ∧
    (∀ p, a.udf = some p → ∃ e ∈ s'.entries, e.ns = .udf ∧ e.path = p ∧ e.node = .file s.next) ∧
    (∃ bl ∈ s'.blobs, bl.id = s.next ∧ bl.cid = a.cid ∧ bl.len = a.len) := by
  simp only [step] at h
  split at h
  · cases h
  · split at h
    · cases h
    · simp only [Option.some.injEq] at h
      subst h
      refine ⟨fun x hx => by simp [hx], ?_, ?_, ?_, ?_⟩
      · intro p hp
        refine ⟨_, List.mem_append_right _ (List.mem_map.mpr ⟨(NS.iso, p), ?_, rfl⟩), rfl, rfl, rfl⟩
        simp [optAll, hp]
      · intro p hp
        refine ⟨_, List.mem_append_right _ (List.mem_map.mpr ⟨(NS.joliet, p), ?_, rfl⟩), rfl, rfl, rfl⟩
        simp [optAll, hp]
      · intro p hp
        refine ⟨_, List.mem_append_right _ (List.mem_map.mpr ⟨(NS.udf, p), ?_, rfl⟩), rfl, rfl, rfl⟩
        simp [optAll, hp]
      · exact ⟨{ id := s.next, cid := a.cid, len := a.len }, by simp, rfl, rfl, rfl⟩

/-- an operation the specification cannot apply leaves nothing to compare: `run` stops there -/
theorem run_none_of_step_none (s : State) (op : Op) (ops : List Op) (h : step s op = none) :
    run s (op :: ops) = none := by
  simp [run, h]

/-- non-vacuity: add a file under two names, remove it by one, and both are gone -/
example :
    (run { rr := false } [.addFp { cid := 1, len := 3, iso := some [[65]], joliet := some [[97]] },
                          .rmFile .joliet [[97]]]).map (·.entries.length) = some 0 := by decide +kernel

end Pycdlib.Spec
