/-
Props/C01Extents — a file of any number of extents keeps its records in order (C01: what was added is what the image
shows; C02: parsing a multi-extent file).

  * `addFile_in_order`: adding the `n` extents of a file one after the other to a directory that holds other names
    (`before` sorts in front of it, `after` behind) leaves exactly `before ++ [extent 0 .. extent n-1] ++ after`, every
    extent but the last carrying the multi-extent flag and a continuation link.  For every `n` — the defect repaired
    in "fix: a file of three or more extents keeps its records in order" put extent 2 between extents 0 and 1.
  * `old_rule_three_extents`: the rule as it was (attach to the FIRST record of the file) gives the wrong order for
    three extents — the concrete witness.
-/
import Pycdlib.Model.Extents
namespace Pycdlib.Extents

theorem bisectLeft_split (before tl : List Rec) (i : Nat) (hb : ∀ x ∈ before, x.ident < i)
    (ht : ∀ x, tl.head? = some x → ¬ x.ident < i) : bisectLeft (before ++ tl) i = before.length := by
  unfold bisectLeft
  rw [List.takeWhile_append_of_pos (by simpa using hb)]
  cases tl with
  | nil => simp
  | cons x xs =>
    have := ht x rfl
    simp [List.takeWhile_cons, this]

theorem getElem?_mid (before run after : List Rec) (j : Nat) (hj : j < run.length) :
    (before ++ (run ++ after))[before.length + j]? = run[j]? := by
  rw [List.getElem?_append_right (by omega)]
  simp only [Nat.add_sub_cancel_left]
  rw [List.getElem?_append_left hj]

/-- walking the continuation links of a well-formed run ends at its last record -/
theorem lastOfFile_run (before run after : List Rec) (k : Nat) (hlen : run.length = k + 1)
    (hc : ∀ j (hj : j < run.length), (run[j]'hj).cont = decide (j < k)) :
    ∀ (d j fuel : Nat), j + d = k → d < fuel →
      lastOfFile (before ++ (run ++ after)) (before.length + j) fuel = before.length + k := by
  intro d
  induction d with
  | zero =>
    intro j fuel hjk hf
    have hj : j < run.length := by omega
    cases fuel with
    | zero => omega
    | succ f =>
      simp only [lastOfFile, getElem?_mid before run after j hj, List.getElem?_eq_getElem hj]
      have : (run[j]'hj).cont = false := by rw [hc j hj]; simp; omega
      simp [this]; omega
  | succ d ih =>
    intro j fuel hjk hf
    have hj : j < run.length := by omega
    cases fuel with
    | zero => omega
    | succ f =>
      simp only [lastOfFile, getElem?_mid before run after j hj, List.getElem?_eq_getElem hj]
      have : (run[j]'hj).cont = true := by rw [hc j hj]; simp; omega
      have hl : before.length + j + 1 < (before ++ (run ++ after)).length := by
        simp only [List.length_append]; omega
      simp only [this, hl, and_self, if_true]
      have := ih (j + 1) f (by omega) (by omega)
      rw [← this]
      congr 1

theorem fileRun_length (i n : Nat) : (fileRun i n).length = n := by simp [fileRun]

theorem fileRun_get (i n j : Nat) (hj : j < (fileRun i n).length) :
    (fileRun i n)[j]'hj = { ident := i, tag := j, multi := decide (j + 1 < n), cont := decide (j + 1 < n) } := by
  simp [fileRun]

/-- one more extent: the last record gets the flag and the link, the new one follows it -/
theorem fileRun_succ (i k : Nat) :
    fileRun i (k + 2) =
      (fileRun i (k + 1)).take k ++ [{ ident := i, tag := k, multi := true, cont := true }] ++
        [{ ident := i, tag := k + 1, multi := false, cont := false }] := by
  apply List.ext_getElem
  · simp [fileRun_length]
  · intro j h1 h2
    simp only [fileRun_length] at h1
    rw [fileRun_get]
    by_cases hjk : j < k
    · rw [List.getElem_append_left (by simp [fileRun_length]; omega)]
      rw [List.getElem_append_left (by simp [fileRun_length]; omega)]
      simp only [List.getElem_take, fileRun_get]
      have a : decide (j + 1 < k + 2) = true := by simp; omega
      have b : decide (j + 1 < k + 1) = true := by simp; omega
      rw [a, b]
    · by_cases hje : j = k
      · subst hje
        rw [List.getElem_append_left (by simp [fileRun_length])]
        rw [List.getElem_append_right (by simp [fileRun_length])]
        simp [fileRun_length]
      · have : j = k + 1 := by omega
        subst this
        rw [List.getElem_append_right (by simp [fileRun_length])]
        simp [fileRun_length]

theorem addChild_first (before after : List Rec) (r : Rec) (hb : ∀ x ∈ before, x.ident < r.ident)
    (ha : ∀ x ∈ after, r.ident < x.ident) : addChild (before ++ after) r = before ++ [r] ++ after := by
  unfold addChild
  have hidx : bisectLeft (before ++ after) r.ident = before.length :=
    bisectLeft_split before after r.ident hb (by
      intro x hx
      have : x ∈ after := List.mem_of_mem_head? hx
      have := ha x this
      omega)
  simp only [hidx]
  have hins : insertAt (before ++ after) before.length r = before ++ [r] ++ after := by
    simp [insertAt]
  cases hget : (before ++ after)[before.length]? with
  | none => simp [hins]
  | some x =>
    have hx : x ∈ after := by
      rw [List.getElem?_append_right (by omega)] at hget
      simp at hget
      exact List.mem_of_getElem? hget
    have : ¬ x.ident = r.ident := by have := ha x hx; omega
    simp [this, hins]

theorem addChild_next (before after : List Rec) (i k : Nat) (hb : ∀ x ∈ before, x.ident < i)
    (ha : ∀ x ∈ after, i < x.ident) :
    addChild (before ++ (fileRun i (k + 1) ++ after)) { ident := i, tag := k + 1, multi := false, cont := false } =
      before ++ (fileRun i (k + 2) ++ after) := by
  unfold addChild
  have hrl : (fileRun i (k + 1)).length = k + 1 := fileRun_length i (k + 1)
  have hidx : bisectLeft (before ++ (fileRun i (k + 1) ++ after)) i = before.length :=
    bisectLeft_split before _ i hb (by
      intro x hx
      have h0 : 0 < (fileRun i (k + 1)).length := by omega
      have hg := fileRun_get i (k + 1) 0 h0
      cases hfr : fileRun i (k + 1) with
      | nil => simp [hfr] at h0
      | cons y ys =>
        simp only [hfr, List.cons_append, List.head?_cons, Option.some.injEq] at hx
        simp only [hfr, List.getElem_cons_zero] at hg
        rw [← hx, hg]; simp)
  simp only [hidx]
  have h0 : 0 < (fileRun i (k + 1)).length := by omega
  have hget := getElem?_mid before (fileRun i (k + 1)) after 0 h0
  simp only [Nat.add_zero] at hget
  rw [hget, List.getElem?_eq_getElem h0, fileRun_get]
  simp only [if_true]
  have hlast := lastOfFile_run before (fileRun i (k + 1)) after k hrl
    (by intro j hj; rw [fileRun_get]; simp) k 0
    (before ++ (fileRun i (k + 1) ++ after)).length (by omega)
    (by simp only [List.length_append]; omega)
  simp only [Nat.add_zero] at hlast
  rw [hlast]
  -- the record at the end of the run is flagged, the new one follows
  have hk : k < (fileRun i (k + 1)).length := by omega
  have hgetk := getElem?_mid before (fileRun i (k + 1)) after k hk
  rw [List.getElem?_eq_getElem hk, fileRun_get] at hgetk
  unfold setAt insertAt
  rw [hgetk, fileRun_succ]
  have e1 : (before ++ (fileRun i (k + 1) ++ after)).take (before.length + k) = before ++ (fileRun i (k + 1)).take k := by
    rw [List.take_length_add_append, List.take_append_of_le_length (by omega)]
  have e2 : (before ++ (fileRun i (k + 1) ++ after)).drop (before.length + k + 1) = after := by
    rw [Nat.add_assoc, List.drop_length_add_append, List.drop_left' hrl]
  rw [e1, e2]
  simp only [decide_eq_true_eq, Nat.lt_irrefl, decide_false]
  have hP : (before ++ (fileRun i (k + 1)).take k ++ [({ ident := i, tag := k, multi := true, cont := true } : Rec)]).length
      = before.length + k + 1 := by
    simp only [List.length_append, List.length_take, hrl, List.length_cons, List.length_nil]; omega
  rw [List.take_left' hP, List.drop_left' hP]
  simp [List.append_assoc]

/-- **C01 — the extents of a file stay in order, however many there are** -/
theorem addFile_in_order (before after : List Rec) (i n : Nat) (hb : ∀ x ∈ before, x.ident < i)
    (ha : ∀ x ∈ after, i < x.ident) :
    addFile (before ++ after) i n = before ++ (fileRun i n ++ after) := by
  unfold addFile
  induction n with
  | zero => simp [fileRun]
  | succ n ih =>
    rw [List.range_succ, List.foldl_append, ih]
    simp only [List.foldl_cons, List.foldl_nil]
    cases n with
    | zero =>
      have := addChild_first before after { ident := i, tag := 0, multi := false, cont := false } hb ha
      simpa [fileRun] using this
    | succ k => exact addChild_next before after i k hb ha

/-- the rule before the repair: the record found by `bisect_left` — the FIRST of the file — is continued -/
def addChildOld (l : List Rec) (r : Rec) : List Rec :=
  let idx := bisectLeft l r.ident
  match l[idx]? with
  | some x =>
    if x.ident = r.ident then insertAt (setAt l idx fun y => { y with multi := true, cont := true }) (idx + 1) r
    else insertAt l idx r
  | none => insertAt l idx r

/-- **the witness of the repaired defect**: with the old rule three extents end up as 0, 2, 1 and extent 1 is not
flagged -/
theorem old_rule_three_extents :
    ((List.range 3).foldl (fun acc k => addChildOld acc ⟨5, k, false, false⟩) []).map (fun r => (r.tag, r.multi)) =
      [(0, true), (2, false), (1, false)] := by decide

/-- non-vacuity: four extents between two other names -/
example :
    addFile ([⟨1, 0, false, false⟩] ++ [⟨9, 0, false, false⟩]) 5 4 =
      [⟨1, 0, false, false⟩] ++ (fileRun 5 4 ++ [⟨9, 0, false, false⟩]) := by decide

end Pycdlib.Extents
