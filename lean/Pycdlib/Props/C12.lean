/-
Props/C12 — hybrid boot data.
  * `calc_cc_spec`: for every geometry and image size the padding is less than a cylinder and pads the image to a
    whole number of cylinders; the cylinder count is the padded size in cylinders, capped at 1024;
  * `calc_cc_tie`: `IsoHybrid._calc_cc`, regenerated from isohybrid.py on every run, is that function;
  * `crc32_tie` (Props/Tie): isohybrid.crc32 (table regenerated) is the bit-by-bit reflected CRC-32 for every byte string —
    the checksum of GPT headers and partition arrays;
  * `part_covers`: a partition (first, last) computed from an El Torito entry delimits exactly `count` 512-byte
    sectors starting at four times the entry's sector; `mbr_rba` is four times the boot file's sector.
-/
import Pycdlib.Model.Hybrid
import Pycdlib.Props.Tie
namespace Pycdlib.Hybrid

theorem calc_cc_spec (isoSize heads sectors : Nat) (hc : 0 < heads * sectors * 512) :
    let c := heads * sectors * 512
    (calcCc isoSize heads sectors).2 < c ∧
    (isoSize + (calcCc isoSize heads sectors).2) % c = 0 ∧
    (calcCc isoSize heads sectors).1 = min ((isoSize + (calcCc isoSize heads sectors).2) / c) 1024 := by
  simp only [calcCc]
  generalize heads * sectors * 512 = c at hc
  have hlt : isoSize % c < c := Nat.mod_lt _ hc
  have hdm := Nat.div_add_mod isoSize c
  by_cases hf : isoSize % c > 0
  · simp only [hf, if_true]
    refine ⟨by omega, ?_, trivial⟩
    have e : isoSize + (c - isoSize % c) = c * (isoSize / c) + c := by omega
    rw [e, Nat.add_mod, Nat.mul_mod_right, Nat.mod_self]; simp
  · have h0 : isoSize % c = 0 := by omega
    simp only [hf, if_false, Nat.add_zero]
    exact ⟨hc, h0, trivial⟩

/-- tie to the regenerated `_calc_cc` -/
theorem calc_cc_tie (isoSize heads sectors : Nat) (hc : 0 < heads * sectors * 512) :
    Generated.calc_cc isoSize heads sectors =
      ((((calcCc isoSize heads sectors).1 : Nat) : Int), (((calcCc isoSize heads sectors).2 : Nat) : Int)) := by
  unfold Generated.calc_cc PyOps.pyMod PyOps.pyFloorDiv calcCc
  simp only
  have hc' : ((heads : Int) * (sectors : Int)) * (512 : Int) = ((heads * sectors * 512 : Nat) : Int) := by
    rw [Int.natCast_mul, Int.natCast_mul]; rfl
  rw [hc']
  generalize heads * sectors * 512 = c at hc
  have hnn : (0 : Int) ≤ (c : Int) := Int.natCast_nonneg c
  rw [Int.fmod_eq_emod_of_nonneg _ hnn]
  have hmod : (isoSize : Int) % (c : Int) = ((isoSize % c : Nat) : Int) := (Int.natCast_emod isoSize c).symm
  rw [hmod]
  by_cases hf : isoSize % c > 0
  · have hf' : ((isoSize % c : Nat) : Int) > 0 := by omega
    simp only [hf', decide_true, if_true, hf]
    have hle : isoSize % c ≤ c := Nat.le_of_lt (Nat.mod_lt _ hc)
    have hsub : (c : Int) - ((isoSize % c : Nat) : Int) = ((c - isoSize % c : Nat) : Int) := by omega
    rw [hsub]
    have hadd : (isoSize : Int) + ((c - isoSize % c : Nat) : Int) = ((isoSize + (c - isoSize % c) : Nat) : Int) := by omega
    rw [hadd, Int.fdiv_eq_ediv_of_nonneg _ hnn]
    have hdiv : ((isoSize + (c - isoSize % c) : Nat) : Int) / (c : Int) = (((isoSize + (c - isoSize % c)) / c : Nat) : Int) :=
      (Int.natCast_ediv _ _).symm
    rw [hdiv]
    congr 1
    omega
  · have hf' : ¬ (((isoSize % c : Nat) : Int) > 0) := by omega
    simp only [hf', decide_false, hf, if_false, Bool.false_eq_true]
    have hadd : (isoSize : Int) + (0 : Int) = ((isoSize + 0 : Nat) : Int) := by omega
    rw [hadd, Int.fdiv_eq_ediv_of_nonneg _ hnn]
    have hdiv : ((isoSize + 0 : Nat) : Int) / (c : Int) = (((isoSize + 0) / c : Nat) : Int) := (Int.natCast_ediv _ _).symm
    rw [hdiv]
    congr 1
    omega

/-- a partition derived from an El Torito entry covers exactly its `count` sectors, at four times its sector -/
theorem part_covers (extent count : Nat) (h : 0 < count) :
    (partLbas extent count).1 = 4 * extent ∧ (partLbas extent count).2 - (partLbas extent count).1 + 1 = count := by
  unfold partLbas; omega

theorem mbr_rba (extent : Nat) : mbrRba extent = 4 * extent := by unfold mbrRba; omega

/-- the active partition's size is the cylinder-padded image minus the offset -/
theorem psize_eq (cc heads sectors offset : Nat) : (endFields cc heads sectors offset).2.2.2 = cc * heads * sectors - offset := rfl

/-- non-vacuity: 64 heads x 32 sectors, 1 000 000 bytes -/
example : calcCc 1000000 64 32 = (1, 48576) := by decide

end Pycdlib.Hybrid
