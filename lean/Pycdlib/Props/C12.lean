/-
Props/C12 — hybrid boot data.
  * `calc_cc_spec`: for every geometry and image size the padding pads the image to a whole number of cylinders; it is
    less than a cylinder without EFI, and with EFI it is the smallest such padding that holds the backup GPT
    (`backup_gpt_in_padding`: the backup GPT never overlaps the ISO); the cylinder count is the padded size in
    cylinders, capped at 1024;
  * `calc_cc_tie`: `IsoHybrid._calc_cc`, regenerated from isohybrid.py on every run, is that function;
  * `crc32_tie` (Props/Tie): isohybrid.crc32 (table regenerated) is the bit-by-bit reflected CRC-32 for every byte string —
    the checksum of GPT headers and partition arrays;
  * `part_covers`: a partition (first, last) computed from an El Torito entry delimits exactly `count` 512-byte
    sectors starting at four times the entry's sector; `mbr_rba` is four times the boot file's sector.
-/
import Pycdlib.Model.Hybrid
import Pycdlib.Props.Tie
namespace Pycdlib.Hybrid

theorem calc_cc_spec (isoSize heads sectors : Nat) (efi : Bool) (hc : 0 < heads * sectors * 512) :
    let c := heads * sectors * 512
    let r := calcCc isoSize heads sectors efi
    (isoSize + r.2) % c = 0 ∧
    r.1 = min ((isoSize + r.2) / c) 1024 ∧
    (efi = false → r.2 < c) ∧
    (efi = true → gptBackup ≤ r.2 ∧ r.2 < gptBackup + c) := by
  simp only [calcCc]
  generalize heads * sectors * 512 = c at hc
  have hlt : isoSize % c < c := Nat.mod_lt _ hc
  have hdm := Nat.div_add_mod isoSize c
  -- the plain padding
  generalize hp : (if isoSize % c > 0 then c - isoSize % c else 0) = p
  have hp0 : (isoSize + p) % c = 0 ∧ p < c := by
    subst hp
    by_cases hf : isoSize % c > 0
    · simp only [hf, if_true]
      refine ⟨?_, by omega⟩
      have e : isoSize + (c - isoSize % c) = c * (isoSize / c) + c := by omega
      rw [e, Nat.add_mod, Nat.mul_mod_right, Nat.mod_self]; simp
    · have h0 : isoSize % c = 0 := by omega
      simp only [hf, if_false, Nat.add_zero]
      exact ⟨h0, hc⟩
  cases efi with
  | false =>
    simp only [Bool.false_and, Bool.false_eq_true, if_false]
    refine ⟨hp0.1, trivial, ?_, ?_⟩
    · intro _; exact hp0.2
    · intro h; simp at h
  | true =>
    simp only [Bool.true_and, decide_eq_true_eq]
    by_cases hs : p < gptBackup
    · simp only [hs, if_true]
      generalize hk : (gptBackup - p + c - 1) / c = k
      have hk1 : k * c ≥ gptBackup - p := by
        have := Nat.div_add_mod (gptBackup - p + c - 1) c
        have hm : (gptBackup - p + c - 1) % c < c := Nat.mod_lt _ hc
        rw [hk] at this
        have : c * k = k * c := Nat.mul_comm _ _
        omega
      have hk2 : k * c < gptBackup - p + c := by
        have := Nat.div_add_mod (gptBackup - p + c - 1) c
        rw [hk] at this
        have : c * k = k * c := Nat.mul_comm _ _
        omega
      refine ⟨?_, trivial, fun h => by simp at h, fun _ => ⟨by omega, by omega⟩⟩
      rw [← Nat.add_assoc, Nat.add_mul_mod_self_right]
      exact hp0.1
    · simp only [hs, if_false]
      exact ⟨hp0.1, trivial, fun h => by simp at h, fun _ => ⟨by omega, by omega⟩⟩

/-- **the backup GPT never overlaps the ISO**: with EFI the 33 sectors before the end of the padded image start at
or after the end of the ISO data -/
theorem backup_gpt_in_padding (isoSize heads sectors : Nat) (hc : 0 < heads * sectors * 512) :
    isoSize ≤ isoSize + (calcCc isoSize heads sectors true).2 - gptBackup := by
  have := (calc_cc_spec isoSize heads sectors true hc).2.2.2 rfl
  omega

set_option maxRecDepth 8000 in
/-- tie to the regenerated `_calc_cc` -/
theorem calc_cc_tie (isoSize heads sectors : Nat) (efi : Bool) (hc : 0 < heads * sectors * 512) :
    Generated.calc_cc isoSize heads sectors (if efi then 1 else 0) =
      ((((calcCc isoSize heads sectors efi).1 : Nat) : Int), (((calcCc isoSize heads sectors efi).2 : Nat) : Int)) := by
  unfold Generated.calc_cc PyOps.pyMod PyOps.pyFloorDiv calcCc
  simp only
  have hg : gptBackup = 33 * 512 := rfl
  rw [hg]
  have hc' : ((heads : Int) * (sectors : Int)) * (512 : Int) = ((heads * sectors * 512 : Nat) : Int) := by
    rw [Int.natCast_mul, Int.natCast_mul]; rfl
  rw [hc']
  generalize heads * sectors * 512 = c at hc
  have hnn : (0 : Int) ≤ (c : Int) := Int.natCast_nonneg c
  rw [Int.fmod_eq_emod_of_nonneg _ hnn]
  have hmod : (isoSize : Int) % (c : Int) = ((isoSize % c : Nat) : Int) := (Int.natCast_emod isoSize c).symm
  rw [hmod]
  have hlt : isoSize % c < c := Nat.mod_lt _ hc
  -- first stage: the plain padding, as a natural number on both sides
  have h1 : (if decide (((isoSize % c : Nat) : Int) > 0) = true then (c : Int) - ((isoSize % c : Nat) : Int) else (0 : Int)) =
      (((if isoSize % c > 0 then c - isoSize % c else 0 : Nat)) : Int) := by
    by_cases hf : isoSize % c > 0
    · have hf' : ((isoSize % c : Nat) : Int) > 0 := by omega
      simp only [hf', decide_true, if_true, hf]; omega
    · have hf' : ¬ (((isoSize % c : Nat) : Int) > 0) := by omega
      simp only [hf', decide_false, hf, if_false, Bool.false_eq_true]; rfl
  rw [h1]
  generalize (if isoSize % c > 0 then c - isoSize % c else 0) = p
  -- second stage
  have h2 : (if (decide ((if efi then (1 : Int) else 0) ≠ 0) && decide ((p : Int) < (33 : Int) * (512 : Int))) = true
      then (p : Int) + Int.fdiv ((33 : Int) * 512 - (p : Int) + (c : Int) - 1) (c : Int) * (c : Int) else (p : Int)) =
      (((if (efi && decide (p < 33 * 512)) = true then p + (33 * 512 - p + c - 1) / c * c else p : Nat)) : Int) := by
    cases efi with
    | false => simp
    | true =>
      by_cases hs : p < 33 * 512
      · have hs' : (p : Int) < (33 : Int) * 512 := by omega
        simp only [if_true, ne_eq, Int.reduceEq, not_false_eq_true, decide_true, Bool.true_and, hs', hs]
        have hnum : (33 : Int) * 512 - (p : Int) + (c : Int) - 1 = ((33 * 512 - p + c - 1 : Nat) : Int) := by omega
        rw [hnum, Int.fdiv_eq_ediv_of_nonneg _ hnn, ← Int.natCast_ediv]
        push_cast; rfl
      · have hs' : ¬ ((p : Int) < (33 : Int) * 512) := by omega
        simp only [hs, decide_false, Bool.and_false, Bool.false_eq_true, if_false]
        have hlt' : ¬ ((p : Int) < 16896) := by omega
        simp only [Int.reduceMul, hlt', decide_false, Bool.and_false, Bool.false_eq_true, if_false]
  rw [h2]
  generalize (if (efi && decide (p < 33 * 512)) = true then p + (33 * 512 - p + c - 1) / c * c else p) = q
  have hadd : (isoSize : Int) + (q : Int) = ((isoSize + q : Nat) : Int) := by omega
  rw [hadd, Int.fdiv_eq_ediv_of_nonneg _ hnn, ← Int.natCast_ediv]
  congr 1
  omega

/-- a partition derived from an El Torito entry covers exactly its `count` sectors, at four times its sector -/
theorem part_covers (extent count : Nat) (h : 0 < count) :
    (partLbas extent count).1 = 4 * extent ∧ (partLbas extent count).2 - (partLbas extent count).1 + 1 = count := by
  unfold partLbas; omega

theorem mbr_rba (extent : Nat) : mbrRba extent = 4 * extent := by unfold mbrRba; omega

/-- the active partition's size is the cylinder-padded image minus the offset -/
theorem psize_eq (cc heads sectors offset : Nat) : (endFields cc heads sectors offset).2.2.2 = cc * heads * sectors - offset := rfl

/-- non-vacuity: 64 heads x 32 sectors, 1 000 000 bytes -/
example : calcCc 1000000 64 32 false = (1, 48576) := by decide
example : calcCc 1048000 64 32 true = (2, 1049152) := by decide

end Pycdlib.Hybrid

namespace Pycdlib.Hybrid

/-- **C12 (MBR geometry)**: the ending CHS fields of the active partition decode, by the MBR rules (cylinder = two high
bits of the sector byte and the cylinder byte, sector = low six bits), to the last cylinder of the padded image and the
last sector of a track, for every geometry and every cylinder count the clamp lets through. -/
theorem end_chs_decodes (cc heads sectors offset : Nat) (hcc : 1 ≤ cc ∧ cc ≤ 1024) (hs : 1 ≤ sectors ∧ sectors ≤ 63)
    (hh : 1 ≤ heads ∧ heads ≤ 256) :
    let f := endFields cc heads sectors offset
    f.2.1 < 256 ∧ f.2.2.1 < 256 ∧ f.1 < 256 ∧
    f.2.1 % 64 = sectors ∧ f.2.1 / 64 * 256 + f.2.2.1 = cc - 1 ∧ f.1 = heads - 1 := by
  dsimp only [endFields]
  have hb : (sectors + (cc - 1) % 1024 / 256 * 64) % 64 = sectors := by omega
  have hd : (sectors + (cc - 1) % 1024 / 256 * 64) / 64 = (cc - 1) / 256 := by omega
  refine ⟨by omega, by omega, by omega, hb, ?_, rfl⟩
  rw [hd]; omega

/-- the starting CHS fields decode to the partition offset (in sectors) for every offset below 1024 cylinders -/
theorem start_chs_decodes (offset heads sectors : Nat) (hs : 1 ≤ sectors ∧ sectors ≤ 63) (hh : 1 ≤ heads ∧ heads ≤ 256)
    (ho : offset < 1024 * (heads * sectors)) :
    let f := startChs offset heads sectors
    f.2.1 % 64 - 1 + sectors * (f.1 + heads * (f.2.1 / 64 * 256 + f.2.2)) = offset ∧ 1 ≤ f.2.1 % 64 ∧ f.1 < heads := by
  simp only [startChs]
  have hpos : 0 < sectors := by omega
  have hposh : 0 < heads := by omega
  have h1 := Nat.div_add_mod offset sectors
  have h2 := Nat.div_add_mod (offset / sectors) heads
  have h3 : offset / (heads * sectors) = offset / sectors / heads := by
    rw [Nat.mul_comm, Nat.div_div_eq_div_mul]
  have hm : offset % sectors < sectors := Nat.mod_lt _ hpos
  have hc : offset / (heads * sectors) < 1024 := by
    apply Nat.div_lt_of_lt_mul; rw [Nat.mul_comm]; exact ho
  rw [h3] at hc ⊢
  generalize offset / sectors / heads = cyl at *
  generalize hq : offset / sectors = q at *
  have hmh : q % heads < heads := Nat.mod_lt _ hposh
  have hb : (offset % sectors + 1 + cyl % 1024 / 256 * 64) % 64 = offset % sectors + 1 := by omega
  have hd : (offset % sectors + 1 + cyl % 1024 / 256 * 64) / 64 = cyl / 256 := by omega
  rw [hb, hd]
  refine ⟨?_, by omega, hmh⟩
  have : cyl / 256 * 256 + cyl % 256 = cyl := by omega
  rw [this]
  have e0 : q % heads + heads * cyl = q := by
    rw [Nat.add_comm]; exact h2
  rw [e0]
  omega

/-- **GPT geometry**, for every image size and disk geometry: the backup header is the last 512-byte sector of the
padded image; the backup partition array (32 sectors) lies directly in front of it, behind the last usable LBA, and
starts at or after the end of the ISO data; the partition that covers the ISO ends at or before the last usable LBA;
the primary partition array ends where the usable area begins. -/
theorem gpt_geometry (isoSize heads sectors extent count : Nat) (mac : Bool)
    (hc : 0 < heads * sectors * 512) (hiso : isoSize % 512 = 0) (hpos : 512 ≤ isoSize) :
    let g := gptGeo isoSize heads sectors extent count mac
    let total := isoSize + (calcCc isoSize heads sectors true).2
    total % 512 = 0 ∧ (g.backupLba + 1) * 512 = total ∧ g.backupEntries + 32 = g.backupLba ∧
    g.lastUsable < g.backupEntries ∧ isoSize ≤ g.backupEntries * 512 ∧ g.isoLast ≤ g.lastUsable ∧
    g.primaryEntries + 32 = g.firstUsable ∧ g.primaryLba = 1 := by
  have hs := calc_cc_spec isoSize heads sectors true hc
  simp only at hs
  obtain ⟨hmod, hmin, hne, hefi⟩ := hs
  have hpad := (hefi trivial).1
  simp only [gptGeo]
  generalize (calcCc isoSize heads sectors true).2 = pad at *
  obtain ⟨q, hq⟩ := Nat.dvd_of_mod_eq_zero hmod
  have htot : isoSize + pad = 512 * (heads * sectors * q) := by
    rw [hq]; simp only [Nat.mul_comm, Nat.mul_assoc, Nat.mul_left_comm]
  generalize heads * sectors * q = m at htot
  unfold gptBackup at hpad
  clear hq hmod hmin hne hefi hc
  have h1 : (isoSize + pad) / 512 = m := by omega
  have h2 : (isoSize + pad - 512) / 512 = m - 1 := by omega
  have h3 : isoSize / 512 + 33 ≤ m := by omega
  rw [h1, h2]
  cases mac <;> simp only [if_true, if_false, Bool.false_eq_true] <;>
    refine ⟨by omega, by omega, by omega, by omega, by omega, by omega, by simp, trivial⟩

/-- non-vacuity: a 1 MiB image with the default geometry (64 heads, 32 sectors) -/
example : gptGeo 1048576 64 32 30 8 false =
    { primaryLba := 1, backupLba := 4095, firstUsable := 34, lastUsable := 4062, primaryEntries := 2, backupEntries := 4063,
      isoFirst := 0, isoLast := 2047, efiFirst := 120, efiLast := 127 } := by decide +kernel

end Pycdlib.Hybrid
