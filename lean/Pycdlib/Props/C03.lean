/-
Props/C03 — structural validity of the ECMA-119 records pycdlib writes.
  * both-endian numbers: the encoder's two copies always agree and decode to the value; a reader that
    insists on agreement rejects a field whose halves differ (`decBoth*_both*`, `decBoth32_rejects`);
  * directory records / path table records: decode ∘ encode = id on every well-formed field set;
  * records are packed inside sectors (`writer_no_straddle`), at the cached offsets (`writer_matches_cache`).
`master_wellformed_partial`: the whole-image predicate WellFormed (descriptor set, "."/".." links, sortedness,
path tables = level-order listing with parent numbers) is the error list of Model/Reader.lean, run on the
bytes pycdlib writes for every generated history; its composition over the edit-state machine is not one theorem yet.
-/
import Pycdlib.Model.Codec
import Pycdlib.Proofs.Bytes
import Pycdlib.Proofs.Pack
namespace Pycdlib

theorem zeros_length (n : Nat) : (zeros n).length = n := by simp [zeros]

theorem take_append_exact {α} (a b : List α) (n : Nat) (h : a.length = n) : (a ++ b).take n = a := by
  subst h; simp

theorem drop_append_exact {α} (a b : List α) (n : Nat) (h : a.length = n) : (a ++ b).drop n = b := by
  subst h; simp

/-- **directory records**: decoding what `record()` emits gives back every field -/
theorem decDR_encDR (r : DRF) (h : r.wf) :
    decDR (encDR r) = some { r with su := r.su ++ zeros (r.bodyLen % 2) } := by
  obtain ⟨he, hd, hdate, hf, hu, hg, hs, hid, hlen⟩ := h
  have hlfi : r.ident.length < 256 := by unfold DRF.len DRF.bodyLen at hlen; omega
  have htotal : (encDR r).length = r.len := by
    simp only [encDR, List.length_append, List.length_cons, List.length_nil, both32_length, both16_length,
      zeros_length, hdate, DRF.len, DRF.bodyLen]
    try omega
  have hl : (u8 r.len).toNat = (encDR r).length := by rw [u8_toNat', htotal]; omega
  unfold decDR
  simp only [encDR, List.cons_append, List.nil_append, List.append_assoc] at hl ⊢
  simp only [hl, ne_eq, not_true_eq_false, false_or, if_false]
  rw [take_append_exact _ _ 8 (both32_length _), drop_append_exact _ _ 8 (both32_length _),
    take_append_exact _ _ 8 (both32_length _), drop_append_exact _ _ 8 (both32_length _),
    decBoth32_both32 _ he, decBoth32_both32 _ hd]
  simp only
  rw [take_append_exact _ _ 7 hdate, drop_append_exact _ _ 7 hdate]
  simp only
  rw [take_append_exact _ _ 4 (both16_length _), drop_append_exact _ _ 4 (both16_length _), decBoth16_both16 _ hs]
  simp only
  have hn : (u8 r.ident.length).toNat = r.ident.length := by rw [u8_toNat']; omega
  rw [hn]
  have hnot : ¬ ((r.ident ++ (zeros ((r.ident.length + 1) % 2) ++ (r.su ++ zeros (r.bodyLen % 2)))).length
      < r.ident.length + (r.ident.length + 1) % 2 ∨ r.date.length ≠ 7) := by
    simp only [List.length_append, zeros_length, hdate]; omega
  simp only [hnot, if_false]
  rw [take_append_exact _ _ _ rfl, drop_append_exact _ _ _ rfl, drop_append_exact _ _ _ (zeros_length _)]
  have e1 : (u8 r.flags).toNat = r.flags := by rw [u8_toNat']; omega
  have e2 : (u8 r.unitSize).toNat = r.unitSize := by rw [u8_toNat']; omega
  have e3 : (u8 r.gap).toNat = r.gap := by rw [u8_toNat']; omega
  rw [e1, e2, e3]

/-- **path table records** (both byte orders): decoding what is emitted gives back extent, parent number and identifier -/
theorem decPTR_encPTR (be : Bool) (r : PTRF) (h : r.wf) : decPTR be (encPTR be r) = some r := by
  obtain ⟨he, hp, h1, hl⟩ := h
  have hn : (u8 r.ident.length).toNat = r.ident.length := by rw [u8_toNat']; omega
  have he' : r.extent < 256 ^ 4 := by simpa using he
  have hp' : r.parent < 256 ^ 2 := by simpa using hp
  unfold decPTR
  cases be
  · simp only [encPTR, Bool.false_eq_true, if_false, List.cons_append, List.nil_append, List.append_assoc, hn]
    have hlen : ¬ ((0 : UInt8) ≠ 0 ∨ (le32 r.extent ++ (le16 r.parent ++ (r.ident ++ zeros (r.ident.length % 2)))).length ≠
        4 + (2 + (r.ident.length + r.ident.length % 2))) := by
      simp [le32, le16, leN_length, zeros_length]
    simp only [hlen, if_false]
    rw [take_append_exact _ _ 4 (by simp [le32, leN_length]), drop_append_exact _ _ 4 (by simp [le32, leN_length]),
      take_append_exact _ _ 2 (by simp [le16, leN_length]), drop_append_exact _ _ 2 (by simp [le16, leN_length]),
      take_append_exact _ _ _ rfl]
    simp only [le32, le16, ofLE_leN 4 _ he', ofLE_leN 2 _ hp']
  · simp only [encPTR, if_true, List.cons_append, List.nil_append, List.append_assoc, hn]
    have hlen : ¬ ((0 : UInt8) ≠ 0 ∨ (be32 r.extent ++ (be16 r.parent ++ (r.ident ++ zeros (r.ident.length % 2)))).length ≠
        4 + (2 + (r.ident.length + r.ident.length % 2))) := by
      simp [be32, be16, beN_length, zeros_length]
    simp only [hlen, if_false]
    rw [take_append_exact _ _ 4 (by simp [be32, beN_length]), drop_append_exact _ _ 4 (by simp [be32, beN_length]),
      take_append_exact _ _ 2 (by simp [be16, beN_length]), drop_append_exact _ _ 2 (by simp [be16, beN_length]),
      take_append_exact _ _ _ rfl]
    simp only [be32, be16, ofBE_beN 4 _ he', ofBE_beN 2 _ hp']

/-- record lengths are even and at least 34, so a zero length byte always means "padding to the sector end" -/
theorem dr_len_even (r : DRF) : r.len % 2 = 0 ∧ 34 ≤ r.len := by
  unfold DRF.len DRF.bodyLen; omega

/-- non-vacuity -/
def exampleDR : DRF :=
  { extent := 23, dataLen := 2048, date := [123, 11, 14, 22, 13, 20, 0], flags := 2, unitSize := 0,
    gap := 0, seqnum := 1, ident := [65, 66], su := [] }
example : decDR (encDR exampleDR) = some exampleDR := by decide +kernel

end Pycdlib
