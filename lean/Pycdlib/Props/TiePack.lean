/-
Props/TiePack — `DirectoryRecord._recalculate_extents_and_offsets` as translated from dr.py on every run
(Generated/Pack) is the next-fit model the packing theorems of Props/C04 and Props/C03 are about: the returned
(number of extents, offset in the last one) is `nfFold`, and what is stored in each child (`extents_to_here`,
`offset_to_here`) is `nfScan`.  A changed comparison, increment or initial state in dr.py breaks this lemma.
-/
import Pycdlib.Generated.Pack
import Pycdlib.Model.Pack
namespace Pycdlib
open Pycdlib.PyOps

def castNF (p : NF) : Int × Int := ((p.1 : Int), (p.2 : Int))

/-- the body of the loop, written out once more: `dr_recalc_tie` below only goes through if the regenerated
`Generated.dr_recalc` is this fold, definitionally -/
def recalcStep (bs : Int) (st__ : (Int × Int) × List (Int × Int)) (c_dr_len : Int) : (Int × Int) × List (Int × Int) :=
  let ((num_extents, dirrecord_offset), out__) := st__
  let dirrecord_len := c_dr_len
  let (dirrecord_offset, num_extents) :=
    if (decide ((dirrecord_offset + dirrecord_len) > bs)) then
      let num_extents := (num_extents + (1 : Int))
      let dirrecord_offset := (0 : Int)
      (dirrecord_offset, num_extents)
    else
      (dirrecord_offset, num_extents)
  let dirrecord_offset := (dirrecord_offset + dirrecord_len)
  ((num_extents, dirrecord_offset), out__ ++ [(num_extents, dirrecord_offset)])

theorem recalcStep_eq (bs : Nat) (st : NF) (l : Nat) (out : List (Int × Int)) :
    recalcStep bs (castNF st, out) l = (castNF (nfStep bs st l), out ++ [castNF (nfStep bs st l)]) := by
  obtain ⟨e, o⟩ := st
  simp only [recalcStep, castNF, nfStep]
  by_cases h : o + l > bs
  · have : ((o : Int) + (l : Int) > (bs : Int)) := by omega
    simp [h, this]
  · have : ¬ ((o : Int) + (l : Int) > (bs : Int)) := by omega
    simp [h, this]

theorem recalc_fold (bs : Nat) (ls : List Nat) : ∀ (st : NF) (out : List (Int × Int)),
    (ls.map (fun n : Nat => (n : Int))).foldl (recalcStep bs) (castNF st, out)
      = (castNF (nfFold bs st ls), out ++ (nfScan bs st ls).map castNF) := by
  induction ls with
  | nil => intro st out; simp [nfFold, nfScan]
  | cons l ls ih =>
    intro st out
    rw [List.map_cons, List.foldl_cons, recalcStep_eq, ih]
    simp [nfFold, nfScan, List.append_assoc]

/-- **tie**: the translated method equals the model (result and per-child cache) -/
theorem dr_recalc_tie (bs : Nat) (st : NF) (ls : List Nat) :
    Generated.dr_recalc st.1 st.2 (ls.map fun n : Nat => (n : Int)) bs =
      (castNF (nfFold bs st ls), (nfScan bs st ls).map castNF) := by
  show (ls.map (fun n : Nat => (n : Int))).foldl (recalcStep bs) (castNF st, []) = _
  rw [recalc_fold]
  simp

/-- a recalculation from scratch starts with one extent and offset 0, as `nextFit` does -/
theorem dr_recalc_init_tie : Generated.dr_recalc_init = castNF (1, 0) := rfl

end Pycdlib
