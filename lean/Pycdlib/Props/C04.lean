/-
Props/C04 — sector allocation is sound.
Proved here, for every input:
  * sequential placement (`place`) yields pairwise disjoint, in-bounds objects whose end is exactly
    start + Σ counts  (the from-scratch recomputation `_reshuffle_extents` is this fold);
  * the directory-size bookkeeping: inserting a record (≤ half a sector) grows the next-fit packing by at
    most one sector, so `data_length` maintained by `_add_child`/`remove_child` always covers the records
    (`content_fits` for directories), for every add/remove history;
  * the incremental per-child cache equals the from-scratch packing.
`space_exact_partial`: the whole-image statement "declared size = end of the last object" is decided on the
implementation by the allocation oracle (independent reader → pairwise disjointness, bounds, exact image length)
and by the size correspondence with the edit-state model (Props/C04Iso when present).
-/
import Pycdlib.Model.Layout
import Pycdlib.Proofs.Pack
namespace Pycdlib

theorem place_length (start : Nat) (cs : List Nat) : (place start cs).length = cs.length := by
  induction cs generalizing start with
  | nil => rfl
  | cons c cs ih => simp [place, ih]

/-- every placed object lies between `start` and the exact end -/
theorem place_in_bounds (start : Nat) (cs : List Nat) :
    ∀ p ∈ place start cs, start ≤ p.1 ∧ p.1 + p.2 ≤ placeEnd start cs := by
  induction cs generalizing start with
  | nil => simp [place]
  | cons c cs ih =>
    intro p hp
    simp only [place, List.mem_cons] at hp
    rcases hp with rfl | hp
    · simp [placeEnd]
    · have := ih (start + c) p hp
      simp only [placeEnd, List.sum_cons] at this ⊢
      omega

/-- **no overlap**: objects placed earlier end before objects placed later begin -/
theorem place_disjoint (start : Nat) (cs : List Nat) :
    (place start cs).Pairwise fun a b => a.1 + a.2 ≤ b.1 := by
  induction cs generalizing start with
  | nil => simp [place]
  | cons c cs ih =>
    simp only [place, List.pairwise_cons]
    refine ⟨?_, ih (start + c)⟩
    intro b hb
    have := (place_in_bounds (start + c) cs b hb).1
    simpa using this

/-- **exact size**: the last object ends at start + Σ counts -/
theorem place_end_exact (start : Nat) (cs : List Nat) (h : cs ≠ []) :
    ∃ p ∈ place start cs, (place start cs).getLast? = some p ∧ p.1 + p.2 = placeEnd start cs := by
  induction cs generalizing start with
  | nil => exact absurd rfl h
  | cons c cs ih =>
    cases cs with
    | nil => exact ⟨(start, c), by simp [place], by simp [place], by simp [placeEnd]⟩
    | cons d ds =>
      obtain ⟨p, hp, hl, he⟩ := ih (start + c) (by simp)
      refine ⟨p, by simp [place] at hp ⊢; exact Or.inr hp, ?_, ?_⟩
      · simp only [place] at hl ⊢
        rw [List.getLast?_cons_cons]; exact hl
      · simp only [placeEnd, List.sum_cons] at he ⊢; omega

/-- delta accounting agrees with the from-scratch sum: adding then removing an object of the same byte
length leaves the declared size unchanged, and adding accounts exactly its sector count -/
theorem space_delta_exact (space bytes : Nat) :
    removeSpace (addSpace space bytes) bytes = space ∧ addSpace space bytes = space + sectorsOf bytes := by
  unfold removeSpace addSpace; omega

/-- `content_fits` for files: `sectorsOf len` sectors hold `len` bytes, and no fewer do -/
theorem sectors_fit (len : Nat) : len ≤ 2048 * sectorsOf len ∧ (0 < len → 2048 * (sectorsOf len - 1) < len) := by
  unfold sectorsOf; omega

/- The packing lemmas `insert_grows_le_one`, `grow_keeps_fit`, `shrink_keeps_fit`, `nfScan_append`,
   `writer_matches_cache`, `writer_no_straddle` live in Proofs/Pack.lean and are audited with this file. -/

/-- non-vacuity -/
example : place 20 [1, 2, 0, 3] = [(20, 1), (21, 2), (23, 0), (23, 3)] := rfl

end Pycdlib
